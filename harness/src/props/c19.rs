//! C19 — work and memory are bounded by the input actually supplied (PARTIAL: the Lean theorems
//! bound the allocation / buffer sizes of the modelled code; the real allocator and the CPU time are
//! *measured* here with a counting global allocator (`src/alloc.rs`) and a wall clock).
//!
//! Correspondence ops (model: RpgpModel/Resource.lean, driver: RpgpModel/Ops/C19.lean)
//!   exact quantities (`case` = model answer must equal the observation):
//!     take_bytes size=<n> chunks=<len,len,..>      capacity sequence of `take_bytes` (alloc/realloc sizes)
//!     mpi bits=<n> present=<n>                     `Mpi::try_from_reader` admission + stored length
//!     subpackets lens=<l,l,..> forms=<f,..> cut=<n> number of subpackets and capacity of the vector
//!     argon2_admit t= p= m=                        `StringToKey::Argon2::derive_key` admission
//!     checkfirst_cap bs= max= n=                   SEIPDv1 CheckFirst accepts iff data <= max_message_size
//!     armor_limit limit= chunk= n=                 bytes `read_from_buf` accumulates before "input too large"
//!     nest ver= d=                                 the nested-embedded-signature witness (size + digest)
//!   predicted bounds (the request carries the measurement, the model answers `ok:1` iff the
//!   measurement lies inside the band it predicts for that case; the harness always answers `ok:1`):
//!     within_take_bytes, within_nest, within_stream, within_rest
//!
//! Oracles (property text, independent of the model; constants fixed in advance).  "time" is the CPU
//! time of the measuring thread (user+system, CLOCK_THREAD_CPUTIME_ID) so that it does not depend on how
//! busy the shared machine is; the wall-clock reading is printed next to it (`wall_us`):
//!   peak_linear    peak heap <= A*|input| + B          (A = 8, B = 4 MiB), plus P = 1 KiB per packet
//!                  actually present (in-memory representation of a parsed packet) and L = 24 KiB per
//!                  container level the *caller* opened with `Message::decompress`
//!   time_linear    time <= C*|input| + D               (C = max(40 x calibrated ns/byte, 500 ns/byte), D = 100 ms;
//!                  a run over the bound is repeated up to 4 times and the fastest is judged)
//!   time_scaling   on a size series (each point = fastest of up to 3 runs): t(n1) <= 3 * (n1/n0) * t(n0)
//!                  once t(n1) >= 20 ms
//!   stream_bounded peak heap while streaming a message of any size <= the component's fixed bound
//!   checkfirst_capped  default-mode SEIPDv1 buffers at most its configured limit
//!   s2k_refused    Argon2 parameter sets above the documented ceiling are refused
//!   no_crash       the entry point returns (no stack exhaustion / abort) — observed in a child process

use std::io::{BufRead, BufReader, Read, Write};
use std::time::{Duration, Instant};

use pgp::armor::{Dearmor, DearmorOptions};
use pgp::composed::{
    DecryptionOptions, Deserializable, DetachedSignature, Message, MessageBuilder, PlainSessionKey, SignedPublicKey,
    SignedSecretKey, TheRing,
};
use pgp::crypto::aead::{AeadAlgorithm, ChunkSize};
use pgp::crypto::hash::HashAlgorithm;
use pgp::crypto::sym::SymmetricKeyAlgorithm;
use pgp::packet::{PacketParser, Signature, StreamDecryptor};
use pgp::ser::Serialize;
use pgp::types::{
    CompressionAlgorithm, KeyVersion, Mpi, PacketHeaderVersion, PacketLength, Password, Seipdv1ReadMode, StringToKey, Tag,
};
use rand::{Rng, SeedableRng};
use rand_chacha::ChaCha8Rng;

use crate::alloc::{measure, Stats};
use crate::ctx::{guarded, hx, Ctx};
use crate::frame::{cksum, pattern};
use crate::keys;

// the oracle constants, fixed in advance (DESIGN.md section 7, C19)
const A: usize = 8;
const B: usize = 4 * 1024 * 1024;
const D: Duration = Duration::from_millis(100);
/// fixed in-memory representation cost granted per packet actually present in the input (a parsed
/// `Signature` / one-pass signature with its hasher is a few hundred bytes however short its body)
const P: usize = 1024;
/// fixed cost granted per container level the *caller* opened (`Message::decompress` allocates the
/// 8 KiB buffers of one `PacketBodyReader` + one `CompressedDataReader` + decompressor state)
const L: usize = 3 * 8192;

// ---------------------------------------------------------------------------------------------
// helpers
// ---------------------------------------------------------------------------------------------

/// a `BufRead` whose successive `fill_buf` results are the given chunks (never allocates)
pub struct ChunkBuf<'a> {
    chunks: &'a [Vec<u8>],
    i: usize,
    off: usize,
    pub consumed: usize,
}

impl<'a> ChunkBuf<'a> {
    pub fn new(chunks: &'a [Vec<u8>]) -> Self {
        Self { chunks, i: 0, off: 0, consumed: 0 }
    }
    fn skip_empty(&mut self) {
        while self.i < self.chunks.len() && self.off >= self.chunks[self.i].len() {
            self.i += 1;
            self.off = 0;
        }
    }
}

impl Read for ChunkBuf<'_> {
    fn read(&mut self, buf: &mut [u8]) -> std::io::Result<usize> {
        let n = {
            let b = self.fill_buf()?;
            let n = b.len().min(buf.len());
            buf[..n].copy_from_slice(&b[..n]);
            n
        };
        self.consume(n);
        Ok(n)
    }
}

impl BufRead for ChunkBuf<'_> {
    fn fill_buf(&mut self) -> std::io::Result<&[u8]> {
        self.skip_empty();
        if self.i >= self.chunks.len() {
            return Ok(&[]);
        }
        Ok(&self.chunks[self.i][self.off..])
    }
    fn consume(&mut self, amt: usize) {
        self.off += amt;
        self.consumed += amt;
    }
}

/// a reader that produces `n` bytes of `pattern` without holding them (so that the message under
/// test is not resident in the harness while rpgp is measured)
#[derive(Debug)]
struct PatternReader {
    pos: usize,
    n: usize,
    seed: usize,
}

impl Read for PatternReader {
    fn read(&mut self, buf: &mut [u8]) -> std::io::Result<usize> {
        let k = buf.len().min(self.n - self.pos);
        for (j, b) in buf[..k].iter_mut().enumerate() {
            let i = self.pos + j;
            *b = ((i * 7 + self.seed * 13 + i / 251) % 256) as u8;
        }
        self.pos += k;
        Ok(k)
    }
}

fn be16(n: usize) -> [u8; 2] {
    (n as u16).to_be_bytes()
}
fn be32(n: usize) -> [u8; 4] {
    (n as u32).to_be_bytes()
}

fn new_packet(tag: u8, body: &[u8]) -> Vec<u8> {
    let mut v = vec![0xC0 | tag, 255];
    v.extend_from_slice(&be32(body.len()));
    v.extend_from_slice(body);
    v
}

fn fmt_stats(s: &Stats) -> String {
    format!("peak={} total={} allocs={} time_us={} wall_us={}", s.peak, s.total, s.count, s.time.as_micros(), s.wall.as_micros())
}

/// per-byte time constant of the oracle, from a calibration run on this machine: 40x the per-byte
/// cost of the most allocation-heavy legitimate workload (a stream of 5-byte marker packets, each of
/// which costs an 8 KiB packet-body buffer), but at least 500 ns/byte
struct Calib {
    ns_per_byte: f64,
}

fn calibrate() -> Calib {
    let mut data = Vec::new();
    for _ in 0..20_000 {
        data.extend_from_slice(&[0xCA, 3, b'P', b'G', b'P']);
    }
    let mut best = f64::MAX;
    for _ in 0..3 {
        let (n, st) = measure(|| PacketParser::new(&data[..]).filter(|p| p.is_ok()).count());
        assert_eq!(n, 20_000);
        best = best.min(st.time.as_nanos() as f64 / data.len() as f64);
    }
    Calib { ns_per_byte: (40.0 * best).max(500.0) }
}

impl Calib {
    fn time_bound(&self, input_len: usize) -> Duration {
        D + Duration::from_nanos((self.ns_per_byte * input_len as f64) as u64)
    }
}

/// `measure`, robust against a busy machine: a run slower than `limit` (the bound its time oracle
/// will be held to) is repeated up to 4 more times and the fastest run is kept.  Allocation counts
/// are deterministic, so they do not depend on which run is kept.
fn measure_robust<T>(limit: Duration, mut f: impl FnMut() -> T) -> (T, Stats) {
    let (mut v, mut s) = measure(&mut f);
    let mut tries = 0;
    while s.time > limit && tries < 4 {
        let (v2, s2) = measure(&mut f);
        if s2.time < s.time {
            v = v2;
            s = s2;
        }
        tries += 1;
    }
    (v, s)
}

/// fastest of up to `n` runs when the first one took at least `min_t` (for size series)
fn measure_min<T>(n: usize, min_t: Duration, mut f: impl FnMut() -> T) -> (T, Stats) {
    let (mut v, mut s) = measure(&mut f);
    if s.time >= min_t {
        for _ in 1..n {
            let (v2, s2) = measure(&mut f);
            if s2.time < s.time {
                v = v2;
                s = s2;
            }
        }
    }
    (v, s)
}

/// the two property oracles for one measured call
fn judge(ctx: &mut Ctx, cal: &Calib, site: &str, input: &str, input_len: usize, s: &Stats) {
    judge_n(ctx, cal, site, input, input_len, 0, 0, s)
}

/// … with `packets` packets present in the input and `levels` container levels opened by the caller
fn judge_n(ctx: &mut Ctx, cal: &Calib, site: &str, input: &str, input_len: usize, packets: usize, levels: usize, s: &Stats) {
    let pb = A * input_len + B + P * packets + L * levels;
    ctx.oracle("peak_linear", site, input, s.peak <= pb, &format!("|input|={input_len} bound={pb} {}", fmt_stats(s)));
    let tb = cal.time_bound(input_len);
    ctx.oracle("time_linear", site, input, s.time <= tb, &format!("|input|={input_len} bound_us={} {}", tb.as_micros(), fmt_stats(s)));
}

/// "finishes in time linear in the input", restated on a size series: once a run is long enough to
/// be measured reliably (>= 20 ms) its time may exceed that of the previous (smaller) size by at most
/// 3x the ratio of the sizes
fn judge_scaling(ctx: &mut Ctx, site: &str, what: &str, pts: &[(usize, Duration)]) {
    for w in pts.windows(2) {
        let ((n0, t0), (n1, t1)) = (w[0], w[1]);
        if t1 < Duration::from_millis(20) || n0 == 0 || n1 <= n0 {
            continue;
        }
        let allowed = t0.max(Duration::from_micros(200)).as_secs_f64() * 3.0 * (n1 as f64 / n0 as f64);
        ctx.oracle(
            "time_scaling",
            site,
            &format!("{what} sizes={n0}->{n1}"),
            t1.as_secs_f64() <= allowed,
            &format!("t({n0})={}us t({n1})={}us allowed={}us", t0.as_micros(), t1.as_micros(), (allowed * 1e6) as u64),
        );
    }
}

// ---------------------------------------------------------------------------------------------
// entry points
// ---------------------------------------------------------------------------------------------

#[derive(Clone, Copy, Debug, PartialEq)]
pub enum Entry {
    PacketParser,
    Message,
    PublicKey,
    SecretKey,
    DetachedSig,
    Dearmor,
    MessageArmor,
}

pub const BINARY_ENTRIES: [Entry; 5] = [Entry::PacketParser, Entry::Message, Entry::PublicKey, Entry::SecretKey, Entry::DetachedSig];

impl Entry {
    fn site(self) -> &'static str {
        match self {
            Entry::PacketParser => "packet/many.rs PacketParser (iterate to the end)",
            Entry::Message => "composed/message/parser.rs Message::from_bytes + read to the end",
            Entry::PublicKey => "composed/signed_key SignedPublicKey::from_bytes",
            Entry::SecretKey => "composed/signed_key SignedSecretKey::from_bytes",
            Entry::DetachedSig => "composed/signature.rs DetachedSignature::from_bytes",
            Entry::Dearmor => "armor/reader.rs Dearmor (read to the end)",
            Entry::MessageArmor => "composed/message/parser.rs Message::from_armor + read to the end",
        }
    }
}

/// drain a reader with a fixed stack buffer (so the consumer itself allocates nothing)
fn drain<R: Read>(mut r: R) -> Result<usize, String> {
    let mut buf = [0u8; 16384];
    let mut n = 0usize;
    loop {
        match r.read(&mut buf) {
            Ok(0) => return Ok(n),
            Ok(k) => n += k,
            Err(e) => return Err(e.to_string()),
        }
    }
}

fn read_message(m: Message<'_>) -> Result<usize, String> {
    let mut m = m;
    let mut depth = 0;
    loop {
        if m.is_compressed() {
            m = m.decompress().map_err(|e| e.to_string())?;
            depth += 1;
            if depth > 1_000_000 {
                return Err("too deep".into());
            }
            continue;
        }
        break;
    }
    if m.is_encrypted() {
        return Ok(0);
    }
    drain(&mut m)
}

/// run one entry point over `data` (binary or armored); returns a short outcome string
pub fn run_entry(e: Entry, data: &[u8]) -> String {
    let r = guarded(|| match e {
        Entry::PacketParser => {
            let mut ok = 0usize;
            let mut err = 0usize;
            for p in PacketParser::new(data) {
                match p {
                    Ok(_) => ok += 1,
                    Err(_) => err += 1,
                }
                if ok + err > 10_000_000 {
                    break;
                }
            }
            format!("ok:{ok}:{err}")
        }
        Entry::Message => match Message::from_bytes(data) {
            Ok(m) => match read_message(m) {
                Ok(n) => format!("ok:{n}"),
                Err(_) => "err:read".into(),
            },
            Err(_) => "err:parse".into(),
        },
        Entry::PublicKey => match SignedPublicKey::from_bytes(data) {
            Ok(_) => "ok".into(),
            Err(_) => "err".into(),
        },
        Entry::SecretKey => match SignedSecretKey::from_bytes(data) {
            Ok(_) => "ok".into(),
            Err(_) => "err".into(),
        },
        Entry::DetachedSig => match DetachedSignature::from_bytes(data) {
            Ok(_) => "ok".into(),
            Err(_) => "err".into(),
        },
        Entry::Dearmor => {
            let mut d = Dearmor::new(BufReader::new(data));
            match drain(&mut d) {
                Ok(n) => format!("ok:{n}"),
                Err(_) => "err".into(),
            }
        }
        Entry::MessageArmor => match Message::from_armor(BufReader::new(data)) {
            Ok((m, _)) => match read_message(m) {
                Ok(n) => format!("ok:{n}"),
                Err(_) => "err:read".into(),
            },
            Err(_) => "err:parse".into(),
        },
    });
    r.unwrap_or_else(|_| "panic".into())
}

/// measure one entry point; a run that exceeds the linear time bound is repeated (up to twice) and
/// the fastest run is kept, so that a scheduling hiccup of the (shared) machine is not reported as
/// a property failure.  Heap numbers are identical across repetitions.
fn measure_entry(e: Entry, data: &[u8], cal: &Calib) -> (String, Stats) {
    measure_robust(cal.time_bound(data.len()), || run_entry(e, data))
}

// ---------------------------------------------------------------------------------------------
// child-process probes (stack exhaustion kills the process; it cannot be caught in-process)
// ---------------------------------------------------------------------------------------------

/// `VERIF_C19_PROBE="nest <ver> <depth> <stack_kib> <entry>"` etc.: run one measurement and print
/// `RESULT key=value ...`; the parent classifies a death by signal as a crash.
fn probe_main(spec: &str) -> ! {
    let w: Vec<&str> = spec.split_whitespace().collect();
    let num = |i: usize| w.get(i).and_then(|s| s.parse::<usize>().ok()).unwrap_or(0);
    let (data, entry): (Vec<u8>, Entry) = match w.first().copied() {
        Some("nest") => {
            let body = nest_sig(num(1) as u8, num(2));
            let pk = new_packet(2, &body);
            (pk, entry_of(w.get(4).copied().unwrap_or("pp")))
        }
        Some("hex") => (hex::decode(w.get(1).copied().unwrap_or("")).unwrap_or_default(), entry_of(w.get(4).copied().unwrap_or("pp"))),
        Some("ops") => (nested_ops(num(2)), Entry::Message),
        Some("opslit") => (nested_ops_lit(num(2), num(1)), Entry::Message),
        Some("zip") => (nested_compressed(num(2)), Entry::Message),
        Some("sigs") => (repeated(w.get(1).copied().unwrap_or("marker"), num(2)), entry_of(w.get(4).copied().unwrap_or("msg"))),
        _ => std::process::exit(3),
    };
    let stack_kib = num(3);
    let work = move || {
        let (out, s) = measure_min(3, Duration::from_millis(2), || run_entry(entry, &data));
        println!("RESULT out={} size={} peak={} total={} allocs={} time_us={}", out.replace(' ', "_"), data.len(), s.peak, s.total, s.count, s.time.as_micros());
        let _ = std::io::stdout().flush();
    };
    if stack_kib == 0 {
        work();
    } else {
        let h = std::thread::Builder::new().stack_size(stack_kib * 1024).spawn(work).expect("spawn");
        let _ = h.join();
    }
    std::process::exit(0)
}

fn entry_of(s: &str) -> Entry {
    match s {
        "msg" => Entry::Message,
        "pub" => Entry::PublicKey,
        "sec" => Entry::SecretKey,
        "det" => Entry::DetachedSig,
        _ => Entry::PacketParser,
    }
}

#[derive(Debug, Default, Clone)]
struct ProbeResult {
    crashed: Option<String>,
    out: String,
    size: usize,
    peak: usize,
    total: usize,
    time_us: usize,
}

fn run_probe(spec: &str, out_dir: &str) -> ProbeResult {
    let exe = std::env::current_exe().expect("exe");
    let t0 = Instant::now();
    let o = std::process::Command::new(exe)
        .args(["C19", "--out", &format!("{out_dir}/probe")])
        .env("VERIF_C19_PROBE", spec)
        .output();
    let mut r = ProbeResult::default();
    match o {
        Err(e) => r.crashed = Some(format!("spawn failed: {e}")),
        Ok(o) => {
            let so = String::from_utf8_lossy(&o.stdout).to_string();
            if let Some(line) = so.lines().find(|l| l.starts_with("RESULT ")) {
                for kv in line.split_whitespace().skip(1) {
                    if let Some((k, v)) = kv.split_once('=') {
                        match k {
                            "out" => r.out = v.to_string(),
                            "size" => r.size = v.parse().unwrap_or(0),
                            "peak" => r.peak = v.parse().unwrap_or(0),
                            "total" => r.total = v.parse().unwrap_or(0),
                            "time_us" => r.time_us = v.parse().unwrap_or(0),
                            _ => {}
                        }
                    }
                }
            }
            if !o.status.success() || r.out.is_empty() {
                use std::os::unix::process::ExitStatusExt;
                let why = match o.status.signal() {
                    Some(s) => format!("killed by signal {s}"),
                    None => format!("exit status {:?}", o.status.code()),
                };
                let se = String::from_utf8_lossy(&o.stderr);
                let tail: String = se.lines().rev().take(2).collect::<Vec<_>>().join(" | ");
                r.crashed = Some(format!("{why} after {} ms; stderr: {}", t0.elapsed().as_millis(), tail));
            }
        }
    }
    r
}

// ---------------------------------------------------------------------------------------------
// generators of hostile structures
// ---------------------------------------------------------------------------------------------

/// `nest ver d`: a signature packet body whose unhashed area holds one Embedded Signature subpacket
/// (5-octet length form) containing `nest ver (d-1)`; `nest ver 0` is a complete RSA signature with
/// empty areas.  Mirrors `Rpgp.nestSig` in RpgpModel/Resource.lean.
pub fn nest_sig(ver: u8, d: usize) -> Vec<u8> {
    let tail4: &[u8] = &[0xAB, 0xCD, 0, 8, 0xFF];
    let mut tail6: Vec<u8> = vec![0xAB, 0xCD, 16];
    tail6.extend_from_slice(&[0x5A; 16]);
    tail6.extend_from_slice(&[0, 8, 0xFF]);
    let (base_len, step) = if ver == 4 { (13usize, 19usize) } else { (34, 40) };
    let len_of = |i: usize| base_len + step * i; // |nest ver i|
    let mut o: Vec<u8> = Vec::with_capacity(len_of(d));
    // prefixes, outermost first: the level that wraps `nest ver (i-1)`
    for i in (1..=d).rev() {
        let inner = len_of(i - 1);
        if ver == 4 {
            o.extend_from_slice(&[4, 0, 1, 8, 0, 0]);
            o.extend_from_slice(&be16(inner + 6));
        } else {
            o.extend_from_slice(&[6, 0, 1, 8, 0, 0, 0, 0]);
            o.extend_from_slice(&be32(inner + 6));
        }
        o.push(255);
        o.extend_from_slice(&be32(inner + 1));
        o.push(32);
    }
    // innermost signature: RSA, SHA-256, both areas empty
    if ver == 4 {
        o.extend_from_slice(&[4, 0, 1, 8, 0, 0, 0, 0]);
    } else {
        o.extend_from_slice(&[6, 0, 1, 8, 0, 0, 0, 0, 0, 0, 0, 0]);
    }
    // one tail per level (innermost included)
    for _ in 0..=d {
        if ver == 4 {
            o.extend_from_slice(tail4);
        } else {
            o.extend_from_slice(&tail6);
        }
    }
    debug_assert_eq!(o.len(), len_of(d));
    o
}

fn ops_packet(last: bool) -> Vec<u8> {
    // v3 one-pass signature: version, type, hash, pk alg, key id, nested flag
    let mut b = vec![3, 0, 8, 1];
    b.extend_from_slice(&[1, 2, 3, 4, 5, 6, 7, 8]);
    b.push(if last { 1 } else { 0 });
    new_packet(4, &b)
}

fn literal_packet(data: &[u8]) -> Vec<u8> {
    let mut b = vec![b'b', 0, 0, 0, 0, 0];
    b.extend_from_slice(data);
    new_packet(11, &b)
}

/// d one-pass-signature packets, a literal, d signature packets
fn nested_ops(d: usize) -> Vec<u8> {
    let mut v = Vec::new();
    for i in 0..d {
        v.extend(ops_packet(i + 1 == d));
    }
    v.extend(literal_packet(b"hello"));
    let sig = new_packet(2, &nest_sig(4, 0));
    for _ in 0..d {
        v.extend_from_slice(&sig);
    }
    v
}

/// d one-pass signatures over a literal of `l` octets
fn nested_ops_lit(d: usize, l: usize) -> Vec<u8> {
    let mut v = Vec::new();
    for i in 0..d {
        v.extend(ops_packet(i + 1 == d));
    }
    v.extend(literal_packet(&vec![0x61u8; l]));
    let sig = new_packet(2, &nest_sig(4, 0));
    for _ in 0..d {
        v.extend_from_slice(&sig);
    }
    v
}

/// a literal wrapped in d "Uncompressed" compressed-data packets
fn nested_compressed(d: usize) -> Vec<u8> {
    let mut v = literal_packet(b"hello");
    for _ in 0..d {
        let mut b = vec![0u8];
        b.extend_from_slice(&v);
        v = new_packet(8, &b);
    }
    v
}

/// n repeated small packets (optionally followed by a literal so that it is a message)
fn repeated(kind: &str, n: usize) -> Vec<u8> {
    let one: Vec<u8> = match kind {
        "marker" => new_packet(10, b"PGP"),
        "padding" => new_packet(21, &[0x55; 8]),
        "sig" => new_packet(2, &nest_sig(4, 0)),
        "ops" => ops_packet(false),
        "trust" => new_packet(12, &[1, 2]),
        "uid" => new_packet(13, b"a <a@b>"),
        _ => new_packet(63, &[1, 2, 3]),
    };
    let mut v = Vec::with_capacity(one.len() * n + 32);
    for _ in 0..n {
        v.extend_from_slice(&one);
    }
    if kind != "ops" {
        v.extend(literal_packet(b"hello"));
    }
    v
}

// ---------------------------------------------------------------------------------------------
// sections
// ---------------------------------------------------------------------------------------------

/// `take_bytes`: capacity sequence for declared sizes over short/long/fragmented sources
fn sec_take_bytes(ctx: &mut Ctx, cal: &Calib) {
    let site = "parsing_reader.rs BufReadParsing::take_bytes";
    let mut rng = ChaCha8Rng::seed_from_u64(ctx.seed ^ 0x19_01);
    let declared: Vec<usize> = vec![
        0, 1, 2, 7, 8, 9, 1023, 1024, 1025, 2047, 2048, 2049, 4096, 5000, 65535, 65536, 65537, 1 << 20, (1 << 24) + 1, 1 << 31, u32::MAX as usize - 1,
        u32::MAX as usize,
    ];
    let mut schedules: Vec<Vec<usize>> = vec![
        vec![],
        vec![1],
        vec![10],
        vec![1023],
        vec![1024],
        vec![1025],
        vec![2048],
        vec![2049],
        vec![4096, 1],
        vec![1; 40],
        vec![1024, 1],
        vec![1024, 1024, 1],
        vec![1000, 24, 1, 2047, 1, 5000],
        vec![8192; 5],
        vec![70000],
        vec![3, 0, 4],
    ];
    let n_rand = ctx.pick(150, 2000);
    for _ in 0..n_rand {
        let k = rng.gen_range(1..8);
        schedules.push((0..k).map(|_| [1usize, 2, 100, 1000, 1024, 1500, 4096, 8192, 10000][rng.gen_range(0..9)]).collect());
    }
    for sched in &schedules {
        let chunks: Vec<Vec<u8>> = sched.iter().map(|&n| vec![0xA5u8; n]).collect();
        let present: usize = sched.iter().sum();
        let mut sizes = declared.clone();
        sizes.push(present);
        sizes.push(present + 1);
        sizes.push(present.saturating_sub(1));
        for &size in &sizes {
            let (r, s) = measure_robust(cal.time_bound(present.min(size.max(1))), || {
                let mut src = ChunkBuf::new(&chunks);
                guarded(|| pgp::verif_hooks::take_bytes(&mut src, size))
            });
            // the BytesMut events: first allocation (with_capacity) and every realloc
            let first = s.events.first().filter(|e| !e.0).map(|e| e.1);
            let mut seq: Vec<usize> = Vec::new();
            if size > 0 {
                if let Some(f) = first {
                    seq.push(f);
                }
            }
            seq.extend(s.events.iter().filter(|e| e.0).map(|e| e.1));
            let seq_s = if seq.is_empty() { "-".to_string() } else { seq.iter().map(|x| x.to_string()).collect::<Vec<_>>().join(",") };
            let ans = match &r {
                Ok(Ok(b)) => format!("ok:{}:{}:{}", b.len(), b.capacity(), seq_s),
                Ok(Err(_)) => format!("err:{seq_s}"),
                Err(_) => "panic".into(),
            };
            let sched_s = if sched.is_empty() { "-".to_string() } else { sched.iter().map(|x| x.to_string()).collect::<Vec<_>>().join(",") };
            ctx.case(format!("take_bytes size={size} chunks={sched_s}"), ans);
            // the model's bound for this case, against the measurement
            ctx.case(format!("within_take_bytes size={size} chunks={sched_s} peak={} total={}", s.peak, s.total), "ok:1".into());
            let input = format!("size={size} chunks={sched_s}");
            judge(ctx, cal, site, &input, present.min(size.max(1)), &s);
            // the headline bound restated on the measurement: <= 2*present + 1024 (+ error object)
            let taken = present.min(size);
            ctx.oracle("take_bytes_not_declared", site, &input, s.peak <= 3 * taken + 1024 + 256, &format!("taken={taken} {}", fmt_stats(&s)));
            ctx.stat(if size > present { "take_bytes:declared>present" } else { "take_bytes:declared<=present" });
        }
    }
    // `rest` (Vec::new + read_to_end)
    for &n in &[0usize, 1, 31, 32, 33, 64, 1000, 8192, 100_000, 1 << 20] {
        for chunk in [1usize << 30, 8192, 100] {
            let data = vec![7u8; n];
            let chunks: Vec<Vec<u8>> = data.chunks(chunk.max(1)).map(|c| c.to_vec()).collect();
            let (r, s) = measure_robust(cal.time_bound(n), || {
                let mut src = ChunkBuf::new(&chunks);
                guarded(|| pgp::verif_hooks::rest(&mut src))
            });
            let ok = matches!(&r, Ok(Ok(b)) if b.len() == n);
            ctx.case(format!("within_rest n={n} peak={} total={}", s.peak, s.total), "ok:1".into());
            ctx.oracle("rest_returns_all", "parsing_reader.rs BufReadParsing::rest", &format!("n={n} chunk={chunk}"), ok, &fmt_stats(&s));
            judge(ctx, cal, "parsing_reader.rs BufReadParsing::rest", &format!("n={n} chunk={chunk}"), n, &s);
        }
    }
}

/// MPI admission: bit counts 0..65535 over short bodies
fn sec_mpi(ctx: &mut Ctx, cal: &Calib) {
    let site = "types/mpi.rs Mpi::try_from_reader";
    let mut bits: Vec<usize> = vec![0, 1, 7, 8, 9, 15, 16, 17, 2048, 4096, 16376, 16377, 16383, 16384, 16385, 16392, 32768, 65528, 65529, 65535];
    if ctx.thorough() {
        bits.extend((0..=65535usize).step_by(97));
    } else {
        bits.extend((0..=65535usize).step_by(1499));
    }
    for &b in &bits {
        let need = (b + 7) / 8;
        for present in [0usize, 1, need.saturating_sub(1), need, need + 3] {
            let mut data = be16(b).to_vec();
            data.extend(std::iter::repeat(0xFFu8).take(present));
            let (r, s) = measure_robust(cal.time_bound(data.len()), || guarded(|| Mpi::try_from_reader(&data[..])));
            let ans = match r {
                Ok(Ok(m)) => format!("ok:{}", m.len()),
                Ok(Err(e)) => {
                    let t = e.to_string();
                    if b > 16384 { "err:toolarge".to_string() } else if present < need { "err:eof".to_string() } else { format!("err:other:{t}") }
                }
                Err(_) => "panic".into(),
            };
            ctx.case(format!("mpi bits={b} present={present}"), ans);
            judge(ctx, cal, site, &format!("bits={b} present={present}"), data.len(), &s);
            ctx.oracle("mpi_bounded", site, &format!("bits={b} present={present}"), s.peak <= 2 * present.min(need) + 1024 + 2048 + 256, &fmt_stats(&s));
        }
    }
}

/// build a v4 signature body whose hashed area is `area`
fn sig_with_hashed_area(area: &[u8], declared: usize) -> Vec<u8> {
    let mut v = vec![4, 0, 1, 8];
    v.extend_from_slice(&be16(declared));
    v.extend_from_slice(area);
    v.extend_from_slice(&[0, 0, 0xAB, 0xCD, 0, 8, 0xFF]);
    v
}

fn parse_sig_body(body: &[u8]) -> Result<Signature, String> {
    let header = pgp::packet::PacketHeader::from_parts(PacketHeaderVersion::New, Tag::Signature, PacketLength::Fixed(body.len() as u32))
        .map_err(|e| e.to_string())?;
    Signature::try_from_reader(header, body).map_err(|e| e.to_string())
}

/// subpacket vectors: count and capacity (`Vec::with_capacity(len.min(32))` + pushes)
fn sec_subpackets(ctx: &mut Ctx, cal: &Calib) {
    let site = "packet/signature/de.rs subpackets";
    let mut rng = ChaCha8Rng::seed_from_u64(ctx.seed ^ 0x19_03);
    let esz = std::mem::size_of::<pgp::packet::Subpacket>();
    ctx.note(&format!("size_of::<Subpacket>() = {esz}"));
    let mut shapes: Vec<(Vec<usize>, Vec<u8>, usize)> = Vec::new(); // body lens, forms, cut
    for n in [0usize, 1, 2, 3, 4, 5, 8, 16, 31, 32, 33, 63, 64, 65, 128, 129, 500, 2000] {
        shapes.push((vec![1; n], vec![1; n], 0));
        shapes.push((vec![3; n], vec![1; n], 0));
    }
    for _ in 0..ctx.pick(200, 3000) {
        let n = rng.gen_range(0..80);
        let lens: Vec<usize> = (0..n).map(|_| [0usize, 1, 2, 5, 20, 190, 191, 192, 300][rng.gen_range(0..9)]).collect();
        let forms: Vec<u8> = lens.iter().map(|&l| if l + 1 >= 192 { [2u8, 5][rng.gen_range(0..2)] } else { [1u8, 1, 5][rng.gen_range(0..3)] }).collect();
        let cut = if rng.gen_bool(0.2) { rng.gen_range(1..6) } else { 0 };
        shapes.push((lens, forms, cut));
    }
    for (lens, forms, cut) in shapes {
        // experimental subpacket types (101..110): bodies are never validated, so the count is exact
        let mut area = Vec::new();
        for (i, (&l, &f)) in lens.iter().zip(forms.iter()).enumerate() {
            let total = l + 1;
            match f {
                1 => area.push(total as u8),
                2 => {
                    area.push(((total - 192) / 256 + 192) as u8);
                    area.push(((total - 192) % 256) as u8);
                }
                _ => {
                    area.push(255);
                    area.extend_from_slice(&be32(total));
                }
            }
            area.push(101 + (i % 10) as u8);
            area.extend(std::iter::repeat(i as u8).take(l));
        }
        if area.len() > 65535 {
            continue;
        }
        let declared = area.len();
        let cut = cut.min(area.len());
        area.truncate(area.len() - cut);
        let body = sig_with_hashed_area(&area, declared - cut);
        let (r, s) = measure_robust(cal.time_bound(body.len()), || guarded(|| parse_sig_body(&body)));
        let ans = match &r {
            Ok(Ok(sig)) => match sig.config() {
                Some(c) => format!("ok:{}:{}", c.hashed_subpackets.len(), c.hashed_subpackets.capacity()),
                None => "ok:unknown".into(),
            },
            Ok(Err(_)) => "err".into(),
            Err(_) => "panic".into(),
        };
        let ls = if lens.is_empty() { "-".to_string() } else { lens.iter().map(|x| x.to_string()).collect::<Vec<_>>().join(",") };
        let fs = if forms.is_empty() { "-".to_string() } else { forms.iter().map(|x| x.to_string()).collect::<Vec<_>>().join(",") };
        ctx.case(format!("subpackets lens={ls} forms={fs} cut={cut}"), ans);
        judge(ctx, cal, site, &format!("body={}", hx(&body[..body.len().min(64)])), body.len(), &s);
        // capacity in bytes is linear in the bytes present: at most 2 elements per 2 input bytes, + 32
        let bound = esz * (32 + 2 * area.len()) + 8 * body.len() + 4096;
        ctx.oracle("subpacket_vec_linear", site, &format!("lens={ls} cut={cut}"), s.peak <= bound, &format!("bound={bound} {}", fmt_stats(&s)));
    }
    // declared area length huge, body short: capacity must not follow the declaration
    for declared in [32usize, 33, 1000, 65535] {
        let body = sig_with_hashed_area(&[2, 101, 0], declared);
        let (r, s) = measure(|| guarded(|| parse_sig_body(&body)));
        let _ = r;
        ctx.oracle("subpacket_vec_linear", site, &format!("declared={declared} present=3"), s.peak <= esz * 32 + 4096, &fmt_stats(&s));
    }
}

/// Argon2 admission (never runs an expensive derivation) and iterated-S2K timing
fn sec_s2k(ctx: &mut Ctx, cal: &Calib) {
    let site = "types/s2k.rs StringToKey::derive_key (Argon2)";
    let vals_t: Vec<u8> = vec![0, 1, 2, 3, 31, 32, 33, 34, 64, 127, 128, 255];
    let vals_m: Vec<u8> = vec![0, 1, 2, 3, 4, 5, 6, 7, 8, 9, 10, 11, 12, 20, 21, 22, 23, 30, 31, 32, 33, 64, 255];
    let all: Vec<u8> = (0..=255u8).collect();
    let (ts, ps, ms): (&[u8], &[u8], &[u8]) = if ctx.thorough() { (&all, &all, &all) } else { (&vals_t, &vals_t, &vals_m) };
    let mut ran = 0usize;
    for &t in ts {
        for &p in ps {
            for &m in ms {
                // the documented ceiling: t <= 32, p <= 32, m <= 2 GiB (m_enc <= 21)
                let over = t > 32 || p > 32 || m > 21;
                // only run what is refused by the statement of the property, or is cheap (<= 1 MiB, few passes)
                let cheap = !over && m <= 10 && (t as usize) * (1usize << m) <= 4096;
                if !(over || cheap) {
                    ctx.stat("argon2:skipped-expensive");
                    continue;
                }
                if ctx.thorough() && over && (t as usize * 7 + p as usize * 3 + m as usize) % 16 != 0 && !(t <= 34 && p <= 34 && m <= 34) {
                    continue; // thin the far-over-ceiling volume; the boundary region is complete
                }
                let s2k = StringToKey::Argon2 { salt: [7u8; 16], t, p, m_enc: m };
                let (r, s) = measure_robust(if over { D } else { Duration::from_secs(3600) }, || guarded(|| s2k.derive_key(b"pw", 16)));
                ran += 1;
                let accepted = matches!(r, Ok(Ok(_)));
                ctx.case(format!("argon2_admit t={t} p={p} m={m}"), if accepted { "ok:1".into() } else { "ok:0".into() });
                if over {
                    ctx.oracle("s2k_refused", site, &format!("t={t} p={p} m_enc={m}"), !accepted && s.peak <= 65536 && s.time <= D, &fmt_stats(&s));
                    ctx.stat("argon2:over-ceiling");
                } else {
                    ctx.stat(if accepted { "argon2:accepted" } else { "argon2:refused-in-range" });
                    // memory actually used is the declared m KiB (documented), never more than 2 GiB
                    ctx.oracle("argon2_memory_as_declared", site, &format!("t={t} p={p} m_enc={m}"), s.peak <= (1usize << m) * 1024 + 65536 * (p as usize + 1), &fmt_stats(&s));
                }
            }
        }
    }
    ctx.stat_n("argon2:derivations-run", ran as u64);
    // iterated+salted: every count octet decodes to at most 65011712 octets of hashing; measure a few
    let site = "types/s2k.rs StringToKey::derive_key (IteratedAndSalted)";
    for &c in &[0u8, 96, 200, 255] {
        let s2k = StringToKey::IteratedAndSalted { hash_alg: HashAlgorithm::Sha256, salt: [1u8; 8], count: c };
        let (r, s) = measure(|| guarded(|| s2k.derive_key(b"password", 32)));
        let hashed = (16usize + (c as usize & 15)) << ((c as usize >> 4) + 6);
        // time is linear in the decoded count (an "input" of 1 octet declares up to 62 MiB of hashing:
        // this is the documented cost ceiling of the iterated S2K, the bound is on the decoded count)
        ctx.oracle("iterated_time_bounded_by_count", site, &format!("count_octet={c}"), matches!(r, Ok(Ok(_))) && s.time <= cal.time_bound(hashed), &format!("decoded={hashed} {}", fmt_stats(&s)));
        ctx.oracle("iterated_memory_constant", site, &format!("count_octet={c}"), s.peak <= 65536, &fmt_stats(&s));
    }
}

/// nested embedded signatures (D19, repaired by a nesting cap: deep nests must be refused quickly,
/// with memory and time linear in the input, and without deep recursion)
fn sec_nest(ctx: &mut Ctx, cal: &Calib, out_dir: &str) {
    let site = "packet/signature/de.rs embedded_sig (via Signature::try_from_reader)";
    // every depth 0..=12 (whatever the cap is, cap and cap+1 are among them), then deep ones;
    // v4 areas have 16-bit lengths (depth <= 3448), v6 areas 32-bit lengths
    let mut depths4: Vec<usize> = (0..=12).collect();
    depths4.extend(if ctx.thorough() { vec![16, 50, 100, 300, 1000, 2000, 3000, 3447, 3448] } else { vec![16, 100, 1000, 3448] });
    let mut depths6: Vec<usize> = (0..=12).collect();
    depths6.extend(if ctx.thorough() { vec![16, 100, 1000, 2500, 5000, 20_000, 100_000] } else { vec![16, 100, 500, 2000, 20_000] });
    for (ver, depths) in [(4u8, depths4), (6u8, depths6)] {
        let mut series: Vec<(usize, Duration)> = Vec::new();
        let mut accepted_upto: Option<usize> = None;
        let mut monotone = true;
        for d in depths {
            let body = nest_sig(ver, d);
            if d > 12 {
                // stack exhaustion would take this process down with it: try the deep ones in a child first
                let r = run_probe(&format!("nest {ver} {d} 2048 pp"), out_dir);
                ctx.oracle("no_crash", site, &format!("nest ver={ver} d={d} stack_kib=2048 |input|={}", body.len() + 6), r.crashed.is_none(), &format!("PacketParser over one signature packet: {}", r.crashed.clone().unwrap_or_default()));
                if r.crashed.is_some() {
                    continue;
                }
            }
            // on a thread of the default size (2 MiB): a parser that recursed with the nesting would die here
            let b2 = body.clone();
            let limit = cal.time_bound(body.len());
            let h = std::thread::Builder::new()
                .spawn(move || measure_robust(limit, || guarded(|| parse_sig_body(&b2).map(|s| s.config().map(|c| c.unhashed_subpackets.len())))))
                .expect("spawn");
            let Ok((r, s)) = h.join() else {
                ctx.oracle("no_crash", site, &format!("nest ver={ver} d={d}"), false, "thread died");
                continue;
            };
            let ok = matches!(r, Ok(Ok(_)));
            // the model-independent part of "refused beyond the cap": acceptance is downward closed
            if ok {
                if accepted_upto.map(|a| a + 1 != d).unwrap_or(d != 0) && d <= 12 {
                    monotone = false;
                }
                accepted_upto = Some(d);
            }
            // the model builds the same witness only up to a few thousand levels (its list append is quadratic)
            if d <= 5000 {
                ctx.case(format!("nest ver={ver} d={d}"), format!("ok:{}:{}", cksum(&body), if ok { 1 } else { 0 }));
                ctx.case(format!("within_nest ver={ver} d={d} peak={} total={}", s.peak, s.total), "ok:1".into());
            }
            let input = format!("nest ver={ver} d={d} |input|={}", body.len());
            judge_n(ctx, cal, site, &input, body.len(), 1, 0, &s);
            if d >= 64 {
                // "deeply repeated structures": a nest this deep is refused, and refusing it costs
                // no more than a few copies of the input
                ctx.oracle("deep_nest_refused_cheaply", site, &input, !ok && s.peak <= 16 * body.len() + 65536, &format!("accepted={ok} {}", fmt_stats(&s)));
            }
            series.push((body.len(), s.time));
            ctx.stat(&format!("nest:v{ver}:{}", if ok { "accepted" } else { "refused" }));
            if d >= 1000 {
                ctx.note(&format!("nest ver={ver} depth={d} |input|={} accepted={ok} {}", body.len(), fmt_stats(&s)));
            }
        }
        ctx.oracle("nest_acceptance_downward_closed", site, &format!("nest ver={ver} depths 0..=12"), monotone && accepted_upto.is_some(), &format!("deepest accepted: {accepted_upto:?}"));
        ctx.note(&format!("nest ver={ver}: deepest accepted nesting = {accepted_upto:?}"));
        judge_scaling(ctx, site, &format!("nest ver={ver}"), &series);
    }
    // the other entry points reach the same code
    for e in [Entry::PacketParser, Entry::DetachedSig, Entry::Message, Entry::PublicKey] {
        for d in [3usize, 4, 5, 6, 1500] {
            let pk = new_packet(2, &nest_sig(4, d));
            let mut data = pk.clone();
            if e == Entry::Message {
                data.extend(literal_packet(b"x"));
            }
            if e == Entry::PublicKey {
                // a certificate whose user id carries the nested signature as a (bogus) certification
                let mut rng = ChaCha8Rng::seed_from_u64(77);
                let k = keys::ed25519_x25519(&mut rng, KeyVersion::V4);
                let Ok(pb) = k.to_public_key().to_bytes() else { continue };
                // primary key packet + user id packet, then our signature
                let mut src = &pb[..];
                let mut used = 0usize;
                for _ in 0..2 {
                    let before = src.len();
                    let mut pp = PacketParser::new(&mut src);
                    if let Some(Ok(mut b)) = pp.next_ref() {
                        let _ = drain(&mut b);
                    }
                    drop(pp);
                    used += before - src.len();
                }
                data = pb[..used].to_vec();
                data.extend_from_slice(&pk);
            }
            let d2 = data.clone();
            let limit = cal.time_bound(data.len());
            let h = std::thread::Builder::new().spawn(move || measure_robust(limit, || run_entry(e, &d2))).expect("spawn");
            match h.join() {
                Ok((out, s)) => judge_n(ctx, cal, e.site(), &format!("nest ver=4 d={d} entry={e:?} out={out}"), data.len(), 3, 0, &s),
                Err(_) => ctx.oracle("no_crash", e.site(), &format!("nest ver=4 d={d} entry={e:?}"), false, "thread died"),
            }
        }
    }
    // stack: very deep nests in a child process, on a 2 MiB thread and on the main thread
    for (stack_kib, label) in [(2048usize, "2 MiB (std::thread default)"), (0, "main thread")] {
        let mut deepest = 0;
        for d in [1024usize, 16_384, ctx.pick(65_536, 1_000_000)] {
            let r = run_probe(&format!("nest 6 {d} {stack_kib} pp"), out_dir);
            ctx.oracle(
                "no_crash",
                site,
                &format!("nest ver=6 d={d} stack_kib={stack_kib} |input|={}", 34 + 40 * d + 6),
                r.crashed.is_none(),
                &format!("PacketParser over one signature packet: {}", r.crashed.clone().unwrap_or_default()),
            );
            if r.crashed.is_none() {
                deepest = d;
                let s = Stats { peak: r.peak, total: r.total, count: 0, time: Duration::from_micros(r.time_us as u64), wall: Duration::from_micros(r.time_us as u64), events: vec![] };
                judge_n(ctx, cal, site, &format!("nest ver=6 d={d} stack_kib={stack_kib} (child) out={}", r.out), r.size, 1, 0, &s);
            }
        }
        ctx.note(&format!("nest stack probe, {label}: no crash up to depth {deepest}"));
    }
}

/// sample packets of every type the crate parses
fn sample_packets(ctx: &mut Ctx) -> Vec<(String, Vec<u8>)> {
    let mut rng = ChaCha8Rng::seed_from_u64(1919);
    let mut out: Vec<(String, Vec<u8>)> = Vec::new();
    let k4 = keys::ed25519_x25519(&mut rng, KeyVersion::V4);
    let k6 = keys::ed25519_x25519(&mut rng, KeyVersion::V6);
    let kr = keys::rsa2048(&mut rng);
    let kl = keys::eddsa_legacy_ecdh(&mut rng);
    let add_stream = |name: &str, bytes: &[u8], out: &mut Vec<(String, Vec<u8>)>| {
        // split a packet stream into single packets using the real parser's header reader
        let mut pos = 0usize;
        let mut i = 0;
        while pos < bytes.len() {
            let mut src = &bytes[pos..];
            let before = src.len();
            let mut pp = PacketParser::new(&mut src);
            let Some(Ok(mut body)) = pp.next_ref() else { break };
            let tag: u8 = body.packet_header().tag().into();
            if drain(&mut body).is_err() {
                break;
            }
            drop(body);
            drop(pp);
            let used = before - src.len();
            out.push((format!("{name}#{i}:tag{tag}"), bytes[pos..pos + used].to_vec()));
            pos += used;
            i += 1;
        }
    };
    for (n, k) in [("seckey-v4", &k4), ("seckey-v6", &k6), ("seckey-rsa", &kr), ("seckey-legacy", &kl)] {
        if let Ok(b) = k.to_bytes() {
            add_stream(n, &b, &mut out);
        }
        if let Ok(b) = k.to_public_key().to_bytes() {
            add_stream(&format!("pub-{n}"), &b, &mut out);
        }
    }
    // locked secret key (S2K fields present)
    {
        let mut k = k4.clone();
        let _ = k.primary_key.set_password_with_s2k(&Password::from("pw"), pgp::types::S2kParams::Cfb {
            sym_alg: SymmetricKeyAlgorithm::AES128,
            s2k: StringToKey::new_iterated(&mut rng, HashAlgorithm::Sha256, 10),
            iv: vec![3u8; 16].into(),
        });
        if let Ok(b) = k.to_bytes() {
            add_stream("seckey-locked", &b[..], &mut out);
        }
    }
    // messages: signed+compressed, password+pk encrypted v1 and v2
    let mut msgs: Vec<(String, Vec<u8>)> = Vec::new();
    {
        let mut b = MessageBuilder::from_bytes("f", pattern(1, 300));
        b.sign(&*k4, Password::empty(), HashAlgorithm::Sha256);
        b.compression(CompressionAlgorithm::ZLIB);
        if let Ok(v) = b.to_vec(&mut rng) {
            msgs.push(("msg-zip-signed".into(), v));
        }
        let mut b = MessageBuilder::from_bytes("f", pattern(2, 300));
        b.sign(&*k6, Password::empty(), HashAlgorithm::Sha512);
        if let Ok(v) = b.to_vec(&mut rng) {
            msgs.push(("msg-signed-v6".into(), v));
        }
        let mut b = MessageBuilder::from_bytes("f", pattern(3, 300)).seipd_v1(&mut rng, SymmetricKeyAlgorithm::AES128);
        let _ = b.encrypt_with_password(StringToKey::new_iterated(&mut rng, HashAlgorithm::Sha256, 5), &Password::from("pw"));
        let _ = b.encrypt_to_key(&mut rng, &k4.secret_subkeys[0].public_key());
        let _ = b.encrypt_to_key(&mut rng, &kr.secret_subkeys[0].public_key());
        if let Ok(v) = b.to_vec(&mut rng) {
            msgs.push(("msg-seipd1".into(), v));
        }
        let mut b = MessageBuilder::from_bytes("f", pattern(4, 300)).seipd_v2(&mut rng, SymmetricKeyAlgorithm::AES128, AeadAlgorithm::Ocb, ChunkSize::C64B);
        let a2 = StringToKey::new_argon2(&mut rng, 1, 1, 10);
        let _ = b.encrypt_with_password(&mut rng, a2, &Password::from("pw"));
        let _ = b.encrypt_to_key(&mut rng, &k6.secret_subkeys[0].public_key());
        if let Ok(v) = b.to_vec(&mut rng) {
            msgs.push(("msg-seipd2".into(), v));
        }
    }
    for (n, m) in &msgs {
        add_stream(n, m, &mut out);
    }
    out.push(("marker".into(), new_packet(10, b"PGP")));
    out.push(("padding".into(), new_packet(21, &[9u8; 16])));
    out.push(("trust".into(), new_packet(12, &[1, 2, 3])));
    out.push(("user-attribute".into(), new_packet(17, &[18, 1, 16, 0, 1, 1, 0, 0, 0, 0, 0, 0, 0, 0, 0, 0, 0, 0xFF, 0xD8])));
    // (attribute subpackets of a type the library does not know, in the one-, two- and five-octet length forms)
    out.push(("user-attribute-unknown".into(), new_packet(17, &[9, 100, 1, 2, 3, 4, 5, 6, 7, 8])));
    out.push(("user-attribute-unknown-5".into(), new_packet(17, &[255, 0, 0, 0, 9, 100, 1, 2, 3, 4, 5, 6, 7, 8])));
    out.push(("user-attribute-image-5".into(), new_packet(17, &[255, 0, 0, 0, 18, 1, 16, 0, 1, 1, 0, 0, 0, 0, 0, 0, 0, 0, 0, 0, 0, 0xFF, 0xD8])));
    out.push(("sed".into(), new_packet(9, &[1u8; 40])));
    out.push(("mdc".into(), new_packet(19, &[2u8; 20])));
    out.push(("gnupg-aead".into(), new_packet(20, &[1, 9, 2, 6, 1, 2, 3, 4, 5, 6, 7, 8, 9, 10, 11, 12, 13, 14, 15, 1, 2, 3, 4, 5, 6, 7, 8, 9, 10, 11, 12, 13, 14, 15, 16])));
    out.push(("sig-v3".into(), new_packet(2, &[3, 5, 0, 0, 0, 0, 1, 1, 2, 3, 4, 5, 6, 7, 8, 1, 8, 0xAB, 0xCD, 0, 8, 0xFF])));
    out.push(("nest-v4-3".into(), new_packet(2, &nest_sig(4, 3))));
    out.push(("nest-v6-2".into(), new_packet(2, &nest_sig(6, 2))));
    out.push(("experimental".into(), new_packet(60, &[1, 2, 3])));
    ctx.stat_n("declared:sample-packets", out.len() as u64);
    // whole streams too (keys and messages as units)
    for (n, k) in [("key-v4", &k4), ("key-v6", &k6), ("key-rsa", &kr)] {
        if let Ok(b) = k.to_bytes() {
            out.push((format!("stream:{n}:sec"), b));
        }
        if let Ok(b) = k.to_public_key().to_bytes() {
            out.push((format!("stream:{n}:pub"), b));
        }
    }
    for (n, m) in msgs {
        out.push((format!("stream:{n}"), m));
    }
    out
}

/// every length field of every packet type set to 2^16..2^32-1 over a short body: realised as a
/// sweep that overwrites *every* offset of every sample packet with the large 1/2/4-octet values
/// (so every length, count and size field is hit wherever it lies), plus the outer packet lengths
fn sec_declared(ctx: &mut Ctx, cal: &Calib) {
    let samples = sample_packets(ctx);
    let pats: Vec<Vec<u8>> = vec![
        vec![0xFF],
        vec![0xFF, 0xFF],
        vec![0x01, 0x00, 0x00],
        vec![0x00, 0x01, 0x00, 0x00],
        vec![0x7F, 0xFF, 0xFF, 0xFF],
        vec![0xFF, 0xFF, 0xFF, 0xFF],
        vec![0xFF, 0xFF, 0xFF, 0xFF, 0xFF],
        // five-octet length forms announcing 1 MiB / 16 MiB / 256 MiB (an allocation of the announced
        // size succeeds at these sizes and shows in the peak)
        vec![0xFF, 0x00, 0x10, 0x00, 0x00],
        vec![0xFF, 0x01, 0x00, 0x00, 0x00],
        vec![0xFF, 0x10, 0x00, 0x00, 0x00],
        vec![0xE0 | 30],
    ];
    let mut worst_peak: (usize, String) = (0, String::new());
    let mut worst_time: (u128, String) = (0, String::new());
    for (name, pk) in &samples {
        let is_stream = name.starts_with("stream:");
        let stride = if ctx.thorough() { 1 } else if pk.len() > 400 { 7 } else if is_stream { 3 } else { 1 };
        let mut variants: Vec<(String, Vec<u8>)> = Vec::new();
        variants.push(("orig".into(), pk.clone()));
        // the outer header: declared body lengths far beyond what follows
        if !is_stream && pk.len() >= 6 {
            let tag = pk[0] & 0x3F;
            let body = &pk[6..];
            for decl in [0x1_0000usize, 0x10_0000, 0x7FFF_FFFF, 0xFFFF_FFFF] {
                let mut v = vec![0xC0 | tag, 255];
                v.extend_from_slice(&be32(decl));
                v.extend_from_slice(body);
                variants.push((format!("outer-new5={decl}"), v));
                if tag < 16 {
                    let mut v = vec![0x80 | (tag << 2) | 2];
                    v.extend_from_slice(&be32(decl));
                    v.extend_from_slice(body);
                    variants.push((format!("outer-old4={decl}"), v));
                }
            }
            let mut v = vec![0x80 | ((tag & 15) << 2) | 1, 0xFF, 0xFF];
            v.extend_from_slice(body);
            variants.push(("outer-old2=65535".into(), v));
            let mut v = vec![0xC0 | tag, 224 + 30];
            v.extend_from_slice(body);
            variants.push(("outer-partial=2^30".into(), v));
        }
        let mut off = 0;
        while off < pk.len() {
            for (pi, p) in pats.iter().enumerate() {
                if off + p.len() > pk.len() {
                    continue;
                }
                if !ctx.thorough() && off > 96 && (off / stride + pi) % 3 != 0 {
                    continue;
                }
                let mut v = pk.clone();
                v[off..off + p.len()].copy_from_slice(p);
                variants.push((format!("off={off}:pat={}", hx(p)), v));
            }
            off += if off < 64 { 1 } else { stride };
        }
        for (vn, data) in &variants {
            for e in BINARY_ENTRIES {
                // keys only through the key parsers and the packet parser, messages through all
                if is_stream && name.contains("key") && e == Entry::Message {
                    continue;
                }
                let (out, s) = measure_entry(e, data, cal);
                let input = format!("sample={name} variant={vn} entry={e:?} data={}", if data.len() <= 600 { hx(data) } else { format!("{}..({} bytes)", hx(&data[..48]), data.len()) });
                ctx.oracle("no_panic", e.site(), &input, out != "panic", &out);
                judge(ctx, cal, e.site(), &input, data.len(), &s);
                if s.peak > worst_peak.0 {
                    worst_peak = (s.peak, format!("{name} {vn} {e:?} |input|={}", data.len()));
                }
                if s.time.as_micros() > worst_time.0 {
                    worst_time = (s.time.as_micros(), format!("{name} {vn} {e:?} |input|={}", data.len()));
                }
                ctx.stat(&format!("declared:{}", out.split(':').next().unwrap_or("")));
            }
        }
        // armored form of the original and of the outer-length variants through the armor entry points
        for (vn, data) in variants.iter().take(10) {
            let mut arm = Vec::new();
            if pgp::armor::write(&RawBytes(data), pgp::armor::BlockType::Message, &mut arm, None, true).is_err() {
                continue;
            }
            for e in [Entry::Dearmor, Entry::MessageArmor] {
                let (out, s) = measure_entry(e, &arm, cal);
                let input = format!("sample={name} variant={vn} entry={e:?} armored({} bytes)", arm.len());
                ctx.oracle("no_panic", e.site(), &input, out != "panic", &out);
                judge(ctx, cal, e.site(), &input, arm.len(), &s);
            }
        }
    }
    ctx.note(&format!("declared-size sweep: worst peak {} bytes at {}; worst time {} us at {}", worst_peak.0, worst_peak.1, worst_time.0, worst_time.1));
}

struct RawBytes<'a>(&'a [u8]);
impl Serialize for RawBytes<'_> {
    fn to_writer<W: std::io::Write>(&self, w: &mut W) -> pgp::errors::Result<()> {
        w.write_all(self.0)?;
        Ok(())
    }
    fn write_len(&self) -> usize {
        self.0.len()
    }
}

/// 10^5 repeated small packets, nested containers
fn sec_repeated(ctx: &mut Ctx, cal: &Calib, out_dir: &str) {
    let n = ctx.pick(100_000, 100_000);
    for kind in ["marker", "padding", "sig", "trust", "uid", "exp"] {
        for e in [Entry::PacketParser, Entry::Message, Entry::PublicKey, Entry::DetachedSig] {
            if e == Entry::DetachedSig && kind != "sig" {
                continue;
            }
            // in a child process first (a recursion in the parser would kill the harness)
            let spec = format!("sigs {kind} {n} 0 {}", match e { Entry::Message => "msg", Entry::PublicKey => "pub", Entry::DetachedSig => "det", _ => "pp" });
            let r = run_probe(&spec, out_dir);
            let input = format!("repeated kind={kind} n={n} entry={e:?} |input|={}", r.size);
            ctx.oracle("no_crash", e.site(), &input, r.crashed.is_none(), &r.crashed.clone().unwrap_or_default());
            if r.crashed.is_none() {
                let s = Stats { peak: r.peak, total: r.total, count: 0, time: Duration::from_micros(r.time_us as u64), wall: Duration::from_micros(r.time_us as u64), events: vec![] };
                judge_n(ctx, cal, e.site(), &format!("{input} out={}", r.out), r.size, n + 1, 0, &s);
                ctx.stat(&format!("repeated:{kind}:{}", r.out.split(':').next().unwrap_or("")));
            }
        }
    }
    // many one-pass signatures over a large literal: every signature packet is a hasher that sees the
    // whole message
    let mut ops_series: Vec<(usize, Duration)> = Vec::new();
    for (d, l) in [(10usize, 1usize << 20), (100, 1 << 20), (1000, 1 << 20), (ctx.pick(4000, 20_000), 1 << 20)] {
        let r = run_probe(&format!("opslit {l} {d} 0 msg"), out_dir);
        let site = Entry::Message.site();
        let input = format!("one-pass signatures n={d} over a literal of {l} octets |input|={}", r.size);
        ctx.oracle("no_crash", site, &input, r.crashed.is_none(), &r.crashed.clone().unwrap_or_default());
        if r.crashed.is_none() {
            let s = Stats { peak: r.peak, total: r.total, count: 0, time: Duration::from_micros(r.time_us as u64), wall: Duration::from_micros(r.time_us as u64), events: vec![] };
            judge_n(ctx, cal, site, &format!("{input} out={}", r.out), r.size, 2 * d + 1, 0, &s);
            ctx.note(&format!("opslit n={d} l={l}: out={} |input|={} peak={} time_us={}", r.out, r.size, r.peak, r.time_us));
            ops_series.push((r.size, Duration::from_micros(r.time_us as u64)));
        }
    }
    judge_scaling(ctx, Entry::Message.site(), "one-pass signatures n=10,100,1000,.. over a literal of 1048576 octets", &ops_series);
    // nested containers: depth sweep (child process, default main-thread stack)
    let depths: Vec<usize> = if ctx.thorough() { vec![1, 10, 100, 1000, 10_000, 100_000] } else { vec![1, 10, 100, 1000, 10_000] };
    // compressed layers are opened one by one by the caller (`Message::decompress`); the sweep stops at 10^4
    for kind in ["ops", "zip"] {
        for &d in &depths {
            if kind == "zip" && d > 10_000 {
                continue;
            }
            let r = run_probe(&format!("{kind} 0 {d} 0 msg"), out_dir);
            let site = Entry::Message.site();
            let input = format!("nested kind={kind} depth={d} |input|={}", r.size);
            ctx.oracle("no_crash", site, &input, r.crashed.is_none(), &r.crashed.clone().unwrap_or_default());
            if r.crashed.is_none() {
                let s = Stats { peak: r.peak, total: r.total, count: 0, time: Duration::from_micros(r.time_us as u64), wall: Duration::from_micros(r.time_us as u64), events: vec![] };
                let (packets, levels) = if kind == "ops" { (2 * d + 1, 0) } else { (d + 1, d) };
                judge_n(ctx, cal, site, &format!("{input} out={}", r.out), r.size, packets, levels, &s);
                ctx.stat(&format!("nested:{kind}:{}", r.out.split(':').next().unwrap_or("")));
                if d >= 1000 {
                    ctx.note(&format!("nested {kind} depth={d}: out={} |input|={} peak={} time_us={}", r.out, r.size, r.peak, r.time_us));
                }
            }
        }
    }
}

/// well-formed large messages streamed through the reader: peak must not depend on the size
fn sec_stream(ctx: &mut Ctx, cal: &Calib, out_dir: &str) {
    let mut rng = ChaCha8Rng::seed_from_u64(ctx.seed ^ 0x19_09);
    let sizes: Vec<usize> = if ctx.thorough() { vec![1 << 16, 1 << 20, 1 << 24, 1 << 28] } else { vec![1 << 16, 1 << 20, 1 << 24] };
    let path = format!("{out_dir}/c19-stream.bin");
    let key = vec![0x42u8; 16];
    #[derive(Clone, Copy, Debug)]
    enum K {
        Literal,
        Zlib,
        V1Streaming,
        V1CheckFirst,
        V2(u8),
    }
    let kinds = [K::Literal, K::Zlib, K::V1Streaming, K::V1CheckFirst, K::V2(0), K::V2(6), K::V2(10), K::V2(16)];
    for kind in kinds {
        let mut peaks: Vec<(usize, usize)> = Vec::new();
        let mut tseries: Vec<(usize, Duration)> = Vec::new();
        for &n in &sizes {
            // build (not measured), streamed to a file
            let built = (|| -> Result<(), String> {
                let f = std::fs::File::create(&path).map_err(|e| e.to_string())?;
                let mut w = std::io::BufWriter::new(f);
                let src = PatternReader { pos: 0, n, seed: 5 };
                match kind {
                    K::Literal => {
                        let mut b = MessageBuilder::from_reader("f", src);
                        b.partial_chunk_size(1 << 16).map_err(|e| e.to_string())?;
                        b.to_writer(&mut rng, &mut w).map_err(|e| e.to_string())?;
                    }
                    K::Zlib => {
                        let mut b = MessageBuilder::from_reader("f", src);
                        b.compression(CompressionAlgorithm::ZLIB);
                        b.to_writer(&mut rng, &mut w).map_err(|e| e.to_string())?;
                    }
                    K::V1Streaming | K::V1CheckFirst => {
                        let mut b = MessageBuilder::from_reader("f", src).seipd_v1(&mut rng, SymmetricKeyAlgorithm::AES128);
                        b.set_session_key(key.clone().into()).map_err(|e| e.to_string())?;
                        b.to_writer(&mut rng, &mut w).map_err(|e| e.to_string())?;
                    }
                    K::V2(o) => {
                        let cs = ChunkSize::try_from(o).map_err(|e| e.to_string())?;
                        let mut b = MessageBuilder::from_reader("f", src).seipd_v2(&mut rng, SymmetricKeyAlgorithm::AES128, AeadAlgorithm::Ocb, cs);
                        b.set_session_key(key.clone().into()).map_err(|e| e.to_string())?;
                        b.to_writer(&mut rng, &mut w).map_err(|e| e.to_string())?;
                    }
                }
                w.flush().map_err(|e| e.to_string())?;
                Ok(())
            })();
            if let Err(e) = built {
                ctx.note(&format!("stream build {kind:?} n={n}: {e}"));
                continue;
            }
            let flen = std::fs::metadata(&path).map(|m| m.len() as usize).unwrap_or(0);
            let limit = 1usize << 22;
            // read back (measured): file -> BufReader -> Message -> (decrypt) -> drain
            let (res, s) = measure_min(2, Duration::from_millis(20), || {
                guarded(|| -> Result<usize, String> {
                    let f = std::fs::File::open(&path).map_err(|e| e.to_string())?;
                    let m = Message::from_bytes(BufReader::new(f)).map_err(|e| e.to_string())?;
                    let m = match kind {
                        K::Literal | K::Zlib => m,
                        K::V2(_) => m.decrypt_with_session_key(PlainSessionKey::V6 { key: key.clone().into() }).map_err(|e| e.to_string())?,
                        K::V1Streaming | K::V1CheckFirst => {
                            let mode = if matches!(kind, K::V1Streaming) { Seipdv1ReadMode::Streaming } else { Seipdv1ReadMode::CheckFirst { max_message_size: limit } };
                            let ring = TheRing {
                                session_keys: vec![PlainSessionKey::V3_4 { key: key.clone().into(), sym_alg: SymmetricKeyAlgorithm::AES128 }],
                                decrypt_options: DecryptionOptions::new().set_seipdv1_read_mode(mode),
                                ..Default::default()
                            };
                            m.decrypt_the_ring(ring, true).map_err(|e| e.to_string())?.0
                        }
                    };
                    read_message(m)
                })
            });
            let got = match &res {
                Ok(Ok(k)) => format!("ok:{k}"),
                Ok(Err(e)) => format!("err:{e}"),
                Err(_) => "panic".into(),
            };
            let input = format!("stream kind={kind:?} n={n} file={flen}");
            let cs = match kind { K::V2(o) => 1usize << (o as usize + 6), _ => 0 };
            let kname = match kind { K::Literal => "literal", K::Zlib => "zlib", K::V1Streaming => "v1stream", K::V1CheckFirst => "v1checkfirst", K::V2(_) => "v2" };
            ctx.case(format!("within_stream kind={kname} cs={cs} n={n} limit={limit} peak={}", s.peak), "ok:1".into());
            match kind {
                K::V1CheckFirst => {
                    // "except the documented whole-message buffering of default-mode SEIPDv1, which is capped by its configured limit"
                    let over = n + 64 > limit;
                    ctx.oracle("checkfirst_capped", "crypto/sym/decryptor.rs CheckFirst", &input, s.peak <= 2 * limit.min(flen) + 3 * limit.min(flen) / 2 + B && (over == got.starts_with("err")), &format!("{got} {}", fmt_stats(&s)));
                }
                _ => {
                    ctx.oracle("stream_returns_all", Entry::Message.site(), &input, got == format!("ok:{n}"), &got);
                    // the fixed bound: independent of n; for SEIPDv2 the 2*(chunk+16) window is part of it
                    let fixed = 1024 * 1024 + 6 * (cs + 16);
                    ctx.oracle("stream_bounded", Entry::Message.site(), &input, s.peak <= fixed, &format!("bound={fixed} {}", fmt_stats(&s)));
                }
            }
            ctx.oracle("time_linear", Entry::Message.site(), &input, s.time <= cal.time_bound(flen), &fmt_stats(&s));
            peaks.push((n, s.peak));
            if !matches!(kind, K::V1CheckFirst) {
                tseries.push((flen, s.time));
            }
            ctx.stat(&format!("stream:{kname}"));
        }
        judge_scaling(ctx, Entry::Message.site(), &format!("stream kind={kind:?}"), &tseries);
        ctx.note(&format!("stream {kind:?}: (n, peak) = {peaks:?}"));
    }
    let _ = std::fs::remove_file(&path);
    // SEIPDv2 with a tiny body and every chunk-size octet: the window is allocated up front from the
    // one-octet chunk size field (documented fixed bound 2*(chunk+16), at most 2*(4 MiB+16))
    for o in 0u8..=16 {
        let Ok(cs) = ChunkSize::try_from(o) else { continue };
        let ct = vec![0u8; 40];
        let (r, s) = measure(|| guarded(|| StreamDecryptor::v2(SymmetricKeyAlgorithm::AES128, AeadAlgorithm::Ocb, cs, &[1u8; 32], &key, &ct[..]).map(|d| drain(d))));
        let _ = r;
        let csb = 1usize << (o as usize + 6);
        ctx.case(format!("within_stream kind=v2 cs={csb} n=0 limit=0 peak={}", s.peak), "ok:1".into());
        ctx.oracle("stream_bounded", "crypto/aead/decryptor.rs StreamDecryptor::new_rfc9580", &format!("chunk_size_octet={o} body=40 bytes"), s.peak <= 65536 + 4 * (csb + 16), &fmt_stats(&s));
    }
    // SEIPDv1 CheckFirst admission is exactly `data <= max_message_size`
    for (max, n) in [(100usize, 50usize), (100, 78), (100, 79), (100, 100), (1000, 978), (1000, 979), (22, 0), (21, 0), (0, 0), (8192, 8170), (8192, 8171)] {
        let pt = pattern(3, n);
        let Ok(pkt) = pgp::packet::SymEncryptedProtectedData::encrypt_seipdv1(&mut rng, SymmetricKeyAlgorithm::AES128, &key, &pt) else { continue };
        let ct = pkt.data().to_vec();
        let (r, s) = measure(|| guarded(|| StreamDecryptor::v1(SymmetricKeyAlgorithm::AES128, Seipdv1ReadMode::CheckFirst { max_message_size: max }, &key, &ct[..]).map(|d| drain(d))));
        let ans = match r {
            Ok(Ok(Ok(k))) => format!("ok:{k}"),
            Ok(_) => "err".into(),
            Err(_) => "panic".into(),
        };
        ctx.case(format!("checkfirst_cap bs=16 max={max} n={n}"), ans);
        ctx.oracle("checkfirst_capped", "crypto/sym/decryptor.rs CheckFirst", &format!("max={max} n={n}"), s.peak <= 3 * max + 8192 * 2 + 4096, &fmt_stats(&s));
    }
    // ... for every cipher SEIPDv1 can be read with: the configured cap and the streaming window are
    // the caller's, whichever arm of the per-cipher dispatch is taken
    use SymmetricKeyAlgorithm as S;
    for alg in [S::IDEA, S::TripleDES, S::CAST5, S::Blowfish, S::AES128, S::AES192, S::AES256, S::Twofish, S::Camellia128, S::Camellia192, S::Camellia256] {
        let bs = alg.block_size();
        let akey = vec![0x5au8; alg.key_size()];
        for max in [100usize, 1000, 16384] {
            for n in [max.saturating_sub(23), max.saturating_sub(22), max.saturating_sub(21), max.saturating_sub(24 + bs), max, 4 * max] {
                let pt = pattern(5, n);
                let Ok(pkt) = pgp::packet::SymEncryptedProtectedData::encrypt_seipdv1(&mut rng, alg, &akey, &pt) else {
                    ctx.stat(&format!("checkfirst_cap:cannot_encrypt:{alg:?}"));
                    continue;
                };
                let ct = pkt.data().to_vec();
                let (r, s) = measure(|| guarded(|| StreamDecryptor::v1(alg, Seipdv1ReadMode::CheckFirst { max_message_size: max }, &akey, &ct[..]).map(|d| drain(d))));
                let ans = match r {
                    Ok(Ok(Ok(k))) => format!("ok:{k}"),
                    Ok(_) => "err".into(),
                    Err(_) => "panic".into(),
                };
                ctx.case(format!("checkfirst_cap bs={bs} max={max} n={n}"), ans);
                ctx.oracle("checkfirst_capped", "crypto/sym/decryptor.rs CheckFirst (every cipher)", &format!("alg={alg:?} max={max} n={n}"), s.peak <= 3 * max + 8192 * 2 + 4096, &fmt_stats(&s));
            }
        }
        // streaming: a 1 MiB message never has more than the window in memory
        let n = 1usize << 20;
        let pt = pattern(6, n);
        let Ok(pkt) = pgp::packet::SymEncryptedProtectedData::encrypt_seipdv1(&mut rng, alg, &akey, &pt) else { continue };
        let ct = pkt.data().to_vec();
        drop(pt);
        let (r, s) = measure(|| guarded(|| StreamDecryptor::v1(alg, Seipdv1ReadMode::Streaming, &akey, &ct[..]).map(|d| drain(d))));
        let good = matches!(r, Ok(Ok(Ok(k))) if k == n);
        ctx.oracle("stream_bounded", "crypto/sym/decryptor.rs Streaming (every cipher)", &format!("alg={alg:?} n={n}"), good && s.peak <= 65536, &format!("read_ok={good} {}", fmt_stats(&s)));
        ctx.stat("v1_cipher_sweep");
    }
}

/// armor: header / footer accumulation with a limit; never-ending lines
fn sec_armor(ctx: &mut Ctx, cal: &Calib) {
    let site = "armor/reader.rs read_from_buf (via Dearmor)";
    // exact: how many bytes are pulled from the source before "input too large"
    for limit in [1usize, 10, 100, 1000, 8192, 10000] {
        for chunk in [1usize, 7, 64, 100, 1000, 8192] {
            for n in [0usize, 5, 99, 100, 101, 999, 1000, 1001, 20000] {
                if chunk == 1 && n > 1001 && limit > 1000 {
                    continue;
                }
                // leading garbage that never contains "-----": the header parser stays Incomplete
                let data = vec![b'a'; n];
                let chunks: Vec<Vec<u8>> = data.chunks(chunk).map(|c| c.to_vec()).collect();
                let mut src = ChunkBuf::new(&chunks);
                let (out, s) = measure(|| {
                    guarded(|| {
                        let mut d = Dearmor::with_options(&mut src, DearmorOptions::new().set_limit(limit));
                        drain(&mut d).map_err(|e| if e.contains("input too large") { "toolarge" } else { "other" })
                    })
                });
                let consumed = src.consumed;
                let ans = match out {
                    Ok(Ok(k)) => format!("ok:{k}"),
                    Ok(Err(w)) => format!("err:{w}:{consumed}"),
                    Err(_) => "panic".into(),
                };
                ctx.case(format!("armor_limit limit={limit} chunk={chunk} n={n}"), ans);
                ctx.oracle("armor_backbuffer_capped", site, &format!("limit={limit} chunk={chunk} n={n}"), s.peak <= 3 * (limit + chunk) + 4096, &fmt_stats(&s));
            }
        }
    }
    // time: a long never-ending header over a chunked source (default 1 GiB limit)
    let sizes: Vec<usize> = if ctx.thorough() { vec![1 << 16, 1 << 18, 1 << 20, 1 << 22, 1 << 24, 1 << 26] } else { vec![1 << 16, 1 << 18, 1 << 20, 1 << 22] };
    for shape in ["garbage", "header-value", "body-line", "footer"] {
        let mut pts = Vec::new();
        let mut series: Vec<(usize, Duration)> = Vec::new();
        for &n in &sizes {
            let mut data: Vec<u8> = Vec::new();
            match shape {
                "garbage" => data.extend(std::iter::repeat(b'a').take(n)),
                "header-value" => {
                    data.extend_from_slice(b"-----BEGIN PGP MESSAGE-----\nComment: ");
                    data.extend(std::iter::repeat(b'a').take(n));
                }
                "body-line" => {
                    data.extend_from_slice(b"-----BEGIN PGP MESSAGE-----\n\n");
                    data.extend(std::iter::repeat(b'A').take(n));
                }
                _ => {
                    data.extend_from_slice(b"-----BEGIN PGP MESSAGE-----\n\nAAAA\n=");
                    data.extend(std::iter::repeat(b'\n').take(n));
                }
            }
            let (out, s) = measure_min(3, Duration::from_millis(2), || run_entry(Entry::Dearmor, &data));
            let input = format!("armor shape={shape} n={n}");
            judge(ctx, cal, Entry::Dearmor.site(), &format!("{input} out={out}"), data.len(), &s);
            pts.push((n, s.time.as_micros(), s.peak));
            series.push((data.len(), s.time));
        }
        judge_scaling(ctx, Entry::Dearmor.site(), &format!("armor shape={shape} (BufReader 8 KiB)"), &series);
        ctx.note(&format!("armor {shape}: (n, time_us, peak) = {pts:?}"));
    }
}

/// NormalizedReader: window fixed, output block <= 2*window+1
fn sec_normalized(ctx: &mut Ctx, cal: &Calib) {
    use pgp::line_writer::LineBreak;
    use pgp::normalize_lines::NormalizedReader;
    let site = "normalize_lines.rs NormalizedReader";
    for &n in &[0usize, 1, 511, 512, 513, 1 << 16, ctx.pick(1 << 22, 1 << 26)] {
        for fill in [b'\n', b'\r', b'x'] {
            struct Rep(usize, u8);
            impl Read for Rep {
                fn read(&mut self, buf: &mut [u8]) -> std::io::Result<usize> {
                    let k = buf.len().min(self.0);
                    buf[..k].fill(self.1);
                    self.0 -= k;
                    Ok(k)
                }
            }
            let (out, s) = measure(|| guarded(|| drain(NormalizedReader::new(Rep(n, fill), LineBreak::Crlf))));
            let expect = if fill == b'\n' { 2 * n } else { n };
            ctx.oracle("stream_returns_all", site, &format!("n={n} fill={fill}"), matches!(out, Ok(Ok(k)) if k == expect), &format!("{out:?}"));
            ctx.case(format!("within_stream kind=normalized cs=0 n={n} limit=0 peak={}", s.peak), "ok:1".into());
            ctx.oracle("stream_bounded", site, &format!("n={n} fill={fill}"), s.peak <= 16384, &fmt_stats(&s));
            ctx.oracle("time_linear", site, &format!("n={n} fill={fill}"), s.time <= cal.time_bound(n), &fmt_stats(&s));
        }
    }
}

/// a source that is generated while it is read: segments of literal octets and runs of a fill octet
#[derive(Debug, Clone)]
struct SegReader {
    segs: Vec<(Vec<u8>, usize, u8)>,
    at: usize,
    off: usize,
}

impl SegReader {
    fn new(segs: Vec<(Vec<u8>, usize, u8)>) -> Self {
        SegReader { segs, at: 0, off: 0 }
    }
}

impl Read for SegReader {
    fn read(&mut self, buf: &mut [u8]) -> std::io::Result<usize> {
        while self.at < self.segs.len() {
            let (pre, run, fill) = &self.segs[self.at];
            let total = pre.len() + *run;
            if self.off >= total {
                self.at += 1;
                self.off = 0;
                continue;
            }
            if self.off < pre.len() {
                let k = buf.len().min(pre.len() - self.off);
                buf[..k].copy_from_slice(&pre[self.off..self.off + k]);
                self.off += k;
                return Ok(k);
            }
            let k = buf.len().min(total - self.off);
            buf[..k].fill(*fill);
            self.off += k;
            return Ok(k);
        }
        Ok(0)
    }
}

/// packets the message reader skips (Padding, Marker, unassigned non-critical, experimental) of any
/// size, in front of and behind the data packet of a streamed message: skipped means not kept
fn sec_skipped(ctx: &mut Ctx, cal: &Calib) {
    let site = "composed/message (parser.rs skipped packets, types.rs check_trailing_data) over a streamed source";
    let sizes: Vec<usize> = if ctx.thorough() { vec![1 << 10, 1 << 16, 1 << 24, 1 << 28] } else { vec![1 << 10, 1 << 16, 1 << 24] };
    let lit = literal_packet(b"hello");
    for tag in [21u8, 10, 40, 60] {
        for place in ["before", "after", "both"] {
            for &n in &sizes {
                // new-format header, five-octet length
                let mut hdr = vec![0xC0 | tag, 0xFF];
                hdr.extend_from_slice(&(n as u32).to_be_bytes());
                let skipped = (hdr.clone(), n, if tag == 10 { b'P' } else { 0x55u8 });
                let data = (lit.clone(), 0usize, 0u8);
                let segs = match place {
                    "before" => vec![skipped.clone(), data.clone()],
                    "after" => vec![data.clone(), skipped.clone()],
                    _ => vec![skipped.clone(), data.clone(), skipped.clone()],
                };
                let total: usize = segs.iter().map(|s| s.0.len() + s.1).sum();
                let (res, s) = measure(|| {
                    guarded(|| {
                        let src = std::io::BufReader::with_capacity(8192, SegReader::new(segs.clone()));
                        let (mut m, _) = Message::from_reader(src).map_err(|e| e.to_string())?;
                        let mut out = Vec::new();
                        m.read_to_end(&mut out).map_err(|e| e.to_string())?;
                        Ok::<Vec<u8>, String>(out)
                    })
                });
                let got = match &res {
                    Ok(Ok(v)) => format!("ok:{}", String::from_utf8_lossy(v)),
                    Ok(Err(e)) => format!("err:{e}"),
                    Err(_) => "panic".into(),
                };
                let input = format!("skipped tag={tag} size={n} place={place} |input|={total}");
                // a Marker packet has a fixed body: a long one may be refused, but not buffered
                if tag != 10 {
                    ctx.oracle("stream_returns_all", site, &input, got == "ok:hello", &got);
                }
                ctx.oracle("stream_bounded", site, &input, s.peak <= 1024 * 1024, &format!("bound=1048576 {got} {}", fmt_stats(&s)));
                ctx.oracle("time_linear", site, &input, s.time <= cal.time_bound(total), &fmt_stats(&s));
                ctx.stat(&format!("skipped:{}", got.split(':').next().unwrap_or("")));
            }
        }
    }
}

/// a `BufRead` over a slice that counts how often it is asked (`fill_buf` / `read`) and fails after
/// `limit` requests: "work bounded by the input supplied", measured in requests to the source
#[derive(Debug)]
struct CountingSource<'a> {
    data: &'a [u8],
    pos: usize,
    /// octets handed out per `fill_buf` (0 = all that is left)
    drip: usize,
    polls: std::sync::Arc<std::sync::atomic::AtomicUsize>,
    limit: usize,
}

impl CountingSource<'_> {
    fn poll(&self) -> std::io::Result<()> {
        let n = self.polls.fetch_add(1, std::sync::atomic::Ordering::Relaxed);
        if n >= self.limit {
            return Err(std::io::Error::other("poll limit reached"));
        }
        Ok(())
    }
}

impl Read for CountingSource<'_> {
    fn read(&mut self, buf: &mut [u8]) -> std::io::Result<usize> {
        self.poll()?;
        let mut k = buf.len().min(self.data.len() - self.pos);
        if self.drip > 0 {
            k = k.min(self.drip);
        }
        buf[..k].copy_from_slice(&self.data[self.pos..self.pos + k]);
        self.pos += k;
        Ok(k)
    }
}

impl BufRead for CountingSource<'_> {
    fn fill_buf(&mut self) -> std::io::Result<&[u8]> {
        self.poll()?;
        let rest = &self.data[self.pos..];
        Ok(if self.drip > 0 { &rest[..rest.len().min(self.drip)] } else { rest })
    }
    fn consume(&mut self, amt: usize) {
        self.pos = (self.pos + amt).min(self.data.len());
    }
}

/// the entry points that look at the first octets to tell armored from binary input (and the plain
/// ones), on every input of one and two octets and on short inputs around text markers: the number of
/// requests made to the source is bounded by the input
fn sec_polls(ctx: &mut Ctx) {
    use pgp::composed::{CleartextSignedMessage, Deserializable, DetachedSignature, PublicOrSecret, SignedPublicKey, SignedSecretKey};
    let site = "from_reader* / from_armor* entry points: requests to the source per input octet";
    const LIMIT: usize = 20_000;
    let entries: [&str; 8] = ["Message::from_reader", "Message::from_armor", "SignedPublicKey::from_reader_single_buf", "SignedSecretKey::from_reader_many_buf", "DetachedSignature::from_reader_single_buf", "PublicOrSecret::from_reader_many_buf", "CleartextSignedMessage::from_armor_buf", "SignedPublicKey::from_armor_single_buf"];
    let mut inputs: Vec<Vec<u8>> = Vec::new();
    for a in 0..=255u8 {
        inputs.push(vec![a]);
    }
    let firsts: Vec<u8> = if ctx.thorough() { (0..=255u8).collect() } else { vec![0x00, 0x0A, 0x20, 0x2D, 0x7F, 0x80, 0x99, 0xC0, 0xC6, 0xCB, 0xD1, 0xEF, 0xFE, 0xFF] };
    for &a in &firsts {
        for b in 0..=255u8 {
            inputs.push(vec![a, b]);
        }
    }
    for pre in [&[0xEFu8, 0xBB][..], &[0xEF, 0xBB, 0xBF], &[0xFE, 0xFF], &[0xFF, 0xFE], b"-", b"--", b"-----", b"-----BEGIN", b"-----BEGIN PGP MESSAGE-----", b"-----BEGIN PGP MESSAGE-----\n", b"-----BEGIN PGP SIGNED MESSAGE-----\nHash: SHA256"] {
        for c in [None, Some(0x0Au8), Some(0x2D), Some(0xBF), Some(0xEF)] {
            let mut v = pre.to_vec();
            v.extend(c);
            inputs.push(v);
        }
    }
    let mut worst: Vec<(usize, String)> = Vec::new();
    let mut evals = 0u64;
    for (ei, entry) in entries.iter().enumerate() {
        let mut bad: Option<(String, usize)> = None;
        let mut max_polls = 0usize;
        for inp in &inputs {
            for drip in [0usize, 1] {
                let polls = std::sync::Arc::new(std::sync::atomic::AtomicUsize::new(0));
                let src = CountingSource { data: &inp[..], pos: 0, drip, polls: polls.clone(), limit: LIMIT };
                let r = guarded(|| match ei {
                    0 => Message::from_reader(src).map(|(mut m, _)| { let mut v = Vec::new(); let _ = m.read_to_end(&mut v); }).is_ok(),
                    1 => Message::from_armor(src).map(|(mut m, _)| { let mut v = Vec::new(); let _ = m.read_to_end(&mut v); }).is_ok(),
                    2 => SignedPublicKey::from_reader_single_buf(src).is_ok(),
                    3 => SignedSecretKey::from_reader_many_buf(src).map(|(it, _)| it.take(8).count()).is_ok(),
                    4 => DetachedSignature::from_reader_single_buf(src).is_ok(),
                    5 => PublicOrSecret::from_reader_many_buf(src).map(|(it, _)| it.take(8).count()).is_ok(),
                    6 => CleartextSignedMessage::from_armor_buf(src, Default::default()).is_ok(),
                    _ => SignedPublicKey::from_armor_single_buf(src).is_ok(),
                });
                let n = polls.load(std::sync::atomic::Ordering::Relaxed);
                max_polls = max_polls.max(n);
                evals += 1;
                let bound = 64 + 16 * inp.len();
                if (n > bound || r.is_err()) && bad.is_none() {
                    bad = Some((format!("entry={entry} input={} drip={drip}", hx(inp)), n));
                }
            }
        }
        match bad {
            Some((input, n)) => ctx.oracle("work_bounded_by_input", site, &input, false, &format!("{n} requests to the source (limit of the harness {LIMIT}; bound 64 + 16 per octet), or a panic")),
            None => ctx.oracle("work_bounded_by_input", site, &format!("entry={entry}: {} inputs of 1..50 octets x (whole slice | one octet per fill_buf)", inputs.len()), true, &format!("max requests {max_polls}")),
        }
        worst.push((max_polls, entry.to_string()));
    }
    ctx.stat_n("polls:evaluations", evals);
    ctx.note(&format!("polls: max requests per entry point = {worst:?}"));
}

/// cleartext signature framework: reading a document is linear in its size, whatever the number and
/// length of its lines (the body reader looks for the signature block after every line)
fn sec_cleartext(ctx: &mut Ctx, cal: &Calib) {
    use pgp::composed::CleartextSignedMessage;
    use pgp::types::Password;
    let site = "composed/cleartext.rs CleartextSignedMessage::from_string (read_cleartext_body)";
    let key = crate::keys::eddsa_legacy_ecdh(rand::thread_rng());
    let top = ctx.pick(1usize << 19, 1usize << 22);
    for (shape, line) in [("one-octet lines", "a\n"), ("crlf lines", "ab\r\n"), ("80-octet lines", "0123456789012345678901234567890123456789012345678901234567890123456789012345678\n"), ("dash lines", "- -\n")] {
        let mut series = Vec::new();
        let mut pts = Vec::new();
        let mut size = 1usize << 13;
        while size <= top {
            let text: String = line.repeat(size / line.len());
            // a document the library wrote itself (valid signature), and the bare framework around the
            // same text without a signature block ("unexpected early end" after the text was scanned)
            let signed = guarded(|| CleartextSignedMessage::sign(rand::thread_rng(), &text, &*key, &Password::empty()).and_then(|m| m.to_armored_string(Default::default())));
            let Ok(Ok(doc)) = signed else {
                ctx.oracle("no_crash", site, &format!("cleartext shape={shape} size={size}"), false, "could not sign / armor the text");
                break;
            };
            let (out, s) = measure_min(3, Duration::from_millis(2), || {
                guarded(|| CleartextSignedMessage::from_string(&doc).map(|(m, _)| m.text().len())).map(|r| r.map_err(|e| e.to_string()))
            });
            let input = format!("cleartext shape={shape} |text|={} lines={}", text.len(), size / line.len());
            ctx.oracle("stream_returns_all", site, &input, matches!(out, Ok(Ok(_))), &format!("{out:?}"));
            judge(ctx, cal, site, &input, doc.len(), &s);
            pts.push((doc.len(), s.time.as_micros(), s.peak));
            series.push((doc.len(), s.time));
            let bare = format!("-----BEGIN PGP SIGNED MESSAGE-----\nHash: SHA256\n\n{text}");
            let (_, s2) = measure_min(3, Duration::from_millis(2), || guarded(|| CleartextSignedMessage::from_string(&bare).is_ok()));
            judge(ctx, cal, site, &format!("{input} (no signature block)"), bare.len(), &s2);
            size *= 4;
        }
        judge_scaling(ctx, site, &format!("cleartext shape={shape}"), &series);
        ctx.note(&format!("cleartext {shape}: (|doc|, time_us, peak) = {pts:?}"));
    }
}

pub fn run(ctx: &mut Ctx) {
    // errors of the crate carry an optional backtrace; with RUST_BACKTRACE=1 in the environment
    // capturing/formatting it costs tens of MB per error, which is the debugging aid and not rpgp
    std::env::set_var("RUST_LIB_BACKTRACE", "0");
    std::env::set_var("RUST_BACKTRACE", "0");
    if let Ok(spec) = std::env::var("VERIF_C19_PROBE") {
        probe_main(&spec);
    }
    let out_dir = std::env::args().collect::<Vec<_>>().windows(2).find(|w| w[0] == "--out").map(|w| w[1].clone()).unwrap_or_else(|| "work".into());
    let only = std::env::var("C19_ONLY").ok();
    let want = |s: &str| only.as_deref().map(|o| o.split(',').any(|x| x == s)).unwrap_or(true);
    let cal = calibrate();
    ctx.note(&format!("calibration: time bound = {:.0} ns/byte * |input| + 100 ms; peak bound = 8*|input| + 4 MiB", cal.ns_per_byte));
    if want("take") { sec_take_bytes(ctx, &cal); }
    if want("mpi") { sec_mpi(ctx, &cal); }
    if want("sub") { sec_subpackets(ctx, &cal); }
    if want("s2k") { sec_s2k(ctx, &cal); }
    if want("nest") { sec_nest(ctx, &cal, &out_dir); }
    if want("declared") { sec_declared(ctx, &cal); }
    if want("repeated") { sec_repeated(ctx, &cal, &out_dir); }
    if want("stream") { sec_stream(ctx, &cal, &out_dir); }
    if want("armor") { sec_armor(ctx, &cal); }
    if want("norm") { sec_normalized(ctx, &cal); }
    if want("cleartext") { sec_cleartext(ctx, &cal); }
    if want("skipped") { sec_skipped(ctx, &cal); }
    if want("polls") { sec_polls(ctx); }
}
