import RpgpProofs.Policy
import RpgpProofs.Wire
/-!
# C15 — version-alignment and criticality rules are enforced on every path

Model: `RpgpModel/Policy.lean` (decision tables exactly as coded).  The literals — version
discriminants, the arguments of the four `esk_filter` call sites, the reader and writer tables of
the signature-subpacket registry, and five structural facts ("this entry point calls that guard")
— are re-extracted from the source on every run (`RpgpModel/Gen/Constants.lean`,
`tools/constants/policy.py`).

Every statement below is over *all* inputs: every version octet (not only the assigned ones),
every list of ESK packets, every list of hashed/unhashed subpackets, every ring, every
certificate shape.  Primitive answers (`cryptoOk`, `prefixOk`, "this ESK opens") are fields of the
input and are universally quantified: the rules hold whatever the primitives say.
-/
namespace Rpgp.C15
open Rpgp Rpgp.Policy

/-! ## 0. the constants are the RFC's and the use sites agree -/

theorem version_enums_rfc :
    Gen.pkeskV3 = 3 ∧ Gen.pkeskV6 = 6 ∧ Gen.skeskV4 = 4 ∧ Gen.skeskV5 = 5 ∧ Gen.skeskV6 = 6 ∧
    Gen.keyV2 = 2 ∧ Gen.keyV3 = 3 ∧ Gen.keyV4 = 4 ∧ Gen.keyV5 = 5 ∧ Gen.keyV6 = 6 ∧
    Gen.sigV2 = 2 ∧ Gen.sigV3 = 3 ∧ Gen.sigV4 = 4 ∧ Gen.sigV5 = 5 ∧ Gen.sigV6 = 6 := by decide

/-- the four `esk_filter` call sites of `visit_esk` pass the RFC 9580 §10.3.2.1 pairings -/
theorem filter_call_sites_rfc :
    Gen.filtSedPk = 3 ∧ Gen.filtSedSk = 4 ∧ Gen.filtSeipd1Pk = 3 ∧ Gen.filtSeipd1Sk = 4 ∧
    Gen.filtSeipd2Pk = 6 ∧ Gen.filtSeipd2Sk = 6 ∧
    Gen.filtGnupgPk = 3 ∧ Gen.filtGnupgSkA = 4 ∧ Gen.filtGnupgSkB = 5 := by decide

/-- reader table (`from_u8`) = writer table (`as_u8`) = the registry; private range 100..110;
critical bit = bit 7 -/
theorem subpacket_registry_sites_agree :
    Gen.knownSubpacketIdsRd = Gen.knownSubpacketIdsWr ∧ Gen.knownSubpacketIdsRd = registryIds ∧
    Gen.spExperimentalMin = 100 ∧ Gen.spExperimentalMax = 110 ∧
    Gen.spCriticalShift = 7 ∧ Gen.spTypeMask = 127 := by decide

/-- the guards are where the model says they are: `hash_signature_data` has the criticality
check, `verify_nested_explicit` calls the key-related guards, `SignedPublicSubKey` checks the
back signature, all five `verify*` bodies call the alignment check and all five signing entry
points carry the version `ensure!` -/
theorem guards_present :
    Gen.hashSigDataChecksCritical = 1 ∧ Gen.inlineChecksPreconditions = 1 ∧
    Gen.publicSubkeyChecksBacksig = 1 ∧ Gen.alignCallSites = 5 ∧ Gen.signEnsureSites = 5 := by decide

/-! ## 1. session-key packets that do not match the container are ignored -/

/-- `esk_filter_table`: for every container and **every** ESK (kind × version octet 0..∞) the
coded predicate is the specification table: PKESK v3 / SKESK v4 ↔ SED, SEIPDv1, GnuPG AEAD;
SKESK v5 ↔ GnuPG AEAD only; PKESK v6 / SKESK v6 ↔ SEIPDv2 only; everything else never. -/
theorem esk_filter_table (c : Container) (e : Esk) :
    keepEsk (filterArgs c).1 (filterArgs c).2 e = alignedSpec c e :=
  keepEsk_eq_alignedSpec c e

/-- … hence for every ESK sequence the parsed message holds exactly the aligned ones -/
theorem esk_filter_exact (c : Container) (esks : List Esk) :
    parsedEsks c esks = esks.filter (alignedSpec c) :=
  parsedEsks_eq_filter c esks

theorem esk_filter_mem (c : Container) (esks : List Esk) (e : Esk) :
    e ∈ parsedEsks c esks ↔ e ∈ esks ∧ alignedSpec c e = true := by
  rw [parsedEsks_eq_filter]; exact List.mem_filter

/-- nothing is invented or reordered -/
theorem esk_filter_sublist (c : Container) (esks : List Esk) : (parsedEsks c esks).Sublist esks := by
  rw [parsedEsks_eq_filter]; exact List.filter_sublist

theorem esk_filter_idempotent (c : Container) (esks : List Esk) :
    parsedEsks c (parsedEsks c esks) = parsedEsks c esks := by
  simp [parsedEsks_eq_filter]

/-- a misaligned ESK, wherever it is inserted, leaves the parsed message unchanged -/
theorem misaligned_insertion_ignored (c : Container) (pre post : List Esk) (e : Esk)
    (h : alignedSpec c e = false) : parsedEsks c (pre ++ e :: post) = parsedEsks c (pre ++ post) := by
  simp [parsedEsks_eq_filter, h]

/-- an aligned one is kept in place -/
theorem aligned_kept_in_place (c : Container) (pre post : List Esk) (e : Esk)
    (h : alignedSpec c e = true) :
    parsedEsks c (pre ++ e :: post) = parsedEsks c pre ++ e :: parsedEsks c post := by
  simp [parsedEsks_eq_filter, h]

/-- decryption behaves as if the misaligned ESKs were absent — for every ring (keys, passwords,
explicit session keys), every option set, both `abort_early` modes -/
theorem misaligned_esks_ignored (c : ContainerCfg) (esks : List Esk) (r : Ring) (k : RawKey) (ab : Bool) :
    decryptMessage c esks r k ab = decryptMessage c (esks.filter (alignedSpec c.kind)) r k ab := by
  unfold decryptMessage
  rw [parsedEsks_eq_filter, parsedEsks_eq_filter, List.filter_filter]
  simp

/-- a message whose ESKs are all misaligned is, for a caller without an explicit session key,
a message without a usable key (`Error::MissingKey`) even if the caller could open every ESK -/
theorem only_misaligned_is_missing_key (c : ContainerCfg) (esks : List Esk) (r : Ring) (k : RawKey)
    (ab : Bool) (hm : ∀ e ∈ esks, alignedSpec c.kind e = false) (hs : r.sessionKeys = []) :
    decryptMessage c esks r k ab = .missing := by
  have : parsedEsks c.kind esks = [] := by
    rw [parsedEsks_eq_filter]
    simp
    exact hm
  unfold decryptMessage decryptParsed findSessionKey searchSessionKey
  rw [this, hs]
  cases ab <;> simp [allSame]

/-! ## 2. the session-key kind must match the container (second line of defence) -/

/-- `session_key_kind_table`: the readers' `decrypt` accepts exactly the variant the container
takes, plus the algorithm / length equalities it checks -/
theorem session_key_kind_table (c : ContainerCfg) (sk : SessKey) :
    sessionKeyFits c sk = (kindSpec c.kind sk.kind &&
      (match c.kind, sk.kind with
       | .gnupg, .v3_4 => decide (c.alg = sk.alg) && decide (sk.len = c.keySize)
       | .gnupg, .v5 => decide (sk.len = c.keySize)
       | .seipd2, .v6 => decide (sk.len = c.keySize)
       | _, _ => true)) :=
  Rpgp.Policy.session_key_kind_table c sk

/-- the filter table and the container's own check are the same table: the session key an ESK
yields fits the container iff the ESK is aligned with it -/
theorem filter_agrees_with_kind_check (c : Container) (r : Ring) (k : RawKey) (e : Esk) (sk : SessKey)
    (h : pkeskYield r k e = some sk ∨ skeskYield r k e = some sk) :
    alignedSpec c e = kindSpec c sk.kind :=
  yield_aligned_iff_kind c r k e sk h

/-- even with the filter bypassed (`Message::Encrypted { esk, .. }` has public fields), the key
out of a misaligned ESK is refused by the container, under every option set -/
theorem kind_check_second_line (o : DecOpts) (c : ContainerCfg) (r : Ring) (k : RawKey) (e : Esk)
    (sk : SessKey) (h : pkeskYield r k e = some sk ∨ skeskYield r k e = some sk)
    (hm : alignedSpec c.kind e = false) : decryptEdata o c sk = false := by
  have hk : kindSpec c.kind sk.kind = false := by
    rw [← yield_aligned_iff_kind c.kind r k e sk h]; exact hm
  have : sessionKeyFits c sk = false := by
    cases hf : sessionKeyFits c sk
    · rfl
    · have := fits_implies_kind c sk hf; rw [hk] at this; cases this
  unfold decryptEdata
  cases hc : c.kind <;> simp [this]

/-- conversely every key found through the parser path has the variant the container takes -/
theorem found_key_fits_kind (c : ContainerCfg) (esks : List Esk) (r : Ring) (k : RawKey) (ab : Bool)
    (sk : SessKey) (hs : r.sessionKeys = [])
    (h : findSessionKey r k (parsedEsks c.kind esks) ab = some (some sk)) :
    kindSpec c.kind sk.kind = true := by
  obtain ⟨e, he, hy⟩ := findSessionKey_from_esk r k _ ab sk hs h
  rw [parsedEsks_eq_filter] at he
  have ha := (List.mem_filter.1 he).2
  rw [← yield_aligned_iff_kind c.kind r k e sk hy]; exact ha

/-! ## 3. legacy and non-standard containers need the opt-in -/

/-- `optin_required`: SED without `enable_legacy`, GnuPG AEAD without `enable_gnupg_aead` never
decrypt — for every ESK list (filtered or not), ring, explicit session key and `abort_early` -/
theorem optin_required (c : ContainerCfg) (esks : List Esk) (r : Ring) (k : RawKey) (ab : Bool)
    (h : (c.kind = .sed ∧ r.opts.legacy = false) ∨ (c.kind = .gnupg ∧ r.opts.gnupgAead = false)) :
    decryptParsed c esks r k ab ≠ .ok ∧ decryptMessage c esks r k ab ≠ .ok := by
  have key : ∀ l, decryptParsed c l r k ab ≠ .ok := by
    intro l hok
    obtain ⟨sk, _, hd⟩ := (decryptParsed_ok_iff ..).1 hok
    rcases h with ⟨hc, ho⟩ | ⟨hc, ho⟩
    · simp [decryptEdata, hc, ho] at hd
    · simp [decryptEdata, hc, ho] at hd
  exact ⟨key _, key _⟩

/-- what a successful decryption implies, whatever the caller supplied -/
theorem ok_implies_optin_and_kind (c : ContainerCfg) (esks : List Esk) (r : Ring) (k : RawKey) (ab : Bool)
    (h : decryptMessage c esks r k ab = .ok) :
    (c.kind = .sed → r.opts.legacy = true) ∧ (c.kind = .gnupg → r.opts.gnupgAead = true) ∧
    ∃ sk, findSessionKey r k (parsedEsks c.kind esks) ab = some (some sk) ∧ kindSpec c.kind sk.kind = true := by
  obtain ⟨sk, hf, hd⟩ := (decryptParsed_ok_iff ..).1 h
  refine ⟨?_, ?_, sk, hf, ?_⟩
  · intro hc; cases hl : r.opts.legacy
    · simp [decryptEdata, hc, hl] at hd
    · rfl
  · intro hc; cases hl : r.opts.gnupgAead
    · simp [decryptEdata, hc, hl] at hd
    · rfl
  · apply fits_implies_kind c sk
    unfold decryptEdata at hd
    cases hc : c.kind <;> simp [hc] at hd
    · exact hd.2
    · exact hd
    · exact hd
    · exact hd.2

/-- SKESK v5 is not even tried without `enable_gnupg_aead` -/
theorem skesk_v5_needs_optin (r : Ring) (k : RawKey) (h : r.opts.gnupgAead = false) :
    skeskYield r k ⟨false, 5⟩ = none := by
  have : SkeskVersion.ofNat 5 = .v5 := by decide
  unfold skeskYield
  simp [this, h]

/-- ESK packets of unassigned versions never yield a session key -/
theorem unknown_esk_versions_yield_nothing (r : Ring) (k : RawKey) (e : Esk)
    (h : if e.isPk then e.ver ≠ 3 ∧ e.ver ≠ 6 else e.ver ≠ 4 ∧ e.ver ≠ 5 ∧ e.ver ≠ 6) :
    pkeskYield r k e = none ∧ skeskYield r k e = none := by
  constructor
  · cases hy : pkeskYield r k e with
    | none => rfl
    | some sk =>
      obtain ⟨hp, hv⟩ := pkeskYield_kind r k e sk hy
      simp [hp] at h; omega
  · cases hy : skeskYield r k e with
    | none => rfl
    | some sk =>
      obtain ⟨hp, hv⟩ := skeskYield_kind r k e sk hy
      simp [hp] at h; omega

/-! ## 4. v6 keys only make and verify v6 signatures -/

/-- `check_signature_key_version_alignment` as a table over all version octets -/
theorem align_table (kv sv : Nat) : alignSigKey kv sv = decide ((kv = 6) ↔ (sv = 6)) :=
  Rpgp.Policy.align_table kv sv

/-- `v6_key_only_v6_sig`, verify side: on **every** entry point (`verify`,
`verify_certification`/`_third_party`, `verify_subkey_binding`, `verify_primary_key_binding`,
`verify_key`/`_third_party`, inline `Message::verify*`) acceptance implies
`key is v6 ↔ signature is v6`, whatever the subpackets, the digest and the primitive say -/
theorem v6_key_only_v6_sig (p : VPath) (kv : Nat) (s : SigDesc) (h : verifyPath p kv s = true) :
    (kv = 6 ↔ s.ver = 6) := by
  have hg := ((verifyPath_iff p kv s).1 h).2.2.1
  unfold keyGuards at hg
  simp [inline_guards_on, Rpgp.Policy.align_table] at hg
  exact hg.1.1

/-- … including the one-pass form -/
theorem v6_key_only_v6_sig_inline (o : Option OpsDesc) (kv : Nat) (s : SigDesc)
    (h : verifyInline o kv s = true) : (kv = 6 ↔ s.ver = 6) := by
  unfold verifyInline at h
  simp at h
  exact v6_key_only_v6_sig .inline kv s h.2

/-- sign side: the `ensure!` admits exactly (v4 key, v4 sig) and (v6 key, v6 sig) -/
theorem sign_table (kv sv : Nat) :
    signAllowed kv sv = decide ((kv = 4 ∧ sv = 4) ∨ (kv = 6 ∧ sv = 6)) :=
  Rpgp.Policy.sign_table kv sv

/-- whatever can be made passes the verify-side alignment (the sign side is the stricter one) -/
theorem sign_side_stricter (kv sv : Nat) (h : signAllowed kv sv = true) : alignSigKey kv sv = true := by
  rw [Rpgp.Policy.sign_table] at h; rw [Rpgp.Policy.align_table]
  simp at h ⊢
  omega

/-- `SignatureConfig::from_key` picks a version the `ensure!` admits -/
theorem from_key_aligned (kv sv : Nat) (h : fromKeySigVersion kv = some sv) : signAllowed kv sv = true := by
  unfold fromKeySigVersion at h
  rw [Rpgp.Policy.sign_table]
  have e4 : Gen.keyV4 = 4 := rfl
  have e6 : Gen.keyV6 = 6 := rfl
  have s4 : Gen.sigV4 = 4 := rfl
  have s6 : Gen.sigV6 = 6 := rfl
  by_cases h4 : kv = Gen.keyV4
  · simp [h4] at h; simp; omega
  · by_cases h6 : kv = Gen.keyV6
    · have hne : ¬ Gen.keyV6 = Gen.keyV4 := by decide
      simp [h6, hne] at h; simp; omega
    · simp [h4, h6] at h

/-- unparsed (`InnerSignature::Unknown`) signatures and versions other than 2,3,4,6 are rejected
on every entry point -/
theorem unknown_signature_version_rejected (p : VPath) (kv : Nat) (s : SigDesc)
    (h : s.known = false ∨ (s.ver ≠ 2 ∧ s.ver ≠ 3 ∧ s.ver ≠ 4 ∧ s.ver ≠ 6)) : verifyPath p kv s = false := by
  cases hr : verifyPath p kv s
  · rfl
  · exfalso
    obtain ⟨hk, _, _, _, hh, _⟩ := (verifyPath_iff p kv s).1 hr
    rcases h with h | h
    · rw [h] at hk; cases hk
    · rcases hashSignatureData_cases _ _ hh with h2 | h3 | ⟨h46, _⟩ <;> omega

/-- what acceptance means on every entry point (all guards, none skipped) -/
theorem verify_guards (p : VPath) (kv : Nat) (s : SigDesc) :
    verifyPath p kv s = true ↔
      s.known = true ∧ typeOk p s.typ = true ∧ keyGuards p kv s = true ∧
      ((checksSaltLen p = true ∧ s.ver = Gen.sigV6) → s.saltLenOk = true) ∧
      hashSignatureData s.ver s.hashed = true ∧ s.prefixOk = true ∧ s.cryptoOk = true :=
  verifyPath_iff p kv s

/-! ## 5. unknown critical subpackets and the issuer-fingerprint version -/

/-- which ids are "unknown" to the code: all 128, against the registry -/
theorem is_other_table : ∀ id, id < 128 →
    (subClass id = .other ↔ (¬ id ∈ registryIds ∧ ¬ (100 ≤ id ∧ id ≤ 110))) := by decide

/-- the hashed-area loop accepts iff every subpacket passes (for every list) -/
theorem hashed_area_ok_iff (sv : Nat) (l : List Sub) : hashedAreaOk sv l = l.all (subOk sv) :=
  hashedAreaOk_iff sv l

/-- `critical_unknown_rejected`: a v4/v6 signature with an unknown critical subpacket anywhere
in its hashed area — any id, any position, any other subpackets around it — is rejected on every
entry point, whatever the key, the digest and the primitive say -/
theorem critical_unknown_rejected (p : VPath) (kv : Nat) (s : SigDesc) (x : Sub)
    (hv : s.ver ≠ 2 ∧ s.ver ≠ 3) (hx : x ∈ s.hashed) (hc : x.critical = true)
    (ho : subClass x.id = .other) : verifyPath p kv s = false := by
  cases hr : verifyPath p kv s
  · rfl
  · exfalso
    have := ((verifyPath_iff p kv s).1 hr).2.2.2.2.1
    rcases hashSignatureData_cases _ _ this with h | h | ⟨_, h⟩
    · exact hv.1 h
    · exact hv.2 h
    · have := hashedAreaOk_mem _ _ x hx h
      rw [subOk_critical_other _ _ hc ho] at this; cases this

/-- … and on the one-pass path -/
theorem critical_unknown_rejected_inline (o : Option OpsDesc) (kv : Nat) (s : SigDesc) (x : Sub)
    (hv : s.ver ≠ 2 ∧ s.ver ≠ 3) (hx : x ∈ s.hashed) (hc : x.critical = true)
    (ho : subClass x.id = .other) : verifyInline o kv s = false := by
  simp [verifyInline, critical_unknown_rejected .inline kv s x hv hx hc ho]

/-- the same check sits in front of every signing entry point (`hash_signature_data` is called
before the primitive): such a signature cannot be made either -/
theorem critical_unknown_not_hashable (sv : Nat) (l : List Sub) (x : Sub) (hv : sv ≠ 2 ∧ sv ≠ 3)
    (hx : x ∈ l) (hc : x.critical = true) (ho : subClass x.id = .other) :
    hashSignatureData sv l = false := by
  cases hr : hashSignatureData sv l
  · rfl
  · exfalso
    rcases hashSignatureData_cases _ _ hr with h | h | ⟨_, h⟩
    · exact hv.1 h
    · exact hv.2 h
    · have := hashedAreaOk_mem _ _ x hx h
      rw [subOk_critical_other _ _ hc ho] at this; cases this

/-- a non-critical subpacket, or a critical one of a registered or private (100..110) type, that
is not an issuer fingerprint never causes a rejection by itself -/
theorem harmless_subpacket_passes (sv : Nat) (x : Sub)
    (h : x.critical = false ∨ subClass x.id ≠ .other) (hid : x.id ≠ 33) : subOk sv x = true := by
  have e : Gen.spRdIssuerFingerprint = 33 := rfl
  unfold subOk
  rcases h with h | h
  · simp [h, e, hid]
  · simp [h, e, hid]

theorem fp_aligned_table (sv : Nat) (fv : Option Nat) :
    fpAligned sv fv = true ↔ ((sv = 6 ∧ fv = some 6) ∨ (sv = 4 ∧ fv = some 4)) :=
  Rpgp.Policy.fp_aligned_table sv fv

/-- `issuer_fp_version_checked`: a hashed issuer-fingerprint subpacket whose key version is not
the signature's version makes every entry point reject -/
theorem issuer_fp_version_checked (p : VPath) (kv : Nat) (s : SigDesc) (x : Sub)
    (hv : s.ver ≠ 2 ∧ s.ver ≠ 3) (hx : x ∈ s.hashed) (hid : x.id = 33)
    (hf : fpAligned s.ver x.fpVer = false) : verifyPath p kv s = false := by
  cases hr : verifyPath p kv s
  · rfl
  · exfalso
    have := ((verifyPath_iff p kv s).1 hr).2.2.2.2.1
    rcases hashSignatureData_cases _ _ this with h | h | ⟨_, h⟩
    · exact hv.1 h
    · exact hv.2 h
    · have := hashedAreaOk_mem _ _ x hx h
      rw [subOk_issuer_fp _ _ hid hf] at this; cases this

/-! ## 6. a one-pass header that disagrees with its signature invalidates it -/

theorem ops_matches_iff (o : OpsDesc) (s : SigDesc) :
    opsMatches o s = true ↔
      s.known = true ∧ o.typ = s.typ ∧ o.hashAlg = s.hashAlg ∧ o.pubAlg = s.pubAlg ∧
      ((o.ver = 3 ∧ s.ver = 4) ∨ (o.ver = 6 ∧ s.ver = 6 ∧ o.salt = s.salt)) :=
  Rpgp.Policy.ops_matches_iff o s

/-- `ops_mismatch_invalidates`: for each compared field — signature type, hash algorithm,
public-key algorithm, version pairing (v3 OPS ↔ v4 signature, v6 ↔ v6), salt — a disagreement
makes inline verification fail for every key, whatever the trailing signature is worth -/
theorem ops_mismatch_invalidates (o : OpsDesc) (kv : Nat) (s : SigDesc)
    (h : o.typ ≠ s.typ ∨ o.hashAlg ≠ s.hashAlg ∨ o.pubAlg ≠ s.pubAlg ∨
         ¬ ((o.ver = 3 ∧ s.ver = 4) ∨ (o.ver = 6 ∧ s.ver = 6)) ∨ (o.ver = 6 ∧ o.salt ≠ s.salt)) :
    verifyInline (some o) kv s = false := by
  have : opsMatches o s = false := by
    cases hm : opsMatches o s
    · rfl
    · exfalso
      obtain ⟨_, h1, h2, h3, h4⟩ := (Rpgp.Policy.ops_matches_iff o s).1 hm
      rcases h with h | h | h | h | ⟨h5, h6⟩
      · exact h h1
      · exact h h2
      · exact h h3
      · apply h; rcases h4 with h4 | h4
        · left; exact h4
        · right; exact ⟨h4.1, h4.2.1⟩
      · rcases h4 with h4 | h4
        · omega
        · exact h6 h4.2.2
  simp [verifyInline, this]

/-- a one-pass header can only restrict: what verifies behind an OPS verifies as a prefixed
signature -/
theorem ops_only_restricts (o : OpsDesc) (kv : Nat) (s : SigDesc)
    (h : verifyInline (some o) kv s = true) : verifyInline none kv s = true := by
  simp [verifyInline] at h ⊢
  exact h.2

/-- as coded, the issuer field of the OPS (key id / fingerprint) is *not* compared with the
signature; it is a lookup hint only (the signature's own issuer subpackets are matched against the
key by `match_identity`) -/
theorem ops_issuer_not_compared (o : OpsDesc) (i : Nat) (s : SigDesc) :
    opsMatches { o with issuer := i } s = opsMatches o s := rfl

/-! ## 7. equivalent paths judge the same -/

/-- `paths_agree_inline_detached`: a prefixed-signature message is judged exactly as the detached
signature over the same data — same guards (alignment, hash strength, issuer match, salt length,
hashed-area checks), for every key version and every signature -/
theorem paths_agree_inline_detached (kv : Nat) (s : SigDesc) :
    verifyInline none kv s = verifyPath .data kv s := by
  simp [verifyInline, verifyPath, keyGuards, inline_guards_on, typeOk, checksIdentity, checksSaltLen]

/-- … and a one-pass message whose header matches likewise -/
theorem paths_agree_onepass_detached (o : OpsDesc) (kv : Nat) (s : SigDesc) (h : opsMatches o s = true) :
    verifyInline (some o) kv s = verifyPath .data kv s := by
  rw [← paths_agree_inline_detached]
  simp [verifyInline, h]

/-- certificate parser: a v6 primary carries only v6 subkeys -/
theorem v6_primary_only_v6_subkeys (c : CertDesc) (h : certParseOk c = true) (h6 : c.primaryVer = 6) :
    ∀ s ∈ c.subkeys, s.ver = 6 := by
  have k6 : Gen.keyV6 = 6 := rfl
  unfold certParseOk at h
  simp [h6, k6] at h
  exact h.2

/-- certificate parser: v2/v3 primaries carry no subkeys -/
theorem no_subkeys_on_v2_v3 (c : CertDesc) (h : certParseOk c = true)
    (hv : c.primaryVer = 2 ∨ c.primaryVer = 3) : c.subkeys = [] := by
  have k2 : Gen.keyV2 = 2 := rfl
  have k3 : Gen.keyV3 = 3 := rfl
  unfold certParseOk belowV4 at h
  simp [k2, k3] at h
  rcases h.1 with h1 | h1
  · exact h1
  · omega

/-- the public path demands, for every binding signature of every subkey, a valid binding and —
if the binding grants signing — a valid embedded back signature -/
theorem public_path_requires_backsig (c : CertDesc) (h : verifyBindings false c = true) :
    ∀ s ∈ c.subkeys, ∀ g ∈ s.sigs, g.bindingOk = true ∧ (g.signFlag = true → g.back = .good) := by
  intro s hs g hg
  unfold verifyBindings at h
  simp at h
  have := h.2 s hs
  unfold subkeyOk at this
  simp at this
  rcases this with h0 | h1
  · rw [h0] at hg; cases hg
  · have := h1 g hg
    unfold publicSubSigOk at this
    simp [pub_on] at this
    refine ⟨this.1, fun hf => ?_⟩
    rcases this.2 with h2 | h2
    · rw [hf] at h2; cases h2
    · exact h2

/-
FULL STATEMENT (holds iff `SignedSecretSubKey::verify_bindings` checks the back signature):

  theorem paths_agree_public_secret (c : CertDesc) : certAccepted true c = certAccepted false c

On the tree as delivered to this property (`Gen.secretSubkeyChecksBacksig = 0`, defect D15a) it is
FALSE; the three theorems below are state-independent: the guarded form, the full form under
the hypothesis that the check is present, and the refutation under the hypothesis that it is absent.
-/

/-- guarded form: if no verifying, signing-capable binding lacks a good back signature, the
secret and the public representation of a certificate are judged the same -/
theorem paths_agree_public_secret_partial (c : CertDesc) (h : backsigsPresent c = true) :
    certAccepted true c = certAccepted false c := by
  unfold certAccepted verifyBindings
  congr 2
  apply all_congr_mem
  intro s hs
  unfold subkeyOk
  unfold backsigsPresent at h
  have hs' := List.all_eq_true.1 h s hs
  have hsig : s.sigs.all secretSubSigOk = s.sigs.all publicSubSigOk :=
    all_congr_mem _ _ _ (fun g hg => subSig_agree g (List.all_eq_true.1 hs' g hg))
  cases s.secret
  · simp
  · simp [hsig]

/-- full form, for every certificate, once the secret path performs the check -/
theorem paths_agree_public_secret_of_fix (hfix : Gen.secretSubkeyChecksBacksig = 1) (c : CertDesc) :
    certAccepted true c = certAccepted false c := by
  have : secretSubSigOk = publicSubSigOk := by
    funext g; unfold secretSubSigOk publicSubSigOk; simp [hfix, pub_on]
  unfold certAccepted verifyBindings subkeyOk
  simp [this]

/-- refutation on a concrete certificate while the check is absent (D15a): a v4 certificate with
one signing-capable secret subkey whose binding has no embedded 0x19 signature is rejected as a
public key and accepted as a secret key -/
theorem secret_path_skips_backsig_witness (h0 : Gen.secretSubkeyChecksBacksig = 0) :
    certAccepted false d15aWitness = false ∧ certAccepted true d15aWitness = true := by
  constructor
  · decide
  · simp [certAccepted, certParseOk, verifyBindings, subkeyOk, secretSubSigOk, d15aWitness, h0, belowV4]
    decide

/-- in either state the secret path never accepts more subkey *bindings* than it verifies: it
only differs on the back signature -/
theorem secret_path_at_least_checks_binding (c : CertDesc) (h : certAccepted true c = true) :
    ∀ s ∈ c.subkeys, ∀ g ∈ s.sigs, g.bindingOk = true := by
  intro s hs g hg
  unfold certAccepted verifyBindings at h
  simp at h
  have := h.2.2 s hs
  unfold subkeyOk at this
  simp at this
  rcases this with h0 | h1
  · rw [h0] at hg; cases hg
  · by_cases hsec : s.secret = true
    · simp [hsec] at h1
      have := h1 g hg
      unfold secretSubSigOk at this; simp at this; exact this.1
    · simp [hsec] at h1
      have := h1 g hg
      unfold publicSubSigOk at this; simp at this; exact this.1

/-! ## 8. state of the current tree (D15a repaired)

These two obligations hold only on a tree in which `SignedSecretSubKey::verify_bindings` verifies
the embedded back signature (the constant is re-extracted from `signed_key/secret.rs` on every
run).  On the tree before the repair the first one fails at `lake build` time and the oracle
`public_and_secret_form_judged_alike` produces the failing certificate. -/

theorem secret_path_checks_backsig : Gen.secretSubkeyChecksBacksig = 1 := by decide

/-- `paths_agree_public_secret`: for **every** certificate — any primary version, any number of
subkeys, public or secret subkey packets, any list of binding signatures each with any
combination of (binding verifies, signing flag, back signature absent/good/bad) — the secret and
the public representation are judged the same by `from_bytes` + `verify_bindings` -/
theorem paths_agree_public_secret (c : CertDesc) : certAccepted true c = certAccepted false c :=
  paths_agree_public_secret_of_fix secret_path_checks_backsig c

/-- … so the secret path, too, demands the back signature of every signing-capable binding -/
theorem secret_path_requires_backsig (c : CertDesc) (h : certAccepted true c = true) :
    ∀ s ∈ c.subkeys, ∀ g ∈ s.sigs, g.bindingOk = true ∧ (g.signFlag = true → g.back = .good) := by
  rw [paths_agree_public_secret] at h
  unfold certAccepted at h
  simp at h
  exact public_path_requires_backsig c h.2

/-! ## concrete evaluations (non-vacuity of the hypotheses, and the tables at a glance) -/

example : parsedEsks .seipd1 [⟨true, 3⟩, ⟨true, 6⟩, ⟨false, 4⟩, ⟨false, 5⟩, ⟨false, 6⟩, ⟨true, 9⟩] =
    [⟨true, 3⟩, ⟨false, 4⟩] := by decide
example : parsedEsks .seipd2 [⟨true, 3⟩, ⟨true, 6⟩, ⟨false, 4⟩, ⟨false, 5⟩, ⟨false, 6⟩] =
    [⟨true, 6⟩, ⟨false, 6⟩] := by decide
example : parsedEsks .gnupg [⟨true, 3⟩, ⟨true, 6⟩, ⟨false, 4⟩, ⟨false, 5⟩, ⟨false, 6⟩] =
    [⟨true, 3⟩, ⟨false, 4⟩, ⟨false, 5⟩] := by decide
-- a downgrade attempt: SEIPDv1 container behind a v6 SKESK the caller can open
example : decryptMessage ⟨.seipd1, 0, 0⟩ [⟨false, 6⟩] ⟨true, true, [], ⟨true, true⟩⟩ ⟨7, 1, 16⟩ true = .missing := by
  decide
example : decryptMessage ⟨.seipd2, 7, 16⟩ [⟨false, 6⟩] ⟨false, true, [], ⟨false, false⟩⟩ ⟨7, 1, 16⟩ true = .ok := by
  decide
example : decryptMessage ⟨.gnupg, 7, 16⟩ [⟨false, 5⟩] ⟨false, true, [], ⟨false, false⟩⟩ ⟨7, 1, 16⟩ true = .missing := by
  decide
example : decryptMessage ⟨.gnupg, 7, 16⟩ [⟨false, 5⟩] ⟨false, true, [], ⟨false, true⟩⟩ ⟨7, 1, 16⟩ true = .ok := by
  decide
example : verifyPath .data 6 { ver := 4, typ := 0 } = false := by decide
example : verifyPath .data 4 { ver := 4, typ := 0 } = true := by decide
example : verifyPath .data 4 { ver := 4, typ := 0, hashed := [{ id := 2, critical := true }, { id := 95, critical := true }] } = false := by
  decide
example : verifyPath .data 4 { ver := 4, typ := 0, unhashed := [{ id := 95, critical := true }] } = true := by decide
example : verifyPath .data 4 { ver := 4, typ := 0, hashed := [{ id := 101, critical := true }] } = true := by decide
example : verifyInline (some ⟨3, 0, 8, 1, 0, 0⟩) 4 { ver := 4, typ := 0 } = false := by decide  -- pub alg 1 ≠ 22
example : verifyInline (some ⟨3, 0, 8, 22, 0, 0⟩) 4 { ver := 4, typ := 0 } = true := by decide
example : backsigsPresent d15aWitness = false := by decide

/-! ## "a key accepted through one import path is judged the same through the equivalent path": the
public part of a key packet is read by two parsers (`public_key_parser.rs`, `secret_key_parser.rs`);
after repair D15d they are one function of the octets (model: `RpgpModel/Wire.lean`) -/

theorem d15d_repaired : Wire.pubLenExact = true := by decide

/-- for every octet string, the public-key parser and the secret-key parser read the same public key
(or both refuse) and leave the same octets unread -/
theorem public_and_secret_key_parsers_agree (trust : Bool) (b : Bytes) :
    Wire.pubKeyParse trust false b = Wire.pubKeyParse trust true b := by
  unfold Wire.pubKeyParse
  rw [d15d_repaired]
  unfold Wire.pubKeyParseWith
  simp only [if_true]

/-- a v6 X25519 key packet body (algorithm 25, 32 octets of material) announcing `cnt` octets -/
def d15dKey (cnt : UInt8) (extra : Bytes) : Bytes :=
  [6, 0, 0, 0, 1, 25, 0, 0, 0, cnt] ++ List.replicate 32 7 ++ extra

/-- regression witness: before the repair the over-stated count 33 was accepted by the public parser
and refused by the secret parser (whose window then reaches into the secret part), and the count 0 of a
key of unknown algorithm by the secret parser only; both refuse both now, and both accept the exact
count -/
theorem d15d_witness :
    (Wire.pubKeyParseWith false false false (d15dKey 33 [])).isSome = true ∧
    (Wire.pubKeyParseWith false false true (d15dKey 33 [0])).isSome = false ∧
    (Wire.pubKeyParseWith true false false (d15dKey 33 [])).isSome = false ∧
    (Wire.pubKeyParseWith true false true (d15dKey 33 [0])).isSome = false ∧
    (Wire.pubKeyParseWith false false true [6, 0, 0, 0, 1, 99, 0, 0, 0, 0, 0]).isSome = true ∧
    (Wire.pubKeyParseWith false false false [6, 0, 0, 0, 1, 99, 0, 0, 0, 0, 0]).isSome = false ∧
    (Wire.pubKeyParseWith true false true [6, 0, 0, 0, 1, 99, 0, 0, 0, 0, 0]).isSome = false ∧
    (Wire.pubKeyParseWith true false false (d15dKey 32 [])).isSome = true ∧
    (Wire.pubKeyParseWith true false true (d15dKey 32 [0])).isSome = true := by decide

end Rpgp.C15
