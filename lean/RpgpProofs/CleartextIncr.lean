import RpgpProofs.Cleartext
/-! `read_cleartext_body` after repair D19c: searching the last line only is the same function, at
linear instead of quadratic cost (C16, C19). -/
namespace Rpgp
open Rpgp

/-- converse of `findLast_none` -/
theorem findLast_eq_none (pat s : Bytes) (h : findLast pat s = none) : ¬ pat <:+: s := by
  induction s with
  | nil =>
    intro hi
    have hp : pat = [] := by simpa using hi
    subst hp
    simp [findLast] at h
  | cons b r ih =>
    simp only [findLast] at h
    cases hr : findLast pat r with
    | some i => simp [hr] at h
    | none =>
      simp only [hr] at h
      have hpre : pat.isPrefixOf (b :: r) = false := by
        cases hp : pat.isPrefixOf (b :: r) with
        | true => simp [hp] at h
        | false => rfl
      rw [List.infix_cons_iff]
      rintro (hp | hi)
      · have := List.isPrefixOf_iff_prefix.mpr hp
        simp [hpre] at this
      · exact ih hr hi

/-- no occurrence starts inside `a`: the last occurrence in `a ++ b` is the last one in `b` -/
theorem findLast_append_of_no_start (pat a b : Bytes)
    (h : ∀ p, p < a.length → ¬ pat <+: (a ++ b).drop p) :
    findLast pat (a ++ b) = (findLast pat b).map (· + a.length) := by
  induction a with
  | nil => cases hfb : findLast pat b <;> simp [hfb]
  | cons x a ih =>
    have ih' := ih (fun p hp => by simpa using h (p + 1) (by simpa using hp))
    have h0 : pat.isPrefixOf (x :: (a ++ b)) = false := by
      rw [Bool.eq_false_iff]
      intro e
      exact h 0 (by simp) (by simpa using List.isPrefixOf_iff_prefix.mp e)
    simp only [List.cons_append, findLast, ih']
    cases findLast pat b with
    | none => simp [h0]
    | some j => simp [Nat.add_assoc]

/-- no occurrence of `"\n-----"` starts in front of the last octet of `out` once the next line is
appended, when there is none in `out` and `out` ends with a line break -/
theorem no_start_before_last (o l : Bytes) (hno : ¬ bodyEndPat <:+: o ++ [LF]) (p : Nat) (hp : p < o.length) :
    ¬ bodyEndPat <+: (o ++ [LF] ++ l).drop p := by
  intro hpre
  have hd : (o ++ [LF] ++ l).drop p = (o ++ [LF]).drop p ++ l := by
    rw [List.drop_append_of_le_length (by simp; omega)]
  rw [hd] at hpre
  have hX : (o ++ [LF]).drop p <+: (o ++ [LF]).drop p ++ l := List.prefix_append _ _
  by_cases hlen : bodyEndPat.length ≤ ((o ++ [LF]).drop p).length
  · have : bodyEndPat <+: (o ++ [LF]).drop p := List.prefix_of_prefix_length_le hpre hX hlen
    exact hno (this.isInfix.trans (List.drop_suffix p _).isInfix)
  · have hxp : (o ++ [LF]).drop p <+: bodyEndPat :=
      List.prefix_of_prefix_length_le hX hpre (by omega)
    -- the slice has at least two octets and ends with LF; in the pattern every octet after the first is a dash
    have hsl : (o ++ [LF]).drop p = o.drop p ++ [LF] := by
      rw [List.drop_append_of_le_length (by omega)]
    obtain ⟨t, ht⟩ := hxp
    rw [hsl] at ht
    have hne : o.drop p ≠ [] := by
      intro e
      have := congrArg List.length e
      simp at this; omega
    obtain ⟨y, ys, hy⟩ := List.exists_cons_of_ne_nil hne
    rw [hy] at ht
    simp only [bodyEndPat, fiveDashes, List.cons_append, List.cons.injEq] at ht
    obtain ⟨_, ht⟩ := ht
    -- ys ++ [LF] ++ t = five dashes: LF would have to be a dash
    have hmem : LF ∈ ys ++ ([LF] ++ t) := by simp
    have ht' : ys ++ ([LF] ++ t) = [DASH, DASH, DASH, DASH, DASH] := by simpa using ht
    rw [ht'] at hmem
    simp [LF, DASH] at hmem

/-- one search of the repaired loop finds what the search over everything read so far finds -/
theorem search_incr_eq (out l : Bytes) (hout : out = [] ∨ endsLF out) (hno : findLast bodyEndPat out = none) :
    (findLast bodyEndPat ((out ++ l).drop (out.length - 1))).map (· + (out.length - 1)) =
      findLast bodyEndPat (out ++ l) := by
  rcases hout with rfl | ⟨o, rfl⟩
  · cases findLast bodyEndPat l <;> simp
  · have hno' := findLast_eq_none _ _ hno
    have hlen : (o ++ [LF]).length - 1 = o.length := by simp
    rw [hlen]
    have hsplit : o ++ [LF] ++ l = o ++ ([LF] ++ l) := by simp
    have hdrop : (o ++ [LF] ++ l).drop o.length = [LF] ++ l := by
      rw [hsplit, List.drop_left]
    rw [hdrop]
    have := findLast_append_of_no_start bodyEndPat o ([LF] ++ l)
      (fun p hp => by rw [← hsplit]; exact no_start_before_last o l hno' p hp)
    rw [hsplit, this]

/-- the repaired loop is the loop: on lines of which every one but possibly the last ends with a line
break (the successive results of `read_line`), from a state in which nothing has been found yet -/
theorem readBodyLoopIncr_eq (ls : List Bytes) : ∀ (out : Bytes), (out = [] ∨ endsLF out) →
    findLast bodyEndPat out = none → (∀ l ∈ ls.dropLast, endsLF l) →
    readBodyLoopIncr out ls = readBodyLoop out ls := by
  induction ls with
  | nil => intro out _ _ _; simp [readBodyLoopIncr, readBodyLoop]
  | cons l ls ih =>
    intro out hout hno hl
    simp only [readBodyLoopIncr, readBodyLoop]
    split
    · rfl
    · rw [search_incr_eq out l hout hno]
      cases hf : findLast bodyEndPat (out ++ l) with
      | some pos => rfl
      | none =>
        simp only
        cases ls with
        | nil => simp [readBodyLoopIncr, readBodyLoop]
        | cons l2 ls2 =>
          have hlend : endsLF l := hl l (by simp [List.dropLast])
          obtain ⟨c, hc⟩ := hlend
          refine ih (out ++ l) (Or.inr ⟨out ++ c, by simp [hc]⟩) hf ?_
          intro x hx
          exact hl x (by simp only [List.dropLast_cons₂]; exact List.mem_cons_of_mem _ hx)

/-- every piece of `split_inclusive('\n')` but possibly the last ends with the line break -/
theorem splitInclusive_dropLast_endLF (t : Bytes) : ∀ l ∈ (splitInclusive t).dropLast, endsLF l := by
  induction t with
  | nil => intro l hl; simp [splitInclusive] at hl
  | cons b r ih =>
    rw [splitInclusive_cons]
    by_cases hb : b = LF
    · simp only [hb, if_true]
      intro l hl
      cases hs : splitInclusive r with
      | nil => simp [hs] at hl
      | cons l0 ls0 =>
        rw [hs] at hl ih
        simp only [List.dropLast_cons₂, List.mem_cons] at hl
        rcases hl with rfl | hl
        · exact ⟨[], rfl⟩
        · exact ih l hl
    · simp only [hb, if_false]
      cases hs : splitInclusive r with
      | nil => intro l hl; simp [consHead] at hl
      | cons l0 ls0 =>
        rw [hs] at ih
        intro l hl
        cases ls0 with
        | nil => simp [consHead] at hl
        | cons l1 ls1 =>
          simp only [consHead, List.dropLast_cons₂, List.mem_cons] at hl ih
          rcases hl with rfl | hl
          · obtain ⟨c, hc⟩ := ih l0 (Or.inl rfl)
            exact ⟨b :: c, by simp [hc]⟩
          · exact ih l (Or.inr hl)

/-- `read_cleartext_body` as repaired computes what `readCleartextBody` computes, for every input -/
theorem readBodyLinesCur_eq (inp : Bytes) :
    readBodyLinesCur (splitInclusive inp) = readBodyLines (splitInclusive inp) := by
  unfold readBodyLinesCur readBodyLines
  split
  · rw [readBodyLoopIncr_eq _ [] (Or.inl rfl) (by simp [findLast, bodyEndPat, List.isPrefixOf])
      (splitInclusive_dropLast_endLF inp)]
  · rfl

/-! ### cost of the search -/

theorem searchWorkIncr_le (ls : List Bytes) (out : Bytes) :
    searchWorkIncr out ls ≤ ls.flatten.length + ls.length := by
  induction ls generalizing out with
  | nil => simp [searchWorkIncr]
  | cons l ls ih =>
    have := ih (out ++ l)
    simp only [searchWorkIncr, List.flatten_cons, List.length_append, List.length_cons, List.length_drop]
    omega

theorem searchWorkFull_ge (ls : List Bytes) (out : Bytes) :
    out.length * ls.length ≤ searchWorkFull out ls := by
  induction ls generalizing out with
  | nil => simp [searchWorkFull]
  | cons l ls ih =>
    have := ih (out ++ l)
    simp only [searchWorkFull, List.length_cons, List.length_append] at *
    have h2 : out.length * ls.length ≤ (out.length + l.length) * ls.length := Nat.mul_le_mul_right _ (by omega)
    rw [Nat.mul_succ]
    omega

theorem splitInclusive_length_le (t : Bytes) : (splitInclusive t).length ≤ t.length := by
  induction t with
  | nil => simp [splitInclusive]
  | cons b r ih =>
    rw [splitInclusive_cons]
    split
    · simp; omega
    · cases hs : splitInclusive r with
      | nil => simp [consHead]
      | cons l0 ls0 => rw [hs] at ih; simp [consHead] at *; omega

end Rpgp
