//! C02, certificates: `Signed{Public,Secret}Key::verify_bindings` on certificates whose signature
//! packets are mutated field by field, and `Signed*SubKey::verify_bindings` on crafted bindings
//! (back-signature absent / by the wrong key / valid).
use super::*;

/// the parts of a parsed certificate the model is told about
pub(super) struct View {
    pub primary: PubAny,
    pub users: Vec<(UserId, Vec<Signature>)>,
    pub attrs: Vec<(Vec<u8>, usize, Vec<Signature>)>,
    pub revocations: Vec<Signature>,
    pub directs: Vec<Signature>,
    pub subkeys: Vec<(PubAny, Vec<Signature>)>,
}

pub(super) fn view_public(k: &SignedPublicKey) -> View {
    View {
        primary: PubAny::P(k.primary_key.clone()),
        users: k.details.users.iter().map(|u| (u.id.clone(), u.signatures.clone())).collect(),
        attrs: k.details.user_attributes.iter().map(|a| (body_of(&a.attr), a.attr.write_len(), a.signatures.clone())).collect(),
        revocations: k.details.revocation_signatures.clone(),
        directs: k.details.direct_signatures.clone(),
        subkeys: k.public_subkeys.iter().map(|s| (PubAny::S(s.key.clone()), s.signatures.clone())).collect(),
    }
}

pub(super) fn view_secret(k: &SignedSecretKey) -> View {
    let mut subkeys: Vec<(PubAny, Vec<Signature>)> = k.public_subkeys.iter().map(|s| (PubAny::S(s.key.clone()), s.signatures.clone())).collect();
    subkeys.extend(k.secret_subkeys.iter().map(|s| (PubAny::S(s.key.public_key().clone()), s.signatures.clone())));
    View {
        primary: PubAny::P(k.primary_key.public_key().clone()),
        users: k.details.users.iter().map(|u| (u.id.clone(), u.signatures.clone())).collect(),
        attrs: k.details.user_attributes.iter().map(|a| (body_of(&a.attr), a.attr.write_len(), a.signatures.clone())).collect(),
        revocations: k.details.revocation_signatures.clone(),
        directs: k.details.direct_signatures.clone(),
        subkeys,
    }
}

impl View {
    pub fn n_sigs(&self) -> usize {
        self.users.iter().map(|u| u.1.len()).sum::<usize>()
            + self.attrs.iter().map(|u| u.2.len()).sum::<usize>()
            + self.revocations.len()
            + self.directs.len()
            + self.subkeys.iter().map(|u| u.1.len()).sum::<usize>()
    }

    /// every signature with the subject RFC 9580 5.2.4 gives it at its place in the certificate,
    /// and its signer (the embedded back-signatures of binding signatures included)
    pub fn walk(&self) -> Vec<(Signature, Subject, PubAny)> {
        let p = wkey(&self.primary);
        let mut out = Vec::new();
        for (uid, sigs) in &self.users {
            for s in sigs {
                out.push((s.clone(), Subject::Cert(p.clone(), false, uid.id().to_vec()), self.primary.clone()));
            }
        }
        for (body, _, sigs) in &self.attrs {
            for s in sigs {
                out.push((s.clone(), Subject::Cert(p.clone(), true, body.clone()), self.primary.clone()));
            }
        }
        for s in self.revocations.iter().chain(self.directs.iter()) {
            out.push((s.clone(), Subject::Direct(p.clone()), self.primary.clone()));
        }
        for (sk, sigs) in &self.subkeys {
            for s in sigs {
                out.push((s.clone(), Subject::Bind(p.clone(), wkey(sk)), self.primary.clone()));
                if let Some(e) = s.embedded_signature() {
                    out.push((e.clone(), Subject::Bind(p.clone(), wkey(sk)), sk.clone()));
                }
            }
        }
        out
    }

    pub fn tables(&self, t0: &Tables) -> Tables {
        let mut t = t0.clone();
        for (s, subj, _) in self.walk() {
            t = tables_for(&t, &[&body_of(&s)], &subj);
        }
        t
    }

    pub fn request(&self, t: &Tables) -> String {
        let sigs = |v: &[Signature]| if v.is_empty() { "-".to_string() } else { v.iter().map(|s| hex::encode(body_of(s))).collect::<Vec<_>>().join(".") };
        let mut r = format!("snd_cert {}", kdesc("p", &self.primary));
        for (uid, s) in &self.users {
            r.push_str(&format!(" u={}:{}:{}", uid.write_len(), hx(&body_of(uid)), sigs(s)));
        }
        for (body, wl, s) in &self.attrs {
            r.push_str(&format!(" a={}:{}:{}", wl, hx(body), sigs(s)));
        }
        for s in &self.revocations {
            r.push_str(&format!(" r={}", hex::encode(body_of(s))));
        }
        for s in &self.directs {
            r.push_str(&format!(" d={}", hex::encode(body_of(s))));
        }
        for (k, s) in &self.subkeys {
            r.push_str(&format!(
                " s={}:{}:{}:{}:{}:{}:{}",
                kv_u8(k.version()),
                hx(k.legacy_key_id().as_ref()),
                hx(&fp_with_version(k)),
                hx(&km_of(k)),
                k.write_len(),
                hx(&body_of(k)),
                sigs(s)
            ));
        }
        format!("{r} {}", t.show(false))
    }
}

pub(super) fn reframe(pk: &[(u8, Vec<u8>)]) -> Vec<u8> {
    let mut v = Vec::new();
    for (t, b) in pk {
        v.extend(sigrec::packet5(*t, b));
    }
    v
}

pub(super) fn verdict(r: Result<pgp::errors::Result<()>, String>) -> String {
    answer(&r)
}

pub(super) fn run(ctx: &mut Ctx, fixes: &[Fix]) {
    let mut rng = ChaCha8Rng::seed_from_u64(ctx.rng.gen());
    for fix in fixes {
        for secret in [false, true] {
            if secret && fix.weight >= 1 && !ctx.thorough() {
                continue;
            }
            let site = if secret { "SignedSecretKey::from_bytes -> verify_bindings" } else { "SignedPublicKey::from_bytes -> verify_bindings" };
            let label = format!("{} {}", fix.name, if secret { "secret certificate" } else { "public certificate" });
            let raw = if secret { body_of(&fix.ssk) } else { body_of(&fix.ssk.to_public_key()) };
            let Some(pk) = sigrec::split_packets(&raw) else {
                ctx.oracle("original_verifies", site, &label, false, "cannot split the certificate");
                continue;
            };
            let parse = |bytes: &[u8]| -> Result<(View, String), String> {
                if secret {
                    let k = SignedSecretKey::from_bytes(bytes).map_err(|e| e.to_string())?;
                    let a = verdict(guarded(|| k.verify_bindings()));
                    Ok((view_secret(&k), a))
                } else {
                    let k = SignedPublicKey::from_bytes(bytes).map_err(|e| e.to_string())?;
                    let a = verdict(guarded(|| k.verify_bindings()));
                    Ok((view_public(&k), a))
                }
            };
            // the original: the honest log
            let base_bytes = reframe(&pk);
            let (v0, a0) = match guarded(|| parse(&base_bytes)) {
                Ok(Ok(x)) => x,
                other => {
                    ctx.oracle("original_verifies", site, &label, false, &format!("{:?}", other.map(|r| r.map(|x| x.1))));
                    continue;
                }
            };
            ctx.oracle("original_verifies", site, &format!("{label} cert={}", hx(&base_bytes)), a0 == "ok", &a0);
            let mut t0 = Tables::default();
            let mut log_ok = true;
            for (s, subj, signer) in v0.walk() {
                if let Err(e) = log_original(&mut t0, &s, &subj, &signer) {
                    ctx.oracle("original_verifies", "RFC 9580 5.2.4 digest of a certificate signature", &label, false, &e);
                    log_ok = false;
                }
            }
            if !log_ok {
                continue;
            }
            ctx.case(v0.request(&v0.tables(&t0)), a0.clone());
            ctx.stat(&format!("cert:{}:{}", fix.name, if secret { "secret" } else { "public" }));
            let n0 = v0.n_sigs();

            // every signature packet of the certificate, field by field
            for (pi, (tag, body)) in pk.iter().enumerate() {
                if *tag != 2 {
                    continue;
                }
                let Ok(sig) = parse_sig(body) else { continue };
                let fs = field_map(&sig);
                let w = if secret { 2 } else { fix.weight.max(1) };
                for m in sig_mutations(&mut rng, body, &fs, w) {
                    if m.out == *body {
                        continue;
                    }
                    let loc = loc_of(&sig, &fs, &m);
                    let mut pk2 = pk.clone();
                    pk2[pi].1 = m.out.clone();
                    let bytes = reframe(&pk2);
                    let inp = format!("{label} packet#{pi} typ={:#04x} {} [{loc}] cert={}", body.get(1).copied().unwrap_or(0), m.desc, hx(&bytes));
                    match guarded(|| parse(&bytes)) {
                        Ok(Ok((v, a))) => {
                            ctx.case(v.request(&v.tables(&t0)), a.clone());
                            let dropped = v.n_sigs() < n0;
                            ctx.stat(&format!("cert:sigmut:{}:{}{}", field_class(&loc), a, if dropped { ":dropped_by_parser" } else { "" }));
                            // a signature the certificate parser discards is not accepted: the
                            // certificate that remains is another, smaller one
                            let ok = a != "ok" || dropped || in_exception_list(&loc);
                            ctx.oracle("mutation_rejected", site, &inp, ok, &format!("mutation in {loc} still verifies"));
                            if a == "ok" && !dropped {
                                ctx.stat(&format!("still_verifies:cert:{loc}"));
                            }
                        }
                        Ok(Err(_)) => {
                            ctx.stat(&format!("cert:sigmut:{}:parse_error", field_class(&loc)));
                            ctx.oracle("mutation_rejected", site, &inp, true, "certificate refused");
                        }
                        Err(p) => ctx.oracle("mutation_rejected", site, &inp, false, &format!("panic {p}")),
                    }
                }
            }
        }
        backsig(ctx, &mut rng, fix);
    }
}

/// `Signed{Public,Secret}SubKey::verify_bindings` on bindings made here with the real signing API
fn backsig(ctx: &mut Ctx, rng: &mut ChaCha8Rng, fix: &Fix) {
    let hash = fix.hashes[0];
    let label = format!("{} subkey binding", fix.name);
    let subj = Subj::Bind { primary: fix.prim_pub.clone(), sub: fix.sub_pub.clone() };
    let pw = Password::empty();
    // a valid back-signature by the subkey, and one by the wrong key (the primary itself)
    let good_back = produce(rng, &fix.sub_sec, &fix.sub_pub, SignatureType::KeyBinding, hash, &subj, false);
    let wrong_back = produce(rng, &fix.prim_sec, &fix.prim_pub, SignatureType::KeyBinding, hash, &Subj::Bind { primary: fix.prim_pub.clone(), sub: fix.prim_pub.clone() }, false);
    let (Ok(good_back), Ok(wrong_back)) = (good_back, wrong_back) else {
        ctx.stat("refused_config");
        return;
    };
    let mut flags_sign = KeyFlags::default();
    flags_sign.set_sign(true);
    let mut flags_enc = KeyFlags::default();
    flags_enc.set_encrypt_comms(true);
    // (name, key flags, embedded signature, in the unhashed area?, expectation)
    let variants: Vec<(&str, KeyFlags, Option<Signature>, bool, bool)> = vec![
        ("signing subkey, valid back-signature (hashed)", flags_sign.clone(), Some(good_back.clone()), false, true),
        ("signing subkey, valid back-signature (unhashed)", flags_sign.clone(), Some(good_back.clone()), true, true),
        ("signing subkey, no back-signature", flags_sign.clone(), None, false, false),
        ("signing subkey, back-signature by another key", flags_sign.clone(), Some(wrong_back.clone()), false, false),
        ("signing subkey, back-signature by another key (unhashed)", flags_sign.clone(), Some(wrong_back), true, false),
        ("encryption subkey, no back-signature", flags_enc, None, false, true),
    ];
    let PubAny::S(sub_pk) = &fix.sub_pub else { return };
    let SecAny::S(sub_sk) = &fix.sub_sec else { return };
    for (name, flags, emb, unhashed, expect_ok) in variants {
        let mut cfg = match config_for(rng, &fix.prim_sec, SignatureType::SubkeyBinding, hash, false, None) {
            Ok(c) => c,
            Err(_) => return,
        };
        cfg.hashed_subpackets.push(sp(SubpacketData::KeyFlags(flags)));
        if let Some(e) = emb.clone() {
            let s = sp(SubpacketData::EmbeddedSignature(Box::new(e)));
            if unhashed { cfg.unhashed_subpackets.push(s) } else { cfg.hashed_subpackets.push(s) }
        }
        let Ok(sig) = cfg.sign_subkey_binding(&fix.prim_sec, &fix.prim_pub, &pw, &fix.sub_pub) else {
            ctx.stat("refused_config");
            continue;
        };
        let body = body_of(&sig);
        let mut t0 = Tables::default();
        let rfc = Subject::Bind(wkey(&fix.prim_pub), wkey(&fix.sub_pub));
        let _ = log_original(&mut t0, &sig, &rfc, &fix.prim_pub);
        if let Some(e) = &emb {
            // whatever the embedded signature was made over, log what its signer signed
            let signer = if name.contains("another key") { &fix.prim_pub } else { &fix.sub_pub };
            let esubj = if name.contains("another key") { Subject::Bind(wkey(&fix.prim_pub), wkey(&fix.prim_pub)) } else { rfc.clone() };
            let _ = log_original(&mut t0, e, &esubj, signer);
            t0 = tables_for(&t0, &[&body_of(e)], &rfc);
        }
        let vk = VK { k: fix.prim_pub.clone(), yes: false };
        let req = format!("snd_bind sigs={} {} {} {}", hx(&body), kdesc("p", &fix.prim_pub), kdesc("s", &fix.sub_pub), t0.show(false));
        let Ok(reparsed) = parse_sig(&body) else { continue };
        let pubk = SignedPublicSubKey::new(sub_pk.clone(), vec![reparsed.clone()]);
        let a = verdict(guarded(|| pubk.verify_bindings(&vk)));
        ctx.case(req.clone(), a.clone());
        ctx.oracle("backsig_required", "SignedPublicSubKey::verify_bindings", &format!("{label}: {name} sig={}", hx(&body)), (a == "ok") == expect_ok, &a);
        let seck = SignedSecretSubKey::new(sub_sk.clone(), vec![reparsed]);
        let a2 = verdict(guarded(|| seck.verify_bindings(&vk)));
        ctx.case(req, a2.clone());
        ctx.oracle("backsig_required", "SignedSecretSubKey::verify_bindings", &format!("{label}: {name} sig={}", hx(&body)), (a2 == "ok") == expect_ok, &a2);
        ctx.stat(&format!("backsig:{name}:{a}"));
    }
}
