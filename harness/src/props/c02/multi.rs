//! C02, signed messages with SEVERAL signatures of mixed types (binary / text) and mixed v4 / v6
//! signers, in prefixed, one-pass and mixed layouts.  The message builder only produces uniform
//! messages, so these are assembled here from real signatures (`SignatureConfig::sign` over the
//! document) and hand-written One-Pass Signature packets; the grammar is RFC 9580 10.3
//! (Signed Message :- Signature Packet, OpenPGP Message | One-Pass Signed Message).
//!
//! Every signature must verify on the document it was made over - each through ITS OWN hashing
//! mode: a text signature on the LF and on the CR LF form, a binary one on the exact octets - and,
//! after a content mutation, exactly the signatures whose (canonical, for text) document is
//! unchanged.  Entry points: `verify_nested_explicit(i, key_i)` for every i, `verify_nested(keys)`,
//! `verify` / `verify_read` (signature 0).
use super::inline::assemble;
use super::text::{cut_after_cr, eol_mutations, lit_head, ops_body};
use super::*;
use crate::io::ScheduledReader;

struct Entry<'a> {
    fix: &'a Fix,
    text: bool,
    one_pass: bool,
    sig: Signature,
    body: Vec<u8>,
    ops: Option<Vec<u8>>,
}

fn message_bytes(entries: &[Entry], doc: &[u8]) -> Vec<u8> {
    let any_text = entries.iter().any(|e| e.text);
    let mut lit = lit_head(any_text);
    lit.extend_from_slice(doc);
    let mut pk: Vec<(u8, &[u8])> = Vec::new();
    for e in entries {
        match &e.ops {
            Some(o) if e.one_pass => pk.push((4, o)),
            _ => pk.push((2, &e.body)),
        }
    }
    pk.push((11, &lit));
    for e in entries.iter().rev() {
        if e.one_pass {
            pk.push((2, &e.body));
        }
    }
    assemble(&pk)
}

fn request(entries: &[Entry], i: usize, doc: &[u8], vk: &VK, t: &Tables) -> String {
    let mut r = format!("snd_msg i={i}");
    for e in entries {
        match &e.ops {
            Some(o) if e.one_pass => r.push_str(&format!(" m={}:{}", hex::encode(o), hex::encode(&e.body))),
            _ => r.push_str(&format!(" m=-:{}", hex::encode(&e.body))),
        }
    }
    format!("{r} data={} {} {}", hx(doc), kdesc("k", &vk.k), t.show(false))
}

fn class(stage: &str, msg: &str) -> String {
    super::inline::msg_class(stage, msg)
}

/// per-signature answers of `verify_nested_explicit`, plus the verdicts of `verify_nested`
fn run(bytes: &[u8], keys: &[VK]) -> Result<(Vec<String>, Vec<bool>, String, String), String> {
    let parse = || Message::from_bytes(std::io::Cursor::new(bytes.to_vec())).map_err(|e| class("parse", &e.to_string()));
    let mut m = parse()?;
    let mut sink = Vec::new();
    m.read_to_end(&mut sink).map_err(|e| class("read", &e.to_string()))?;
    let mut per = Vec::new();
    for (i, k) in keys.iter().enumerate() {
        per.push(match m.verify_nested_explicit(i, k) {
            Ok(_) => "ok".to_string(),
            Err(e) => class("verify", &e.to_string()),
        });
    }
    let refs: Vec<&dyn VerifyingKey> = keys.iter().map(|k| k as &dyn VerifyingKey).collect();
    let nested = match m.verify_nested(&refs) {
        Ok(v) => v.iter().map(|r| matches!(r, VerificationResult::Valid(_))).collect(),
        Err(e) => return Err(class("verify", &e.to_string())),
    };
    let first = match m.verify(&keys[0]) {
        Ok(_) => "ok".to_string(),
        Err(e) => class("verify", &e.to_string()),
    };
    let mut m2 = parse()?;
    let vr = match m2.verify_read(&keys[0]) {
        Ok(_) => "ok".to_string(),
        Err(_) => "err".to_string(),
    };
    Ok((per, nested, first, vr))
}

pub(super) fn run_all(ctx: &mut Ctx, fixes: &[Fix]) {
    let mut rng = ChaCha8Rng::seed_from_u64(ctx.rng.gen());
    let pool: Vec<&Fix> = fixes.iter().filter(|f| f.weight <= 1).collect();
    if pool.len() < 2 {
        return;
    }
    let docs: Vec<(&str, Vec<u8>)> = vec![
        ("lf-inside", b"pay 100 to alice\nref 4711".to_vec()),
        ("crlf-only", b"line one\r\nline two\r\n".to_vec()),
        ("ends-cr", b"line one\nline two\r".to_vec()),
        ("mixed", b"a\rb\n\nc\r\n\rd\n".to_vec()),
    ];
    // (types, layout): T = text, B = binary; layout octet per signature: p = prefixed, o = one-pass
    let shapes: Vec<(&str, &str)> = vec![
        ("BT", "pp"), ("TB", "pp"), ("BT", "oo"), ("TB", "oo"), ("BT", "po"), ("TB", "po"), ("BT", "op"), ("TB", "op"),
        ("TT", "pp"), ("BB", "oo"), ("BTB", "ppp"), ("TBT", "ooo"), ("BTT", "poo"), ("TBB", "opo"), ("TTB", "ppo"),
    ];
    let mut rot = 0usize;
    for (di, (dname, doc)) in docs.iter().enumerate() {
        for (si, (types, layout)) in shapes.iter().enumerate() {
            if !ctx.thorough() && di >= 2 && si % 3 != di % 3 {
                continue;
            }
            // sign: signer rotates through the pool (v4 and v6 keys mixed in one message)
            let mut entries: Vec<Entry> = Vec::new();
            let mut t0 = Tables::default();
            let mut ok = true;
            let n = types.len();
            let n_ops = layout.bytes().filter(|&c| c == b'o').count();
            let mut seen_ops = 0usize;
            for (j, (ty, lay)) in types.bytes().zip(layout.bytes()).enumerate() {
                let fix = pool[(rot + j) % pool.len()];
                let text = ty == b'T';
                let typ = if text { SignatureType::Text } else { SignatureType::Binary };
                let Ok(cfg) = config_for(&mut rng, &fix.prim_sec, typ, fix.hashes[0], false, None) else {
                    ok = false;
                    break;
                };
                let sig = match guarded(|| cfg.sign(&fix.prim_sec, &Password::empty(), ScheduledReader::from_chunks(&cut_after_cr(doc, 4096)))) {
                    Ok(Ok(s)) => s,
                    _ => {
                        ok = false;
                        break;
                    }
                };
                let body = body_of(&sig);
                if log_original(&mut t0, &sig, &Subject::Doc(doc.clone()), &fix.prim_pub).is_err() {
                    ok = false;
                    break;
                }
                let one_pass = lay == b'o';
                if one_pass {
                    seen_ops += 1;
                }
                let ops = if one_pass { ops_body(&sig, &fix.prim_pub, if seen_ops == n_ops { 1 } else { 0 }) } else { None };
                entries.push(Entry { fix, text, one_pass, sig, body, ops });
            }
            rot += 1;
            if !ok || entries.len() != n {
                ctx.stat("multi:skipped");
                continue;
            }
            ctx.stat(&format!("multi:{types}:{layout}"));
            let keys: Vec<VK> = entries.iter().map(|e| VK { k: e.fix.prim_pub.clone(), yes: false }).collect();
            let who: Vec<String> = entries.iter().map(|e| format!("{}{}:{}", if e.text { "T" } else { "B" }, if e.one_pass { "o" } else { "p" }, e.fix.name)).collect();
            let label = format!("mixed message [{}] doc={dname}", who.join(" "));

            let mut variants: Vec<(String, Vec<u8>, bool)> = vec![("original".into(), doc.clone(), true)];
            let mut ms = eol_mutations(doc);
            ms.push(flip(doc, 0, 0));
            ms.push(ins(doc, doc.len(), b'x'));
            ms.push(del(doc, doc.len() - 1));
            if !ctx.thorough() {
                ms = ms.into_iter().enumerate().filter(|(i, m)| m.desc.contains("all") || m.off == 0 || m.off + 2 >= doc.len() || i % 4 == 0).map(|(_, m)| m).collect();
            }
            for m in ms {
                variants.push((m.desc, m.out, false));
            }
            for (desc, d2, original) in variants {
                let bytes = message_bytes(&entries, &d2);
                let inp = format!("{label} {desc} msg={}", hx(&bytes));
                let res = guarded(|| run(&bytes, &keys));
                let rfc = Subject::Doc(d2.clone());
                let mut t = t0.clone();
                for e in &entries {
                    t = tables_for(&t, &[&e.body], &rfc);
                }
                match res {
                    Ok(Ok((per, nested, first, vr))) => {
                        for (i, e) in entries.iter().enumerate() {
                            let site = format!("mixed signed message: verify_nested_explicit({i}) on a {} signature", if e.text { "text" } else { "binary" });
                            ctx.case(request(&entries, i, &d2, &keys[i], &t), per[i].clone());
                            let same = if e.text { sigrec::rfc_canon_text(&d2) == sigrec::rfc_canon_text(doc) } else { d2 == *doc };
                            if original {
                                ctx.oracle("original_verifies", &site, &inp, per[i] == "ok", &per[i]);
                            } else if same {
                                ctx.stat("multi:equivalent");
                                ctx.oracle("eol_variant_verifies", &site, &inp, per[i] == "ok", &per[i]);
                            } else {
                                ctx.stat(&format!("multi:changed:{}", per[i]));
                                ctx.oracle("mutation_rejected", &site, &inp, per[i] != "ok", "changed content still verifies");
                            }
                        }
                        // verify_nested says Valid for key j iff some signature verifies under it
                        for (j, kj) in keys.iter().enumerate() {
                            let any = entries.iter().enumerate().any(|(i, e)| per[i] == "ok" && body_of(&e.fix.prim_pub) == body_of(&kj.k));
                            ctx.oracle("entry_points_agree", "mixed signed message: verify_nested vs verify_nested_explicit", &inp, nested.get(j) == Some(&any), &format!("key {j}: nested {:?} explicit {per:?}", nested.get(j)));
                        }
                        ctx.oracle("entry_points_agree", "mixed signed message: verify / verify_read vs verify_nested_explicit(0)", &inp, (first == per[0]) && ((vr == "ok") == (per[0] == "ok")), &format!("{first} {vr} {}", per[0]));
                    }
                    Ok(Err(e)) => {
                        // the reader refused the message as a whole: the model says so for every index
                        for (i, _) in entries.iter().enumerate() {
                            ctx.case(request(&entries, i, &d2, &keys[i], &t), e.clone());
                        }
                        ctx.oracle("original_verifies", "mixed signed message", &inp, !original, &e);
                    }
                    Err(p) => ctx.oracle("original_verifies", "mixed signed message", &inp, false, &format!("panic {p}")),
                }
            }
        }
    }
}
