import RpgpModel.Gen.Constants
/-!
# Policy — the version-alignment / criticality decision tables of rpgp, as coded

Transcription (function by function) of the acceptance rules that RFC 9580 places around
downgrade and confusion:

* `src/composed/message/parser.rs`           `esk_filter`, the four call sites in `visit_esk`
* `src/composed/message/types.rs`            `TheRing::find_session_key`, `Edata::decrypt_with_options`,
                                              `DecryptionOptions`, `Message::verify_nested_explicit`
* `src/composed/message/reader/sym_encrypted_protected.rs`, `reader/sym_encrypted.rs`   `decrypt`
* `src/packet/signature/types.rs`            `check_signature_key_version_alignment`, `match_identity`,
                                              `check_inline_verification_preconditions`, the `verify*` family
* `src/packet/signature/config.rs`           `hash_signature_data` guards, sign-side `ensure!`s, `from_key`
* `src/packet/signature/subpacket.rs`        `SubpacketType::from_u8`
* `src/packet/one_pass_signature.rs`         `OnePassSignature::matches`
* `src/composed/message/reader/signed_many.rs`  OPS slot / final hash
* `src/composed/signed_key/{key_parser,public,secret}.rs`  subkey version rules, `verify_bindings`

Cryptographic primitives never appear: what a primitive answers (`key.verify`, "this ESK opens
with the credential we hold", "the two-octet digest prefix matches") is a Boolean *field of the
input*.  Version numbers are the raw octets (`Nat`); the `num_enum` catch-all variants are the
`other` constructors.  Every literal comes from `Rpgp.Gen` (re-extracted from the source).
-/
namespace Rpgp.Policy

/-! ## 1. Encryption containers, ESK packets, `esk_filter` -/

/-- `Edata` variants, with `SymEncryptedProtectedData` split by its config (v1 / v2) -/
inductive Container
  | sed      -- tag 9, Symmetrically Encrypted Data (no integrity protection)
  | seipd1   -- tag 18 version 1
  | seipd2   -- tag 18 version 2
  | gnupg    -- tag 20, GnuPG "OCB encrypted data"
  deriving DecidableEq, Repr

/-- `types::PkeskVersion` (`#[num_enum(catch_all)] Other(u8)`) -/
inductive PkeskVersion
  | v3 | v6 | other (n : Nat)
  deriving DecidableEq, Repr

/-- `PkeskVersion::from(u8)` -/
def PkeskVersion.ofNat (n : Nat) : PkeskVersion :=
  if n = Gen.pkeskV3 then .v3 else if n = Gen.pkeskV6 then .v6 else .other n

/-- `types::SkeskVersion` -/
inductive SkeskVersion
  | v4 | v5 | v6 | other (n : Nat)
  deriving DecidableEq, Repr

/-- `SkeskVersion::from(u8)` -/
def SkeskVersion.ofNat (n : Nat) : SkeskVersion :=
  if n = Gen.skeskV4 then .v4 else if n = Gen.skeskV5 then .v5
  else if n = Gen.skeskV6 then .v6 else .other n

/-- `composed::Esk`: a PKESK (tag 1) or SKESK (tag 3) packet with its version octet -/
structure Esk where
  isPk : Bool
  ver : Nat
  deriving DecidableEq, Repr

/-- `esk_filter`'s closure: keep a PKESK iff its version equals `pkAllowed`, an SKESK iff its
version is contained in `skAllowed` -/
def keepEsk (pkAllowed : PkeskVersion) (skAllowed : List SkeskVersion) (e : Esk) : Bool :=
  if e.isPk then decide (PkeskVersion.ofNat e.ver = pkAllowed)
  else skAllowed.contains (SkeskVersion.ofNat e.ver)

/-- `parser.rs::esk_filter` -/
def eskFilter (esks : List Esk) (pkAllowed : PkeskVersion) (skAllowed : List SkeskVersion) : List Esk :=
  esks.filter (keepEsk pkAllowed skAllowed)

/-- the arguments `visit_esk` passes to `esk_filter` for each container (four call sites) -/
def filterArgs : Container → PkeskVersion × List SkeskVersion
  | .sed => (.ofNat Gen.filtSedPk, [.ofNat Gen.filtSedSk])
  | .seipd1 => (.ofNat Gen.filtSeipd1Pk, [.ofNat Gen.filtSeipd1Sk])
  | .seipd2 => (.ofNat Gen.filtSeipd2Pk, [.ofNat Gen.filtSeipd2Sk])
  | .gnupg => (.ofNat Gen.filtGnupgPk, [.ofNat Gen.filtGnupgSkA, .ofNat Gen.filtGnupgSkB])

/-- the `esk` field of `Message::Encrypted` after `Message::from_bytes` -/
def parsedEsks (c : Container) (esks : List Esk) : List Esk :=
  eskFilter esks (filterArgs c).1 (filterArgs c).2

/-- SPEC (RFC 9580 §10.3.2.1 and §5.1/§5.3; LibrePGP for the OCB packet), written independently of
the code: which ESK versions belong to which container. -/
def alignedSpec (c : Container) (e : Esk) : Bool :=
  match c with
  | .sed | .seipd1 => (e.isPk && decide (e.ver = 3)) || (!e.isPk && decide (e.ver = 4))
  | .seipd2 => decide (e.ver = 6)
  | .gnupg => (e.isPk && decide (e.ver = 3)) || (!e.isPk && (decide (e.ver = 4) || decide (e.ver = 5)))

/-! ## 2. Session keys and the container's own check -/

/-- `PlainSessionKey` variants -/
inductive SkKind
  | v3_4 | v5 | v6
  deriving DecidableEq, Repr

/-- a `PlainSessionKey`: variant, symmetric algorithm id (`V3_4` only, else 0), an abstract
identity for the raw key bytes, and their length.  `PartialEq` of the Rust type compares exactly
these. -/
structure SessKey where
  kind : SkKind
  alg : Nat
  key : Nat
  len : Nat
  deriving DecidableEq, Repr

/-- `DecryptionOptions` (the two opt-ins; the SEIPDv1 read mode does not influence acceptance) -/
structure DecOpts where
  legacy : Bool
  gnupgAead : Bool
  deriving DecidableEq, Repr

/-- what the container packet itself fixes: SEIPDv2 and GnuPG AEAD name their cipher -/
structure ContainerCfg where
  kind : Container
  alg : Nat       -- `sym_alg` of the SEIPDv2 / GnuPG AEAD config (unused for SED / SEIPDv1)
  keySize : Nat   -- `sym_alg.key_size()`
  deriving DecidableEq, Repr

/-- `SymEncryptedDataReader::decrypt` / `SymEncryptedProtectedDataReader::decrypt`: the checks made
on the session key before a primitive is set up (`true` = the primitive is invoked) -/
def sessionKeyFits (c : ContainerCfg) (sk : SessKey) : Bool :=
  match c.kind with
  | .sed =>
    -- V5 | V6 => bail!("must not combine unprotected encryption with new session keys")
    match sk.kind with
    | .v3_4 => true
    | _ => false
  | .seipd1 =>
    match sk.kind with
    | .v3_4 => true
    | .v5 => false   -- unsupported_err!
    | .v6 => false   -- bail!
  | .gnupg =>
    match sk.kind with
    | .v3_4 => decide (c.alg = sk.alg) && decide (sk.len = c.keySize)
    | .v5 => decide (sk.len = c.keySize)
    | .v6 => false
  | .seipd2 =>
    match sk.kind with
    | .v3_4 => false
    | .v5 => false
    | .v6 => decide (sk.len = c.keySize)

/-- `Edata::decrypt_with_options`: opt-in first (SED, GnuPG AEAD), then the reader's check -/
def decryptEdata (o : DecOpts) (c : ContainerCfg) (sk : SessKey) : Bool :=
  match c.kind with
  | .seipd1 | .seipd2 => sessionKeyFits c sk
  | .sed => if o.legacy then sessionKeyFits c sk else false
  | .gnupg => if o.gnupgAead then sessionKeyFits c sk else false

/-- SPEC: the session-key variant each container takes -/
def kindSpec : Container → SkKind → Bool
  | .sed, .v3_4 | .seipd1, .v3_4 | .gnupg, .v3_4 | .gnupg, .v5 | .seipd2, .v6 => true
  | _, _ => false

/-! ## 3. `TheRing::find_session_key` and `Message::decrypt_the_ring` -/

/-- what the caller holds.  `haveKey`: a secret key that matches and opens every PKESK of the
message; `havePw`: the message password of every SKESK. -/
structure Ring where
  haveKey : Bool
  havePw : Bool
  sessionKeys : List SessKey
  opts : DecOpts
  deriving DecidableEq, Repr

/-- the raw session key all ESKs of the message wrap (algorithm id, identity, length) -/
structure RawKey where
  alg : Nat
  key : Nat
  len : Nat
  deriving DecidableEq, Repr

/-- the session key a PKESK yields (`EskType` by version; `Other` ⇒ `continue`) -/
def pkeskYield (r : Ring) (k : RawKey) (e : Esk) : Option SessKey :=
  if e.isPk && r.haveKey then
    match PkeskVersion.ofNat e.ver with
    | .v3 => some ⟨.v3_4, k.alg, k.key, k.len⟩
    | .v6 => some ⟨.v6, 0, k.key, k.len⟩
    | .other _ => none
  else none

/-- the session key an SKESK yields: `sym_algorithm()` is `None` for `Other` (skipped with a
warning), v5 is skipped unless `gnupg_aead` -/
def skeskYield (r : Ring) (k : RawKey) (e : Esk) : Option SessKey :=
  if !e.isPk && r.havePw then
    match SkeskVersion.ofNat e.ver with
    | .v4 => some ⟨.v3_4, k.alg, k.key, k.len⟩
    | .v5 => if r.opts.gnupgAead then some ⟨.v5, 0, k.key, k.len⟩ else none
    | .v6 => some ⟨.v6, 0, k.key, k.len⟩
    | .other _ => none
  else none

/-- "compare all session keys" of one group: every further key equals the first -/
def allSame : List SessKey → Bool
  | [] => true
  | f :: rest => rest.all (fun x => decide (x = f))

/-- the search part of `find_session_key`: PKESK group, SKESK group, explicit session keys; each
group must be consistent, the group representatives must agree ("compare the representatives of
the groups with each other"); priority PKESK, SKESK, explicit.
`none` = `bail!("inconsistent session keys detected")`. -/
def searchSessionKey (r : Ring) (k : RawKey) (esks : List Esk) : Option (Option SessKey) :=
  let pk := esks.filterMap (pkeskYield r k)
  let sk := esks.filterMap (skeskYield r k)
  let ex := r.sessionKeys
  if allSame pk && allSame sk && allSame ex &&
      allSame (pk.head?.toList ++ sk.head?.toList ++ ex.head?.toList) then
    some ((pk.head?.or sk.head?).or ex.head?)
  else none

/-- `find_session_key`: with `abort_early` the first explicit session key is used unseen -/
def findSessionKey (r : Ring) (k : RawKey) (esks : List Esk) (abortEarly : Bool) :
    Option (Option SessKey) :=
  if abortEarly then
    match r.sessionKeys with
    | s :: _ => some (some s)
    | [] => searchSessionKey r k esks
  else searchSessionKey r k esks

inductive DecOutcome
  | ok        -- session key found, container accepted it (the primitive runs with the right key)
  | missing   -- `Error::MissingKey`
  | err       -- any other error
  deriving DecidableEq, Repr

/-- `Message::decrypt_the_ring` on an already parsed `Message::Encrypted { esk, edata }` -/
def decryptParsed (c : ContainerCfg) (esks : List Esk) (r : Ring) (k : RawKey) (abortEarly : Bool) :
    DecOutcome :=
  match findSessionKey r k esks abortEarly with
  | none => .err
  | some none => .missing
  | some (some sk) => if decryptEdata r.opts c sk then .ok else .err

/-- `Message::from_bytes` followed by `decrypt_the_ring` -/
def decryptMessage (c : ContainerCfg) (esks : List Esk) (r : Ring) (k : RawKey) (abortEarly : Bool) :
    DecOutcome :=
  decryptParsed c (parsedEsks c.kind esks) r k abortEarly

/-! ## 4. Key version × signature version -/

/-- `Signature::check_signature_key_version_alignment` (and the same two `ensure_eq!`s in
`check_inline_verification_preconditions`) -/
def alignSigKey (keyVer sigVer : Nat) : Bool :=
  (if keyVer = Gen.keyV6 then decide (sigVer = Gen.sigV6) else true) &&
  (if sigVer = Gen.sigV6 then decide (keyVer = Gen.keyV6) else true)

/-- the `ensure!` at the head of `sign_certification_third_party`, `sign_subkey_binding`,
`sign_primary_key_binding`, `sign_key` and `SignatureHasher::sign` -/
def signAllowed (keyVer sigVer : Nat) : Bool :=
  (decide (sigVer = Gen.sigV4) && decide (keyVer = Gen.keyV4)) ||
  (decide (sigVer = Gen.sigV6) && decide (keyVer = Gen.keyV6))

/-- `SignatureConfig::from_key`: the signature version chosen for a key (none = unsupported) -/
def fromKeySigVersion (keyVer : Nat) : Option Nat :=
  if keyVer = Gen.keyV4 then some Gen.sigV4
  else if keyVer = Gen.keyV6 then some Gen.sigV6 else none

/-! ## 5. Subpackets: criticality and issuer-fingerprint version -/

/-- `SubpacketType::from_u8` after masking: dedicated type, `Experimental`, or `Other` -/
inductive SubClass
  | known | experimental | other
  deriving DecidableEq, Repr

def subClass (id : Nat) : SubClass :=
  if Gen.knownSubpacketIdsRd.contains id then .known
  else if Gen.spExperimentalMin ≤ id ∧ id ≤ Gen.spExperimentalMax then .experimental
  else .other

/-- one subpacket as `hash_signature_data` / `match_identity` look at it -/
structure Sub where
  id : Nat               -- 7-bit type id
  critical : Bool
  fpVer : Option Nat := none   -- IssuerFingerprint: `Fingerprint::version()` (none = Unknown)
  issuerMatch : Bool := false  -- IssuerKeyId / IssuerFingerprint: equals the verifying key's
  deriving DecidableEq, Repr

/-- `(self.version(), fp.version())` must be `(V6, Some(V6))` or `(V4, Some(V4))` -/
def fpAligned (sigVer : Nat) (fpVer : Option Nat) : Bool :=
  match fpVer with
  | some v => (decide (sigVer = Gen.sigV6) && decide (v = Gen.keyV6)) ||
              (decide (sigVer = Gen.sigV4) && decide (v = Gen.keyV4))
  | none => false

/-- body of the `for packet in &self.hashed_subpackets` loop: `true` = no `bail!` -/
def subOk (sigVer : Nat) (s : Sub) : Bool :=
  if Gen.hashSigDataChecksCritical = 1 ∧ s.critical ∧ subClass s.id = .other then false
  else if s.id = Gen.spRdIssuerFingerprint then fpAligned sigVer s.fpVer
  else true

/-- the loop itself -/
def hashedAreaOk (sigVer : Nat) : List Sub → Bool
  | [] => true
  | s :: rest => if subOk sigVer s then hashedAreaOk sigVer rest else false

/-- `SignatureConfig::hash_signature_data`: `true` = `Ok(len)`.  v2/v3 have no subpacket areas;
v5 and unknown versions `bail!`. -/
def hashSignatureData (sigVer : Nat) (hashed : List Sub) : Bool :=
  if sigVer = Gen.sigV2 ∨ sigVer = Gen.sigV3 then true
  else if sigVer = Gen.sigV4 ∨ sigVer = Gen.sigV6 then hashedAreaOk sigVer hashed
  else false

/-- SPEC (RFC 9580 §5.2.3.7, registry of §5.2.3.7 table 5 as implemented by rpgp 0.16 +
LibrePGP 34): the subpacket ids with an assigned, implemented meaning -/
def registryIds : List Nat :=
  [2, 3, 4, 5, 6, 7, 9, 11, 12, 16, 20, 21, 22, 23, 24, 25, 26, 27, 28, 29, 30, 31, 32, 33, 34, 35, 39]

/-! ## 6. The `verify*` family -/

/-- a signature packet as the verification functions look at it -/
structure SigDesc where
  known : Bool := true        -- `InnerSignature::Known` (versions 2, 3, 4, 6 parse to Known)
  ver : Nat
  typ : Nat                   -- signature type id
  hashAlg : Nat := 8
  pubAlg : Nat := 22
  salt : Nat := 0             -- abstract identity of the v6 salt
  saltLenOk : Bool := true    -- v6: salt length is the one fixed for the hash algorithm
  hashStrong : Bool := true   -- `check_signature_hash_strength` passes
  hashed : List Sub := []
  unhashed : List Sub := []
  v3IssuerMatch : Bool := true  -- v2/v3: the issuer field equals the key's id
  prefixOk : Bool := true     -- the stored two octets equal the computed digest's first two
  cryptoOk : Bool := true     -- `key.verify(hash_alg, digest, sig)` (the primitive's answer)
  deriving DecidableEq, Repr

def isIssuerSub (s : Sub) : Bool :=
  decide (s.id = Gen.spRdIssuerKeyId) || decide (s.id = Gen.spRdIssuerFingerprint)

/-- `Signature::match_identity`: no issuer information ⇒ candidate; else one must match.
(`issuer_key_id` / `issuer_fingerprint` read hashed *and* unhashed areas; v2/v3 signatures have
exactly one issuer, their header field.) -/
def matchIdentity (s : SigDesc) : Bool :=
  if s.ver = Gen.sigV2 ∨ s.ver = Gen.sigV3 then s.v3IssuerMatch
  else
    let iss := (s.hashed ++ s.unhashed).filter isIssuerSub
    iss.isEmpty || iss.any (·.issuerMatch)

/-- entry points -/
inductive VPath
  | data          -- `Signature::verify` (detached, cleartext, standalone packets)
  | cert          -- `verify_certification` / `verify_third_party_certification`
  | subkeyBinding -- `verify_subkey_binding`
  | primaryKeyBinding -- `verify_primary_key_binding`
  | key           -- `verify_key` / `verify_key_third_party`
  | inline        -- `Message::verify*` (`verify_nested_explicit`)
  deriving DecidableEq, Repr

/-- the `ensure!(matches!(config.typ, …))` of each entry point -/
def typeOk (p : VPath) (typ : Nat) : Bool :=
  match p with
  | .data | .inline => true
  | .cert => typ == 0x10 || typ == 0x11 || typ == 0x12 || typ == 0x13 || typ == 0x30
  | .subkeyBinding => typ == 0x18 || typ == 0x28
  | .primaryKeyBinding => typ == 0x19
  | .key => typ == 0x1F || typ == 0x20

/-- entry points that call `match_identity` -/
def checksIdentity : VPath → Bool
  | .subkeyBinding | .primaryKeyBinding => false
  | _ => true

/-- entry points that re-check the v6 salt length (the packet parser checks it too) -/
def checksSaltLen : VPath → Bool
  | .data | .inline => true
  | _ => false

/-- key-related guards (`check_signature_key_version_alignment`, `check_signature_hash_strength`,
`match_identity`); on the inline path they are `check_inline_verification_preconditions` -/
def keyGuards (p : VPath) (keyVer : Nat) (s : SigDesc) : Bool :=
  if p = .inline ∧ Gen.inlineChecksPreconditions ≠ 1 then true
  else alignSigKey keyVer s.ver && s.hashStrong && (!checksIdentity p || matchIdentity s)

/-- accept / reject of one verification entry point for a key reporting version `keyVer` -/
def verifyPath (p : VPath) (keyVer : Nat) (s : SigDesc) : Bool :=
  s.known && typeOk p s.typ && keyGuards p keyVer s &&
  (!(checksSaltLen p && decide (s.ver = Gen.sigV6)) || s.saltLenOk) &&
  hashSignatureData s.ver s.hashed && s.prefixOk && s.cryptoOk

/-! ## 7. One-pass signatures -/

/-- `OnePassSignature` fields -/
structure OpsDesc where
  ver : Nat
  typ : Nat
  hashAlg : Nat
  pubAlg : Nat
  salt : Nat := 0     -- v6 only
  issuer : Nat := 0   -- key id (v3) / fingerprint (v6): NOT compared by `matches`
  deriving DecidableEq, Repr

/-- `OnePassSignature::matches` -/
def opsMatches (o : OpsDesc) (s : SigDesc) : Bool :=
  s.known && decide (o.typ = s.typ) && decide (o.hashAlg = s.hashAlg) && decide (o.pubAlg = s.pubAlg) &&
  ((decide (o.ver = 3) && decide (s.ver = Gen.sigV4)) ||
   (decide (o.ver = 6) && decide (s.ver = Gen.sigV6) && decide (o.salt = s.salt)))

/-- `SignatureManyReader`: a mismatching OPS leaves the slot's hash empty (`hashes.push(None)`),
and `verify_nested_explicit` then fails; otherwise the trailing signature is verified as on the
prefixed-signature path -/
def verifyInline (ops : Option OpsDesc) (keyVer : Nat) (s : SigDesc) : Bool :=
  (match ops with
   | none => true
   | some o => opsMatches o s) && verifyPath .inline keyVer s

/-! ## 8. Certificates: subkey version rules and binding verification -/

/-- embedded primary-key-binding signature (0x19) of a subkey binding -/
inductive BackSig
  | absent | good | bad
  deriving DecidableEq, Repr

/-- one 0x18/0x28 signature on a subkey -/
structure SubSig where
  bindingOk : Bool    -- `verify_subkey_binding(primary, subkey)`
  signFlag : Bool     -- `key_flags().sign()` (hashed area)
  back : BackSig
  deriving DecidableEq, Repr

structure SubkeyDesc where
  secret : Bool       -- Secret-Subkey packet (tag 7) rather than Public-Subkey (tag 14)
  ver : Nat
  sigs : List SubSig
  deriving DecidableEq, Repr

structure CertDesc where
  primaryVer : Nat
  detailsOk : Bool    -- `SignedKeyDetails::verify_bindings` (users, attributes, direct, revocations)
  subkeys : List SubkeyDesc
  deriving DecidableEq, Repr

/-- `primary_key.version() < KeyVersion::V4` (derived `PartialOrd`: V2 < V3 < V4 < V5 < V6 < Other) -/
def belowV4 (v : Nat) : Bool := decide (v = Gen.keyV2) || decide (v = Gen.keyV3)

/-- `key_parser::next`: "V2/3 keys can not have subkeys"; v6 primary ⇒ every subkey v6 -/
def certParseOk (c : CertDesc) : Bool :=
  (c.subkeys.isEmpty || !belowV4 c.primaryVer) &&
  (if c.primaryVer = Gen.keyV6 then c.subkeys.all (fun s => decide (s.ver = Gen.keyV6)) else true)

/-- `SignedPublicSubKey::verify_bindings`, one signature -/
def publicSubSigOk (g : SubSig) : Bool :=
  g.bindingOk && (if Gen.publicSubkeyChecksBacksig = 1 ∧ g.signFlag then decide (g.back = .good) else true)

/-- `SignedSecretSubKey::verify_bindings`, one signature -/
def secretSubSigOk (g : SubSig) : Bool :=
  g.bindingOk && (if Gen.secretSubkeyChecksBacksig = 1 ∧ g.signFlag then decide (g.back = .good) else true)

/-- `Signed{Public,Secret}Key::new` drops subkeys without signatures; `verify_bindings` of the
rest: `ensure!(!signatures.is_empty())` and every signature must pass.  `asSecret`: the certificate
is held as a `SignedSecretKey`, its tag-7 subkeys are `SignedSecretSubKey`s. -/
def subkeyOk (asSecret : Bool) (s : SubkeyDesc) : Bool :=
  s.sigs.isEmpty || (if asSecret && s.secret then s.sigs.all secretSubSigOk else s.sigs.all publicSubSigOk)

def verifyBindings (asSecret : Bool) (c : CertDesc) : Bool :=
  c.detailsOk && c.subkeys.all (subkeyOk asSecret)

/-- `Signed*Key::from_bytes` + `verify_bindings` -/
def certAccepted (asSecret : Bool) (c : CertDesc) : Bool :=
  certParseOk c && verifyBindings asSecret c

end Rpgp.Policy
