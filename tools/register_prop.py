#!/usr/bin/env python3
"""register_prop.py <ws> <PROP>: add PROP to Driver.lean, props/mod.rs and manifest_src.json (claimed entry
taken from the builder's manifest_src.json)."""
import json, re, sys
ws, P = sys.argv[1], sys.argv[2]; p = P.lower()
# Driver
d = open('/verif/lean/Driver.lean').read()
if f"Ops.{P}" not in d:
    d = re.sub(r"(import RpgpModel\.Ops\.C\d+\n)(?!import RpgpModel\.Ops)", lambda m: m.group(1) + f"import RpgpModel.Ops.{P}\n", d, count=1)
    d = re.sub(r"\[(Ops\.C[^\]]*)\]", lambda m: "[" + m.group(1) + f", Ops.{P}.handle]", d, count=1)
    open('/verif/lean/Driver.lean', 'w').write(d)
# mod.rs
m = open('/verif/harness/src/props/mod.rs').read()
if f"pub mod {p};" not in m:
    m = m.replace("pub mod c01;", f"pub mod c01;\npub mod {p};") if P > "C01" else m
    m = m.replace('        _ => return false,', f'        "{P}" => {p}::run(ctx),\n        _ => return false,')
    open('/verif/harness/src/props/mod.rs', 'w').write(m)
# manifest
src = json.load(open('/verif/tools/manifest_src.json'))
try:
    theirs = json.load(open(f'/tmp/w/{ws}/verif/tools/manifest_src.json'))
    if P in theirs.get('claimed', {}):
        src['claimed'][P] = theirs['claimed'][P]
        json.dump(src, open('/verif/tools/manifest_src.json', 'w'), indent=1)
        print("claimed entry merged")
    else:
        print("NO claimed entry in builder's manifest_src.json")
except Exception as e:
    print("manifest merge failed", e)
