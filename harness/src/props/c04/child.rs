//! Part D — byte-level hostility through every public parse entry point, in a child process.
//!
//! The parent writes a batch file (`<kind> <hex>` per line), re-executes this binary as
//! `rpgp-verif-harness C04-child <batch> <seed>` and reads one progress line per case:
//!   `S <i>`                       case i started
//!   `D <i> <ok|err|panic> <ms> <detail>`   case i done
//! A child that dies (stack overflow, abort) or is silent for the watchdog time is killed; the case
//! that was running is the culprit (no bisection needed), and a new child resumes after it.

use std::io::{BufRead, BufReader, Read, Write};
use std::process::{Command, Stdio};
use std::sync::mpsc;
use std::time::{Duration, Instant};

use pgp::armor::Dearmor;
use pgp::composed::{
    CleartextSignedMessage, Deserializable, DetachedSignature, Message, PlainSessionKey, RawSessionKey, SignedPublicKey, SignedSecretKey,
};
use pgp::crypto::sym::SymmetricKeyAlgorithm;
use pgp::packet::{Packet, PacketParser, SymEncryptedProtectedData};
use pgp::ser::Serialize;
use pgp::types::{KeyDetails, Password};
use rand::{Rng, SeedableRng};
use rand_chacha::ChaCha8Rng;

use super::{guard, Ring, WATCHDOG_MS};
use crate::ctx::{hx, Ctx};
use crate::gen;

const READ_CAP: u64 = 64 << 20;
pub const SESSION_KEY: [u8; 16] = [0x42; 16];

fn drain<R: Read>(r: R) -> std::io::Result<u64> {
    let mut sink = std::io::sink();
    std::io::copy(&mut r.take(READ_CAP), &mut sink)
}

/// drive a parsed message as far as it goes: decompress, decrypt with everything the recipient
/// holds, read to the end, verify
fn drive_message<'a>(mut m: Message<'a>, ring: &Ring, depth: usize, log: &mut Vec<String>) {
    for _ in 0..(16usize.saturating_sub(depth)) {
        if m.is_compressed() {
            match m.decompress() {
                Ok(n) => m = n,
                Err(_) => {
                    log.push("decompress:err".into());
                    return;
                }
            }
        } else if m.is_encrypted() {
            // session key first (cheap), then password, then each key: each attempt consumes the
            // message, so only the first applicable one is made per parse (the parent re-submits the
            // input under the other kinds)
            return;
        } else {
            break;
        }
    }
    let mut sink = Vec::new();
    let n = (&mut m).take(READ_CAP).read_to_end(&mut sink);
    log.push(format!("read:{}", if n.is_ok() { "ok" } else { "err" }));
    if n.is_ok() && m.is_signed() {
        for (_, k) in &ring.keys {
            let pk = k.to_public_key();
            let _ = m.verify(&pk);
            let _ = m.verify_nested(&[&pk]);
        }
    }
    // a literal inside may itself be a message (attacker-chosen inner streams)
    if depth < 8 && !sink.is_empty() && sink[0] & 0x80 != 0 {
        if let Ok(inner) = Message::from_bytes(&sink[..]) {
            drive_message(inner, ring, depth + 1, log);
        }
    }
}

fn decrypt_variants(data: &[u8], armored: bool, ring: &Ring, log: &mut Vec<String>) {
    let parse = |d: &[u8]| -> Option<Message<'static>> {
        let owned = d.to_vec();
        if armored {
            Message::from_armor(std::io::Cursor::new(owned)).ok().map(|x| x.0)
        } else {
            Message::from_bytes(std::io::Cursor::new(owned)).ok()
        }
    };
    let Some(m) = parse(data) else {
        log.push("parse:err".into());
        return;
    };
    if !m.is_encrypted() {
        drive_message(m, ring, 0, log);
        return;
    }
    drop(m);
    // every secret the recipient holds, one parse each
    if let Some(m) = parse(data) {
        match m.decrypt_with_session_key(PlainSessionKey::V3_4 { sym_alg: SymmetricKeyAlgorithm::AES128, key: RawSessionKey::from(SESSION_KEY.to_vec()) }) {
            Ok(d) => drive_message(d, ring, 1, log),
            Err(_) => log.push("sk34:err".into()),
        }
    }
    if let Some(m) = parse(data) {
        match m.decrypt_with_session_key(PlainSessionKey::V6 { key: RawSessionKey::from(SESSION_KEY.to_vec()) }) {
            Ok(d) => drive_message(d, ring, 1, log),
            Err(_) => log.push("sk6:err".into()),
        }
    }
    for pw in ["hunter2"] {
        if let Some(m) = parse(data) {
            match m.decrypt_with_password(&Password::from(pw)) {
                Ok(d) => drive_message(d, ring, 1, log),
                Err(_) => log.push("pw:err".into()),
            }
        }
    }
    for (_, k) in &ring.keys {
        if let Some(m) = parse(data) {
            match m.decrypt(&Password::empty(), k) {
                Ok(d) => drive_message(d, ring, 1, log),
                Err(_) => log.push("key:err".into()),
            }
        }
    }
}

fn exercise_public_key(k: &SignedPublicKey, log: &mut Vec<String>) {
    let _ = k.verify_bindings();
    let _ = k.fingerprint();
    let _ = k.legacy_key_id();
    let b = k.to_bytes();
    log.push(format!("pub:ser:{}", b.is_ok()));
    let _ = k.to_armored_bytes(Default::default());
    let _ = k.write_len();
    for s in &k.public_subkeys {
        let _ = s.key.fingerprint();
        let _ = s.verify_bindings(&k.primary_key);
    }
    if let Ok(b) = b {
        let _ = SignedPublicKey::from_bytes(&b[..]);
    }
}

fn exercise_secret_key(k: &SignedSecretKey, log: &mut Vec<String>) {
    let _ = k.verify_bindings();
    let _ = k.fingerprint();
    let b = k.to_bytes();
    log.push(format!("sec:ser:{}", b.is_ok()));
    let _ = k.to_armored_bytes(Default::default());
    let _ = k.primary_key.secret_params().checksum();
    let _ = k.primary_key.has_sha1_checksum();
    for pw in ["", "test", "hunter2"] {
        let _ = k.primary_key.unlock(&Password::from(pw), |_, _| Ok(()));
        for s in &k.secret_subkeys {
            let _ = s.key.unlock(&Password::from(pw), |_, _| Ok(()));
        }
    }
    for s in &k.secret_subkeys {
        let _ = s.key.secret_params().checksum();
    }
    let p = k.to_public_key();
    exercise_public_key(&p, log);
    // use it: sign and decrypt with whatever it claims to be
    let _ = DetachedSignature::sign_binary_data(ChaCha8Rng::seed_from_u64(1), &k.primary_key, &Password::empty(), pgp::crypto::hash::HashAlgorithm::Sha256, &b"x"[..]);
}

/// every public parse entry point on `data`, then serialize / verify / decrypt whatever parsed
pub fn exercise_all(data: &[u8], ring: &Ring) -> Vec<String> {
    let mut log = Vec::new();
    // packet level
    let mut n_packets = 0usize;
    for p in PacketParser::new(data) {
        n_packets += 1;
        if n_packets > 200_000 {
            break;
        }
        let Ok(p) = p else { continue };
        let _ = p.to_bytes();
        let _ = p.write_len();
        match &p {
            Packet::CompressedData(c) => {
                if let Ok(d) = c.decompress() {
                    let _ = drain(d);
                }
            }
            Packet::Signature(s) => {
                for (_, k) in &ring.keys {
                    let _ = s.verify(&k.to_public_key(), &b"content"[..]);
                }
            }
            Packet::SymEncryptedProtectedData(e) => {
                let _ = e.decrypt(&SESSION_KEY, Some(SymmetricKeyAlgorithm::AES128), Default::default());
            }
            Packet::SymKeyEncryptedSessionKey(s) => {
                let _ = s.decrypt(SESSION_KEY);
                let _ = pgp::composed::decrypt_session_key_with_password(s, &Password::from("hunter2"));
            }
            Packet::PublicKeyEncryptedSessionKey(pk) => {
                let _ = pk.values();
                let _ = pk.id();
                let _ = pk.fingerprint();
            }
            Packet::SecretKey(k) => {
                let _ = k.secret_params().checksum();
                let _ = k.unlock(&Password::from("test"), |_, _| Ok(()));
            }
            Packet::SecretSubkey(k) => {
                let _ = k.secret_params().checksum();
                let _ = k.unlock(&Password::from("test"), |_, _| Ok(()));
            }
            Packet::PublicKey(k) => {
                let _ = k.fingerprint();
                let _ = k.legacy_key_id();
            }
            Packet::PublicSubkey(k) => {
                let _ = k.fingerprint();
            }
            _ => {}
        }
    }
    log.push(format!("packets:{n_packets}"));
    // composed level, binary
    decrypt_variants(data, false, ring, &mut log);
    if let Ok(k) = SignedPublicKey::from_bytes(data) {
        exercise_public_key(&k, &mut log);
    }
    if let Ok(k) = SignedSecretKey::from_bytes(data) {
        exercise_secret_key(&k, &mut log);
    }
    if let Ok(s) = DetachedSignature::from_bytes(data) {
        let _ = s.to_bytes();
        for (_, k) in &ring.keys {
            let _ = s.verify(&k.to_public_key(), b"content");
        }
    }
    // the many-iterators (keyrings, signature files): whatever is in the stream
    {
        use pgp::composed::PublicOrSecret;
        if let Ok(it) = PublicOrSecret::from_bytes_many(data) {
            for k in it.take(5000).flatten() {
                let _ = k.to_bytes();
            }
        }
        if let Ok(it) = SignedPublicKey::from_bytes_many(data) {
            let _ = it.take(5000).count();
        }
        if let Ok(it) = SignedSecretKey::from_bytes_many(data) {
            let _ = it.take(5000).count();
        }
        if let Ok(it) = DetachedSignature::from_bytes_many(data) {
            let _ = it.take(5000).count();
        }
    }
    // armored
    {
        let mut d = Dearmor::new(data);
        let _ = drain(&mut d);
    }
    {
        let opt = pgp::armor::DearmorOptions::default().enable_crc24_check();
        let mut d = Dearmor::with_options(data, opt);
        let _ = drain(&mut d);
    }
    if data.starts_with(b"-----") || data.windows(5).take(200).any(|w| w == b"-----") {
        decrypt_variants(data, true, ring, &mut log);
        if let Ok((k, _)) = SignedPublicKey::from_armor_single(data) {
            exercise_public_key(&k, &mut log);
        }
        if let Ok((k, _)) = SignedSecretKey::from_armor_single(data) {
            exercise_secret_key(&k, &mut log);
        }
        if let Ok((s, _)) = DetachedSignature::from_armor_single(data) {
            let _ = s.to_bytes();
        }
        if let Ok((it, _)) = SignedPublicKey::from_armor_many(data) {
            for k in it.take(50).flatten() {
                let _ = k.to_bytes();
            }
        }
        if let Ok((any, _)) = pgp::composed::Any::from_armor(data) {
            drop(any);
        }
        if let Ok(s) = std::str::from_utf8(data) {
            if let Ok((c, _)) = CleartextSignedMessage::from_string(s) {
                let _ = c.signed_text();
                let _ = c.to_armored_string(Default::default());
                for (_, k) in &ring.keys {
                    let _ = c.verify(&k.to_public_key());
                }
            }
        }
        let _ = CleartextSignedMessage::from_armor(data);
    }
    log
}

/// inner packet stream `inner` inside a valid SEIPD (v1, AES-128, the recipient's session key), then
/// decrypted and driven
fn exercise_inner(inner: &[u8], ring: &Ring, v2: bool) -> Vec<String> {
    let mut log = Vec::new();
    let mut rng = ChaCha8Rng::seed_from_u64(5);
    let pkt = if v2 {
        SymEncryptedProtectedData::encrypt_seipdv2(&mut rng, SymmetricKeyAlgorithm::AES128, pgp::crypto::aead::AeadAlgorithm::Ocb, pgp::crypto::aead::ChunkSize::C64B, &SESSION_KEY, inner)
    } else {
        SymEncryptedProtectedData::encrypt_seipdv1(&mut rng, SymmetricKeyAlgorithm::AES128, &SESSION_KEY, inner)
    };
    let Ok(pkt) = pkt else { return vec!["cannot-build".into()] };
    let Ok(bytes) = Packet::from(pkt).to_bytes() else { return vec!["cannot-build".into()] };
    let sk = if v2 {
        PlainSessionKey::V6 { key: RawSessionKey::from(SESSION_KEY.to_vec()) }
    } else {
        PlainSessionKey::V3_4 { sym_alg: SymmetricKeyAlgorithm::AES128, key: RawSessionKey::from(SESSION_KEY.to_vec()) }
    };
    match Message::from_bytes(&bytes[..]).and_then(|m| m.decrypt_with_session_key(sk)) {
        Ok(d) => drive_message(d, ring, 0, &mut log),
        Err(_) => log.push("decrypt:err".into()),
    }
    log
}

fn exercise(kind: &str, data: &[u8], ring: &Ring) -> Vec<String> {
    if let Some(k) = kind.strip_suffix("+slow") {
        return exercise(k, data, ring);
    }
    if let Some(k) = kind.strip_suffix("@2m") {
        // the default stack of a spawned Rust thread (2 MiB)
        return std::thread::scope(|s| {
            std::thread::Builder::new()
                .stack_size(2 << 20)
                .spawn_scoped(s, || match guard(|| exercise(k, data, ring)) {
                    Ok(v) => v,
                    Err(p) => panic!("{p}"),
                })
                .expect("spawn")
                .join()
                .unwrap_or_else(|e| std::panic::resume_unwind(e))
        });
    }
    match kind {
        "all" => exercise_all(data, ring),
        "inner1" => exercise_inner(data, ring, false),
        "inner2" => exercise_inner(data, ring, true),
        // what an application does with a message it does not know: peel every compression layer
        // (`while m.is_compressed() { m = m.decompress()? }`), then read
        "peel" => {
            let mut log = Vec::new();
            if let Ok(mut m) = Message::from_bytes(data) {
                let mut levels = 0usize;
                while m.is_compressed() && levels < 1_000_000 {
                    match m.decompress() {
                        Ok(n) => m = n,
                        Err(_) => {
                            log.push("decompress:err".into());
                            return log;
                        }
                    }
                    levels += 1;
                }
                log.push(format!("levels:{levels}"));
                let mut sink = Vec::new();
                let r = (&mut m).take(READ_CAP).read_to_end(&mut sink);
                log.push(format!("read:{}", r.is_ok()));
            }
            log
        }
        "selftest-panic" => panic!("selftest"),
        "selftest-overflow" => {
            #[inline(never)]
            fn rec(n: u64) -> u64 {
                let a = std::hint::black_box([n; 64]);
                if n == 0 { 0 } else { std::hint::black_box(rec(std::hint::black_box(n - 1))) + a[(n % 64) as usize] }
            }
            vec![format!("{}", rec(std::hint::black_box(u64::MAX / 2)))]
        }
        "selftest-hang" => loop {
            std::thread::sleep(Duration::from_millis(100));
        },
        _ => vec!["unknown-kind".into()],
    }
}

// ---------------------------------------------------------------------------------------------
// child side
// ---------------------------------------------------------------------------------------------

pub fn child_main(args: &[String]) {
    super::install_hook();
    let batch = &args[2];
    let seed: u64 = args.get(3).and_then(|s| s.parse().ok()).unwrap_or(0);
    let from: usize = args.get(4).and_then(|s| s.parse().ok()).unwrap_or(0);
    let ring = super::ring(seed);
    let text = std::fs::read_to_string(batch).expect("batch");
    let out = std::io::stdout();
    // run on a thread with the stack size of a typical main thread (8 MiB)
    let h = std::thread::Builder::new()
        .stack_size(8 << 20)
        .spawn(move || {
            for (i, line) in text.lines().enumerate().skip(from) {
                let mut it = line.splitn(2, ' ');
                let kind = it.next().unwrap_or("");
                let data = hex::decode(it.next().unwrap_or("").trim_matches('-')).unwrap_or_default();
                {
                    let mut o = out.lock();
                    let _ = writeln!(o, "S {i}");
                    let _ = o.flush();
                }
                let t = Instant::now();
                let r = guard(|| exercise(kind, &data, &ring));
                let ms = t.elapsed().as_millis();
                let (c, detail) = match &r {
                    Ok(log) => ("ok", log.join(",").chars().take(200).collect::<String>()),
                    Err(p) => ("panic", p.replace('\n', " ")),
                };
                let mut o = out.lock();
                let _ = writeln!(o, "D {i} {c} {ms} {detail}");
                let _ = o.flush();
            }
        })
        .expect("spawn");
    let _ = h.join();
}

// ---------------------------------------------------------------------------------------------
// parent side
// ---------------------------------------------------------------------------------------------

pub struct CaseResult {
    pub class: String, // ok | panic | abort | timeout
    pub ms: u128,
    pub detail: String,
}

pub fn run_batch(cases: &[(String, Vec<u8>)], seed: u64, dir: &str, tag: &str) -> Vec<CaseResult> {
    let path = format!("{dir}/batch-{tag}.txt");
    {
        let mut f = std::io::BufWriter::new(std::fs::File::create(&path).expect("batch file"));
        for (k, d) in cases {
            writeln!(f, "{k} {}", hx(d)).expect("write");
        }
    }
    let exe = std::env::current_exe().expect("exe");
    let mut results: Vec<Option<CaseResult>> = (0..cases.len()).map(|_| None).collect();
    let mut from = 0usize;
    while from < cases.len() {
        let mut child = Command::new(&exe)
            .args(["C04-child", &path, &seed.to_string(), &from.to_string()])
            .stdout(Stdio::piped())
            .stderr(Stdio::null())
            .spawn()
            .expect("spawn child");
        let stdout = child.stdout.take().expect("stdout");
        let (tx, rx) = mpsc::channel::<String>();
        std::thread::spawn(move || {
            for line in BufReader::new(stdout).lines().map_while(Result::ok) {
                if tx.send(line).is_err() {
                    break;
                }
            }
        });
        let mut running: Option<(usize, Instant)> = None;
        let mut startup = Instant::now();
        let mut next = from;
        loop {
            // key generation at start-up is outside the per-case watchdog
            // cases that run an admitted Argon2 derivation (up to 2 GiB by design, C19's subject) get a
            // wider budget; everything else the watchdog
            let budget = match running {
                Some((i, _)) if cases.get(i).map(|c| c.0.ends_with("+slow")).unwrap_or(false) => Duration::from_secs(300),
                Some(_) => Duration::from_millis(WATCHDOG_MS as u64),
                None => Duration::from_secs(300),
            };
            match rx.recv_timeout(budget) {
                Ok(line) => {
                    let mut it = line.splitn(5, ' ');
                    match it.next() {
                        Some("S") => {
                            let i: usize = it.next().and_then(|s| s.parse().ok()).unwrap_or(next);
                            running = Some((i, Instant::now()));
                        }
                        Some("D") => {
                            let i: usize = it.next().and_then(|s| s.parse().ok()).unwrap_or(next);
                            let class = it.next().unwrap_or("?").to_string();
                            let ms = it.next().and_then(|s| s.parse().ok()).unwrap_or(0);
                            let detail = it.next().unwrap_or("").to_string();
                            if i < results.len() {
                                results[i] = Some(CaseResult { class, ms, detail });
                            }
                            next = i + 1;
                            running = None;
                            startup = Instant::now();
                        }
                        _ => {}
                    }
                }
                Err(mpsc::RecvTimeoutError::Timeout) => {
                    let _ = child.kill();
                    let _ = child.wait();
                    if let Some((i, t)) = running {
                        results[i] = Some(CaseResult { class: "timeout".into(), ms: t.elapsed().as_millis(), detail: "no answer within the watchdog; child killed".into() });
                        next = i + 1;
                    } else {
                        // the child never started a case: give up on this batch position
                        let at = next.min(results.len() - 1);
                        results[at] =
                            Some(CaseResult { class: "abort".into(), ms: startup.elapsed().as_millis(), detail: "child silent before starting a case".into() });
                        next += 1;
                    }
                    break;
                }
                Err(mpsc::RecvTimeoutError::Disconnected) => {
                    let status = child.wait().ok();
                    if let Some((i, t)) = running {
                        results[i] = Some(CaseResult {
                            class: "abort".into(),
                            ms: t.elapsed().as_millis(),
                            detail: format!("child process died: {status:?} (stack overflow / abort)"),
                        });
                        next = i + 1;
                    } else if next < cases.len() && !status.map(|s| s.success()).unwrap_or(false) {
                        results[next] = Some(CaseResult { class: "abort".into(), ms: 0, detail: format!("child exited {status:?} between cases") });
                        next += 1;
                    } else {
                        next = cases.len().max(next);
                    }
                    break;
                }
            }
        }
        from = next;
    }
    results
        .into_iter()
        .map(|r| r.unwrap_or(CaseResult { class: "abort".into(), ms: 0, detail: "no result recorded".into() }))
        .collect()
}

// ---------------------------------------------------------------------------------------------
// generators
// ---------------------------------------------------------------------------------------------

fn new_packet(tag: u8, body: &[u8]) -> Vec<u8> {
    crate::frame::frame_fixed(true, tag, if body.len() < 192 { 1 } else if body.len() < 8384 { 2 } else { 5 }, body).expect("frame")
}

/// a v4 (or v6) signature packet body whose hashed area holds one embedded signature, nested `depth` times
fn nested_signature(depth: usize, v6: bool) -> Vec<u8> {
    // innermost: a minimal signature body with empty areas
    let mk = |hashed: &[u8]| -> Vec<u8> {
        let mut b = vec![if v6 { 6 } else { 4 }, 0x00, 22, 8];
        if v6 {
            b.extend((hashed.len() as u32).to_be_bytes());
        } else {
            b.extend((hashed.len() as u16).to_be_bytes());
        }
        b.extend_from_slice(hashed);
        if v6 {
            b.extend(0u32.to_be_bytes());
        } else {
            b.extend(0u16.to_be_bytes());
        }
        b.extend([0xAB, 0xCD]); // left 16 bits
        if v6 {
            b.push(16);
            b.extend([0u8; 16]); // salt
            b.extend([0u8; 64]); // ed25519 native signature
        } else {
            b.extend([0x00, 0x01, 0x01, 0x00, 0x01, 0x01]); // two 1-bit MPIs (EdDSA legacy r, s)
        }
        b
    };
    let mut body = mk(&[]);
    for _ in 0..depth {
        // subpacket: length (5-octet form), type 32 (embedded signature), body
        let mut sp = vec![255u8];
        sp.extend(((body.len() + 1) as u32).to_be_bytes());
        sp.push(32);
        sp.extend_from_slice(&body);
        if !v6 && sp.len() > 65535 {
            break;
        }
        body = mk(&sp);
    }
    body
}

fn compressed(alg: u8, inner: &[u8]) -> Vec<u8> {
    use flate2::write::{DeflateEncoder, ZlibEncoder};
    let data = match alg {
        1 => {
            let mut e = DeflateEncoder::new(Vec::new(), flate2::Compression::fast());
            e.write_all(inner).expect("deflate");
            e.finish().expect("deflate")
        }
        2 => {
            let mut e = ZlibEncoder::new(Vec::new(), flate2::Compression::fast());
            e.write_all(inner).expect("zlib");
            e.finish().expect("zlib")
        }
        _ => inner.to_vec(),
    };
    let mut body = vec![alg];
    body.extend(data);
    new_packet(8, &body)
}

fn literal(data: &[u8]) -> Vec<u8> {
    let mut body = vec![b'b', 0, 0, 0, 0, 0];
    body.extend_from_slice(data);
    new_packet(11, &body)
}

pub fn hostile_streams(ctx: &Ctx, rng: &mut ChaCha8Rng) -> Vec<(String, Vec<u8>, String)> {
    let mut v: Vec<(String, Vec<u8>, String)> = Vec::new();
    let marker = new_packet(10, b"PGP");
    // 10^5 marker packets, alone and in front of a literal
    let n_markers = 100_000;
    let mut many = Vec::with_capacity(n_markers * 5);
    for _ in 0..n_markers {
        many.extend_from_slice(&marker);
    }
    v.push(("all".into(), many.clone(), "1e5 marker packets".into()));
    let mut many_lit = many.clone();
    many_lit.extend(literal(b"hello"));
    v.push(("all".into(), many_lit.clone(), "1e5 marker packets + literal".into()));
    v.push(("inner1".into(), many_lit.clone(), "SEIPDv1[1e5 markers + literal]".into()));
    v.push(("inner2".into(), many_lit, "SEIPDv2[1e5 markers + literal]".into()));
    // padding / trust / unknown-tag floods
    for (tag, what) in [(21u8, "padding"), (12, "trust"), (63, "private tag 63"), (2, "empty signature packets")] {
        let mut s = Vec::new();
        for _ in 0..20_000 {
            s.extend(new_packet(tag, &[]));
        }
        s.extend(literal(b"x"));
        v.push(("all".into(), s.clone(), format!("2e4 empty {what} packets + literal")));
        v.push(("inner1".into(), s, format!("SEIPDv1[2e4 empty {what} packets + literal]")));
    }
    // long runs of well-formed packets that do not belong in a keyring, alone and between two keys
    {
        let mut krng = ChaCha8Rng::seed_from_u64(4242);
        let key_bytes = crate::keys::ed25519_x25519(&mut krng, pgp::types::KeyVersion::V4).to_public_key().to_bytes().unwrap_or_default();
        for (what, stray) in [("marker", vec![0xCAu8, 3, b'P', b'G', b'P']), ("user id", vec![0xCD, 1, b'x']), ("literal", vec![0xCB, 7, b'b', 0, 0, 0, 0, 0, b'x']), ("padding", vec![0xD5, 2, 0, 0])] {
            for n in [100usize, 3000, 100_000] {
                let mut s = Vec::new();
                for _ in 0..n {
                    s.extend_from_slice(&stray);
                }
                v.push(("all".into(), s.clone(), format!("{n} {what} packets")));
                v.push(("all@2m".into(), s.clone(), format!("{n} {what} packets on a 2 MiB thread")));
                let mut k = key_bytes.clone();
                k.extend_from_slice(&s);
                k.extend_from_slice(&key_bytes);
                v.push(("all".into(), k, format!("key + {n} {what} packets + key")));
            }
        }
    }
    // deeply nested embedded signatures
    let depths: Vec<usize> = if ctx.thorough() { vec![1, 10, 100, 1000, 3000, 5000, 20_000, 100_000] } else { vec![1, 100, 1000, 5000, 30_000] };
    for &d in &depths {
        for v6 in [false, true] {
            if !v6 && d > 5000 {
                continue;
            }
            let body = nested_signature(d, v6);
            let pkt = new_packet(2, &body);
            v.push(("all".into(), pkt.clone(), format!("signature with embedded signatures nested {d} deep (v{})", if v6 { 6 } else { 4 })));
            if d >= 1000 && d <= 5000 {
                v.push(("all@2m".into(), pkt.clone(), format!("signature with embedded signatures nested {d} deep (v{}) on a 2 MiB thread", if v6 { 6 } else { 4 })));
            }
            let mut m = pkt.clone();
            m.extend(literal(b"x"));
            v.push(("inner1".into(), m, format!("SEIPDv1[nested signature depth {d} v{} + literal]", if v6 { 6 } else { 4 })));
        }
    }
    // nested compression
    for &d in &[1usize, 8, 64, 300, 2000] {
        for alg in [1u8, 2, 0] {
            let mut inner = literal(b"the end");
            for _ in 0..d {
                inner = compressed(alg, &inner);
                if inner.len() > (4 << 20) {
                    break;
                }
            }
            v.push(("all".into(), inner.clone(), format!("compression nested {d} deep (alg {alg})")));
            v.push(("inner1".into(), inner, format!("SEIPDv1[compression nested {d} deep (alg {alg})]")));
        }
    }
    // ... peeled to the end by the caller, the way applications do, on the main thread and on a 2 MiB one
    for &d in &[100usize, 1000, 3000, 10_000] {
        let mut inner = literal(b"the end");
        for _ in 0..d {
            inner = compressed(0, &inner);
        }
        v.push(("peel".into(), inner.clone(), format!("uncompressed Compressed Data nested {d} deep, every layer peeled, then read")));
        v.push(("peel@2m".into(), inner, format!("uncompressed Compressed Data nested {d} deep, every layer peeled, then read, on a 2 MiB thread")));
    }
    // a compression bomb (64 MiB of zeros, twice compressed) and truncated / corrupt deflate streams
    let zeros = vec![0u8; 16 << 20];
    let bomb = compressed(1, &compressed(1, &literal(&zeros)));
    v.push(("all".into(), bomb.clone(), "deflate bomb 16 MiB twice compressed".into()));
    v.push(("inner2".into(), bomb.clone(), "SEIPDv2[deflate bomb]".into()));
    for cut in [1usize, 2, 3, 10, bomb.len() / 2, bomb.len() - 1] {
        v.push(("all".into(), bomb[..cut.min(bomb.len())].to_vec(), format!("deflate bomb truncated at {cut}")));
    }
    for alg in [0u8, 1, 2, 3, 4, 110, 255] {
        let mut body = vec![alg];
        body.extend(gen::random_bytes(rng, 300));
        v.push(("all".into(), new_packet(8, &body), format!("compressed packet alg {alg} with random body")));
        v.push(("inner1".into(), new_packet(8, &body), format!("SEIPDv1[compressed packet alg {alg} with random body]")));
    }
    // SEIPD inside SEIPD inside ... (session key reused at every level)
    {
        let mut inner = literal(b"core");
        let mut r = ChaCha8Rng::seed_from_u64(9);
        for _ in 0..12 {
            let p = SymEncryptedProtectedData::encrypt_seipdv1(&mut r, SymmetricKeyAlgorithm::AES128, &SESSION_KEY, &inner).expect("enc");
            inner = Packet::from(p).to_bytes().expect("ser");
        }
        v.push(("all".into(), inner, "SEIPDv1 nested 12 deep".into()));
    }
    // length fields that promise more than there is, every packet type
    for tag in 0u8..64 {
        for (hdr, what) in [(vec![0xC0 | tag, 255, 0xFF, 0xFF, 0xFF, 0xFF], "4 GiB fixed"), (vec![0xC0 | tag, 254], "partial 2^30"), (vec![0xC0 | tag, 224], "partial 1")] {
            let mut s = hdr.clone();
            s.extend(gen::random_bytes(rng, 40));
            v.push(("all".into(), s.clone(), format!("tag {tag} {what} over 40 octets")));
            if tag % 8 == 2 {
                v.push(("inner1".into(), s, format!("SEIPDv1[tag {tag} {what} over 40 octets]")));
            }
        }
    }
    // an armored key block longer than one BufReader fill whose footer is missing
    {
        use base64::Engine;
        let mut body = vec![0xC6u8, 255, 0, 0, 0x27, 0x10];
        body.extend(vec![0u8; 9000]);
        let b64 = base64::engine::general_purpose::STANDARD.encode(&body);
        let mut s = b"-----BEGIN PGP PUBLIC KEY BLOCK-----\n\n".to_vec();
        for l in b64.as_bytes().chunks(64) {
            s.extend_from_slice(l);
            s.push(b'\n');
        }
        v.push(("all".into(), s, "armored public key block, one 10000-octet packet, 9000 octets present, no footer".into()));
    }
    // one-pass signature structures without their ends, signatures without data
    let ops = new_packet(4, &[3, 0, 8, 22, 1, 2, 3, 4, 5, 6, 7, 8, 1]);
    for n in [1usize, 2, 50, 2000] {
        let mut s = Vec::new();
        for _ in 0..n {
            s.extend(&ops);
        }
        s.extend(literal(b"signed?"));
        v.push(("all".into(), s.clone(), format!("{n} one-pass signature packets + literal, no signatures")));
        v.push(("inner1".into(), s, format!("SEIPDv1[{n} OPS + literal]")));
    }
    v
}

pub fn fixture_mutations(ctx: &Ctx, rng: &mut ChaCha8Rng) -> Vec<(String, Vec<u8>, String)> {
    let root = std::env::var("VERIF_REPO").unwrap_or_else(|_| "/repo".into());
    let mut files: Vec<std::path::PathBuf> = Vec::new();
    let mut stack = vec![std::path::PathBuf::from(format!("{root}/tests"))];
    while let Some(d) = stack.pop() {
        let Ok(rd) = std::fs::read_dir(&d) else { continue };
        for e in rd.flatten() {
            let p = e.path();
            if p.is_dir() {
                stack.push(p);
            } else if let Some(ext) = p.extension().and_then(|e| e.to_str()) {
                if ["asc", "pgp", "msg", "key", "sig", "csf", "sec", "pub", "priv", "enc", "gpg"].contains(&ext) {
                    files.push(p);
                }
            }
        }
    }
    files.sort();
    let mut v = Vec::new();
    let per_file = ctx.pick(2, 12);
    let max_files = ctx.pick(160, 100_000);
    // deterministic subset in the quick tier
    let step = (files.len() / max_files).max(1);
    for (fi, f) in files.iter().enumerate() {
        if fi % step != 0 {
            continue;
        }
        let Ok(data) = std::fs::read(f) else { continue };
        if data.len() > 300_000 {
            continue;
        }
        let name = f.strip_prefix(&root).map(|p| p.display().to_string()).unwrap_or_default();
        let kind = if name.contains("argon2") { "all+slow" } else { "all" };
        v.push((kind.into(), data.clone(), format!("{name} unchanged")));
        // dearmored form (binary mutations reach the packet parsers)
        let bin: Option<Vec<u8>> = if data.starts_with(b"-----") {
            let mut out = Vec::new();
            let mut d = Dearmor::new(&data[..]);
            d.read_to_end(&mut out).ok().map(|_| out)
        } else {
            None
        };
        for base in [Some(data.clone()), bin].into_iter().flatten() {
            if base.is_empty() {
                continue;
            }
            for k in 0..per_file {
                let mut m = base.clone();
                let what = match (k + fi) % 6 {
                    0 => {
                        let i = rng.gen_range(0..m.len().min(64));
                        m[i] = rng.gen();
                        format!("octet {i} replaced")
                    }
                    1 => {
                        let i = rng.gen_range(0..m.len());
                        m[i] ^= 1 << rng.gen_range(0..8);
                        format!("bit flipped at {i}")
                    }
                    2 => {
                        let i = rng.gen_range(0..m.len());
                        m.truncate(i);
                        format!("truncated at {i}")
                    }
                    3 => {
                        let i = rng.gen_range(0..m.len());
                        m[i] = [0u8, 0xFF, 0x80, 0x7F][rng.gen_range(0..4)];
                        format!("octet {i} set to a boundary value")
                    }
                    4 => {
                        let i = rng.gen_range(0..m.len());
                        let j = rng.gen_range(i..m.len().min(i + 40));
                        m.drain(i..j);
                        format!("octets {i}..{j} removed")
                    }
                    _ => {
                        let i = rng.gen_range(0..m.len());
                        let n_ins = rng.gen_range(1..9);
                        let ins = gen::random_bytes(rng, n_ins);
                        m.splice(i..i, ins);
                        format!("octets inserted at {i}")
                    }
                };
                v.push((kind.into(), m, format!("{name} {what}")));
            }
        }
    }
    v
}

pub fn run(ctx: &mut Ctx, _ring: &Ring) {
    let mut rng = ChaCha8Rng::seed_from_u64(ctx.seed ^ 0xC04D);
    let dir = std::env::temp_dir().join(format!("c04-{}-{}", std::process::id(), ctx.seed));
    let _ = std::fs::create_dir_all(&dir);
    let dir_s = dir.display().to_string();

    // the observation mechanism itself: a panic, a stack overflow and a hang must be seen as such
    let selftest = vec![
        ("selftest-panic".to_string(), vec![]),
        ("selftest-overflow".to_string(), vec![]),
        ("all".to_string(), vec![0xCB, 6, b'b', 0, 0, 0, 0, 0]),
        ("selftest-hang".to_string(), vec![]),
        ("all".to_string(), vec![]),
    ];
    let r = run_batch(&selftest, ctx.seed, &dir_s, "selftest");
    let got: Vec<&str> = r.iter().map(|c| c.class.as_str()).collect();
    let ok = got == ["panic", "abort", "ok", "timeout", "ok"];
    ctx.oracle("observer_selftest", "harness child process (catch_unwind / exit status / watchdog)", "selftest-panic,selftest-overflow,ok,selftest-hang,ok", ok, &format!("{got:?}"));

    let mut cases = hostile_streams(ctx, &mut rng);
    ctx.stat_n("child:hostile-streams", cases.len() as u64);
    let fx = fixture_mutations(ctx, &mut rng);
    ctx.stat_n("child:fixture-cases", fx.len() as u64);
    cases.extend(fx);
    let batch: Vec<(String, Vec<u8>)> = cases.iter().map(|(k, d, _)| (k.clone(), d.clone())).collect();
    // several children in parallel (the cases are independent)
    let n_workers = 8usize;
    let mut parts: Vec<Vec<usize>> = vec![Vec::new(); n_workers];
    for i in 0..batch.len() {
        parts[i % n_workers].push(i);
    }
    let seed = ctx.seed;
    let results: Vec<(usize, CaseResult)> = std::thread::scope(|s| {
        let hs: Vec<_> = parts
            .iter()
            .enumerate()
            .map(|(w, idxs)| {
                let sub: Vec<(String, Vec<u8>)> = idxs.iter().map(|&i| batch[i].clone()).collect();
                let dir_s = dir_s.clone();
                let idxs = idxs.clone();
                s.spawn(move || {
                    let r = run_batch(&sub, seed, &dir_s, &format!("w{w}"));
                    idxs.into_iter().zip(r).collect::<Vec<_>>()
                })
            })
            .collect();
        hs.into_iter().flat_map(|h| h.join().unwrap_or_default()).collect()
    });
    for (i, res) in results {
        let (kind, data, what) = &cases[i];
        let site = match kind.as_str() {
            "peel" | "peel@2m" => "Message::decompress repeated until the message is no longer compressed, then read_to_end",
            "all" | "all@2m" | "all+slow" => "every public parse entry point (PacketParser, Message, SignedPublicKey, SignedSecretKey, DetachedSignature, Dearmor, CleartextSignedMessage) + serialize/verify/decrypt",
            "inner1" => "Message::decrypt_with_session_key (SEIPD v1) -> inner packet stream",
            _ => "Message::decrypt_with_session_key (SEIPD v2) -> inner packet stream",
        };
        let shown = if data.len() > 600 { format!("{}..({} octets) [{what}]", hx(&data[..64]), data.len()) } else { format!("{} [{what}]", hx(data)) };
        let input = format!("kind={kind} data={shown}");
        ctx.oracle("no_panic", site, &input, res.class != "panic", &format!("PANIC {}", res.detail));
        ctx.oracle("no_abort", site, &input, res.class != "abort", &res.detail);
        let budget = if kind.ends_with("+slow") { 300_000 } else { WATCHDOG_MS };
        ctx.oracle("returns_within_watchdog", site, &input, res.class != "timeout" && res.ms < budget, &format!("{} ms {}", res.ms, res.detail));
        ctx.stat(&format!("child:{kind}:{}", res.class));
        if res.ms > 1000 {
            ctx.note(&format!("slow case ({} ms): {what}", res.ms));
        }
    }
    let _ = std::fs::remove_dir_all(&dir);
}
