import RpgpModel.Bytes
import RpgpModel.Gen.Constants
/-!
# SecretKey — password locking of secret key material (property C08)

Transcription of

* `types/s2k.rs`            `S2kUsage`, `S2kParams`, `From<u8> for S2kUsage`, `From<&S2kParams> for u8`,
                            `StringToKey::{try_from_reader, to_writer, len, known_weak_hash_algo}`
* `types/params/secret.rs`  `parse_secret_fields`, `SecretParams::{from_slice, to_writer}`
* `types/params/encrypted_secret.rs`  `EncryptedSecretParams::{unlock, to_writer}`
* `types/params/plain_secret.rs`      `PlainSecretParams::{encrypt, try_from_reader,
                            try_from_reader_no_checksum, to_writer}`, `s2k_usage_aead`
* `packet/key/secret.rs`    `SecretKey::{set_password_with_s2k, remove_password, unlock}`
* `crypto/checksum.rs`      `SimpleChecksum`
* `packet/key/public.rs`    `PubKeyInner::to_writer` (the bytes bound as AEAD associated data)

Cryptographic primitives are parameters (`Prims`); the algorithm specific (de)serialisation of
the plain secret material is a parameter too (`KeyAlg`).  All octet values, sizes and tables
come from `Gen` (re-extracted from the source on every run).

The model is of the code as it is: in particular the arm for usage octet 255 of
`parse_secret_fields` constructs the variant that the source constructs
(`Gen.rdArmMalleableBuilds`), and `lock` refuses what `PlainSecretParams::encrypt` refuses.
-/
namespace Rpgp.SK
open Rpgp

/-! ## S2K usage octet ↔ `S2kParams` variant -/

/-- the five shapes shared by `S2kUsage` and `S2kParams` -/
inductive Variant where
  | unprotected | legacyCfb | aead | cfb | malleableCfb
deriving DecidableEq, Repr

/-- variant codes used by the translator (`tools/constants/secretkey.py`) -/
def Variant.ofCode (c : Nat) : Variant :=
  if c = 0 then .unprotected else if c = 1 then .legacyCfb else if c = 2 then .aead
  else if c = 3 then .cfb else .malleableCfb

/-- `impl From<u8> for S2kUsage` (the last arm is the remaining octet) -/
def usageOfOctet (o : Nat) : Variant :=
  if o = Gen.rdUsageUnprotected then .unprotected
  else if Gen.rdUsageLegacyMin ≤ o ∧ o ≤ Gen.rdUsageLegacyMax then .legacyCfb
  else if o = Gen.rdUsageAead then .aead
  else if o = Gen.rdUsageCfb then .cfb
  else .malleableCfb

/-- which `S2kParams` variant the arm of `parse_secret_fields` for a given `S2kUsage` constructs -/
def armBuilds : Variant → Variant
  | .unprotected => Variant.ofCode Gen.rdArmUnprotectedBuilds
  | .legacyCfb => Variant.ofCode Gen.rdArmLegacyBuilds
  | .aead => Variant.ofCode Gen.rdArmAeadBuilds
  | .cfb => Variant.ofCode Gen.rdArmCfbBuilds
  | .malleableCfb => Variant.ofCode Gen.rdArmMalleableBuilds

/-- usage octet → variant of the parsed `S2kParams` (`parse_secret_fields`) -/
def readVariant (o : Nat) : Variant := armBuilds (usageOfOctet o)

/-- `impl From<&S2kParams> for u8`; `sym` is the cipher octet of a `LegacyCfb` -/
def writeOctet (v : Variant) (sym : Nat) : Nat :=
  match v with
  | .unprotected => Gen.wrUsageUnprotected
  | .legacyCfb => sym
  | .aead => Gen.wrUsageAead
  | .cfb => Gen.wrUsageCfb
  | .malleableCfb => Gen.wrUsageMalleable

/-- `SecretParams::from_slice`: usage ids a version 6 key may carry -/
def v6UsageAllowed (id : Nat) : Bool :=
  id == Gen.v6UsageAllowedA || id == Gen.v6UsageAllowedB || id == Gen.v6UsageAllowedC

/-- is the usage octet `o` admitted by `SecretParams::from_slice` for key version `ver`
(as far as the usage octet alone decides) -/
def usageAdmitted (ver o : Nat) : Bool :=
  if ver = Gen.keyVersionV6 then v6UsageAllowed (writeOctet (readVariant o) o) else true

/-! ## S2K specifier -/

inductive S2k where
  | simple (hash : Byte)
  | salted (hash : Byte) (salt : Bytes)
  | reserved (unknown : Bytes)
  | iterated (hash : Byte) (salt : Bytes) (count : Byte)
  | argon2 (salt : Bytes) (t p m : Byte)
  | priv (typ : Byte) (unknown : Bytes)
  | other (typ : Byte) (unknown : Bytes)
deriving DecidableEq, Repr

/-- `take_bytes(n)` / `read_arr::<n>()`: exactly `n` bytes or an error -/
def takeN (n : Nat) (bs : Bytes) : Option (Bytes × Bytes) :=
  if n ≤ bs.length then some (bs.take n, bs.drop n) else none

/-- `StringToKey::try_from_reader` -/
def S2k.parse : Bytes → Option (S2k × Bytes)
  | [] => none
  | typ :: r =>
    if typ.toNat = Gen.s2kRdSimple then
      match r with
      | h :: r' => some (.simple h, r')
      | [] => none
    else if typ.toNat = Gen.s2kRdSalted then
      match r with
      | h :: r' => (takeN Gen.s2kRdSaltedSalt r').map fun (s, r'') => (.salted h s, r'')
      | [] => none
    else if typ.toNat = Gen.s2kRdReserved then some (.reserved r, [])
    else if typ.toNat = Gen.s2kRdIterated then
      match r with
      | h :: r' =>
        match takeN Gen.s2kRdIteratedSalt r' with
        | some (s, c :: r'') => some (.iterated h s c, r'')
        | _ => none
      | [] => none
    else if typ.toNat = Gen.s2kRdArgon2 then
      match takeN Gen.s2kRdArgon2Salt r with
      | some (s, t :: p :: m :: r') => some (.argon2 s t p m, r')
      | _ => none
    else if Gen.s2kRdPrivateMin ≤ typ.toNat ∧ typ.toNat ≤ Gen.s2kRdPrivateMax then some (.priv typ r, [])
    else some (.other typ r, [])

/-- `StringToKey::id` -/
def S2k.id : S2k → Byte
  | .simple _ => Gen.s2kIdSimple.toUInt8
  | .salted _ _ => Gen.s2kIdSalted.toUInt8
  | .reserved _ => Gen.s2kIdReserved.toUInt8
  | .iterated _ _ _ => Gen.s2kIdIterated.toUInt8
  | .argon2 _ _ _ _ => Gen.s2kIdArgon2.toUInt8
  | .priv t _ => t
  | .other t _ => t

/-- `impl Serialize for StringToKey` -/
def S2k.ser (s : S2k) : Bytes :=
  match s with
  | .simple h => [s.id, h]
  | .salted h salt => s.id :: h :: salt
  | .reserved u => s.id :: u
  | .iterated h salt c => s.id :: h :: (salt ++ [c])
  | .argon2 salt t p m => s.id :: (salt ++ [t, p, m])
  | .priv _ u => s.id :: u
  | .other _ u => s.id :: u

/-- `StringToKey::len` (errors for the opaque kinds) -/
def S2k.len : S2k → Option Nat
  | .simple _ => some Gen.s2kLenSimple
  | .salted _ _ => some Gen.s2kLenSalted
  | .iterated _ _ _ => some Gen.s2kLenIterated
  | .argon2 _ _ _ _ => some Gen.s2kLenArgon2
  | _ => none

def weakHash (h : Byte) : Bool :=
  h.toNat == Gen.hashIdMd5 || h.toNat == Gen.hashIdSha1 || h.toNat == Gen.hashIdRipemd160

/-- `StringToKey::known_weak_hash_algo` -/
def S2k.weak : S2k → Bool
  | .simple h => weakHash h
  | .salted h _ => weakHash h
  | .iterated h _ _ => weakHash h
  | _ => false

/-- S2K kinds `encrypt` admits with CFB on a version 6 key (those `unlock` opens) -/
def S2k.cfbV6Ok : S2k → Bool
  | .iterated _ _ _ => true
  | .salted _ _ => true
  | _ => false

/-- S2K kinds `encrypt` admits with AEAD (those `unlock` opens) -/
def S2k.aeadOk : S2k → Bool
  | .argon2 _ _ _ _ => true
  | .iterated _ _ _ => true
  | _ => false

def S2k.isArgon2 : S2k → Bool
  | .argon2 _ _ _ _ => true
  | _ => false

/-- salts have the array sizes of the Rust type -/
def S2k.WF : S2k → Prop
  | .salted _ salt => salt.length = Gen.s2kSaltFieldSalted
  | .iterated _ salt _ => salt.length = Gen.s2kSaltFieldSalted
  | .argon2 salt _ _ _ => salt.length = Gen.s2kSaltFieldArgon2
  | _ => True

instance : (s : S2k) → Decidable s.WF
  | .simple _ => instDecidableTrue
  | .salted _ salt => inferInstanceAs (Decidable (salt.length = _))
  | .reserved _ => instDecidableTrue
  | .iterated _ salt _ => inferInstanceAs (Decidable (salt.length = _))
  | .argon2 salt _ _ _ => inferInstanceAs (Decidable (salt.length = _))
  | .priv _ _ => instDecidableTrue
  | .other _ _ => instDecidableTrue

/-! ## `S2kParams` -/

inductive Params where
  | unprotected
  | legacyCfb (sym : Byte) (iv : Bytes)
  | aead (sym mode : Byte) (s2k : S2k) (nonce : Bytes)
  | cfb (sym : Byte) (s2k : S2k) (iv : Bytes)
  | malleableCfb (sym : Byte) (s2k : S2k) (iv : Bytes)
deriving DecidableEq, Repr

def Params.variant : Params → Variant
  | .unprotected => .unprotected
  | .legacyCfb _ _ => .legacyCfb
  | .aead _ _ _ _ => .aead
  | .cfb _ _ _ => .cfb
  | .malleableCfb _ _ _ => .malleableCfb

def Params.sym : Params → Byte
  | .unprotected => 0
  | .legacyCfb s _ => s
  | .aead s _ _ _ => s
  | .cfb s _ _ => s
  | .malleableCfb s _ _ => s

/-- `(&S2kParams).into() : u8`, also `EncryptedSecretParams::string_to_key_id` -/
def Params.usageOctet (p : Params) : Nat := writeOctet p.variant p.sym.toNat

/-! ## plain material, checksum -/

/-- algorithm specific part: `PlainSecretParams::to_writer_raw` / `try_from_reader_inner`
(the parser returns the unread rest) -/
structure KeyAlg (Mat : Type) where
  ser : Mat → Bytes
  parse : Bytes → Option (Mat × Bytes)

/-- `checksum::SimpleChecksum`: sum of all octets mod 65536 -/
def sum16 (bs : Bytes) : Nat := (bs.foldl (fun a b => a + b.toNat) 0) % 65536

def isV6 (ver : Byte) : Bool := ver.toNat == Gen.keyVersionV6
def isV3V4 (ver : Byte) : Bool := ver.toNat == Gen.keyVersionV3 || ver.toNat == Gen.keyVersionV4
def isV4V6 (ver : Byte) : Bool := ver.toNat == Gen.keyVersionV4 || ver.toNat == Gen.keyVersionV6

/-- `PlainSecretParams::try_from_reader_no_checksum`: parse, everything must be consumed -/
def parseNoCk {Mat} (A : KeyAlg Mat) (bs : Bytes) : Option Mat :=
  match A.parse bs with
  | some (m, []) => some m
  | _ => none

/-- `PlainSecretParams::try_from_reader` as it was before the repair of D8e: for v3/v4 a two-octet
checksum follows the material, is compared with the sum over the *re-serialised* material, and must
end the input; other versions: nothing is read after the material and the rest is NOT checked -/
def parseCkReencoded {Mat} (A : KeyAlg Mat) (ver : Byte) (bs : Bytes) : Option Mat :=
  match A.parse bs with
  | none => none
  | some (m, rest) =>
    if isV3V4 ver then
      match rest with
      | [a, b] => if a.toNat * 256 + b.toNat = sum16 (A.ser m) then some m else none
      | _ => none
    else some m

/-- `PlainSecretParams::try_from_reader` (D8e repaired): for v3/v4 the input is the material followed
by a two-octet checksum *of the octets as they are stored*; the material must parse completely.
Other versions: as before. -/
def parseCkStored {Mat} (A : KeyAlg Mat) (ver : Byte) (bs : Bytes) : Option Mat :=
  if isV3V4 ver then
    if bs.length < Gen.plainChecksumLen then none else
    let material := bs.take (bs.length - Gen.plainChecksumLen)
    match A.parse material, bs.drop (bs.length - Gen.plainChecksumLen) with
    | some (m, []), [a, b] => if a.toNat * 256 + b.toNat = sum16 material then some m else none
    | _, _ => none
  else
    match A.parse bs with
    | none => none
    | some (m, _) => some m

/-- the tree's `try_from_reader`: which of the two is decided by the translator (`flag`) -/
def parseCk {Mat} (A : KeyAlg Mat) (ver : Byte) (bs : Bytes) : Option Mat :=
  if Gen.fixD8eChecksumOverStoredOctets = 1 then parseCkStored A ver bs else parseCkReencoded A ver bs

/-- `PlainSecretParams::to_writer` -/
def serPlain {Mat} (A : KeyAlg Mat) (ver : Byte) (m : Mat) : Bytes :=
  A.ser m ++ (if isV3V4 ver then be16 (sum16 (A.ser m)) else [])

/-! ## wire form of the secret part of a key packet -/

inductive Secret (Mat : Type) where
  | plain (m : Mat)
  | encrypted (p : Params) (data : Bytes)

/-- the S2K parameter fields between the usage octet (and the v6 count) and the protected data,
as written by `EncryptedSecretParams::to_writer` (`s2k_params` buffer) -/
def Params.fields (ver : Byte) : Params → Option Bytes
  | .unprotected => none
  | .legacyCfb _ iv => some iv
  | .aead sym mode s2k nonce =>
    if isV6 ver then
      match s2k.len with
      | some l => some (sym :: mode :: l.toUInt8 :: (s2k.ser ++ nonce))
      | none => none
    else some (sym :: mode :: (s2k.ser ++ nonce))
  | .cfb sym s2k iv =>
    if isV6 ver then
      match s2k.len with
      | some l => some (sym :: l.toUInt8 :: (s2k.ser ++ iv))
      | none => none
    else some (sym :: (s2k.ser ++ iv))
  | .malleableCfb sym s2k iv => some (sym :: (s2k.ser ++ iv))

/-- `EncryptedSecretParams::to_writer` -/
def serEncrypted (ver : Byte) (p : Params) (data : Bytes) : Option Bytes :=
  match p.fields ver with
  | none => none
  | some f =>
    if isV6 ver then
      if f.length ≤ 255 then some (p.usageOctet.toUInt8 :: f.length.toUInt8 :: (f ++ data)) else none
    else some (p.usageOctet.toUInt8 :: (f ++ data))

/-- `SecretParams::to_writer` -/
def serSecret {Mat} (A : KeyAlg Mat) (ver : Byte) : Secret Mat → Option Bytes
  | .plain m => some (Gen.wrUsageUnprotected.toUInt8 :: serPlain A ver m)
  | .encrypted p data => serEncrypted ver p data

/-- the `(sym, [len], s2k, iv)` group read by the `Cfb` (with the v6 length octet) and
`MalleableCfb` (never a length octet) arms -/
def readSymS2kIv (withLen : Bool) (i : Bytes) : Option (Byte × S2k × Bytes × Bytes) :=
  match i with
  | [] => none
  | sym :: i =>
    let lenAndRest : Option (Option Byte × Bytes) :=
      if withLen then
        match i with
        | l :: i' => some (some l, i')
        | [] => none
      else some (none, i)
    match lenAndRest with
    | none => none
    | some (len, i) =>
      match S2k.parse i with
      | none => none
      | some (s2k, i) =>
        let lenOk : Bool := match len with
          | none => true
          | some l => match s2k.len with
            | some n => n == l.toNat
            | none => false
        if lenOk then
          match takeN (Gen.c08SymBlockSize sym.toNat) i with
          | some (iv, rest) => some (sym, s2k, iv, rest)
          | none => none
        else none

/-- `parse_secret_fields` -/
def parseSecretFields {Mat} (A : KeyAlg Mat) (ver : Byte) (bs : Bytes) : Option (Secret Mat) :=
  match bs with
  | [] => none
  | o :: i =>
    let usage := usageOfOctet o.toNat
    -- v6: one-octet count of the S2K parameter fields (must be non-zero, value otherwise unused)
    let i? : Option Bytes :=
      if isV6 ver && usage != .unprotected then
        match i with
        | l :: i' => if l = 0 then none else some i'
        | [] => none
      else some i
    match i? with
    | none => none
    | some i =>
      match usage with
      | .unprotected => (parseCk A ver i).map Secret.plain
      | .legacyCfb =>
        (takeN (Gen.c08SymBlockSize o.toNat) i).map fun (iv, rest) => Secret.encrypted (.legacyCfb o iv) rest
      | .aead =>
        match i with
        | sym :: mode :: i =>
          let lenAndRest : Option (Option Byte × Bytes) :=
            if isV6 ver then
              match i with
              | l :: i' => some (some l, i')
              | [] => none
            else some (none, i)
          match lenAndRest with
          | none => none
          | some (len, i) =>
            match S2k.parse i with
            | none => none
            | some (s2k, i) =>
              let lenOk : Bool := match len with
                | none => true
                | some l => match s2k.len with
                  | some n => n == l.toNat
                  | none => false
              if lenOk then
                (takeN (Gen.c08AeadNonceSize mode.toNat) i).map fun (nonce, rest) =>
                  Secret.encrypted (.aead sym mode s2k nonce) rest
              else none
        | _ => none
      | .cfb =>
        (readSymS2kIv (isV6 ver) i).map fun (sym, s2k, iv, rest) => Secret.encrypted (.cfb sym s2k iv) rest
      | .malleableCfb =>
        (readSymS2kIv false i).map fun (sym, s2k, iv, rest) =>
          -- the variant this arm constructs in the source (extracted)
          if armBuilds .malleableCfb = .malleableCfb then Secret.encrypted (.malleableCfb sym s2k iv) rest
          else Secret.encrypted (.cfb sym s2k iv) rest

def Secret.usageId {Mat} : Secret Mat → Nat
  | .plain _ => Gen.wrUsageUnprotected
  | .encrypted p _ => p.usageOctet

/-- `SecretParams::from_slice` -/
def parseSecret {Mat} (A : KeyAlg Mat) (ver : Byte) (bs : Bytes) : Option (Secret Mat) :=
  match parseSecretFields A ver bs with
  | none => none
  | some s => if isV6 ver && !v6UsageAllowed s.usageId then none else some s

/-! ## primitives -/

structure Prims where
  /-- `StringToKey::derive_key(pw, key_size)` (errors: opaque S2K kinds, Argon2 limits, unknown hash) -/
  derive : S2k → Bytes → Nat → Option Bytes
  /-- `md5::Md5::digest` (legacy usage) -/
  md5 : Bytes → Bytes
  /-- `checksum::calculate_sha1` (collision-detecting SHA-1; a detected collision is an error) -/
  sha1 : Bytes → Option Bytes
  /-- `SymmetricKeyAlgorithm::encrypt_with_iv_regular` (sym, key, iv, plaintext) -/
  cfbEnc : Byte → Bytes → Bytes → Bytes → Option Bytes
  /-- `SymmetricKeyAlgorithm::decrypt_with_iv_regular` (sym, key, iv, ciphertext) -/
  cfbDec : Byte → Bytes → Bytes → Bytes → Option Bytes
  /-- HKDF-SHA256 without salt: (ikm, info) ↦ `Gen.aeadOkmLen` octets -/
  hkdf : Bytes → Bytes → Bytes
  /-- `AeadAlgorithm::encrypt_in_place` (sym, mode, key, nonce, ad, plaintext) -/
  aseal : Byte → Byte → Bytes → Bytes → Bytes → Bytes → Option Bytes
  /-- `AeadAlgorithm::decrypt_in_place` (sym, mode, key, nonce, ad, ciphertext) -/
  aopen : Byte → Byte → Bytes → Bytes → Bytes → Bytes → Option Bytes

/-- packet type id octet used by `s2k_usage_aead`: `u8::from(tag) | 0xc0` -/
def typeId (tag : Byte) : Byte := tag ||| Gen.aeadTypeIdMask.toUInt8

/-- HKDF `info` of `s2k_usage_aead` -/
def aeadInfo (tag ver sym mode : Byte) : Bytes := [typeId tag, ver, sym, mode]

/-- associated data of `s2k_usage_aead`: type id, then the public key packet body -/
def aeadAd (tag : Byte) (pubBody : Bytes) : Bytes := typeId tag :: pubBody

/-- `s2k_usage_aead` : (okm, ad) -/
def s2kUsageAead (P : Prims) (derived : Bytes) (tag ver : Byte) (pubBody : Bytes) (sym mode : Byte) :
    Bytes × Bytes :=
  (P.hkdf derived (aeadInfo tag ver sym mode), aeadAd tag pubBody)

/-- `impl Serialize for PubKeyInner` for v4 / v6 (and v2 / v3 with the expiration days) -/
def pubKeyBody (ver : Byte) (created : Nat) (expDays : Nat) (alg : Byte) (pubParams : Bytes) : Bytes :=
  if isV4V6 ver then
    ver :: (be32 created ++ alg :: ((if isV6 ver then be32 pubParams.length else []) ++ pubParams))
  else ver :: (be32 created ++ be16 expDays ++ alg :: pubParams)

/-! ## unlock -/

/-- the refusals at the head of `EncryptedSecretParams::unlock` (before any key is derived):
Argon2 outside AEAD; for v6 keys only AEAD/CFB with Argon2 / iterated / salted and no weak hash -/
def unlockWilling (ver : Byte) (p : Params) : Bool :=
  (match p with
    | .cfb _ s2k _ => !s2k.isArgon2
    | .malleableCfb _ s2k _ => !s2k.isArgon2
    | _ => true) &&
  (if isV6 ver then
    match p with
    | .aead _ _ s2k _ | .cfb _ s2k _ =>
      (match s2k with
        | .argon2 _ _ _ _ | .iterated _ _ _ | .salted _ _ => true
        | _ => false) && !s2k.weak
    | _ => false
  else true)

/-- `EncryptedSecretParams::unlock(pw, pub_key, Some(tag))`; `ver` = `pub_key.version()`,
`pubBody` = `pub_key.to_writer` -/
def unlock {Mat} (P : Prims) (A : KeyAlg Mat) (ver tag : Byte) (pubBody : Bytes)
    (p : Params) (data : Bytes) (pw : Bytes) : Option Mat :=
  if !unlockWilling ver p then none else
  match p with
  | .unprotected => none
  | .legacyCfb sym iv =>
    match P.cfbDec sym (P.md5 pw) iv data with
    | none => none
    | some pt => if pt.length < Gen.unlockLegacyMin then none else parseCk A ver pt
  | .aead sym mode s2k nonce =>
    match s2k with
    | .argon2 _ _ _ _ | .iterated _ _ _ =>
      match Gen.c08AeadTagSize mode.toNat with
      | none => none
      | some ts =>
        if data.length < ts then none else
        match P.derive s2k pw (Gen.c08SymKeySize sym.toNat) with
        | none => none
        | some dk =>
          let (okm, ad) := s2kUsageAead P dk tag ver pubBody sym mode
          match P.aopen sym mode okm nonce ad data with
          | none => none
          | some pt => parseNoCk A pt
    | _ => none
  | .cfb sym s2k iv =>
    match P.derive s2k pw (Gen.c08SymKeySize sym.toNat) with
    | none => none
    | some key =>
      match P.cfbDec sym key iv data with
      | none => none
      | some pt =>
        if pt.length < Gen.unlockSha1Len then none else
        let body := pt.take (data.length - Gen.unlockSha1Split)
        let expected := pt.drop (data.length - Gen.unlockSha1Split)
        match P.sha1 body with
        | none => none
        | some h => if expected = h then parseNoCk A body else none
  | .malleableCfb sym s2k iv =>
    match P.derive s2k pw (Gen.c08SymKeySize sym.toNat) with
    | none => none
    | some key =>
      match P.cfbDec sym key iv data with
      | none => none
      | some pt => if pt.length < Gen.unlockMalleableMin then none else parseCk A ver pt

/-! ## lock -/

/-- `PlainSecretParams::encrypt(pw, s2k_params, pub_key, Some(tag))` : the protected data -/
def lock {Mat} (P : Prims) (A : KeyAlg Mat) (ver tag : Byte) (pubBody : Bytes)
    (p : Params) (pw : Bytes) (m : Mat) : Option Bytes :=
  match p with
  | .unprotected => none
  | .cfb sym s2k iv =>
    if s2k.weak then none
    else if s2k.isArgon2 then none
    else if isV6 ver && !s2k.cfbV6Ok then none
    else
      match P.derive s2k pw (Gen.c08SymKeySize sym.toNat) with
      | none => none
      | some key =>
        if isV4V6 ver then
          match P.sha1 (A.ser m) with
          | none => none
          | some h => P.cfbEnc sym key iv (A.ser m ++ h)
        else none
  | .aead sym mode s2k nonce =>
    if s2k.weak then none
    else if !s2k.aeadOk then none
    else
      match P.derive s2k pw (Gen.c08SymKeySize sym.toNat) with
      | none => none
      | some dk =>
        if isV4V6 ver then
          let (okm, ad) := s2kUsageAead P dk tag ver pubBody sym mode
          P.aseal sym mode okm nonce ad (A.ser m)
        else none
  | .legacyCfb _ _ => none
  | .malleableCfb _ _ _ => none

/-! ## what RFC 9580 §3.7.2 / §5.5.3 prescribes for each usage (independent of `lock`) -/

/-- the protected data for every usage, as the RFC lays it out (255 and the legacy cipher octets
included, which `lock` refuses to produce); the legacy key is the MD5 of the password, as in
`unlock` -/
def protect {Mat} (P : Prims) (A : KeyAlg Mat) (ver tag : Byte) (pubBody : Bytes)
    (p : Params) (pw : Bytes) (m : Mat) : Option Bytes :=
  match p with
  | .unprotected => none
  | .legacyCfb sym iv => P.cfbEnc sym (P.md5 pw) iv (A.ser m ++ be16 (sum16 (A.ser m)))
  | .malleableCfb sym s2k iv =>
    match P.derive s2k pw (Gen.c08SymKeySize sym.toNat) with
    | none => none
    | some key => P.cfbEnc sym key iv (A.ser m ++ be16 (sum16 (A.ser m)))
  | .cfb sym s2k iv =>
    match P.derive s2k pw (Gen.c08SymKeySize sym.toNat) with
    | none => none
    | some key =>
      match P.sha1 (A.ser m) with
      | none => none
      | some h => P.cfbEnc sym key iv (A.ser m ++ h)
  | .aead sym mode s2k nonce =>
    match P.derive s2k pw (Gen.c08SymKeySize sym.toNat) with
    | none => none
    | some dk =>
      let (okm, ad) := s2kUsageAead P dk tag ver pubBody sym mode
      P.aseal sym mode okm nonce ad (A.ser m)

/-! ## the secret key packet (`packet/key/secret.rs`) -/

structure SecretKey (Mat : Type) where
  ver : Byte
  tag : Byte
  pubBody : Bytes
  secret : Secret Mat

/-- `SecretKey::set_password_with_s2k` -/
def setPasswordWithS2k {Mat} (P : Prims) (A : KeyAlg Mat) (k : SecretKey Mat) (pw : Bytes) (p : Params) :
    Option (SecretKey Mat) :=
  match k.secret with
  | .plain m => (lock P A k.ver k.tag k.pubBody p pw m).map fun d => { k with secret := .encrypted p d }
  | .encrypted _ _ => none

/-- `SecretKey::unlock(pw, |_, plain| plain)` : the plain material the closure is given -/
def unlockKey {Mat} (P : Prims) (A : KeyAlg Mat) (k : SecretKey Mat) (pw : Bytes) : Option Mat :=
  match k.secret with
  | .plain m => some m
  | .encrypted p d => unlock P A k.ver k.tag k.pubBody p d pw

/-- `SecretKey::remove_password` -/
def removePassword {Mat} (P : Prims) (A : KeyAlg Mat) (k : SecretKey Mat) (pw : Bytes) :
    Option (SecretKey Mat) :=
  match k.secret with
  | .plain _ => some k
  | .encrypted p d => (unlock P A k.ver k.tag k.pubBody p d pw).map fun m => { k with secret := .plain m }

/-- `impl Serialize for SecretKey` : public body then the secret part -/
def serKey {Mat} (A : KeyAlg Mat) (k : SecretKey Mat) : Option Bytes :=
  (serSecret A k.ver k.secret).map fun s => k.pubBody ++ s

end Rpgp.SK
