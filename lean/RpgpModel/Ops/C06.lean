import RpgpModel.Proto
import RpgpModel.Framing
import RpgpModel.SignVerify
namespace Rpgp.Ops.C06
open Rpgp Rpgp.SV

/-- pre-images are answered in full when short, as (length, s1, s2) digest when long -/
def showPre (b : Bytes) : String :=
  if b.length ≤ 96 then "ok:" ++ hexOrDash b
  else
    let (n, x, y) := cksum b
    s!"ok:ck:{n}.{x}.{y}"

def showOpt : Option Bytes → String
  | some b => showPre b
  | none => "none"

def cfgOf (a : Args) : Option SigCfg := do
  let ver ← a.nat "ver"
  let typ ← a.nat "typ"
  let pk ← a.nat "pk"
  let hash ← a.nat "hash"
  let salt ← a.bytes "salt"
  let area ← a.bytes "area"
  pure { ver, typ, pk, hash, salt, area }

def serOf (a : Args) (p : String) : Option (Nat × Ser) := do
  let v ← a.nat (p ++ "v")
  let b ← a.bytes (p ++ "b")
  let l ← a.nat (p ++ "l")
  pure (v, { bytes := b, writeLen := l })

def W : Nat := Gen.normalizedReaderWindow
def B : Nat := Gen.signedManyBufferSize

def handle (op : String) (a : Args) : Option String :=
  match op with
  | "sv_sign" => do
    let iface ← a.get? "iface"
    let kv ← a.nat "kv"
    let c ← cfgOf a
    match iface with
    | "config" => do
      let cs ← a.list "chunks"
      pure (showOpt (signConfig kv c cs))
    | "det_bin" => do
      let cs ← a.list "chunks"
      pure (showOpt (signDetached false kv c cs))
    | "det_text" => do
      let cs ← a.list "chunks"
      pure (showOpt (signDetached true kv c cs))
    | "builder" => do
      let cs ← a.list "chunks"
      -- one signer per request line (the other signers of the same message have their own line)
      pure (showOpt ((signBuilder [(kv, c)] cs).headD none))
    | "ct_new" => do
      let t ← a.bytes "text"
      let k ← a.nat "k"
      pure (showOpt (signCleartextNew W k kv c t))
    | "ct_many" => do
      let t ← a.bytes "text"
      let k ← a.nat "k"
      pure (showOpt (signCleartextMany k kv c t))
    | _ => none
  | "sv_verify" => do
    let iface ← a.get? "iface"
    let kv ← a.nat "kv"
    let c ← cfgOf a
    match iface with
    | "detached" => do
      let cs ← a.list "chunks"
      pure (showOpt (verifyDetached W kv c cs))
    | "inline_ops" => do
      let body ← a.bytes "body"
      pure (showOpt (verifyInlineOps B (opsOf c) c body))
    | "inline_sig" => do
      let body ← a.bytes "body"
      pure (showOpt (verifyInlineSig B c body))
    | "cleartext" => do
      let csf ← a.bytes "csf"
      pure (showOpt (verifyCleartext W kv c csf))
    | _ => none
  | "sv_keysig" => do
    let side ← a.get? "side"
    let kind ← a.get? "kind"
    let c ← cfgOf a
    let (k1v, k1) ← serOf a "k1"
    let sign := side == "sign"
    match kind with
    | "key" => pure (showPre (if sign then signKey c k1v k1 else verifyKey c k1v k1))
    | "subkey" => do
      let (k2v, k2) ← serOf a "k2"
      pure (showPre (if sign then signSubkeyBinding c k1v k1 k2v k2 else verifySubkeyBinding c k1v k1 k2v k2))
    | "primary" => do
      let (k2v, k2) ← serOf a "k2"
      pure (showPre (if sign then signPrimaryKeyBinding c k1v k1 k2v k2 else verifyPrimaryKeyBinding c k1v k1 k2v k2))
    | "cert" | "attr" => do
      let idb ← a.bytes "idb"
      let idl ← a.nat "idl"
      let id : Ser := { bytes := idb, writeLen := idl }
      let attr := kind == "attr"
      pure (showPre (if sign then signCert c k1v k1 attr id else verifyCert c k1v k1 attr id))
    | _ => none
  | "ct_escape" => do
    let t ← a.bytes "text"
    pure (okBytes (dashEscape t))
  | "ct_unescape" => do
    let t ← a.bytes "csf"
    pure (okBytes (dashUnescapeTrim t))
  | "ct_signed_text" => do
    let t ← a.bytes "csf"
    pure (okBytes (signedText t))
  | "ct_roundtrip" => do
    let csf ← a.bytes "csf"
    let sig ← a.bytes "sig"
    match armorRoundTripCsf csf sig with
    | some b => pure (okBytes b)
    | none => pure "err"
  | "ct_read_body" => do
    let inp ← a.bytes "inp"
    -- `from_armor_after_header` then dearmors `prefix ‖ rest`: accepted only if the prefix is the
    -- BEGIN line of a signature block (armor parsing proper is C10's model, not this one)
    match readCleartextBody inp with
    | some (b, p) =>
      if p == "-----BEGIN PGP SIGNATURE-----\n".toUTF8.toList then pure ("ok:" ++ hexOrDash b ++ "|" ++ hexOrDash p)
      else pure "err"
    | none => pure "err"
  | _ => none

end Rpgp.Ops.C06
