import RpgpModel.Policy
/-!
# Helper lemmas for the decision tables of `RpgpModel/Policy.lean` (property C15)
-/
namespace Rpgp.Policy

/-! ## version enums -/

theorem pkesk_ofNat_v3 (n : Nat) : PkeskVersion.ofNat n = .v3 ↔ n = 3 := by
  unfold PkeskVersion.ofNat
  repeat' split
  all_goals simp_all [Gen.pkeskV3, Gen.pkeskV6]

theorem pkesk_ofNat_v6 (n : Nat) : PkeskVersion.ofNat n = .v6 ↔ n = 6 := by
  unfold PkeskVersion.ofNat
  repeat' split
  all_goals simp_all [Gen.pkeskV3, Gen.pkeskV6]

theorem skesk_ofNat_v4 (n : Nat) : SkeskVersion.ofNat n = .v4 ↔ n = 4 := by
  unfold SkeskVersion.ofNat
  repeat' split
  all_goals simp_all [Gen.skeskV4, Gen.skeskV5, Gen.skeskV6]

theorem skesk_ofNat_v5 (n : Nat) : SkeskVersion.ofNat n = .v5 ↔ n = 5 := by
  unfold SkeskVersion.ofNat
  repeat' split
  all_goals simp_all [Gen.skeskV4, Gen.skeskV5, Gen.skeskV6]

theorem skesk_ofNat_v6 (n : Nat) : SkeskVersion.ofNat n = .v6 ↔ n = 6 := by
  unfold SkeskVersion.ofNat
  repeat' split
  all_goals simp_all [Gen.skeskV4, Gen.skeskV5, Gen.skeskV6]

/-! ## esk_filter -/

/-- the coded filter predicate is the specification table, for every container and every ESK
(every version octet, not only the assigned ones) -/
theorem keepEsk_eq_alignedSpec (c : Container) (e : Esk) :
    keepEsk (filterArgs c).1 (filterArgs c).2 e = alignedSpec c e := by
  obtain ⟨pk, v⟩ := e
  have h3 : PkeskVersion.ofNat 3 = .v3 := by decide
  have h6 : PkeskVersion.ofNat 6 = .v6 := by decide
  have s4 : SkeskVersion.ofNat 4 = .v4 := by decide
  have s5 : SkeskVersion.ofNat 5 = .v5 := by decide
  have s6 : SkeskVersion.ofNat 6 = .v6 := by decide
  cases c <;> cases pk <;>
    simp [keepEsk, filterArgs, alignedSpec,
      Gen.filtSedPk, Gen.filtSedSk, Gen.filtSeipd1Pk, Gen.filtSeipd1Sk, Gen.filtSeipd2Pk, Gen.filtSeipd2Sk,
      Gen.filtGnupgPk, Gen.filtGnupgSkA, Gen.filtGnupgSkB, h3, h6, s4, s5, s6,
      pkesk_ofNat_v3, pkesk_ofNat_v6, skesk_ofNat_v4, skesk_ofNat_v5, skesk_ofNat_v6]

theorem parsedEsks_eq_filter (c : Container) (esks : List Esk) :
    parsedEsks c esks = esks.filter (alignedSpec c) := by
  unfold parsedEsks eskFilter
  congr 1
  funext e
  exact keepEsk_eq_alignedSpec c e

/-! ## session keys, find_session_key -/

theorem session_key_kind_table (c : ContainerCfg) (sk : SessKey) :
    sessionKeyFits c sk = (kindSpec c.kind sk.kind &&
      (match c.kind, sk.kind with
       | .gnupg, .v3_4 => decide (c.alg = sk.alg) && decide (sk.len = c.keySize)
       | .gnupg, .v5 => decide (sk.len = c.keySize)
       | .seipd2, .v6 => decide (sk.len = c.keySize)
       | _, _ => true)) := by
  obtain ⟨k, a, ks⟩ := c
  obtain ⟨kd, al, ky, ln⟩ := sk
  cases k <;> cases kd <;> simp [sessionKeyFits, kindSpec]

theorem fits_implies_kind (c : ContainerCfg) (sk : SessKey) (h : sessionKeyFits c sk = true) :
    kindSpec c.kind sk.kind = true := by
  rw [session_key_kind_table] at h
  simp at h; exact h.1

theorem decryptParsed_ok_iff (c : ContainerCfg) (esks : List Esk) (r : Ring) (k : RawKey) (ab : Bool) :
    decryptParsed c esks r k ab = .ok ↔
      ∃ sk, findSessionKey r k esks ab = some (some sk) ∧ decryptEdata r.opts c sk = true := by
  unfold decryptParsed
  split
  · simp_all
  · simp_all
  · rename_i sk h
    by_cases hd : decryptEdata r.opts c sk = true
    · simp [hd, h]
    · simp [hd, h]

theorem pkeskYield_kind (r : Ring) (k : RawKey) (e : Esk) (sk : SessKey)
    (h : pkeskYield r k e = some sk) :
    e.isPk = true ∧ ((e.ver = 3 ∧ sk.kind = .v3_4) ∨ (e.ver = 6 ∧ sk.kind = .v6)) := by
  unfold pkeskYield at h
  split at h
  · rename_i hc
    simp at hc
    split at h
    · rename_i h3; rw [pkesk_ofNat_v3] at h3; simp at h; subst h; simp [hc.1, h3]
    · rename_i h6; rw [pkesk_ofNat_v6] at h6; simp at h; subst h; simp [hc.1, h6]
    · cases h
  · cases h

theorem skeskYield_kind (r : Ring) (k : RawKey) (e : Esk) (sk : SessKey)
    (h : skeskYield r k e = some sk) :
    e.isPk = false ∧ ((e.ver = 4 ∧ sk.kind = .v3_4) ∨ (e.ver = 5 ∧ sk.kind = .v5 ∧ r.opts.gnupgAead = true) ∨
      (e.ver = 6 ∧ sk.kind = .v6)) := by
  unfold skeskYield at h
  split at h
  · rename_i hc
    simp at hc
    split at h
    · rename_i h4; rw [skesk_ofNat_v4] at h4; simp at h; subst h; simp [hc.1, h4]
    · rename_i h5; rw [skesk_ofNat_v5] at h5
      split at h
      · rename_i hg; simp at h; subst h; simp [hc.1, h5, hg]
      · cases h
    · rename_i h6; rw [skesk_ofNat_v6] at h6; simp at h; subst h; simp [hc.1, h6]
    · cases h
  · cases h

/-- the filter and the container's session-key check are the same table -/
theorem yield_aligned_iff_kind (c : Container) (r : Ring) (k : RawKey) (e : Esk) (sk : SessKey)
    (h : pkeskYield r k e = some sk ∨ skeskYield r k e = some sk) :
    alignedSpec c e = kindSpec c sk.kind := by
  obtain ⟨pk, v⟩ := e
  rcases h with h | h
  · obtain ⟨hp, hv⟩ := pkeskYield_kind r k _ sk h
    simp at hp; subst hp
    rcases hv with ⟨hv, hk⟩ | ⟨hv, hk⟩ <;> simp at hv <;> subst hv <;> rw [hk] <;> cases c <;> simp [alignedSpec, kindSpec]
  · obtain ⟨hp, hv⟩ := skeskYield_kind r k _ sk h
    simp at hp; subst hp
    rcases hv with ⟨hv, hk⟩ | ⟨hv, hk, _⟩ | ⟨hv, hk⟩ <;> simp at hv <;> subst hv <;> rw [hk] <;> cases c <;> simp [alignedSpec, kindSpec]

theorem head_filterMap_mem {α β} (f : α → Option β) (l : List α) (b : β)
    (h : (l.filterMap f).head? = some b) : ∃ a ∈ l, f a = some b := by
  have : b ∈ l.filterMap f := List.mem_of_head? h
  exact List.mem_filterMap.1 this

/-- every session key `find_session_key` can produce from ESKs (no explicit keys) is yielded by a listed ESK -/
theorem findSessionKey_from_esk (r : Ring) (k : RawKey) (esks : List Esk) (ab : Bool) (sk : SessKey)
    (hs : r.sessionKeys = []) (h : findSessionKey r k esks ab = some (some sk)) :
    ∃ e ∈ esks, pkeskYield r k e = some sk ∨ skeskYield r k e = some sk := by
  have hsearch : searchSessionKey r k esks = some (some sk) := by
    unfold findSessionKey at h
    rw [hs] at h
    cases ab <;> simpa using h
  unfold searchSessionKey at hsearch
  rw [hs] at hsearch
  simp only [List.head?_nil, Option.or_none] at hsearch
  split at hsearch
  · simp at hsearch
    rcases hsearch with h1 | ⟨_, h2⟩
    · obtain ⟨e, he, hy⟩ := List.exists_of_findSome?_eq_some h1
      exact ⟨e, he, Or.inl hy⟩
    · obtain ⟨e, he, hy⟩ := List.exists_of_findSome?_eq_some h2
      exact ⟨e, he, Or.inr hy⟩
  · cases hsearch

/-! ## signatures -/

theorem align_table (kv sv : Nat) : alignSigKey kv sv = decide ((kv = 6) ↔ (sv = 6)) := by
  unfold alignSigKey
  simp only [Gen.keyV6, Gen.sigV6]
  by_cases h1 : kv = 6 <;> by_cases h2 : sv = 6 <;> simp [h1, h2]

theorem sign_table (kv sv : Nat) :
    signAllowed kv sv = decide ((kv = 4 ∧ sv = 4) ∨ (kv = 6 ∧ sv = 6)) := by
  unfold signAllowed
  simp only [Gen.keyV6, Gen.sigV6, Gen.keyV4, Gen.sigV4]
  by_cases h1 : kv = 6 <;> by_cases h2 : sv = 6 <;> by_cases h3 : kv = 4 <;> by_cases h4 : sv = 4 <;> simp [h1, h2, h3, h4]

theorem inline_guards_on : Gen.inlineChecksPreconditions = 1 := by decide

theorem verifyPath_iff (p : VPath) (kv : Nat) (s : SigDesc) :
    verifyPath p kv s = true ↔
      s.known = true ∧ typeOk p s.typ = true ∧ keyGuards p kv s = true ∧
      ((checksSaltLen p = true ∧ s.ver = Gen.sigV6) → s.saltLenOk = true) ∧
      hashSignatureData s.ver s.hashed = true ∧ s.prefixOk = true ∧ s.cryptoOk = true := by
  unfold verifyPath
  simp only [Bool.and_eq_true, Bool.or_eq_true, Bool.not_eq_true', and_assoc]
  constructor
  · rintro ⟨a, b, c, d, e, f, g⟩
    refine ⟨a, b, c, ?_, e, f, g⟩
    rintro ⟨h1, h2⟩
    rcases d with d | d
    · simp [h1, h2] at d
    · exact d
  · rintro ⟨a, b, c, d, e, f, g⟩
    refine ⟨a, b, c, ?_, e, f, g⟩
    by_cases h : checksSaltLen p = true ∧ s.ver = Gen.sigV6
    · right; exact d h
    · left
      cases hc : checksSaltLen p
      · simp
      · simp [hc] at h; simp [h]

theorem hashedAreaOk_iff (sv : Nat) (l : List Sub) : hashedAreaOk sv l = l.all (subOk sv) := by
  induction l with
  | nil => rfl
  | cons a t ih => simp [hashedAreaOk, ih]

theorem hashedAreaOk_mem (sv : Nat) (l : List Sub) (x : Sub) (hx : x ∈ l) (h : hashedAreaOk sv l = true) :
    subOk sv x = true := by
  rw [hashedAreaOk_iff] at h
  exact List.all_eq_true.1 h x hx

theorem crit_on : Gen.hashSigDataChecksCritical = 1 := by decide

theorem subOk_critical_other (sv : Nat) (x : Sub) (hc : x.critical = true) (ho : subClass x.id = .other) :
    subOk sv x = false := by
  unfold subOk
  simp [crit_on, hc, ho]

theorem hashSignatureData_cases (sv : Nat) (l : List Sub) (h : hashSignatureData sv l = true) :
    sv = 2 ∨ sv = 3 ∨ ((sv = 4 ∨ sv = 6) ∧ hashedAreaOk sv l = true) := by
  unfold hashSignatureData at h
  have e2 : Gen.sigV2 = 2 := rfl
  have e3 : Gen.sigV3 = 3 := rfl
  have e4 : Gen.sigV4 = 4 := rfl
  have e6 : Gen.sigV6 = 6 := rfl
  by_cases h23 : sv = Gen.sigV2 ∨ sv = Gen.sigV3
  · rcases h23 with h | h
    · left; omega
    · right; left; omega
  · simp only [h23, if_false] at h
    by_cases h46 : sv = Gen.sigV4 ∨ sv = Gen.sigV6
    · simp only [h46, if_true] at h
      right; right; exact ⟨by omega, h⟩
    · simp [h46] at h

theorem fp_aligned_table (sv : Nat) (fv : Option Nat) :
    fpAligned sv fv = true ↔ ((sv = 6 ∧ fv = some 6) ∨ (sv = 4 ∧ fv = some 4)) := by
  have e4 : Gen.sigV4 = 4 := rfl
  have e6 : Gen.sigV6 = 6 := rfl
  have k4 : Gen.keyV4 = 4 := rfl
  have k6 : Gen.keyV6 = 6 := rfl
  unfold fpAligned
  cases fv with
  | none => simp
  | some v => simp [e4, e6, k4, k6]

theorem subOk_issuer_fp (sv : Nat) (x : Sub) (hid : x.id = 33) (hf : fpAligned sv x.fpVer = false) :
    subOk sv x = false := by
  unfold subOk
  have : Gen.spRdIssuerFingerprint = 33 := rfl
  split
  · rfl
  · simp [hid, this, hf]

theorem ops_matches_iff (o : OpsDesc) (s : SigDesc) :
    opsMatches o s = true ↔
      s.known = true ∧ o.typ = s.typ ∧ o.hashAlg = s.hashAlg ∧ o.pubAlg = s.pubAlg ∧
      ((o.ver = 3 ∧ s.ver = 4) ∨ (o.ver = 6 ∧ s.ver = 6 ∧ o.salt = s.salt)) := by
  have e4 : Gen.sigV4 = 4 := rfl
  have e6 : Gen.sigV6 = 6 := rfl
  unfold opsMatches
  simp [e4, e6, and_assoc]

/-! ## certificates -/

theorem pub_on : Gen.publicSubkeyChecksBacksig = 1 := by decide

/-- guard: every signing-capable binding on a secret subkey that verifies carries a good back signature -/
def backsigsPresent (c : CertDesc) : Bool :=
  c.subkeys.all fun s => s.sigs.all fun g => !(g.bindingOk && g.signFlag) || decide (g.back = .good)

theorem subSig_agree (g : SubSig) (h : (!(g.bindingOk && g.signFlag) || decide (g.back = .good)) = true) :
    secretSubSigOk g = publicSubSigOk g := by
  unfold secretSubSigOk publicSubSigOk
  cases hb : g.bindingOk <;> cases hf : g.signFlag <;> simp [hb, hf] at h ⊢
  simp [h]

theorem all_congr_mem {α} (l : List α) (f g : α → Bool) (h : ∀ x ∈ l, f x = g x) : l.all f = l.all g := by
  induction l with
  | nil => rfl
  | cons a t ih =>
    simp only [List.all_cons]
    rw [h a (by simp), ih (fun x hx => h x (by simp [hx]))]

/-- witness: v4 cert, one secret signing subkey whose binding lacks the 0x19 back signature -/
def d15aWitness : CertDesc :=
  { primaryVer := 4, detailsOk := true,
    subkeys := [{ secret := true, ver := 4, sigs := [{ bindingOk := true, signFlag := true, back := .absent }] }] }

end Rpgp.Policy
