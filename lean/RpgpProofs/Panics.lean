import RpgpModel.Panics
/-!
# Proof helpers for the index-safety model (C04)

`bind_ne_panic` turns "a `do` block does not panic" into "the first step does not panic and, for
every value it can produce, the continuation does not panic"; every checked primitive has a
characterisation of `≠ panic` and of `= ok v`, so `simp` reduces a region to arithmetic.
-/
namespace Rpgp.Panics
open Rpgp Out

@[simp] theorem bind_ok {α β} (a : α) (f : α → Out β) : (Out.ok a >>= f) = f a := rfl
@[simp] theorem bind_err {α β} (f : α → Out β) : (Out.err >>= f) = Out.err := rfl
@[simp] theorem bind_panic {α β} (f : α → Out β) : (Out.panic >>= f) = Out.panic := rfl
@[simp] theorem pure_eq {α} (a : α) : (pure a : Out α) = Out.ok a := rfl

theorem bind_ne_panic {α β} (x : Out α) (f : α → Out β) :
    (x >>= f) ≠ .panic ↔ x ≠ .panic ∧ ∀ a, x = .ok a → f a ≠ .panic := by
  cases x <;> simp

theorem bind_eq_ok {α β} (x : Out α) (f : α → Out β) (b : β) :
    (x >>= f) = .ok b ↔ ∃ a, x = .ok a ∧ f a = .ok b := by
  cases x <;> simp

/-! ### primitives -/

@[simp] theorem ensure_ne_panic (c : Bool) : ensure c ≠ .panic := by
  unfold ensure; split <;> simp
@[simp] theorem ensure_eq_ok (c : Bool) (u : Unit) : ensure c = .ok u ↔ c = true := by
  unfold ensure; split <;> simp_all

@[simp] theorem idx_ne_panic (l : Bytes) (i : Nat) : idx l i ≠ .panic ↔ i < l.length := by
  unfold idx
  cases h : l[i]? with
  | none => simp; exact List.getElem?_eq_none_iff.mp h
  | some b =>
    simp
    have := List.getElem?_eq_some_iff.mp h
    exact this.1
theorem idx_eq_ok (l : Bytes) (i : Nat) (b : Byte) : idx l i = .ok b ↔ l[i]? = some b := by
  unfold idx
  cases h : l[i]? <;> simp

@[simp] theorem chkIdx_ne_panic (n i : Nat) : chkIdx n i ≠ .panic ↔ i < n := by
  unfold chkIdx; split <;> simp_all

@[simp] theorem sub_ne_panic (a b : Nat) : sub a b ≠ .panic ↔ b ≤ a := by
  unfold sub; split <;> simp_all
@[simp] theorem sub_eq_ok (a b c : Nat) : sub a b = .ok c ↔ b ≤ a ∧ c = a - b := by
  unfold sub; split <;> simp_all <;> omega

@[simp] theorem addW_ne_panic (w a b : Nat) : addW w a b ≠ .panic ↔ a + b < w := by
  unfold addW; split <;> simp_all
@[simp] theorem addW_eq_ok (w a b c : Nat) : addW w a b = .ok c ↔ a + b < w ∧ c = a + b := by
  unfold addW; split <;> simp_all <;> omega

@[simp] theorem slice_ne_panic (l : Bytes) (a b : Nat) : slice l a b ≠ .panic ↔ a ≤ b ∧ b ≤ l.length := by
  unfold slice; split <;> simp_all
theorem slice_eq_ok (l : Bytes) (a b : Nat) (s : Bytes) :
    slice l a b = .ok s ↔ (a ≤ b ∧ b ≤ l.length) ∧ s = (l.take b).drop a := by
  unfold slice
  split
  · rename_i h; simp [h]; exact eq_comm
  · rename_i h; simp; intro h1 h2; exact absurd ⟨h1, h2⟩ h
theorem slice_ok_length (l : Bytes) (a b : Nat) (s : Bytes) (h : slice l a b = .ok s) : s.length = b - a := by
  rw [slice_eq_ok] at h
  obtain ⟨⟨_, h2⟩, rfl⟩ := h
  simp [List.length_drop, List.length_take, Nat.min_eq_left h2]

@[simp] theorem sliceFrom_ne_panic (l : Bytes) (a : Nat) : sliceFrom l a ≠ .panic ↔ a ≤ l.length := by
  simp [sliceFrom]
theorem sliceFrom_ok_length (l : Bytes) (a : Nat) (s : Bytes) (h : sliceFrom l a = .ok s) : s.length = l.length - a :=
  slice_ok_length l a l.length s h

@[simp] theorem sliceTo_ne_panic (l : Bytes) (b : Nat) : sliceTo l b ≠ .panic ↔ b ≤ l.length := by
  simp [sliceTo]

@[simp] theorem chkRange_ne_panic (n a b : Nat) : chkRange n a b ≠ .panic ↔ a ≤ b ∧ b ≤ n := by
  unfold chkRange; split <;> simp_all
@[simp] theorem chkRange_eq_ok (n a b c : Nat) : chkRange n a b = .ok c ↔ (a ≤ b ∧ b ≤ n) ∧ c = b - a := by
  unfold chkRange; split <;> simp_all <;> omega

@[simp] theorem copyLen_ne_panic (a b : Nat) : copyLen a b ≠ .panic ↔ a = b := by
  unfold copyLen; split <;> simp_all

@[simp] theorem expectLen_ne_panic (s : Bytes) (n : Nat) : expectLen s n ≠ .panic ↔ s.length = n := by
  unfold expectLen; split <;> simp_all

@[simp] theorem readN_ne_panic (n : Nat) (inp : Bytes) : readN n inp ≠ .panic := by
  unfold readN; split <;> simp
theorem readN_eq_ok (n : Nat) (inp a b : Bytes) :
    readN n inp = .ok (a, b) ↔ n ≤ inp.length ∧ a = inp.take n ∧ b = inp.drop n := by
  unfold readN
  split
  · rename_i h; simp [h]; constructor <;> (intro h'; simp [h'])
  · rename_i h; simp; intro h1; exact absurd h1 h

@[simp] theorem read1_ne_panic (inp : Bytes) : read1 inp ≠ .panic := by
  unfold read1; split <;> simp

@[simp] theorem shl32_ne_panic (n : Nat) : shl32 n ≠ .panic ↔ n < 32 := by
  unfold shl32; split <;> simp_all

@[simp] theorem pow2u32_ne_panic (e : Nat) : pow2u32 e ≠ .panic ↔ 2 ^ e < 4294967296 := by
  unfold pow2u32; split <;> simp_all

/-! ### tables -/

theorem lookup_le (t : List (Nat × Nat)) (k b : Nat) (h : ∀ e ∈ t, e.2 ≤ b) : lookup t k ≤ b := by
  unfold lookup
  cases hf : t.find? (fun e => e.1 == k) with
  | none => simp
  | some e => exact h e (List.mem_of_find?_eq_some hf)

theorem symKeySize_le (a : Nat) : symKeySize a ≤ 32 :=
  lookup_le _ _ _ (by decide)

end Rpgp.Panics

namespace Rpgp.Panics
open Rpgp Out

/-- reduce "this `do` block does not panic" to arithmetic side conditions -/
macro "chk_simp" : tactic =>
  `(tactic| simp only [bind_ne_panic, ensure_ne_panic, ensure_eq_ok, idx_ne_panic, chkIdx_ne_panic,
      sub_ne_panic, sub_eq_ok, addW_ne_panic, addW_eq_ok, slice_ne_panic, sliceFrom_ne_panic,
      sliceTo_ne_panic, chkRange_ne_panic, chkRange_eq_ok, copyLen_ne_panic, expectLen_ne_panic,
      readN_ne_panic, read1_ne_panic, shl32_ne_panic, pow2u32_ne_panic, pure_eq,
      true_and, and_true, ne_eq, not_false_eq_true, implies_true, reduceCtorEq, not_true_eq_false,
      beq_iff_eq, decide_eq_true_eq, Bool.not_eq_true', Bool.and_eq_true, Bool.or_eq_true])

end Rpgp.Panics

namespace Rpgp.Panics
open Rpgp Out
set_option linter.unusedSimpArgs false

/-! ### region helpers -/

theorem aeadRow_cases (a : Nat) :
    aeadRow a = none ∨ ∃ e ∈ Gen.aeadTable, aeadRow a = some e := by
  unfold aeadRow
  cases h : Gen.aeadTable.find? (fun e => e.1 == a) with
  | none => exact Or.inl rfl
  | some e => exact Or.inr ⟨e, List.mem_of_find?_eq_some h, rfl⟩

theorem aeadTable_ok : ∀ e ∈ Gen.aeadTable,
    Gen.aeadSetupNonceCounter ≤ e.2.1 ∧ 32 + (e.2.1 - Gen.aeadSetupNonceCounter) ≤ Gen.aeadSetupOkmLen := by decide

theorem aead_setup_total_of_tag (sym aead n : Nat) (h : aeadTagSize aead = some n) :
    aeadSetup sym aead ≠ .panic := by
  have hk := symKeySize_le sym
  rcases aeadRow_cases aead with hr | ⟨e, he, hr⟩
  · simp [aeadTagSize, hr] at h
  · obtain ⟨h1, h2⟩ := aeadTable_ok e he
    have hn : aeadNonceSize aead = e.2.1 := by
      simp [aeadNonceSize, hr]
    unfold aeadSetup
    chk_simp
    rw [hn]
    have : Gen.aeadSetupOkmLen = 42 := rfl
    refine ⟨⟨Nat.zero_le _, by omega⟩, ?_⟩
    rintro src ⟨_, rfl⟩
    refine ⟨by omega, fun _ _ => ⟨h1, ?_⟩⟩
    rintro raw ⟨_, rfl⟩
    refine ⟨⟨by omega, by omega⟩, ?_⟩
    rintro iv ⟨_, rfl⟩
    refine ⟨⟨Nat.zero_le _, by omega⟩, ?_⟩
    rintro dst ⟨_, rfl⟩
    omega

theorem aeadIv_eq_nonce (a : Nat) : aeadIvSize a = aeadNonceSize a := by
  rcases aeadRow_cases a with hr | ⟨e, he, hr⟩
  · simp [aeadIvSize, aeadNonceSize, hr]
  · have : ∀ e ∈ Gen.aeadTable, e.2.2.1 = e.2.1 := by decide
    have := this e he
    obtain ⟨i, n, v, t⟩ := e
    simp [aeadIvSize, aeadNonceSize, hr]
    exact this

theorem pow_lt_of_le_31 (e : Nat) (h : e ≤ 31) : 2 ^ e < 4294967296 := by
  have : 2 ^ e ≤ 2 ^ 31 := Nat.pow_le_pow_right (by decide) h
  have e31 : (2:Nat) ^ 31 = 2147483648 := by decide
  omega

theorem read_checksum_loop_total (l : Bytes) : ∀ (i : Nat) (buf : Bytes), i = l.length → l.length < buf.length →
    readChecksumLoop l i buf ≠ .panic := by
  induction l with
  | nil => intro i buf _ _; simp [readChecksumLoop]
  | cons a r ih =>
    intro i buf hi hl
    unfold readChecksumLoop
    chk_simp
    simp only [List.length_cons] at hi hl
    refine ⟨by omega, fun _ _ => ⟨by omega, ?_⟩⟩
    rintro j ⟨_, rfl⟩
    exact ih _ _ (by omega) (by simp; omega)

theorem nr_tail_total (repl : Bytes) (lastChar : Byte) (b : Bytes) (read end_ : Nat)
    (hb : 0 < b.length) (hr : read ≤ b.length) (he : end_ ≤ read)
    (h1 : read > 0 → b[0]? = some LF → 1 ≤ end_) :
    nrTail repl lastChar b read end_ ≠ .panic := by
  unfold nrTail
  chk_simp
  refine ⟨hb, fun first hfirst => ?_⟩
  rw [idx_eq_ok] at hfirst
  by_cases hcr : lastChar = CR
  · rw [if_pos hcr]
    by_cases hlf : first = LF ∧ read > 0
    · rw [if_pos hlf]
      exact ⟨h1 hlf.2 (hlf.1 ▸ hfirst), by omega⟩
    · rw [if_neg hlf]
      exact ⟨Nat.zero_le _, by omega⟩
  · rw [if_neg hcr]
    exact ⟨Nat.zero_le _, by omega⟩

theorem lw_emit_total (N : Nat) (lb : Bytes) (st : LwState) (bp ip : Nat) (buffer : Bytes)
    (hlb : lb.length ≤ 2) (hbp : bp ≤ N) : lwEmit N lb st bp ip buffer ≠ .panic := by
  unfold lwEmit
  simp only []
  split
  · simp
  · chk_simp
    refine ⟨⟨by omega, by omega⟩, ?_⟩
    rintro d ⟨_, rfl⟩
    refine ⟨by omega, fun _ _ => by omega⟩

theorem lw_fill_total (N : Nat) (lb : Bytes) (st : LwState) (input : Bytes) (bp : Nat) (buffer : Bytes)
    (hlb : lb.length ≤ 2) (hbp : bp ≤ N) : lwFill N lb st input bp buffer ≠ .panic := by
  unfold lwFill
  simp only []
  split
  · chk_simp
    refine ⟨by omega, ?_⟩
    rintro a ⟨_, rfl⟩
    refine ⟨Nat.zero_le _, ?_⟩
    rintro b ⟨_, rfl⟩
    rw [Nat.sub_zero]
    have hm : min (N - bp) (input.length) ≤ N - bp := Nat.min_le_left _ _
    have hm2 : min (N - bp) (input.length) ≤ input.length := Nat.min_le_right _ _
    refine ⟨⟨by omega, by omega⟩, ?_⟩
    rintro d ⟨_, rfl⟩
    refine ⟨⟨Nat.zero_le _, hm2⟩, ?_⟩
    rintro s ⟨_, rfl⟩
    refine ⟨by omega, fun _ _ => ?_⟩
    exact lw_emit_total _ _ _ _ _ _ hlb (by omega)
  · exact lw_emit_total _ _ _ _ _ _ hlb hbp

theorem bind_ok_elim {α β} {x : Out α} {f : α → Out β} {b : β} (h : (x >>= f) = .ok b) :
    ∃ a, x = .ok a ∧ f a = .ok b := (bind_eq_ok x f b).mp h

theorem lw_emit_state (N : Nat) (lb : Bytes) (st : LwState) (bp ip : Nat) (buffer : Bytes) (r : Nat × Bytes × LwState)
    (h : lwEmit N lb st bp ip buffer = .ok r) : r.2.2.extra = [] ∧ r.2.2.finished = st.finished := by
  unfold lwEmit at h
  simp only [] at h
  split at h
  · simp at h; subst h; simp
  · obtain ⟨_, _, h⟩ := bind_ok_elim h
    obtain ⟨_, _, h⟩ := bind_ok_elim h
    obtain ⟨_, _, h⟩ := bind_ok_elim h
    simp at h; subst h; simp

theorem lw_fill_state (N : Nat) (lb : Bytes) (st : LwState) (input : Bytes) (bp : Nat) (buffer : Bytes)
    (r : Nat × Bytes × LwState)
    (h : lwFill N lb st input bp buffer = .ok r) : r.2.2.extra = [] ∧ r.2.2.finished = st.finished := by
  unfold lwFill at h
  simp only [] at h
  split at h
  · obtain ⟨_, _, h⟩ := bind_ok_elim h
    obtain ⟨_, _, h⟩ := bind_ok_elim h
    obtain ⟨_, _, h⟩ := bind_ok_elim h
    obtain ⟨_, _, h⟩ := bind_ok_elim h
    obtain ⟨_, _, h⟩ := bind_ok_elim h
    exact lw_emit_state _ _ _ _ _ _ _ h
  · exact lw_emit_state _ _ _ _ _ _ _ h

theorem s2kReduce_le (ds : Nat) (hds : 0 < ds) : ∀ (f c : Nat), c ≤ f → s2kReduce ds f c ≤ max ds 0 ∧ (0 < c → 0 < s2kReduce ds f c) := by
  intro f
  induction f with
  | zero => intro c hc; have : c = 0 := by omega
            subst this; simp [s2kReduce]
  | succ f ih =>
    intro c hc
    unfold s2kReduce
    split
    · rename_i hgt
      have := ih (c - ds) (by omega)
      exact ⟨this.1, fun _ => this.2 (by omega)⟩
    · rename_i hle
      exact ⟨by simp; omega, fun h => h⟩

theorem b64_skip_nl (buf : Bytes) : ∀ (f i : Nat), i < buf.length →
    b64SkipNl buf f i ≠ .panic ∧ ∀ j, b64SkipNl buf f i = .ok j → i ≤ j ∧ j ≤ buf.length := by
  intro f
  induction f with
  | zero => intro i hi; simp [b64SkipNl]; omega
  | succ f ih =>
    intro i hi
    unfold b64SkipNl
    constructor
    · chk_simp
      refine ⟨hi, fun c _ => ?_⟩
      split
      · split
        · simp
        · rename_i hne
          have hne' : i + 1 ≠ buf.length := by simpa using hne
          exact (ih (i + 1) (by omega)).1
      · simp
    · intro j hj
      obtain ⟨c, _, hj⟩ := (bind_eq_ok _ _ _).mp hj
      split at hj
      · split at hj
        · rename_i heq
          simp at heq hj; omega
        · rename_i hne
          have hne' : i + 1 ≠ buf.length := by simpa using hne
          have := (ih (i + 1) (by omega)).2 j hj
          omega
      · simp at hj; omega

theorem b64_loop_total (intoLen : Nat) : ∀ (f : Nat) (buf : Bytes) (rest : List Bytes) (i : Nat) (out : Bytes),
    i < buf.length → out.length < intoLen → b64Loop intoLen f buf rest i out ≠ .panic := by
  intro f
  induction f with
  | zero => intro buf rest i out _ _; simp [b64Loop]
  | succ f ih =>
    intro buf rest i out hi ho
    unfold b64Loop
    rw [bind_ne_panic]
    have hs := b64_skip_nl buf (buf.length + 1) i hi
    refine ⟨hs.1, fun j hj => ?_⟩
    have hj' := hs.2 j hj
    simp only []
    by_cases hlt : j < buf.length
    · rw [if_pos hlt]
      rw [bind_ne_panic]
      constructor
      · chk_simp
        refine ⟨hlt, fun c _ => ?_⟩
        split
        · simp
        · chk_simp
          refine ⟨ho, fun _ _ => ?_⟩
          split <;> simp
      · rintro ⟨brk, i', out'⟩ hstep
        obtain ⟨c, _, hstep⟩ := (bind_eq_ok _ _ _).mp hstep
        split at hstep
        · simp at hstep
          obtain ⟨rfl, rfl, rfl⟩ := hstep
          simp
        · obtain ⟨_, _, hstep⟩ := (bind_eq_ok _ _ _).mp hstep
          split at hstep
          · simp at hstep
            obtain ⟨rfl, rfl, rfl⟩ := hstep
            simp
          · rename_i hne
            simp at hstep
            obtain ⟨rfl, rfl, rfl⟩ := hstep
            simp only [Bool.false_eq_true, if_false]
            have hlen : (out ++ [c]).length = out.length + 1 := by simp
            have hol : (out ++ [c]).length < intoLen := by
              rw [hlen] at hne ⊢
              simp at hne; omega
            split
            · split
              · simp
              · simp
              · exact ih _ _ _ _ (by simp) hol
            · rename_i hne2
              have hne2' : j + 1 ≠ buf.length := by simpa using hne2
              exact ih _ _ _ _ (by omega) hol
    · rw [if_neg hlt]
      simp only [pure_eq, bind_ok, Bool.false_eq_true, if_false]
      have : (j == buf.length) = true := by simp; omega
      rw [if_pos this]
      split
      · simp
      · simp
      · exact ih _ _ _ _ (by simp) ho

theorem rfindGo_spec (pat : Bytes) : ∀ (s : Bytes) (i : Nat) (acc : Option Nat) (p : Nat),
    rfindGo pat s i acc = some p →
    acc = some p ∨ ∃ k, p = i + k ∧ k < s.length ∧ pat.isPrefixOf (s.drop k) = true := by
  intro s
  induction s with
  | nil => intro i acc p h; simp [rfindGo] at h; exact Or.inl h
  | cons c r ih =>
    intro i acc p h
    unfold rfindGo at h
    rcases ih _ _ _ h with h1 | ⟨k, hk, hlt, hpre⟩
    · split at h1
      · rename_i hp
        simp at h1
        exact Or.inr ⟨0, by omega, by simp, by simpa using hp⟩
      · exact Or.inl h1
    · exact Or.inr ⟨k + 1, by omega, by simp; omega, by simpa using hpre⟩

theorem rfind_spec (pat s : Bytes) (p : Nat) (h : rfind pat s = some p) :
    p < s.length ∧ ∃ t, s.drop p = pat ++ t := by
  unfold rfind at h
  rcases rfindGo_spec pat s 0 none p h with h1 | ⟨k, hk, hlt, hpre⟩
  · simp at h1
  · have : p = k := by omega
    subst this
    obtain ⟨t, ht⟩ := List.isPrefixOf_iff_prefix.mp hpre
    exact ⟨hlt, t, ht.symm⟩

theorem getElem?_of_drop_eq (s pat t : Bytes) (p j : Nat) (h : s.drop p = pat ++ t) (hj : j < pat.length) :
    s[p + j]? = pat[j]? := by
  have : (s.drop p)[j]? = s[p + j]? := by simp [List.getElem?_drop]
  rw [← this, h, List.getElem?_append_left hj]

theorem isBoundary_of_ascii (s : Bytes) (n : Nat) (b : Byte) (h : s[n]? = some b) (hb : isCont b = false) :
    isBoundary s n = true := by
  unfold isBoundary
  split
  · rfl
  · simp [h, hb]

theorem length_of_drop_eq (s pat t : Bytes) (p : Nat) (h : s.drop p = pat ++ t) : p + pat.length ≤ s.length ∨ pat = [] := by
  by_cases hp : pat = []
  · exact Or.inr hp
  · left
    have := congrArg List.length h
    simp [List.length_drop] at this
    have hpl : 0 < pat.length := List.length_pos_iff.mpr hp
    omega

theorem clear_body_loop_total : ∀ (lines : List Bytes) (out : Bytes), clearBodyLoop lines out ≠ .panic := by
  intro lines
  induction lines with
  | nil => intro out; simp [clearBodyLoop]
  | cons l ls ih =>
    intro out
    unfold clearBodyLoop
    split
    · simp
    · simp only []
      split
      · simp
      · split
        · rename_i pos hpos
          obtain ⟨hlt, t, hdrop⟩ := rfind_spec _ _ _ hpos
          generalize out ++ l = o at *
          have h0 : o[pos]? = some LF := by
            have := getElem?_of_drop_eq o NLDASHES5 t pos 0 hdrop (by decide)
            simpa [NLDASHES5] using this
          have h1 : o[pos + 1]? = some DASH := by
            have := getElem?_of_drop_eq o NLDASHES5 t pos 1 hdrop (by decide)
            simpa [NLDASHES5, DASHES5] using this
          have hsplit : splitOff o (pos + 1) = .ok (o.take (pos + 1), o.drop (pos + 1)) := by
            unfold splitOff
            rw [isBoundary_of_ascii o (pos + 1) DASH h1 (by decide)]
            rfl
          rw [hsplit]
          simp only [bind_ok]
          have hlen : (o.take (pos + 1)).length = pos + 1 := by
            simp [List.length_take]; omega
          have hlast : (o.take (pos + 1))[pos]? = some LF := by
            rw [List.getElem?_take_of_lt (by omega)]; exact h0
          split
          · rename_i hends
            -- ends with CR LF: length ≥ 2 and the octet at len-2 is CR
            unfold endsWith at hends
            obtain ⟨t', ht'⟩ := List.isPrefixOf_iff_prefix.mp hends
            have hrev : o.take (pos + 1) = t'.reverse ++ [CR, LF] := by
              have := congrArg List.reverse ht'
              simpa using this.symm
            have hl2 : 2 ≤ (o.take (pos + 1)).length := by rw [hrev]; simp
            chk_simp
            refine ⟨hl2, ?_⟩
            rintro n ⟨_, rfl⟩
            unfold truncate
            rw [if_pos (by omega)]
            have hcr : (o.take (pos + 1))[(o.take (pos + 1)).length - 2]? = some CR := by
              rw [hrev]
              simp [List.getElem?_append_right]
            rw [isBoundary_of_ascii _ _ CR hcr (by decide)]
            simp
          · chk_simp
            refine ⟨by omega, ?_⟩
            rintro n ⟨_, rfl⟩
            unfold truncate
            rw [if_pos (by omega)]
            have : (o.take (pos + 1)).length - 1 = pos := by omega
            rw [this, isBoundary_of_ascii _ _ LF hlast (by decide)]
            simp
        · exact ih _


theorem nr_tail_buf (repl : Bytes) (lc : Byte) (b : Bytes) (read e : Nat) (r : Bytes × Bytes)
    (h : nrTail repl lc b read e = .ok r) : r.2 = b := by
  unfold nrTail at h
  obtain ⟨_, _, h⟩ := (bind_eq_ok _ _ _).mp h
  obtain ⟨_, _, h⟩ := (bind_eq_ok _ _ _).mp h
  simp at h
  rw [← h]

theorem nr_cleanup_buf_len (repl inBuf w : Bytes) (hw : w.length ≤ inBuf.length) (r : Bytes × Bytes)
    (h : nrCleanupC repl inBuf w = .ok r) : r.2.length = inBuf.length := by
  unfold nrCleanupC at h
  obtain ⟨_, _, h⟩ := (bind_eq_ok _ _ _).mp h
  obtain ⟨_, _, h⟩ := (bind_eq_ok _ _ _).mp h
  rw [if_neg (by omega)] at h
  obtain ⟨_, _, h⟩ := (bind_eq_ok _ _ _).mp h
  have hlen : (w ++ List.drop w.length inBuf).length = inBuf.length := by
    simp [List.length_append, List.length_drop]; omega
  split at h
  · obtain ⟨_, _, h⟩ := (bind_eq_ok _ _ _).mp h
    rw [nr_tail_buf _ _ _ _ _ _ h]; exact hlen
  · rw [nr_tail_buf _ _ _ _ _ _ h]; exact hlen

theorem readN4 (r : Bytes) : readN 4 r = match r with
    | a :: b :: c :: d :: r' => .ok ([a, b, c, d], r')
    | _ => .err := by
  unfold readN
  match r with
  | [] => simp
  | [_] => simp
  | [_, _] => simp
  | [_, _, _] => simp
  | a :: b :: c :: d :: r' => simp

theorem readN1 (r : Bytes) : readN 1 r = match r with
    | a :: r' => .ok ([a], r')
    | _ => .err := by
  unfold readN
  match r with
  | [] => simp
  | a :: r' => simp

theorem readN2 (r : Bytes) : readN 2 r = match r with
    | a :: b :: r' => .ok ([a, b], r')
    | _ => .err := by
  unfold readN
  match r with
  | [] => simp
  | [_] => simp
  | a :: b :: r' => simp

end Rpgp.Panics
