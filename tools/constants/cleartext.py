# ---- composed/cleartext.rs, armor/reader.rs (cleartext header), crypto/hash.rs ----------------
# numeric items (one per use site)
item("csfStripCrLf", "src/composed/cleartext.rs",
     r'if out\.ends_with\("\\r\\n"\) \{[^}]*?out\.truncate\(out\.len\(\) - (\d+)\)',
     "read_cleartext_body: bytes truncated when the body ends with CR LF")
item("csfStripLf", "src/composed/cleartext.rs",
     r'\} else \{\s*// trailing line break is a bare LF\s*out\.truncate\(out\.len\(\) - (\d+)\)',
     "read_cleartext_body: bytes truncated when the body ends with a bare LF")
item("csfSplitAfter", "src/composed/cleartext.rs", r'out\.split_off\(pos \+ (\d+)\)',
     "read_cleartext_body: the rest starts this many bytes after the rfind position")
item("csfLineEndLenCrLf", "src/composed/cleartext.rs",
     r'let line_end_len = if line\.ends_with\("\\r\\n"\) \{\s*(\d+)',
     "dash_unescape_and_trim: line_end_len for CR LF")
item("csfLineEndLenLf", "src/composed/cleartext.rs",
     r"\} else if line\.ends_with\('\\n'\) \{\s*(\d+)",
     "dash_unescape_and_trim: line_end_len for LF")
for _n, _v in [("None", "None"), ("Md5", "Md5"), ("Sha1", "Sha1"), ("Ripemd160", "Ripemd160"),
               ("Sha256", "Sha256"), ("Sha384", "Sha384"), ("Sha512", "Sha512"), ("Sha224", "Sha224"),
               ("Sha3_256", "Sha3_256"), ("Sha3_512", "Sha3_512"), ("Private10", "Private10")]:
    item("hashId" + _n, "src/crypto/hash.rs", r"\n\s*%s = (\d+)," % _v, "HashAlgorithm::%s id" % _v)


# string literals: emitted as byte lists (the shared translator only handles numbers, so this
# file extracts them itself; a literal that cannot be located keeps its previous value and is
# listed in the generated comment `csf literals not re-extracted`)
def _csf_literals():
    import os
    g = derived.__globals__          # the translator's own REPO / OUT
    repo, out_path = g["REPO"], g["OUT"]

    def read(p):
        try:
            return open(os.path.join(repo, p), encoding="utf-8").read()
        except OSError:
            return None

    def unesc(s):
        return (s.replace("\\r", "\r").replace("\\n", "\n").replace("\\t", "\t")
                 .replace("\\'", "'").replace('\\"', '"').replace("\\\\", "\\"))

    prev = {}
    try:
        for m in re.finditer(r"^def (\w+) : List UInt8 := \[([0-9, ]*)\]", open(out_path).read(), re.M):
            prev[m.group(1)] = [int(x) for x in m.group(2).split(",") if x.strip()]
    except OSError:
        pass
    ct, ar = "src/composed/cleartext.rs", "src/armor/reader.rs"
    specs = [
        ("csfHeaderLineLit", ct, r'const HEADER_LINE: &str = "([^"]*)";', "cleartext.rs HEADER_LINE"),
        ("csfEscapeStartsWith", ct, r"fn dash_escape.*?line\.starts_with\('([^']*)'\)", "dash_escape: line.starts_with(c)"),
        ("csfEscapePrefix", ct, r'fn dash_escape.*?out \+= "([^"]*)";', "dash_escape: prefix pushed in front of the line"),
        ("csfUnescapePrefix", ct, r'content\.strip_prefix\("([^"]*)"\)', "dash_unescape_and_trim: strip_prefix"),
        ("csfTrimChars", ct, r"trim_end_matches\(\[((?:'[^']*'(?:, )?)+)\]\)", "dash_unescape_and_trim: trim_end_matches chars"),
        ("csfUnescapeCrLf", ct, r'let line_end_len = if line\.ends_with\("([^"]*)"\)', "dash_unescape_and_trim: CR LF line ending"),
        ("csfUnescapeLf", ct, r"\} else if line\.ends_with\('([^']*)'\)", "dash_unescape_and_trim: LF line ending"),
        ("csfSplitChar", ct, r"fn dash_escape.*?split_inclusive\('([^']*)'\)", "dash_escape: split_inclusive(c)"),
        ("csfSplitCharUnescape", ct, r"fn dash_unescape_and_trim.*?split_inclusive\('([^']*)'\)", "dash_unescape_and_trim: split_inclusive(c)"),
        ("csfEmptyBodyPrefix", ct, r'if out\.starts_with\("([^"]*)"\)', "read_cleartext_body: empty body test"),
        ("csfBodyEndPat", ct, r'out\.rfind\("([^"]*)"\)', "read_cleartext_body: rfind pattern"),
        ("csfBodyStripCrLf", ct, r'// remove trailing line break\s*if out\.ends_with\("([^"]*)"\)', "read_cleartext_body: CR LF test"),
        ("csfWriterHashTag", ct, r'writer\.write_all\(b"(Hash: )"\)', "to_armored_writer: Hash header tag"),
        ("csfWriterLineEnd", ct, r'// Cleartext body\s*writer\.write_all\(self\.csf_encoded_text\.as_bytes\(\)\)\?;.*?\} else \{\s*writer\.write_all\(b"([^"]*)"\)',
         "to_armored_writer: separator written after the text"),
        ("csfReaderHashTag", ar, r'fn hash_header_line.*?tag\("([^"]*)"\)', "hash_header_line: tag"),
        ("csfReaderValueSep", ar, r'fn hash_header_line.*?terminated\(alphanumeric1_or_dash, tag\("([^"]*)"\)\)', "hash_header_line: value separator"),
        ("armorHeaderSep", ar, r'fn armor_header_sep.*?tag\(&b"([^"]*)"\[\.\.\]\)', "armor_header_sep"),
        ("armorBeginTag", ar, r'pair\(armor_header_sep, tag\(&b"([^"]*)"\[\.\.\]\)\)', "armor_header_line: BEGIN tag"),
        ("armorCleartextType", ar, r'value\(BlockType::CleartextMessage, tag\("([^"]*)"\)\)', "armor_header_type: cleartext type"),
    ]
    lines, missing = [], []
    for name, path, rx, doc in specs:
        text = read(path)
        val = None
        if text is not None:
            m = re.search(rx, text, re.S)
            if m:
                raw = m.group(1)
                if name == "csfTrimChars":
                    raw = "".join(re.findall(r"'([^']*)'", raw))
                val = list(unesc(raw).encode("utf-8"))
        if val is None:
            missing.append(name)
            val = prev.get(name)
        if val is not None:
            lines.append("/-- %s -/" % doc)
            lines.append("def %s : List UInt8 := [%s]" % (name, ", ".join(str(b) for b in val)))
    head = "/-! csf literals not re-extracted (previous value kept): %s -/\n" % (", ".join(missing) or "none")
    derived(head + "\n".join(lines))


_csf_literals()

# ---- read_cleartext_body: search for the signature block in the last line only (D19c) ------------
flag("fixD19cCleartextSearchLastLineOnly", "src/composed/cleartext.rs",
     r"fn read_cleartext_body<B: BufRead>\(b: &mut B\).*?let search_from = out\.len\(\)\.saturating_sub\(1\);\s*let read = b\.read_line\(&mut out\)\?;.*?\.get\(search_from\.\.\)\s*\.and_then\(\|tail\| tail\.rfind\(\"\\n-----\"\)\)\s*\.map\(\|pos\| pos \+ search_from\);",
     "D19c repaired: read_cleartext_body searches for the line that starts the signature block from the line break in front of the line just read, not over the whole text read so far")
