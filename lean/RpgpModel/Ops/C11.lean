import RpgpModel.Proto
import RpgpModel.Framing
import RpgpModel.SigDigest
/-!
# Driver ops for C11 — `sigpre`: the octets a signing / verifying routine feeds its hasher

Request: `sigpre path=<routine> v=<3|4|6> typ= pk= h= area=<bx> salt=<bx> created= sv=<signer key
version> [data=<bx>,<bx>,…] [k1=<ver>:<write_len>:<bx>] [k2=…] [tag=] [id=<write_len>:<bx>]`

`<bx>` is a byte expression: `-` (empty) or `+`-separated parts, each lowercase hex or
`p<seed>.<len>` (the shared test pattern `Rpgp.pattern`).

Answer: `ok:<repr>` with `<repr>` the full hex for up to 160 octets and
`ck<len>.<s1>.<s2>:<first 32 octets>:<last 16 octets>` above, or `none` when the routine refuses
before the public-key primitive is called.
-/
namespace Rpgp.Ops.C11
open Rpgp Rpgp.SigDigest

def parsePart (s : String) : Option Bytes :=
  if s.startsWith "p" then
    match (s.drop 1).toString.splitOn "." with
    | [a, b] => do pure (pattern (← a.toNat?) (← b.toNat?))
    | _ => none
  else fromHex s

def parseBx (s : String) : Option Bytes :=
  if s = "-" then some [] else do
    let parts ← (s.splitOn "+").mapM parsePart
    pure parts.flatten

def Args.bx (a : Args) (k : String) : Option Bytes := a.get? k >>= parseBx

def parseBxList (s : String) : Option (List Bytes) :=
  if s = "-" then some [] else (s.splitOn ",").mapM parseBx

def parseSer (s : String) : Option Ser :=
  match s.splitOn ":" with
  | [wl, b] => do pure { writeLen := ← wl.toNat?, bytes := ← parseBx b }
  | _ => none

def parseKey (s : String) : Option Key :=
  match s.splitOn ":" with
  | [v, wl, b] => do pure { ver := ← v.toNat?, ser := { writeLen := ← wl.toNat?, bytes := ← parseBx b } }
  | _ => none

def repr (p : Bytes) : String :=
  if p.length ≤ 160 then toHex p
  else
    let (n, x, y) := cksum p
    s!"ck{n}.{x}.{y}:{toHex (p.take 32)}:{toHex (p.drop (p.length - 16))}"

def showAns : Option Bytes → String
  | none => "none"
  | some p => "ok:" ++ repr p

def handleSigpre (a : Args) : Option String := do
  let path ← a.get? "path"
  let v ← a.nat "v"
  let ver ← (match v with | 2 => some Ver.v3 | 3 => some Ver.v3 | 4 => some Ver.v4 | 6 => some Ver.v6 | _ => none)
  let c : Cfg := {
    ver := ver
    typ := (← a.nat "typ").toUInt8
    pk := (← a.nat "pk").toUInt8
    hash := (← a.nat "h").toUInt8
    area := ← Args.bx a "area"
    created := ← a.nat "created"
    salt := ← Args.bx a "salt" }
  let sv ← a.nat "sv"
  let chunks : Option (List Bytes) := a.get? "data" >>= parseBxList
  let k1 : Option Key := a.get? "k1" >>= parseKey
  let k2 : Option Key := a.get? "k2" >>= parseKey
  let id : Option Ser := a.get? "id" >>= parseSer
  let tag := (a.nat "tag").getD 0
  match path with
  | "signData" => do pure (showAns (signData c sv (← chunks)))
  | "signCert" => do pure (showAns (signCertification c sv (← k1) tag (← id)))
  | "signSub" => do pure (showAns (signSubkeyBinding c sv (← k1) (← k2)))
  | "signPrim" => do pure (showAns (signPrimaryKeyBinding c sv (← k1) (← k2)))
  | "signKey" => do pure (showAns (signKey c sv (← k1)))
  | "verData" => do pure (showAns (verifyData c sv (← chunks).flatten))
  | "verCert" => do pure (showAns (verifyCertification c sv (← k1) tag (← id)))
  | "verSub" => do pure (showAns (verifySubkeyBinding c (← k1) (← k2)))
  | "verPrim" => do pure (showAns (verifyPrimaryKeyBinding c (← k2) (← k1)))
  | "verKey" => do pure (showAns (verifyKey c sv (← k1)))
  | "verInline" => do pure (showAns (verifyInline c sv (← chunks)))
  | _ => none

def handle (op : String) (a : Args) : Option String :=
  match op with
  | "sigpre" => handleSigpre a
  | _ => none

end Rpgp.Ops.C11
