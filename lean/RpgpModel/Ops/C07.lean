import RpgpModel.Proto
import RpgpModel.KeyGen
namespace Rpgp.Ops.C07
open Rpgp Rpgp.KeyGen

def okOrErr (r : Option Bytes) : String :=
  match r with
  | some b => okBytes b
  | none => "err"

def valRest (r : Option (Bytes × Bytes)) : String :=
  match r with
  | some (v, rest) => s!"ok:{hexOrDash v}:{rest.length}"
  | none => "err"

/-! ## shape requests -/

def parseKt (s : String) : Option KeyType :=
  match s.splitOn ":" with
  | [k, p] => do
    let k ← k.toNat?
    let p ← p.toNat?
    match k with
    | 0 => some (.rsa p)
    | 1 => (Curve.ofIdx p).map .ecdh
    | 2 => some .ed25519Legacy
    | 3 => (Curve.ofIdx p).map .ecdsa
    | 4 => some (.dsa p)
    | 5 => some .ed25519
    | 6 => some .ed448
    | 7 => some .x25519
    | 8 => some .x448
    | _ => none
  | _ => none

def parseCaps (n : Nat) : EncCaps :=
  match n with
  | 0 => .none | 1 => .communication | 2 => .storage | _ => .all

def parseSub (s : String) : Option SubParams :=
  match s.splitOn ";" with
  | [kt, ver, sign, enc, auth] => do
    pure { keyType := ← parseKt kt, version := ← ver.toNat?, canSign := (← sign.toNat?) == 1,
           canEncrypt := parseCaps (← enc.toNat?), canAuth := (← auth.toNat?) == 1 }
  | _ => none

def parseSubs (s : String) : Option (List SubParams) :=
  if s = "-" then some [] else (s.splitOn ",").mapM parseSub

structure Req where
  ver : Nat
  setVer : Bool
  kt : KeyType
  sign : Bool
  cert : Bool
  enc : EncCaps
  auth : Bool
  puid : Bool
  nuid : Nat
  subs : List SubParams

def parseReq (a : Args) : Option Req := do
  pure { ver := ← a.nat "ver", setVer := (← a.nat "setver") == 1, kt := ← a.get? "kt" >>= parseKt,
         sign := (← a.nat "sign") == 1, cert := (← a.nat "cert") == 1, enc := parseCaps (← a.nat "enc"),
         auth := (← a.nat "auth") == 1, puid := (← a.nat "puid") == 1, nuid := ← a.nat "nuid",
         subs := ← a.get? "subs" >>= parseSubs }

def Req.builder (q : Req) : Builder :=
  { version := if q.setVer then some q.ver else none, keyType := some q.kt, canSign := some q.sign,
    canCertify := some q.cert, canEncrypt := some q.enc, canAuth := some q.auth,
    primaryUid := if q.puid then some [80] else none,
    uids := (List.range q.nuid).map (fun i => [85, i.toUInt8]), subkeys := q.subs }

def buildErrName : BuildErr → String
  | .v6PrimaryNonV6Sub => "v6_primary_nonv6_sub" | .nonV6PrimaryV6Sub => "nonv6_primary_v6_sub"
  | .cannotSign => "cannot_sign" | .cannotEncrypt => "cannot_encrypt" | .cannotAuth => "cannot_auth"
  | .rsaSmall => "rsa_small" | .ecdsaCurve => "ecdsa_curve" | .v4NeedsUid => "v4_needs_uid"
  | .keyVersion => "key_version" | .subkeyVersion => "subkey_version"

def genErrName : GenErr → String
  | .legacyAlgVersion => "legacy_alg_version" | .v3Alg => "v3_alg" | .ecdhCurve => "ecdh_curve"
  | .ecdsaCurve => "ecdsa_curve" | .sigVersion => "sig_version" | .notSigningAlg => "not_signing_alg" | .panicKeyVersion => "panic"

def natsDot (l : List Nat) : String := ".".intercalate (l.map toString)

def renderSub {E : Type} (emb : E → String) : Subpkt E → String
  | .created _ => toString Gen.spCreationTime
  | .issuerFpr _ => toString Gen.spIssuerFingerprint
  | .keyFlags f => s!"{Gen.spKeyFlags}={f.bits}"
  | .features a b => s!"{Gen.spFeatures}={if a then 1 else 0}{if b then 1 else 0}"
  | .prefSym l => s!"{Gen.spPrefSym}={natsDot l}"
  | .prefHash l => s!"{Gen.spPrefHash}={natsDot l}"
  | .prefComp l => s!"{Gen.spPrefComp}={natsDot l}"
  | .prefAead l => s!"{Gen.spPrefAead}={natsDot (l.flatMap fun p => [p.1, p.2])}"
  | .isPrimary b => s!"{Gen.spPrimaryUserId}={if b then 1 else 0}"
  | .issuerKeyId _ => toString Gen.spIssuerKeyId
  | .embedded e => s!"{Gen.spEmbeddedSignature}({emb e})"

def renderSigG {E σ : Type} (emb : E → String) (s : SigG E σ) : String :=
  s!"S{s.version}.{s.typ}.{s.pubAlg}.{s.hashAlg}[{",".intercalate (s.hashed.map (renderSub emb))}]" ++
  "{" ++ ",".intercalate (s.unhashed.map (renderSub emb)) ++ "}"

def renderBack {σ : Type} (b : BackSig σ) : String := renderSigG (fun e => nomatch e) b
def renderSig {σ : Type} (s : Sig σ) : String := renderSigG renderBack s

def renderCert {M σ : Type} (c : Cert M σ) : String :=
  let toks : List String :=
    [s!"K{c.primary.version}.{c.primary.keyType.toAlg}"] ++ c.revocations.map renderSig ++ c.direct.map renderSig ++
    c.users.flatMap (fun u => "U" :: u.sigs.map renderSig) ++
    c.subkeys.flatMap (fun s => s!"B{s.key.version}.{s.key.keyType.toAlg}" :: s.sigs.map renderSig)
  " ".intercalate toks |>.replace " " "_"

def parseAead : List Nat → List (Nat × Nat)
  | a :: b :: r => (a, b) :: parseAead r
  | _ => []

def handleShape (a : Args) : Option String := do
  let q ← parseReq a
  match validate q.builder with
  | .error e => pure ("err:" ++ buildErrName e)
  | .ok () =>
    let prefs : Prefs :=
      { sym := ← a.natList "sym", hash := ← a.natList "hash", comp := ← a.natList "comp",
        aead := parseAead (← a.natList "aead"), seipdV1 := (← a.nat "f1") == 1, seipdV2 := (← a.nat "f2") == 1 }
    let p : GenParams := q.builder.toParams q.kt prefs 0 0
    let r : GenRand Nat := { primarySec := 1, subSecs := (List.range q.subs.length).map (· + 2), salt := fun _ => [], now := 0 }
    match generate toyPrims p r with
    | .error .panicKeyVersion => pure "panic"
    | .error e => pure ("err:" ++ genErrName e)
    | .ok c =>
      -- the shape must also pass the model's own verification (sanity of the instance)
      if verifyBindingsPublic (checksOf toyPrims) c && verifyBindingsSecret (checksOf toyPrims) c then
        pure ("ok:" ++ renderCert c)
      else pure "err:model_self_check"

/-! ## composition of `verify_bindings` over recorded per-signature verdicts -/

/-- one subkey binding as seen by the harness: verdict of `verify_subkey_binding`, key flags say
"sign", embedded signature present, verdict of `verify_primary_key_binding` on it -/
structure SigV where
  ok : Bool
  flagsSign : Bool
  emb : Option Bool
  bindType : Bool := true

def vChecks : SigChecks Unit Unit SigV Bool where
  vCert := fun _ _ s => s.ok
  vKey := fun _ s => s.ok
  vSub := fun _ _ s => s.ok
  vBack := fun _ _ b => b
  flagsSign := fun s => s.flagsSign
  embedded := fun s => s.emb

def bit (c : Char) : Bool := c == '1'

def parseVerdicts (s : String) : List SigV :=
  if s = "-" then [] else s.toList.map (fun c => { ok := bit c, flagsSign := false, emb := none })

def parseSubSig (s : String) : Option SigV :=
  match s.toList with
  | [a, b, c, d, e] => some { ok := bit a, flagsSign := bit b, emb := if bit c then some (bit d) else none, bindType := bit e }
  | _ => none

def parseSubV (s : String) : Option (List SigV) :=
  if s = "_" then some [] else (s.splitOn ",").mapM parseSubSig

def parseBar {α : Type} (f : String → Option α) (s : String) : Option (List α) :=
  if s = "-" then some [] else (s.splitOn "|").mapM f

/-- 0 = secret form, 1 = public form with the same components, 2 = `to_public_key()` first -/
def handleVb (mode : Nat) (a : Args) : Option String := do
  let users ← a.get? "users" >>= parseBar (fun s => some (parseVerdicts (if s = "_" then "-" else s)))
  let direct := parseVerdicts (← a.get? "direct")
  let revs := parseVerdicts (← a.get? "revs")
  let subs ← a.get? "subs" >>= parseBar parseSubV
  let det := verifyDetails vChecks () (users.map (fun u => ((), u))) revs direct
  let sb := match mode with
    | 0 => subs.all (fun s => verifySubSecret vChecks () () s)
    | 1 => subs.all (fun s => verifySubPublic vChecks () () s)
    | _ => (subs.filterMap (publicSubSigs (·.bindType))).all (fun s => verifySubPublic vChecks () () s)
  pure (okBool (det && sb))

def handle (op : String) (a : Args) : Option String :=
  match op with
  | "mpi_enc" => do pure (okBytes (mpiWrite (mpiFromSlice (← a.bytes "raw"))))
  | "mpi_read" => do pure (valRest (mpiRead (← a.bytes "data")))
  | "mpi_dec" => do
    let how ← a.get? "how"
    let n ← a.nat "n"
    let d ← a.bytes "data"
    match how with
    | "mpi" => pure (valRest (mpiRead d))
    | "pad" => pure (valRest ((mpiRead d).bind fun vr => (padKey n vr.1).map fun k => (k, vr.2)))
    | "ec" => pure (valRest ((mpiRead d).bind fun vr => (padKey n vr.1).map fun k => (k, vr.2)))
    | "c25519" => pure (valRest (c25519SecretRead d))
    | "eddsapt" => pure (valRest (eddsaLegacyPointRead d))
    | "ecdhpt" => pure (valRest (ecdh25519PointRead d))
    | _ => none
  | "pad_key" => do pure (okOrErr (padKey (← a.nat "n") (← a.bytes "val")))
  | "eddsa_sig" => do pure (okOrErr (eddsaSigBytes (← a.bytes "r") (← a.bytes "s")))
  | "eddsa_len" => do
    match eddsaSigBytes (← a.bytes "r") (← a.bytes "s") with
    | some _ => pure "ok"
    | none => pure "err"
  | "c25519_enc" => do pure (okBytes (c25519SecretMpi (← a.bytes "raw")))
  | "native_point" => do pure (okBytes (nativePointMpi (← a.nat "pfx") (← a.bytes "p")))
  | "validate" => do
    let q ← parseReq a
    match validate q.builder with
    | .ok () => pure "ok"
    | .error e => pure ("err:" ++ buildErrName e)
  | "gen_shape" => handleShape a
  | "vb_pub" => handleVb 1 a
  | "vb_sec" => handleVb 0 a
  | "vb_topub" => handleVb 2 a
  | _ => none

end Rpgp.Ops.C07
