# ---- armor/writer.rs ---------------------------------------------------------------------
AW = "src/armor/writer.rs"
item("armorLineWidth", AW, r"LineWriter::<_, U(\d+)>::new\(writer\.by_ref\(\), LineBreak::Lf\)", "armor/writer.rs write_body: body line width (typenum U<n>)")
item("wrCrcShiftHi", AW, r"\(crc >> (\d+)\) as u8,\s*\(crc >> \d+\) as u8,\s*crc as u8", "write_footer: shift of the first CRC octet")
item("wrCrcShiftMid", AW, r"\(crc >> \d+\) as u8,\s*\(crc >> (\d+)\) as u8,\s*crc as u8", "write_footer: shift of the second CRC octet")
# ---- base64/decoder.rs -------------------------------------------------------------------
BD = "src/base64/decoder.rs"
item("b64DecBufSize", BD, r"const BUF_SIZE: usize = (\d+);", "base64/decoder.rs BUF_SIZE (capacity of the token buffer)")
item("b64DecCapDiv", BD, r"const BUF_CAPACITY: usize = BUF_SIZE / (\d+) \* \d+;", "base64/decoder.rs BUF_CAPACITY divisor")
item("b64DecCapMul", BD, r"const BUF_CAPACITY: usize = BUF_SIZE / \d+ \* (\d+);", "base64/decoder.rs BUF_CAPACITY multiplier")
item("b64DecRefillBelow", BD, r"if self\.inner\.buf_len\(\) < (\d+) \{", "Base64Decoder::read: refill when fewer tokens than this are buffered")
item("b64DecQuantumIn", BD, r"let nr = self\.inner\.buf_len\(\) / (\d+) \* \d+;", "Base64Decoder::read: input quantum")
item("b64DecQuantumOut", BD, r"let nw = self\.inner\.buf_len\(\) / \d+ \* (\d+);", "Base64Decoder::read: output quantum")
item("b64DecBackoff", BD, r"\} else \{\s*n -= (\d+)\s*\}", "try_decode_engine_slice: back-off step")
# ---- base64/reader.rs --------------------------------------------------------------------
BR = "src/base64/reader.rs"
item("tokUpperLo", BR, r"fn is_base64_token.*?\(\((0x[0-9A-Fa-f]+)\.\.=0x[0-9A-Fa-f]+\)\.contains", "is_base64_token: 'A'")
item("tokUpperHi", BR, r"fn is_base64_token.*?\(\(0x[0-9A-Fa-f]+\.\.=(0x[0-9A-Fa-f]+)\)\.contains", "is_base64_token: 'Z'")
item("tokLowerLo", BR, r"fn is_base64_token.*?\|\| \((0x[0-9A-Fa-f]+)\.\.=0x[0-9A-Fa-f]+\)\.contains\(&c\)\)", "is_base64_token: 'a'")
item("tokLowerHi", BR, r"fn is_base64_token.*?\|\| \(0x[0-9A-Fa-f]+\.\.=(0x[0-9A-Fa-f]+)\)\.contains\(&c\)\)", "is_base64_token: 'z'")
item("tokDigitLo", BR, r"\|\| \((0x[0-9A-Fa-f]+)\.\.=0x[0-9A-Fa-f]+\)\.contains\(&c\) //  digit", "is_base64_token: '0'")
item("tokDigitHi", BR, r"\|\| \(0x[0-9A-Fa-f]+\.\.=(0x[0-9A-Fa-f]+)\)\.contains\(&c\) //  digit", "is_base64_token: '9'")
# ---- armor/reader.rs ---------------------------------------------------------------------
AR = "src/armor/reader.rs"
item("footerCrcChars", AR, r"map\(take\((\d+)u8\), Some\)", "footer_parser: number of checksum characters after '='")
item("footerMinFill", AR, r"while b\.buf_len\(\) < (\d+) \{", "Dearmor::read Part::Footer: fill the buffer to at least this many bytes")
item("dearmorDefaultLimit", AR, r"limit: (1024 \* 1024 \* 1024),", "DearmorOptions::default limit")
item("pinnedUnupdatedCrc", AR, r"calculated_crc: (0x[0-9a-fA-F]+),", "test_dearmor_bad_crc24: calculated_crc pinned by the repo's own test (D10)")
item("readChecksumBufLen", AR, r"fn read_checksum.*?let mut buf = \[0; (\d+)\];", "read_checksum: scratch buffer length")
# ---- header lines: separator literals on both sides, shape of key_value_pair (repair of D10c) ----
def _ch(k):
    return lambda s: ord(s[k])
item("wrKvSep0", AW, r"writer\.write_all\(key\.as_bytes\(\)\)\?;\s*writer\.write_all\(&b\"(..)\"\[\.\.\]\)\?;", "write_header: first octet written between key and value", raw=_ch(0))
item("wrKvSep1", AW, r"writer\.write_all\(key\.as_bytes\(\)\)\?;\s*writer\.write_all\(&b\"(..)\"\[\.\.\]\)\?;", "write_header: second octet written between key and value", raw=_ch(1))
item("wrKvLineEnd", AW, r"writer\.write_all\(value\.as_bytes\(\)\)\?;\s*writer\.write_all\(&b\"\\(n)\"\[\.\.\]\)\?;", "write_header: header lines end in LF", raw=lambda s: {"n": 10, "r": 13}[s])
item("rdKvSep0", AR, r"fn key_value_pair.*?line\.split_once\(\"(..)\"\)", "key_value_pair: first octet of the key/value separator", raw=_ch(0))
item("rdKvSep1", AR, r"fn key_value_pair.*?line\.split_once\(\"(..)\"\)", "key_value_pair: second octet of the key/value separator", raw=_ch(1))
item("rdKvEmptySuffix", AR, r"fn key_value_pair.*?line\.strip_suffix\('(.)'\)", "key_value_pair: suffix that marks an empty value", raw=_ch(0))
flag("kvLineBased", AR, r"fn key_value_pair\(i: &\[u8\]\) -> IResult<&\[u8\], \(&str, &str\)> \{\s*let \(rest, line\) = map_res\(not_line_ending, str::from_utf8\)\.parse\(i\)\?;\s*let \(rest, _\) = line_ending\(rest\)\?;",
     "key_value_pair takes exactly one line (repair of D10c, commit 737e504)")
flag("kvWholeInputSearch", AR, r"complete\(take_until1\(", "key_value_pair no longer searches the whole remaining input (pre-737e504 shape)")
flag("kvPairsComplete", AR, r"fn key_value_pairs.*?many0\(complete\(key_value_pair\)\)\.parse\(i\)", "key_value_pairs: many0(complete(key_value_pair)) (D10b)")
