import RpgpProofs.SignVerify
/-! Helper lemmas for C06, cleartext signature framework part: `dash_escape`,
`dash_unescape_and_trim`, `read_cleartext_body` of `RpgpModel/SignVerify.lean`. -/
namespace Rpgp.SV
open Rpgp

/-! ## lines -/

theorem splitIncl_flatten (t : Bytes) : (splitIncl t).flatten = t := by
  induction t with
  | nil => rfl
  | cons b r ih =>
    rw [splitIncl]
    by_cases hb : b = LF
    · simp [hb, ih]
    · simp only [hb, if_false]
      cases hs : splitIncl r with
      | nil => rw [hs] at ih; simp at ih; simp [ih]
      | cons l ls => rw [hs] at ih; simp at ih; simp [ih]

/-- a line in the sense of `split_inclusive('\n')`: non-empty, LF at most as the last byte -/
def IsLine : Bytes → Bool
  | [] => false
  | [_] => true
  | b :: c :: r => b != LF && IsLine (c :: r)

/-- a line that is not the last one ends in LF -/
def endsLF : Bytes → Bool
  | [] => false
  | [b] => b == LF
  | _ :: c :: r => endsLF (c :: r)

/-- list of lines as `split_inclusive` produces them: every element a line, all but the last
terminated by LF -/
def IsLines : List Bytes → Bool
  | [] => true
  | [l] => IsLine l
  | l :: m :: ls => IsLine l && endsLF l && IsLines (m :: ls)

theorem isLines_splitIncl (t : Bytes) : IsLines (splitIncl t) = true := by
  induction t with
  | nil => rfl
  | cons b r ih =>
    rw [splitIncl]
    by_cases hb : b = LF
    · subst hb
      simp only [if_true]
      cases hs : splitIncl r with
      | nil => rfl
      | cons l ls => rw [hs] at ih; simp [IsLines, IsLine, endsLF, ih]
    · simp only [hb, if_false]
      cases hs : splitIncl r with
      | nil => rfl
      | cons l ls =>
        rw [hs] at ih
        have hbn : (b != LF) = true := by simpa using hb
        cases ls with
        | nil =>
          simp only [IsLines] at ih ⊢
          cases l with
          | nil => simp [IsLine] at ih
          | cons c l' => simp [IsLine, hbn, ih]
        | cons m ls' =>
          simp only [IsLines, Bool.and_eq_true] at ih ⊢
          obtain ⟨⟨h1, h2⟩, h3⟩ := ih
          cases l with
          | nil => simp [IsLine] at h1
          | cons c l' => simp [IsLine, endsLF, hbn, h1, h2, h3]

/-- splitting the concatenation of a list of lines gives the list back -/
theorem splitIncl_of_isLines (ls : List Bytes) (h : IsLines ls = true) : splitIncl ls.flatten = ls := by
  induction ls with
  | nil => rfl
  | cons l ls ih =>
    -- inner induction on the line
    have key : ∀ (l : Bytes), IsLine l = true → (ls = [] ∨ endsLF l = true) → splitIncl ls.flatten = ls →
        splitIncl (l ++ ls.flatten) = l :: ls := by
      intro l
      induction l with
      | nil => intro h; simp [IsLine] at h
      | cons b r ihl =>
        intro hl he hrec
        cases r with
        | nil =>
          simp only [List.cons_append, List.nil_append]
          rw [splitIncl]
          by_cases hb : b = LF
          · simp [hb, hrec]
          · simp only [hb, if_false]
            have : ls = [] := by
              rcases he with he | he
              · exact he
              · simp [endsLF, hb] at he
            subst this
            simp [splitIncl]
        | cons c r' =>
          simp only [IsLine, Bool.and_eq_true, bne_iff_ne, ne_eq] at hl
          have hrec' := ihl hl.2 (by
            rcases he with he | he
            · exact Or.inl he
            · exact Or.inr (by simpa [endsLF] using he)) hrec
          rw [List.cons_append, splitIncl]
          simp only [hl.1, if_false]
          rw [hrec']
    cases ls with
    | nil =>
      simp only [IsLines] at h
      simpa using key l h (Or.inl rfl) rfl
    | cons m ls' =>
      simp only [IsLines, Bool.and_eq_true] at h
      exact key l h.1.1 (Or.inr h.1.2) (ih h.2)

/-! ## `dash_escape` keeps the line structure; `dash_unescape_and_trim` undoes it and trims -/

theorem isLine_escapeLine (l : Bytes) (h : IsLine l = true) : IsLine (escapeLine l) = true := by
  cases l with
  | nil => simp [IsLine] at h
  | cons b r =>
    unfold escapeLine
    by_cases hb : b = DASH
    · subst hb
      have h1 : (DASH != LF) = true := by decide
      have h2 : (SP != LF) = true := by decide
      simp only [if_true]
      simp [IsLine, h1, h2, h]
    · simp [hb, h]

theorem endsLF_cons_cons (a b : Byte) (r : Bytes) : endsLF (a :: b :: r) = endsLF (b :: r) := rfl

theorem endsLF_escapeLine (l : Bytes) : endsLF (escapeLine l) = endsLF l := by
  cases l with
  | nil => rfl
  | cons b r =>
    unfold escapeLine
    by_cases hb : b = DASH
    · simp [hb, endsLF_cons_cons]
    · simp [hb]

theorem isLines_map_escapeLine (ls : List Bytes) (h : IsLines ls = true) :
    IsLines (ls.map escapeLine) = true := by
  induction ls with
  | nil => rfl
  | cons l ls ih =>
    cases ls with
    | nil => simpa [IsLines] using isLine_escapeLine l (by simpa [IsLines] using h)
    | cons m ls' =>
      simp only [IsLines, Bool.and_eq_true, List.map_cons] at h ⊢
      refine ⟨⟨isLine_escapeLine l h.1.1, by rw [endsLF_escapeLine]; exact h.1.2⟩, ?_⟩
      simpa using ih h.2

/-- the lines of the escaped text are the escaped lines of the text -/
theorem splitIncl_dashEscape (t : Bytes) : splitIncl (dashEscape t) = (splitIncl t).map escapeLine :=
  splitIncl_of_isLines _ (isLines_map_escapeLine _ (isLines_splitIncl t))

/-- `splitEnd` only splits -/
theorem splitEnd_append (l : Bytes) : (splitEnd l).1 ++ (splitEnd l).2 = l := by
  induction l with
  | nil => rfl
  | cons a r ih =>
    cases r with
    | nil =>
      unfold splitEnd
      by_cases ha : a = LF <;> simp [ha]
    | cons b r' =>
      rw [splitEnd]
      by_cases hc : r' = [] ∧ a = CR ∧ b = LF
      · obtain ⟨h1, h2, h3⟩ := hc
        subst h1; subst h2; subst h3
        simp
      · simp only [hc, if_false]
        simpa using ih

theorem splitEnd_cons_of_ne_CR (a : Byte) (l : Bytes) (hl : l ≠ []) (ha : a ≠ CR) :
    splitEnd (a :: l) = (a :: (splitEnd l).1, (splitEnd l).2) := by
  cases l with
  | nil => exact absurd rfl hl
  | cons b r =>
    rw [splitEnd]
    have : ¬ (r = [] ∧ a = CR ∧ b = LF) := fun h => ha h.2.1
    simp only [this, if_false]

/-- trimming one line: blanks before the line ending are dropped -/
def trimLine (l : Bytes) : Bytes := trimEndBlank (splitEnd l).1 ++ (splitEnd l).2

/-- RFC 9580 §7.2 as the verifier implements it: every line without its trailing blanks -/
def trimLines (t : Bytes) : Bytes := ((splitIncl t).map trimLine).flatten

theorem unescapeTrimLine_eq (l : Bytes) :
    unescapeTrimLine l = trimEndBlank (stripDashSpace (splitEnd l).1) ++ (splitEnd l).2 := by
  unfold unescapeTrimLine
  rfl

theorem stripDashSpace_of_head_ne (c : Bytes) (h : ∀ r, c ≠ DASH :: r) : stripDashSpace c = c := by
  unfold stripDashSpace
  split
  · rename_i a b r
    by_cases ha : a = DASH
    · exact absurd (by rw [ha]) (h (b :: r))
    · simp [ha]
  · rfl

/-- undoing the escape of one line and trimming it = trimming the line -/
theorem unescapeTrimLine_escapeLine (l : Bytes) : unescapeTrimLine (escapeLine l) = trimLine l := by
  cases l with
  | nil => rfl
  | cons b r =>
    unfold escapeLine
    by_cases hb : b = DASH
    · subst hb
      simp only [if_true]
      rw [unescapeTrimLine_eq,
        splitEnd_cons_of_ne_CR DASH (SP :: DASH :: r) (by simp) (by decide),
        splitEnd_cons_of_ne_CR SP (DASH :: r) (by simp) (by decide)]
      simp [stripDashSpace, trimLine]
    · simp only [hb, if_false]
      rw [unescapeTrimLine_eq, stripDashSpace_of_head_ne, trimLine]
      intro r' hc
      have := splitEnd_append (b :: r)
      rw [hc] at this
      simp at this
      exact hb this.1.symm

/-- **what the verifier hashes for an escaped text**: unescape ∘ escape is per-line trimming -/
theorem dashUnescapeTrim_dashEscape (t : Bytes) : dashUnescapeTrim (dashEscape t) = trimLines t := by
  unfold dashUnescapeTrim trimLines
  rw [splitIncl_dashEscape, List.map_map]
  congr 1
  apply List.map_congr_left
  intro l _
  exact unescapeTrimLine_escapeLine l

/-- no line of the text carries blanks before its line ending (decidable) -/
def NoTrailingBlank (t : Bytes) : Prop :=
  ∀ l ∈ splitIncl t, trimEndBlank (splitEnd l).1 = (splitEnd l).1

instance (t : Bytes) : Decidable (NoTrailingBlank t) := by unfold NoTrailingBlank; exact inferInstance

theorem trimLines_of_noTrailingBlank (t : Bytes) (h : NoTrailingBlank t) : trimLines t = t := by
  unfold trimLines
  have : (splitIncl t).map trimLine = splitIncl t := by
    conv => rhs; rw [← List.map_id (splitIncl t)]
    apply List.map_congr_left
    intro l hl
    simp only [trimLine, h l hl, id]
    exact splitEnd_append l
  rw [this, splitIncl_flatten]

/-! ## the guard is exact: counting blanks -/

def isBlank (b : Byte) : Bool := b == SP || b == TAB

/-- number of SP / TAB bytes -/
def countBlank (x : Bytes) : Nat := x.countP isBlank

theorem countBlank_append (a b : Bytes) : countBlank (a ++ b) = countBlank a + countBlank b := by
  simp [countBlank, List.countP_append]

theorem countBlank_cons (b : Byte) (r : Bytes) :
    countBlank (b :: r) = (if isBlank b then 1 else 0) + countBlank r := by
  simp only [countBlank, List.countP_cons]
  omega

/-- canonicalisation neither adds nor removes blanks -/
theorem countBlank_canonGo (p : Bool) (x : Bytes) : countBlank (canonGo p x) = countBlank x := by
  induction x generalizing p with
  | nil => rfl
  | cons b r ih =>
    rw [canonGo]
    have hCR : isBlank CR = false := by decide
    have hLF : isBlank LF = false := by decide
    by_cases hb : b = LF
    · subst hb
      cases p <;> simp [countBlank_cons, hCR, hLF, ih]
    · simp only [hb, if_false]
      rw [countBlank_cons, countBlank_cons, ih]

theorem trimEndBlank_decomp (c : Bytes) :
    ∃ r, c = trimEndBlank c ++ r ∧ countBlank r = r.length := by
  induction c with
  | nil => exact ⟨[], rfl, rfl⟩
  | cons b c ih =>
    obtain ⟨r, h1, h2⟩ := ih
    rw [trimEndBlank]
    by_cases hc : trimEndBlank c = [] ∧ (b = SP ∨ b = TAB)
    · simp only [hc, and_self, if_true, List.nil_append]
      refine ⟨b :: c, rfl, ?_⟩
      have hcr : c = r := by rw [hc.1] at h1; simpa using h1
      have hb : isBlank b = true := by
        rcases hc.2 with h | h <;> subst h <;> decide
      rw [countBlank_cons, hb, hcr, h2]
      simp; omega
    · simp only [hc, if_false]
      exact ⟨r, by rw [List.cons_append, ← h1], h2⟩

theorem countBlank_trimEndBlank_le (c : Bytes) : countBlank (trimEndBlank c) ≤ countBlank c := by
  obtain ⟨r, h1, _⟩ := trimEndBlank_decomp c
  have := congrArg countBlank h1
  rw [countBlank_append] at this
  omega

theorem trimEndBlank_eq_of_count (c : Bytes) (h : countBlank (trimEndBlank c) = countBlank c) :
    trimEndBlank c = c := by
  obtain ⟨r, h1, h2⟩ := trimEndBlank_decomp c
  have := congrArg countBlank h1
  rw [countBlank_append, h2] at this
  have hr : r = [] := List.eq_nil_of_length_eq_zero (by omega)
  rw [hr] at h1
  simpa using h1.symm

theorem countBlank_trimLine_le (l : Bytes) : countBlank (trimLine l) ≤ countBlank l := by
  have h := congrArg countBlank (splitEnd_append l)
  rw [countBlank_append] at h
  rw [trimLine, countBlank_append]
  have := countBlank_trimEndBlank_le (splitEnd l).1
  omega

theorem trimLine_fixed_of_count (l : Bytes) (h : countBlank (trimLine l) = countBlank l) :
    trimEndBlank (splitEnd l).1 = (splitEnd l).1 := by
  have h' := congrArg countBlank (splitEnd_append l)
  rw [countBlank_append] at h'
  rw [trimLine, countBlank_append] at h
  exact trimEndBlank_eq_of_count _ (by omega)

theorem countBlank_flatten_map_le (ls : List Bytes) :
    countBlank ((ls.map trimLine).flatten) ≤ countBlank ls.flatten := by
  induction ls with
  | nil => simp
  | cons l ls ih =>
    simp only [List.map_cons, List.flatten_cons, countBlank_append]
    have := countBlank_trimLine_le l
    omega

theorem all_fixed_of_count (ls : List Bytes)
    (h : countBlank ((ls.map trimLine).flatten) = countBlank ls.flatten) :
    ∀ l ∈ ls, trimEndBlank (splitEnd l).1 = (splitEnd l).1 := by
  induction ls with
  | nil => intro l hl; simp at hl
  | cons l ls ih =>
    simp only [List.map_cons, List.flatten_cons, countBlank_append] at h
    have h1 := countBlank_trimLine_le l
    have h2 := countBlank_flatten_map_le ls
    intro x hx
    rcases List.mem_cons.mp hx with rfl | hx
    · exact trimLine_fixed_of_count _ (by omega)
    · exact ih (by omega) x hx

/-- the guard `NoTrailingBlank` is not only sufficient but necessary: trimming changes the
canonical form of every text that has a blank before a line end -/
theorem noTrailingBlank_of_canon_trimLines (t : Bytes) (h : canon (trimLines t) = canon t) :
    NoTrailingBlank t := by
  have hc := congrArg countBlank h
  unfold canon at hc
  rw [countBlank_canonGo, countBlank_canonGo] at hc
  unfold trimLines at hc
  apply all_fixed_of_count (splitIncl t)
  rw [hc, splitIncl_flatten]

/-! ## cleartext sign / verify inputs -/

theorem dataHashed_canon (text : Bool) (d : Bytes) : dataHashed text (canon d) = canon d := by
  cases text
  · rfl
  · exact canon_idem d

theorem signedText_eq (csf : Bytes) : signedText csf = canon (dashUnescapeTrim csf) := by
  unfold signedText
  rw [replaceNewlines_crlf]; rfl

/-- `CleartextSignedMessage::{new, sign}` hash the canonical form of the **trimmed** text -/
theorem signCleartextNew_eq (W k : Nat) (hW : 0 < W) (hk : 0 < k) (kv : Nat) (c : SigCfg) (t : Bytes) :
    signCleartextNew W k kv c t =
      if signAligned kv c.ver && dataSigType c.typ then some (preimage c (canon (trimLines t))) else none := by
  unfold signCleartextNew signCleartextNewChunks
  rw [signConfig_eq, chunksOf_flatten k hk, normalizedRead_eq_canon W hW, dataHashed_canon,
    dashUnescapeTrim_dashEscape]

/-- `CleartextSignedMessage::new_many` (closure signing with `config.sign`) likewise -/
theorem signCleartextMany_eq (k : Nat) (hk : 0 < k) (kv : Nat) (c : SigCfg) (t : Bytes) :
    signCleartextMany k kv c t =
      if signAligned kv c.ver && dataSigType c.typ then some (preimage c (canon (trimLines t))) else none := by
  unfold signCleartextMany
  rw [signConfig_eq, chunksOf_flatten k hk, replaceNewlines_crlf, dashUnescapeTrim_dashEscape,
    show canonGo false (trimLines t) = canon (trimLines t) from rfl, dataHashed_canon]

/-- `CleartextSignedMessage::verify` hashes the canonical form of the unescaped, **trimmed** text -/
theorem verifyCleartext_eq (W : Nat) (hW : 0 < W) (kv : Nat) (c : SigCfg) (csf : Bytes) :
    verifyCleartext W kv c csf =
      if verifyAligned kv c.ver && dataSigType c.typ then some (preimage c (canon (dashUnescapeTrim csf)))
      else none := by
  unfold verifyCleartext
  rw [verifyDetached_eq W hW]
  · rw [signedText_eq]
    by_cases h : canon (dashUnescapeTrim csf) = []
    · simp only [h, if_true, List.flatten_nil]
      rw [← h, dataHashed_canon]
    · simp only [h, if_false, List.flatten_cons, List.flatten_nil, List.append_nil]
      rw [dataHashed_canon]
  · intro x hx
    by_cases h : signedText csf = []
    · simp [h] at hx
    · simp only [h, if_false, List.mem_singleton] at hx
      rw [hx]; exact h

end Rpgp.SV
