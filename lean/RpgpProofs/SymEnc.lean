import RpgpModel.SymEnc
import RpgpProofs.S2k
/-!
# Proofs about `RpgpModel/SymEnc.lean` (helper lemmas for `RpgpProps/C12.lean`)
-/
set_option linter.unusedSimpArgs false
namespace Rpgp.Sym
open Rpgp
open Seipd2

theorem beNat_append (a b : Bytes) : beNat (a ++ b) = beNat a * 256 ^ b.length + beNat b := by
  unfold beNat
  induction b generalizing a with
  | nil => simp
  | cons x r ih =>
    have : a ++ x :: r = (a ++ [x]) ++ r := by simp
    rw [this, ih (a ++ [x])]
    simp only [List.foldl_append, List.foldl_cons, List.foldl_nil, List.length_cons]
    have h2 := ih [x]
    simp only [List.singleton_append, List.foldl_cons, List.foldl_nil] at h2
    rw [h2]
    simp [Nat.pow_succ, Nat.add_mul, Nat.mul_assoc, Nat.mul_comm 256]
    omega

theorem beBytes_length (k n : Nat) : (beBytes k n).length = k := by
  induction k with
  | zero => rfl
  | succ j ih => simp [beBytes, ih]

theorem toUInt8_toNat_mod (n : Nat) : n.toUInt8.toNat = n % 256 := by
  simp [Nat.toUInt8]

theorem beNat_beBytes (k n : Nat) : beNat (beBytes k n) = n % 256 ^ k := by
  induction k with
  | zero => simp [beBytes, beNat, Nat.mod_one]
  | succ j ih =>
    have : beBytes (j + 1) n = [(n / 256 ^ j % 256).toUInt8] ++ beBytes j n := rfl
    rw [this, beNat_append, ih, beBytes_length]
    have h1 : beNat [(n / 256 ^ j % 256).toUInt8] = n / 256 ^ j % 256 := by
      simp [beNat, Nat.toUInt8]
    rw [h1, Nat.pow_succ, Nat.mod_mul, Nat.mul_comm]
    omega

theorem ranges_nil (csz off n : Nat) (h : csz = 0 ∨ n = 0) : ranges csz off n = [] := by
  rw [ranges]; simp [h]

theorem ranges_cons (csz off n : Nat) (h : ¬ (csz = 0 ∨ n = 0)) :
    ranges csz off n = (off, min csz n) :: ranges csz (off + min csz n) (n - min csz n) := by
  rw [ranges]; simp [h]

/-- number of chunks: ⌈n / csz⌉ -/
theorem ranges_length (csz : Nat) (hc : 0 < csz) (off n : Nat) :
    (ranges csz off n).length = (n + csz - 1) / csz := by
  fun_induction ranges csz off n with
  | case1 off n h =>
    have hn : n = 0 := by omega
    subst hn
    simp; symm; apply Nat.div_eq_of_lt; omega
  | case2 off n h ih =>
    simp only [List.length_cons, ih]
    rcases Nat.le_total csz n with hle | hle
    · rw [Nat.min_eq_left hle]
      have : n + csz - 1 = (n - csz + csz - 1) + csz := by omega
      rw [this, Nat.add_div_right _ hc]
    · rw [Nat.min_eq_right hle]
      have h1 : (n - n + csz - 1) / csz = 0 := by apply Nat.div_eq_of_lt; omega
      have h2 : (n + csz - 1) / csz = 1 := by
        have : n + csz - 1 = (n - 1) + csz := by omega
        rw [this, Nat.add_div_right _ hc, Nat.div_eq_of_lt (by omega)]
      rw [h1, h2]

/-- the `i`-th chunk is `[off + i·csz, off + i·csz + min csz (n − i·csz))` -/
theorem ranges_getElem? (csz : Nat) (off n i : Nat) (r : Nat × Nat)
    (h : (ranges csz off n)[i]? = some r) : r = (off + i * csz, min csz (n - i * csz)) ∧ i * csz < n := by
  fun_induction ranges csz off n generalizing i with
  | case1 off n hh => simp at h
  | case2 off n hh ih =>
    cases i with
    | zero =>
      simp at h
      subst h
      simp; omega
    | succ j =>
      simp only [List.getElem?_cons_succ] at h
      obtain ⟨h1, h2⟩ := ih j h
      rcases Nat.le_total csz n with hle | hle
      · rw [Nat.min_eq_left hle] at h1 h2
        constructor
        · rw [h1, Nat.succ_mul]
          congr 1
          · omega
          · congr 1; omega
        · rw [Nat.succ_mul]; omega
      · rw [Nat.min_eq_right hle] at h2
        omega

/-- the chunk ranges tile the plaintext: concatenating the slices gives it back -/
theorem ranges_flatten (csz : Nat) (hc : 0 < csz) (W : Bytes) (off n : Nat) (hn : off + n = W.length) :
    ((ranges csz off n).flatMap fun r => (W.drop r.1).take r.2) = W.drop off := by
  fun_induction ranges csz off n with
  | case1 off n h =>
    have : n = 0 := by omega
    subst this
    simp; omega
  | case2 off n h ih =>
    simp only [List.flatMap_cons]
    rw [ih (by omega)]
    rw [← List.drop_drop, List.take_append_drop]

/-- what the encryptor seals for range `r` with chunk index `j` -/
def sealRange (P : Prims) (sym aead : Nat) (key n0 inf W : Bytes) (rj : (Nat × Nat) × Nat) : Bytes :=
  P.aead sym aead key (nonceAt n0 rj.2) inf ((W.drop rj.1.1).take rj.1.2)


theorem chunks_eq_ranges (P : Prims) (sym aead : Nat) (key n0 inf : Bytes) (csz total : Nat) (W : Bytes) :
    ∀ (i : Nat) (pt : Bytes) (off : Nat), W.drop off = pt →
      chunks P sym aead key n0 inf csz total i pt =
        ((ranges csz off pt.length).zipIdx i).flatMap (sealRange P sym aead key n0 inf W) ++
          P.aead sym aead key (nonceAt n0 (i + (ranges csz off pt.length).length)) (inf ++ be64 total) [] := by
  intro i pt
  fun_induction chunks P sym aead key n0 inf csz total i pt with
  | case1 i pt h =>
    intro off _
    have : csz = 0 ∨ pt.length = 0 := by
      rcases h with h | h
      · exact Or.inl h
      · exact Or.inr (by simp [h])
    simp [ranges_nil csz off pt.length this]
  | case2 i pt h ih =>
    intro off hW
    have hne : ¬ (csz = 0 ∨ pt.length = 0) := by
      intro hh
      rcases hh with hh | hh
      · exact h (Or.inl hh)
      · exact h (Or.inr (List.eq_nil_of_length_eq_zero hh))
    rw [ranges_cons csz off pt.length hne]
    have hdrop : W.drop (off + min csz pt.length) = pt.drop csz := by
      rw [← List.drop_drop, hW]
      rcases Nat.le_total csz pt.length with hle | hle
      · rw [Nat.min_eq_left hle]
      · rw [Nat.min_eq_right hle, List.drop_of_length_le (Nat.le_refl _), List.drop_of_length_le hle]
    have hlen : (pt.drop csz).length = pt.length - min csz pt.length := by
      simp only [List.length_drop]; omega
    rw [ih (off + min csz pt.length) hdrop, hlen]
    simp only [List.zipIdx_cons, List.flatMap_cons, List.length_cons, sealRange, List.append_assoc]
    have htake : (W.drop off).take (min csz pt.length) = pt.take csz := by
      rw [hW]; exact (List.take_eq_take_min ..).symm
    rw [htake]
    congr 4
    omega


theorem be64_injective (i j : Nat) (hi : i < 18446744073709551616) (hj : j < 18446744073709551616)
    (h : be64 i = be64 j) : i = j := by
  have := congrArg beNat h
  simp only [be64, beNat_beBytes] at this
  have e : (256 : Nat) ^ 8 = 18446744073709551616 := by decide
  rw [e, Nat.mod_eq_of_lt hi, Nat.mod_eq_of_lt hj] at this
  exact this

theorem nonceAt_injective (n0 : Bytes) (i j : Nat) (hi : i < 18446744073709551616) (hj : j < 18446744073709551616)
    (h : nonceAt n0 i = nonceAt n0 j) : i = j := by
  unfold nonceAt at h
  exact be64_injective i j hi hj (List.append_cancel_left h)

theorem nonceAt_length (n0 : Bytes) (i : Nat) (h : 8 ≤ n0.length) : (nonceAt n0 i).length = n0.length := by
  have : Gen.aeadEncCounterLen = 8 := rfl
  simp [nonceAt, be64, beBytes_length, this]; omega

/-- `nonce[..l] ‖ be64 i` with the initial nonce `iv ‖ 0⁸` is `iv ‖ be64 i` -/
theorem nonceAt_split (iv : Bytes) (i : Nat) :
    nonceAt (iv ++ List.replicate Gen.seipd2NonceCounterLen 0) i = iv ++ be64 i := by
  have h1 : Gen.aeadEncCounterLen = 8 := rfl
  have h2 : Gen.seipd2NonceCounterLen = 8 := rfl
  simp [nonceAt, h1, h2]

theorem final_ad_length (sym aead cs total : Nat) : (info sym aead cs ++ be64 total).length = 13 := by
  simp [info, be64, beBytes_length]

theorem split_supported (sym aead : Nat) (okm : Bytes) (h42 : okm.length = 42)
    (hs : sym = 7 ∨ sym = 8 ∨ sym = 9) (ha : aead = 1 ∨ aead = 2 ∨ aead = 3) :
    (split sym aead okm).1.length = Gen.c12SymKeySize sym ∧
    (split sym aead okm).2.length = Gen.aeadNonceSize aead ∧
    (split sym aead okm).1 ++ (split sym aead okm).2.take (Gen.aeadNonceSize aead - 8) =
      okm.take (Gen.c12SymKeySize sym + Gen.aeadNonceSize aead - 8) := by
  rcases hs with rfl | rfl | rfl <;> rcases ha with rfl | rfl | rfl <;>
    simp [split, Gen.c12SymKeySize, Gen.aeadNonceSize, Gen.symIdAES128, Gen.symIdAES192, Gen.symIdAES256,
      Gen.symIdIDEA, Gen.symIdTripleDES, Gen.symIdCAST5, Gen.symIdBlowfish,
      Gen.symKeyAES128, Gen.symKeyAES192, Gen.symKeyAES256, Gen.aeadIdEax, Gen.aeadIdOcb, Gen.aeadIdGcm,
      Gen.aeadNonceEax, Gen.aeadNonceOcb, Gen.aeadNonceGcm, Gen.seipd2NonceCounterLen, h42] <;>
    rw [← List.take_add]
theorem patSlice_length (s o l : Nat) : (patSlice s o l).length = l := by simp [patSlice]

theorem patSlice_getElem? (s o l i : Nat) : (patSlice s o l)[i]? = if i < l then some (patByte s (o + i)) else none := by
  unfold patSlice
  by_cases h : i < l
  · simp [h]
  · simp [h]

theorem patSlice_slice (s l off len : Nat) :
    ((patSlice s 0 l).drop off).take len = patSlice s off (min len (l - off)) := by
  apply List.ext_getElem?
  intro i
  rw [List.getElem?_take, List.getElem?_drop, patSlice_getElem?, patSlice_getElem?]
  by_cases h1 : i < len <;> by_cases h2 : off + i < l <;> simp [h1, h2] <;> omega

theorem slice_eval (P : Prims) (pt : PtRef) (off len : Nat) :
    (pt.slice off len).eval P = (pt.val.drop off).take len := by
  cases pt with
  | bytes b => rfl
  | pat s l => simp only [PtRef.slice, PExpr.eval, PtRef.val, patSlice_slice]

theorem val_length (pt : PtRef) : pt.val.length = pt.length := by
  cases pt with
  | bytes b => rfl
  | pat s l => simp [PtRef.val, PtRef.length, patSlice_length]

/-- the SEIPDv2 plan (built from the plaintext *length* only) denotes the encryptor's output -/
theorem Seipd2.plan_eval (P : Prims) (sym aead cs : Nat) (salt key : Bytes) (pt : PtRef) :
    (Seipd2.plan sym aead cs salt key pt).eval P = Seipd2.encrypt P sym aead cs salt key pt.val := by
  unfold Seipd2.plan Seipd2.encrypt
  simp only [catL_eval, List.map_append, List.flatten_append, List.map_cons, List.map_nil, List.flatten_cons,
    List.flatten_nil, List.append_nil]
  rw [chunks_eq_ranges P sym aead _ _ _ _ _ pt.val 0 pt.val 0 rfl, val_length]
  congr 1
  · rw [List.map_map, List.flatMap_def]
    congr 1
    apply List.map_congr_left
    intro rj _
    obtain ⟨⟨a, b⟩, j⟩ := rj
    simp only [Function.comp, sealRange, PExpr.eval, slice_eval, split, okm, nonceAt_split]
  · simp only [PExpr.eval, split, okm, nonceAt_split, Nat.zero_add]

/-- ciphertext length: plaintext + one tag per chunk + the final tag -/
theorem chunks_length (P : Prims) (sym aead : Nat) (key n0 inf : Bytes) (csz total : Nat) (hc : 0 < csz)
    (hseal : ∀ k n ad d, (P.aead sym aead k n ad d).length = d.length + 16) :
    ∀ (i : Nat) (pt : Bytes),
      (chunks P sym aead key n0 inf csz total i pt).length = pt.length + 16 * ((pt.length + csz - 1) / csz + 1) := by
  intro i pt
  fun_induction chunks P sym aead key n0 inf csz total i pt with
  | case1 i pt h =>
    have hp : pt = [] := by rcases h with h | h; omega; exact h
    subst hp
    rw [hseal]
    have : (csz - 1) / csz = 0 := by apply Nat.div_eq_of_lt; omega
    simp [this]
  | case2 i pt h ih =>
    have hne : pt ≠ [] := fun e => h (Or.inr e)
    have hpos : 0 < pt.length := List.length_pos_iff.mpr hne
    rw [List.length_append, hseal, ih, List.length_take, List.length_drop]
    rcases Nat.le_total csz pt.length with hle | hle
    · rw [Nat.min_eq_left hle]
      have : pt.length + csz - 1 = (pt.length - csz + csz - 1) + csz := by omega
      rw [this, Nat.add_div_right _ hc]
      omega
    · rw [Nat.min_eq_right hle]
      have h0 : pt.length - csz = 0 := by omega
      have h1 : (pt.length - csz + csz - 1) / csz = 0 := by rw [h0]; apply Nat.div_eq_of_lt; omega
      have h2 : (pt.length + csz - 1) / csz = 1 := by
        have : pt.length + csz - 1 = (pt.length - 1) + csz := by omega
        rw [this, Nat.add_div_right _ hc, Nat.div_eq_of_lt (by omega)]
      rw [h1, h2, h0]


open Seipd1

theorem prefixed_length (pre : Bytes) : (prefixed pre).length = pre.length + 2 := by simp [prefixed]

theorem Seipd1.layout_length (P : Prims) (pre pt : Bytes) (hh : ∀ x, 20 ≤ (P.hash sha1Id x).length) :
    (layout P pre pt).length = pre.length + 2 + pt.length + 22 := by
  have := hh (hashed pre pt)
  simp only [layout, List.length_append, List.length_take]
  rw [Nat.min_eq_left this]
  simp [hashed, prefixed_length]
  omega

theorem Seipd1.plan_eval (P : Prims) (alg : Nat) (key pre : Bytes) (pt : PtRef) :
    (Seipd1.plan alg key pre pt).eval P = Seipd1.encrypt P alg key pre pt.val := by
  simp only [Seipd1.plan, Seipd1.encrypt, PExpr.eval, slice_eval, layout, hashed, List.drop_zero]
  rw [← val_length, List.take_length]
  simp

/-- a CFB encryptor is *online* and length preserving -/
structure Online (E : Bytes → Bytes) : Prop where
  len : ∀ x, (E x).length = x.length
  pre : ∀ a b, (E (a ++ b)).take a.length = E a

theorem cfbFeed_eq (E : Bytes → Bytes) (h : Online E) (segs : List Bytes) :
    ∀ sofar, cfbFeed E sofar segs = (E (sofar ++ segs.flatten)).drop sofar.length := by
  induction segs with
  | nil =>
    intro sofar
    simp only [cfbFeed, List.flatten_nil, List.append_nil]
    rw [List.drop_of_length_le]; rw [h.len]; exact Nat.le_refl _
  | cons seg rest ih =>
    intro sofar
    simp only [cfbFeed, ih, List.flatten_cons, List.length_append]
    have hp := h.pre (sofar ++ seg) rest.flatten
    rw [List.append_assoc] at hp
    rw [← hp, List.length_append, List.drop_take, ← List.drop_drop]
    simp only [Nat.add_sub_cancel_left, List.append_assoc]
    exact List.take_append_drop _ _

theorem buffers_flatten (n : Nat) (hn : 0 < n) (pt : Bytes) : (buffers n pt).flatten = pt := by
  fun_induction buffers n pt with
  | case1 pt h =>
    rcases h with h | h
    · omega
    · simp [h]
  | case2 pt h ih => simp [ih]

/-- the streaming writer emits the same bytes as the one-shot writer, whatever its buffer size -/
theorem Seipd1.stream_eq_encrypt (P : Prims) (alg : Nat) (key pre pt : Bytes) (bufSize : Nat) (hb : 0 < bufSize)
    (hE : Online (P.cfbEnc alg key (List.replicate (Gen.symBlockSize alg) 0)))
    (htag : Gen.seMdcTag = Gen.epMdcTag) (hlen : Gen.seMdcLenOctet = Gen.epMdcLenOctet) :
    stream P alg key pre pt bufSize = Seipd1.encrypt P alg key pre pt := by
  unfold stream Seipd1.encrypt
  rw [htag, hlen]
  simp only [cfbFeed_eq _ hE, List.nil_append, List.length_nil, List.drop_zero, List.flatten_append,
    List.flatten_cons, List.flatten_nil, List.append_nil, buffers_flatten bufSize hb]
  congr 1
  simp [layout, hashed]

/-- generic acceptance: a stream `A ‖ pt ‖ [t, l] ‖ H` with `|A| = bs+2`, `|H| = 20` is opened to `pt`
iff the tag, length octet and digest are the expected ones -/
theorem openWith_shape (h : Bytes) (bs : Nat) (A pt H : Bytes) (t l : Byte)
    (hA : A.length = bs + 2) (hH : H.length = 20) :
    openWith h bs (A ++ pt ++ [t, l] ++ H) =
      if t = Gen.sdMdcTag.toUInt8 ∧ l = Gen.sdMdcLenOctet.toUInt8 ∧ H = h then .ok pt else .error .mdc := by
  have e1 : Gen.sdPrefixExtra = 2 := rfl
  have e2 : Gen.sdMdcLen = 22 := rfl
  unfold openWith
  rw [e1, e2]
  have hlen : (A ++ pt ++ [t, l] ++ H).length = bs + 2 + pt.length + 22 := by simp [hA, hH]; omega
  have hdrop : (A ++ pt ++ [t, l] ++ H).drop (bs + 2) = pt ++ [t, l] ++ H := by
    rw [List.append_assoc, List.append_assoc, ← hA, List.drop_left]; simp
  simp only [hlen, hdrop]
  have hl2 : (pt ++ [t, l] ++ H).length = pt.length + 22 := by simp [hH]
  rw [if_neg (by omega), hl2, if_neg (by omega)]
  simp only [Nat.add_sub_cancel]
  have ht : (pt ++ [t, l] ++ H).take pt.length = pt := by
    rw [List.append_assoc, List.take_left]
  have hd : (pt ++ [t, l] ++ H).drop pt.length = [t, l] ++ H := by
    rw [List.append_assoc, List.drop_left]
  rw [ht, hd]
  simp

theorem mdcPreimage_shape (X H : Bytes) (hH : H.length = 20) : mdcPreimage (X ++ H) = X := by
  unfold mdcPreimage
  simp [hH]

/-- the reader accepts what the writer lays out, and returns the plaintext -/
theorem Seipd1.open_layout (P : Prims) (pre pt : Bytes) (hh : ∀ x, 20 ≤ (P.hash sha1Id x).length)
    (htag : Gen.sdMdcTag = Gen.epMdcTag) (hlo : Gen.sdMdcLenOctet = Gen.epMdcLenOctet) :
    Seipd1.open P pre.length (layout P pre pt) = .ok pt := by
  have hH : ((P.hash sha1Id (hashed pre pt)).take 20).length = 20 := by
    rw [List.length_take]; exact Nat.min_eq_left (hh _)
  unfold Seipd1.open
  have hl : layout P pre pt = hashed pre pt ++ (P.hash sha1Id (hashed pre pt)).take 20 := rfl
  rw [hl, mdcPreimage_shape _ _ hH]
  unfold hashed at hH ⊢
  rw [openWith_shape _ pre.length (prefixed pre) pt _ _ _ (prefixed_length pre) hH, htag, hlo]
  simp

theorem openWith_ok (h : Bytes) (bs : Nat) (d pt : Bytes) (hok : openWith h bs d = .ok pt) :
    ∃ A, A.length = bs + 2 ∧
      d = A ++ pt ++ [Gen.sdMdcTag.toUInt8, Gen.sdMdcLenOctet.toUInt8] ++ h := by
  have e1 : Gen.sdPrefixExtra = 2 := rfl
  have e2 : Gen.sdMdcLen = 22 := rfl
  unfold openWith at hok
  rw [e1, e2] at hok
  by_cases c1 : d.length < bs + 2
  · simp [c1] at hok
  · simp only [c1, if_false] at hok
    generalize hrest : d.drop (bs + 2) = rest at hok
    by_cases c2 : rest.length < 22
    · simp only [c2, if_true] at hok; cases hok
    · simp only [c2, if_false] at hok
      generalize hm : rest.drop (rest.length - 22) = mdc at hok
      have hml : mdc.length = 22 := by rw [← hm, List.length_drop]; omega
      match mdc, hml with
      | a :: b :: t, _ =>
        simp only [List.getD_cons_zero, List.getD_cons_succ, List.drop_succ_cons, List.drop_zero] at hok
        split at hok
        · rename_i hc
          obtain ⟨ha, hb, ht⟩ := hc
          injection hok with hpt
          refine ⟨d.take (bs + 2), by rw [List.length_take]; omega, ?_⟩
          have hd : d = d.take (bs + 2) ++ rest := by rw [← hrest, List.take_append_drop]
          have hr : rest = rest.take (rest.length - 22) ++ (a :: b :: t) := by rw [← hm, List.take_append_drop]
          rw [hpt] at hr
          conv => lhs; rw [hd, hr]
          rw [ha, hb, ht]
          simp
        · cases hok


/-- whatever the reader opens has the writer's layout (with *some* `bs+2` leading octets: the
repeat octets are not compared) -/
theorem Seipd1.open_sound (P : Prims) (bs : Nat) (d pt : Bytes) (hh : ∀ x, 20 ≤ (P.hash sha1Id x).length)
    (hok : Seipd1.open P bs d = .ok pt) :
    ∃ A, A.length = bs + 2 ∧
      d = A ++ pt ++ [Gen.sdMdcTag.toUInt8, Gen.sdMdcLenOctet.toUInt8] ++
        (P.hash sha1Id (A ++ pt ++ [Gen.sdMdcTag.toUInt8, Gen.sdMdcLenOctet.toUInt8])).take 20 := by
  unfold Seipd1.open at hok
  obtain ⟨A, hA, hd⟩ := openWith_ok _ bs d pt hok
  refine ⟨A, hA, ?_⟩
  have hH : ((P.hash sha1Id (mdcPreimage d)).take 20).length = 20 := by
    rw [List.length_take]; exact Nat.min_eq_left (hh _)
  have hp : mdcPreimage d = A ++ pt ++ [Gen.sdMdcTag.toUInt8, Gen.sdMdcLenOctet.toUInt8] := by
    conv => lhs; rw [hd]
    exact mdcPreimage_shape _ _ hH
  rw [hp] at hd
  exact hd

/-! ## SKESK and secret-key plans -/

theorem Skesk.plan4_eval (P : Prims) (sym : Nat) (s : S2k.Spec) (pw sk : Bytes) :
    (Skesk.plan4 true sym s pw sk).map (PExpr.eval P) = Skesk.body4 P sym s pw sk := by
  unfold Skesk.plan4 Skesk.body4
  rw [← plan_eval P s pw (Gen.c12SymKeySize sym)]
  cases hE : Skesk.encryptAllowed s <;> cases hp : S2k.plan s pw (Gen.c12SymKeySize sym) <;>
    simp [hE, hp, PExpr.eval, bind, Option.bind, pure]

theorem Skesk.plan6_eval (P : Prims) (sym aead : Nat) (s : S2k.Spec) (pw sk iv : Bytes) :
    (Skesk.plan6 true sym aead s pw sk iv).map (PExpr.eval P) = Skesk.body6 P sym aead s pw sk iv := by
  unfold Skesk.plan6 Skesk.body6 Skesk.kek6
  rw [← plan_eval P s pw (Gen.c12SymKeySize sym)]
  cases hE : Skesk.encryptAllowed s <;> cases hp : S2k.plan s pw (Gen.c12SymKeySize sym) <;>
    simp [hE, hp, PExpr.eval, bind, Option.bind, pure]

theorem SecKey.cfbLockAllowed_not_argon2 (ver : Nat) (s : S2k.Spec) (h : SecKey.cfbLockAllowed ver s = true) :
    s.isArgon2 = false := by
  unfold SecKey.cfbLockAllowed at h
  cases hA : s.isArgon2 <;> simp [hA] at h ⊢

theorem SecKey.cfbPlan_eval (P : Prims) (ver sym : Nat) (s : S2k.Spec) (pw iv raw : Bytes) :
    (SecKey.cfbPlan true ver sym s pw iv raw).map (PExpr.eval P) = SecKey.cfbData P ver sym s pw iv raw := by
  unfold SecKey.cfbPlan SecKey.cfbData
  rw [← plan_eval P s pw (Gen.c12SymKeySize sym)]
  cases hL : SecKey.cfbLockAllowed ver s
  · simp [hL]
  · have hA := SecKey.cfbLockAllowed_not_argon2 ver s hL
    cases hp : S2k.plan s pw (Gen.c12SymKeySize sym) <;>
      simp [hL, hA, hp, PExpr.eval, bind, Option.bind, pure]

theorem SecKey.aeadPlan_eval (P : Prims) (sym aead : Nat) (s : S2k.Spec) (pw nonce : Bytes) (tag ver : Nat)
    (pubBody raw : Bytes) :
    (SecKey.aeadPlan true sym aead s pw nonce tag ver pubBody raw).map (PExpr.eval P) =
      SecKey.aeadData P sym aead s pw nonce tag ver pubBody raw := by
  unfold SecKey.aeadPlan SecKey.aeadData
  rw [← plan_eval P s pw (Gen.c12SymKeySize sym)]
  cases hW : SecKey.aeadLockAllowed s <;> cases hp : S2k.plan s pw (Gen.c12SymKeySize sym) <;>
    simp [hW, hp, PExpr.eval, bind, Option.bind, pure]

end Rpgp.Sym
