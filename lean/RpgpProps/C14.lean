import RpgpProofs.Canon
import RpgpProofs.CanonReader
import RpgpModel.Gen.Constants
/-!
# C14 — text canonicalisation is one function, however the text is delivered

Property theorems only (helper lemmas live in `RpgpProofs`).  Model: `RpgpModel/Canon.lean`.
Every theorem quantifies over *all* byte strings / chunkings / window sizes / schedules.
-/
namespace Rpgp.C14
open Rpgp

/-- The streaming hasher (`NormalizingHasher`, text mode) hashes exactly `canon` of the
concatenated input, for every chunking. -/
theorem hasher_eq_canon (chunks : List Bytes) : hashedText chunks = canon chunks.flatten := by
  have := (hasher_fold chunks {} [] rfl rfl).1
  simpa [hashedText, Hasher.done] using this

/-- … hence its output does not depend on the chunking. -/
theorem hasher_chunk_indep (c c' : List Bytes) (h : c.flatten = c'.flatten) :
    hashedText c = hashedText c' := by
  rw [hasher_eq_canon, hasher_eq_canon, h]

/-- The in-memory normaliser (`replace_newlines(_, "\r\n")`) is `canon`. -/
theorem replace_eq_canon (d : Bytes) : replaceNewlines CRLF d = canon d :=
  replaceNewlines_crlf d

/-- The streaming reader (`NormalizedReader`, any window size `W > 0`; the code uses 512)
produces `canon` of its input: window-boundary CR deferral, the stale `last_char` and EOF
exactly on a window edge are all cases of the induction. -/
theorem reader_eq_canon (W : Nat) (hW : 0 < W) (d : Bytes) : normalizedRead W d = canon d :=
  normalizedRead_eq_canon W hW d

/-- … for every way the underlying source splits the data into `read` results. -/
theorem reader_source_schedule_indep (W : Nat) (hW : 0 < W) (src : List Bytes)
    (hsrc : AllNonEmpty src) : normalizedReadSrc W src = canon src.flatten := by
  unfold normalizedReadSrc
  rw [nrBlocksSrc_eq W hW _ src _ hsrc (by omega)]
  exact normalizedRead_eq_canon W hW src.flatten

/-- … and for every way the consumer asks for it (any positive request sizes, read until a
0-byte read): with a window of at least two bytes no refill is empty before the end, so the
consumer never sees a spurious end-of-stream. -/
theorem reader_request_schedule_indep (W : Nat) (hW : 2 ≤ W) (d : Bytes) (reqs : List Nat)
    (hreqs : ∀ r ∈ reqs, 0 < r)
    (heof : (bpDrain [] (nrBlocks CRLF W (nrInit W) d) reqs).2 = true) :
    (bpDrain [] (nrBlocks CRLF W (nrInit W) d) reqs).1 = canon d := by
  have hns := nrBlocks_noSpurious W hW d.length d (nrInit W) (Nat.le_refl _) (by simp [nrInit])
  rw [(bpDrain_spec reqs [] _ hreqs hns).2 heof]
  simpa [normalizedRead] using normalizedRead_eq_canon W (by omega) d

/-- All three implementations agree on every input and chunking. -/
theorem three_agree (W : Nat) (hW : 0 < W) (chunks : List Bytes) :
    hashedText chunks = normalizedRead W chunks.flatten ∧
    hashedText chunks = replaceNewlines CRLF chunks.flatten := by
  rw [hasher_eq_canon, reader_eq_canon W hW, replace_eq_canon]; exact ⟨rfl, rfl⟩

/-- canonical form is a fixed point: converting LF line endings to CRLF does not change what
is signed. -/
theorem canon_idem (d : Bytes) : canon (canon d) = canon d := Rpgp.canon_idem d

/-- an LF-only document and its CRLF conversion are signed identically, and the LF form is
recovered from the CRLF form -/
theorem canon_lf_crlf (d : Bytes) (h : ∀ b ∈ d, b ≠ CR) :
    canon (canon d) = canon d ∧ toLF (canon d) = d :=
  ⟨Rpgp.canon_idem d, toLF_canon_of_noCR d h⟩

/-- `canon` identifies nothing except line-ending representation: equal canonical forms
imply equal documents once CR-before-LF is stripped. -/
theorem canon_sensitive (d d' : Bytes) (h : canon d = canon d') : toLF d = toLF d' :=
  Rpgp.canon_sensitive d d' h

/-- The CRLF acceptance check for UTF-8 literals accepts a text, however chunked, iff the text
is already in canonical form. -/
theorem crlf_check_accepts_iff (chunks : List Bytes) :
    crlfCheck chunks = true ↔ canon chunks.flatten = chunks.flatten :=
  crlfCheck_iff chunks

/-! ## non-vacuity / sanity: concrete evaluations of the executable model -/

example : canon [97, LF, 98, CR, LF, CR, 99, CR] = [97, CR, LF, 98, CR, LF, CR, 99, CR] := by decide
example : hashedText [[97, CR], [LF, 98], [CR]] = [97, CR, LF, 98, CR] := by
  rw [hasher_eq_canon]; decide
example : normalizedRead 2 [97, CR, LF, LF, CR] = [97, CR, LF, CR, LF, CR] := by
  rw [reader_eq_canon 2 (by decide)]; decide
example : AllNonEmpty [[97, CR], [LF]] := by intro c hc; simp at hc; rcases hc with rfl | rfl <;> simp
example : crlfCheck [[97, CR], [LF, 98]] = true := by rw [crlf_check_accepts_iff]; decide
/-- a trailing lone CR stays a lone CR (the defect D6a/D14 appended an LF here) -/
example : hashedText [[97, CR]] = [97, CR] := by rw [hasher_eq_canon]; decide

end Rpgp.C14

namespace Rpgp.C14
open Rpgp

/-- the window the code uses (re-extracted from `normalize_lines.rs` on every run) is large
enough for the request-schedule theorem -/
theorem extracted_window_ok : 2 ≤ Gen.normalizedReaderWindow := by decide

/-- instantiation at the extracted window -/
theorem reader_eq_canon_extracted (d : Bytes) :
    normalizedRead Gen.normalizedReaderWindow d = canon d :=
  reader_eq_canon _ (by decide) d

end Rpgp.C14
