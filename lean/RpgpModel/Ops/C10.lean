import RpgpModel.Proto
import RpgpModel.Framing
import RpgpModel.Armor
/-!
# C10 ops

  b64enc data=<hex>                      -> ok:<hex>
  crc data=<bytes>                       -> ok:<n>
  lw w=<n> offers=<n,n,..> data=<bytes>  -> ok:<shown bytes>   (LineWriter: offered writes, then write_all, then finish)
  armor typ=<t> h=<hdrs> ck=<0|1> data=<bytes>                 -> ok:<shown bytes>
  dearmor crc=<0|1> chunks=<hex,hex,..>                          -> result
  b64read cap=<n> data=<hex>              -> ok:<decoded>:<left-over buffer>:<rest of source>
  rt typ= h= ck= data=<bytes> crc=<0|1> var=<flags> lead=<hex> trail=<hex> cuts=<n,n,..>  -> result
      (the model armors, transforms, cuts into fill_buf views, dearmors)

<bytes> = hex | `-` | `p<seed>.<len>` (test pattern).  <hdrs> = `_` | k:v,v;k:v (hex, `-` = empty).
<t> = index[.x.y].  shown bytes = `x<hex>` up to 96 bytes, else `c<len>.<s1>.<s2>`.
-/
namespace Rpgp.Ops.C10
open Rpgp Rpgp.Armor

def bytesArg (a : Args) (k : String) : Option Bytes := do
  let v ← a.get? k
  if v.startsWith "p" then
    match (v.drop 1).toString.splitOn "." with
    | [s, n] => pure (pattern (← s.toNat?) (← n.toNat?))
    | _ => none
  else fromHex v

def showBytes (b : Bytes) : String :=
  if b.length ≤ 96 then "x" ++ hexOrDash b
  else
    let (n, x, y) := cksum b
    s!"c{n}.{x}.{y}"

def parseTyp (s : String) : Option BlockType :=
  match (s.splitOn ".").map String.toNat? with
  | [some 0] => some .publicKey
  | [some 1] => some .privateKey
  | [some 2] => some .message
  | [some 3, some x, some y] => some (.multiPart x y)
  | [some 4] => some .signature
  | [some 5] => some .file
  | [some 6] => some .cleartext
  | [some 7] => some (.pubPkcs1 .rsa)
  | [some 8] => some (.pubPkcs1 .dsa)
  | [some 9] => some (.pubPkcs1 .ec)
  | [some 10] => some .pubPkcs8
  | [some 11] => some .pubOpenssh
  | [some 12] => some (.privPkcs1 .rsa)
  | [some 13] => some (.privPkcs1 .dsa)
  | [some 14] => some (.privPkcs1 .ec)
  | [some 15] => some .privPkcs8
  | [some 16] => some .privOpenssh
  | _ => none

def showTyp : BlockType → String
  | .publicKey => "0" | .privateKey => "1" | .message => "2"
  | .multiPart x y => s!"3.{x}.{y}"
  | .signature => "4" | .file => "5" | .cleartext => "6"
  | .pubPkcs1 .rsa => "7" | .pubPkcs1 .dsa => "8" | .pubPkcs1 .ec => "9"
  | .pubPkcs8 => "10" | .pubOpenssh => "11"
  | .privPkcs1 .rsa => "12" | .privPkcs1 .dsa => "13" | .privPkcs1 .ec => "14"
  | .privPkcs8 => "15" | .privOpenssh => "16"

def parseHeaders (s : String) : Option Headers :=
  if s = "_" then some []
  else (s.splitOn ";").mapM fun e =>
    match e.splitOn ":" with
    | [k, vs] => do
      let kb ← fromHex k
      let vbs ← if vs = "" then some [] else (vs.splitOn ",").mapM fromHex
      pure (kb, vbs)
    | _ => none

def showHeaders (h : Headers) : String :=
  if h.isEmpty then "_"
  else ";".intercalate (h.map fun kv => hexOrDash kv.1 ++ ":" ++ ",".intercalate (kv.2.map hexOrDash))

def showStatus : CrcStatus → String
  | .noCrc => "n"
  | .checkedOk c => s!"ok{c}"
  | .checkedInvalid f c => s!"bad{f}.{c}"
  | .unchecked f => s!"un{f}"

def showDearmor : Except DearmorErr Dearmored → String
  | .error .headerEof => "err:header-eof"
  | .error .headerBad => "err:header"
  | .error .footerEof => "err:footer-eof"
  | .error .footerBad => "err:footer"
  | .error .typeMismatch => "err:mismatch"
  | .error .crcMismatch => "err:crc"
  | .ok r =>
    let ck := match r.checksum with | some c => toString c | none => "-"
    s!"ok:{showTyp r.typ}:{showHeaders r.headers}:{showBytes r.data}:{ck}:{showStatus r.status}"

/-- cut `d` at the (increasing) offsets -/
def cutAt (d : Bytes) (cuts : List Nat) : List Bytes :=
  let rec go (d : Bytes) (pos : Nat) : List Nat → List Bytes
    | [] => [d]
    | c :: cs => if c ≤ pos then go d pos cs else d.take (c - pos) :: go (d.drop (c - pos)) c cs
  (go d 0 cuts).filter (!·.isEmpty)

/-- double every LF after the first empty line (blank lines between body lines, before the
checksum line and before the footer line) -/
def doubleBodyLf : Bool → Bytes → Bytes
  | _, [] => []
  | false, a :: b :: r => if a = LF ∧ b = LF then a :: b :: doubleBodyLf true r else a :: doubleBodyLf false (b :: r)
  | false, [a] => [a]
  | true, a :: r => if a = LF then LF :: LF :: doubleBodyLf true r else a :: doubleBodyLf true r

/-- the blank separator line gets blanks and a tab -/
def wsSeparator : Bytes → Bytes
  | a :: b :: r => if a = LF ∧ b = LF then LF :: SP :: TAB :: SP :: LF :: r else a :: wsSeparator (b :: r)
  | r => r

def variant (flags : Nat) (a : Bytes) : Bytes :=
  let a := if flags / 4 % 2 = 1 then doubleBodyLf false a else a
  let a := if flags / 2 % 2 = 1 then wsSeparator a else a
  let a := if flags / 8 % 2 = 1 then (if a.getLast? = some LF then a.dropLast else a) else a
  if flags % 2 = 1 then toCrlf a else a

def handle (op : String) (a : Args) : Option String :=
  match op with
  | "b64enc" => do
    let d ← bytesArg a "data"
    pure (okBytes (b64enc d))
  | "crc" => do
    let d ← bytesArg a "data"
    pure s!"ok:{crc24 d}"
  | "lw" => do
    let w ← a.nat "w"
    let offers ← a.natList "offers"
    let d ← bytesArg a "data"
    let r := lwFeed w [] d (offers ++ List.replicate d.length d.length)
    pure ("ok:" ++ showBytes (r.1 ++ lwFinish r.2.1))
  | "armor" => do
    let t ← a.get? "typ" >>= parseTyp
    let h ← a.get? "h" >>= parseHeaders
    let ck ← a.nat "ck"
    let d ← bytesArg a "data"
    pure ("ok:" ++ showBytes (armorWrite t h d (ck == 1)))
  | "dearmor" => do
    let crc ← a.nat "crc"
    let cs ← a.list "chunks"
    pure (showDearmor (dearmor (crc == 1) cs))
  | "b64read" => do
    let cap ← a.nat "cap"
    let d ← bytesArg a "data"
    let r := decodeBody cap (d.length + 1) [] 0 d
    pure s!"ok:{showBytes r.1}:{showBytes r.2.1}:{showBytes r.2.2}"
  | "rt" => do
    let t ← a.get? "typ" >>= parseTyp
    let h ← a.get? "h" >>= parseHeaders
    let ck ← a.nat "ck"
    let d ← bytesArg a "data"
    let crc ← a.nat "crc"
    let flags ← a.nat "var"
    let lead ← a.bytes "lead"
    let trail ← a.bytes "trail"
    let cuts ← a.natList "cuts"
    let text := lead ++ variant flags (armorWrite t h d (ck == 1)) ++ trail
    pure (showDearmor (dearmor (crc == 1) (cutAt text cuts)))
  | _ => none

end Rpgp.Ops.C10
