import RpgpModel.Bytes
/-!
# Utf8 — `literal_data.rs  Utf8CheckReader` over an abstract "valid up to" function

`vut d` plays the role of `core::str::from_utf8(d)`'s `valid_up_to()` (`d.length` when the
whole slice is valid).  `utf8Scan` is a concrete RFC 3629 scanner used by the driver; the
chunk-independence theorem is proved for *any* `vut` satisfying three prefix laws (`VutLaws` in
`RpgpProofs/Utf8.lean`), and the tie of those laws to Rust's implementation is by correspondence.
-/
namespace Rpgp

/-- `check_utf8`: `none` = definitely invalid (error), `some rest` = accepted so far with the
overhang `rest` (0..3 octets) to be completed by the next read -/
def checkUtf8 (vut : Bytes → Nat) (data : Bytes) : Option Bytes :=
  let rest := data.drop (vut data)
  if rest.length ≤ 3 then some rest else none

/-- `Utf8CheckReader::read` over the successive non-empty reads; at EOF an open overhang is an
error. `true` = the whole stream was accepted. -/
def utf8CheckChunks (vut : Bytes → Nat) : Bytes → List Bytes → Bool
  | rest, [] => rest.isEmpty
  | rest, c :: cs =>
    if c.isEmpty then utf8CheckChunks vut rest cs   -- a 0-byte read is EOF for the real reader; sources here have none
    else
      match checkUtf8 vut (rest ++ c) with
      | none => false
      | some rest' => utf8CheckChunks vut rest' cs

/-! ## a concrete scanner (RFC 3629, as `core::str::from_utf8` accepts) -/

def inR (b : Byte) (lo hi : Nat) : Bool := lo ≤ b.toNat && b.toNat ≤ hi

/-- length of the well-formed sequence at the head of the input: `some n` = a complete sequence of
`n` octets, `none` = invalid or incomplete -/
def utf8Head : Bytes → Option Nat
  | [] => none
  | a :: r =>
    if a.toNat ≤ 0x7F then some 1
    else if inR a 0xC2 0xDF then
      match r with
      | b :: _ => if inR b 0x80 0xBF then some 2 else none
      | _ => none
    else if inR a 0xE0 0xEF then
      match r with
      | b :: c :: _ =>
        let okB := if a.toNat = 0xE0 then inR b 0xA0 0xBF else if a.toNat = 0xED then inR b 0x80 0x9F else inR b 0x80 0xBF
        if okB && inR c 0x80 0xBF then some 3 else none
      | _ => none
    else if inR a 0xF0 0xF4 then
      match r with
      | b :: c :: d :: _ =>
        let okB := if a.toNat = 0xF0 then inR b 0x90 0xBF else if a.toNat = 0xF4 then inR b 0x80 0x8F else inR b 0x80 0xBF
        if okB && inR c 0x80 0xBF && inR d 0x80 0xBF then some 4 else none
      | _ => none
    else none

/-- `valid_up_to` of the concrete scanner -/
def utf8Scan : Nat → Bytes → Nat
  | 0, _ => 0
  | fuel + 1, d =>
    match utf8Head d with
    | none => 0
    | some n => n + utf8Scan fuel (d.drop n)

def utf8ValidUpTo (d : Bytes) : Nat := utf8Scan (d.length + 1) d

end Rpgp
