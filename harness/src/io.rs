//! Scheduled readers/writers and one-shot fault injection.

use std::io::{self, Read, Write};

/// A reader that delivers `data` in the given chunk sizes (then whatever is left at once),
/// optionally failing at read call number `fail_at` (0-based).
#[derive(Debug)]
pub struct ScheduledReader {
    data: Vec<u8>,
    pos: usize,
    sizes: Vec<usize>,
    call: usize,
    pub fail_at: Option<usize>,
    pub fail_kind: io::ErrorKind,
    pub calls_made: usize,
}

impl ScheduledReader {
    pub fn new(data: &[u8], sizes: &[usize]) -> Self {
        Self { data: data.to_vec(), pos: 0, sizes: sizes.to_vec(), call: 0, fail_at: None, fail_kind: io::ErrorKind::Other, calls_made: 0 }
    }

    /// one-shot fault of a chosen kind (`Interrupted`: callers may retry; `UnexpectedEof`: what a
    /// truncated stream below reports)
    pub fn with_fault_kind(mut self, at: usize, kind: io::ErrorKind) -> Self {
        self.fail_at = Some(at);
        self.fail_kind = kind;
        self
    }

    pub fn from_chunks(chunks: &[Vec<u8>]) -> Self {
        let data: Vec<u8> = chunks.concat();
        let sizes: Vec<usize> = chunks.iter().map(|c| c.len()).collect();
        Self::new(&data, &sizes)
    }

    pub fn with_fault(mut self, at: usize) -> Self {
        self.fail_at = Some(at);
        self
    }
}

impl Read for ScheduledReader {
    fn read(&mut self, buf: &mut [u8]) -> io::Result<usize> {
        let this_call = self.calls_made;
        self.calls_made += 1;
        if Some(this_call) == self.fail_at {
            return Err(io::Error::new(self.fail_kind, "injected source fault"));
        }
        if buf.is_empty() || self.pos >= self.data.len() {
            return Ok(0);
        }
        // current chunk: remaining part of sizes[call]
        while self.call < self.sizes.len() && self.sizes[self.call] == 0 {
            self.call += 1;
        }
        let want = if self.call < self.sizes.len() { self.sizes[self.call] } else { self.data.len() - self.pos };
        let n = want.min(buf.len()).min(self.data.len() - self.pos);
        buf[..n].copy_from_slice(&self.data[self.pos..self.pos + n]);
        self.pos += n;
        if self.call < self.sizes.len() {
            self.sizes[self.call] -= n;
            if self.sizes[self.call] == 0 {
                self.call += 1;
            }
        }
        Ok(n)
    }
}

/// A writer that accepts at most `sizes[i]` bytes on call i (then everything), optionally
/// failing at write call `fail_at`.
pub struct ScheduledWriter {
    pub out: Vec<u8>,
    sizes: Vec<usize>,
    pub fail_at: Option<usize>,
    pub fail_kind: io::ErrorKind,
    pub calls_made: usize,
}

impl ScheduledWriter {
    pub fn new(sizes: &[usize]) -> Self {
        Self { out: Vec::new(), sizes: sizes.to_vec(), fail_at: None, fail_kind: io::ErrorKind::Other, calls_made: 0 }
    }
    pub fn with_fault_kind(mut self, at: usize, kind: io::ErrorKind) -> Self {
        self.fail_at = Some(at);
        self.fail_kind = kind;
        self
    }
    pub fn with_fault(mut self, at: usize) -> Self {
        self.fail_at = Some(at);
        self
    }
}

impl Write for ScheduledWriter {
    fn write(&mut self, buf: &[u8]) -> io::Result<usize> {
        let this_call = self.calls_made;
        self.calls_made += 1;
        if Some(this_call) == self.fail_at {
            return Err(io::Error::new(self.fail_kind, "injected sink fault"));
        }
        if buf.is_empty() {
            return Ok(0);
        }
        let cap = self.sizes.get(this_call).copied().filter(|&c| c > 0).unwrap_or(buf.len());
        let n = cap.min(buf.len());
        self.out.extend_from_slice(&buf[..n]);
        Ok(n)
    }
    fn flush(&mut self) -> io::Result<()> {
        Ok(())
    }
}

/// Drain a reader with the given request sizes (cycled), stopping at the first 0-byte read or
/// error. Returns (bytes, Ok(()) | Err(kind)).
pub fn drain_with<R: Read>(mut r: R, reqs: &[usize]) -> (Vec<u8>, Result<(), String>) {
    let mut out = Vec::new();
    let mut i = 0;
    let mut buf = vec![0u8; reqs.iter().copied().max().unwrap_or(1).max(1)];
    loop {
        let n = reqs[i % reqs.len()];
        i += 1;
        if n == 0 {
            // a request of 0 is a zero-length read: it returns 0 without meaning end of data
            if reqs.iter().all(|&q| q == 0) {
                return (out, Err("only zero-length requests".into()));
            }
            match r.read(&mut []) {
                Ok(_) => continue,
                Err(e) => return (out, Err(e.to_string())),
            }
        }
        match r.read(&mut buf[..n]) {
            Ok(0) => return (out, Ok(())),
            Ok(k) => out.extend_from_slice(&buf[..k]),
            Err(e) => return (out, Err(e.to_string())),
        }
        if i > 50_000_000 {
            return (out, Err("watchdog: too many reads".into()));
        }
    }
}
