import RpgpModel.Bytes
/-!
# Stream — sources, read schedules, `fill_buffer`, buffered producers

A fault-free *source* is a list of non-empty chunks: the i-th underlying `read` call can
deliver at most the rest of the current chunk, so a source *is* a read schedule.
`flatten` is the byte string it carries.  After the list is exhausted the source
returns 0 bytes (EOF) forever, as `std::io::Read` implementations do.

Sources with faults are lists of events (`Ev.data`/`Ev.err`).
-/
namespace Rpgp

/-- One `Read::read(buf)` call with `buf.len() = n` on a chunked source. -/
def srcRead : List Bytes → Nat → Bytes × List Bytes
  | [], _ => ([], [])
  | c :: cs, n =>
    if c.length ≤ n then (c, cs) else (c.take n, c.drop n :: cs)

/-- `util::fill_buffer(source, buffer[..n])`: loop `read` until `n` bytes or a 0-byte read.
`fuel` bounds the number of `read` calls (each call on a non-empty chunk list makes progress). -/
def fillBuffer : Nat → List Bytes → Nat → Bytes × List Bytes
  | 0, src, _ => ([], src)
  | fuel + 1, src, n =>
    if n = 0 then ([], src) else
    let (got, src') := srcRead src n
    if got.isEmpty then ([], src')
    else
      let (more, src'') := fillBuffer fuel src' (n - got.length)
      (got ++ more, src'')

/-- A consumer's view of a *buffered producer*: the component refills its internal buffer
with the next block when (and only when) the buffer is empty, and hands out
`min(request, available)`.  `blocks` are the successive refills; after the last one the
component is in its terminal state and returns 0.  This is the shape of every
`Read` implementation in rpgp that owns a `BytesMut` buffer. -/
def bpRead : Bytes → List Bytes → Nat → Bytes × Bytes × List Bytes
  | [], [], _ => ([], [], [])
  | [], b :: bs, n => (b.take n, b.drop n, bs)
  | buf, bs, n => (buf.take n, buf.drop n, bs)

/-- Drain with the request sizes `reqs` (all positive), stopping at the first 0-byte read,
as `read_to_end`, a fixed-size `read` loop or a `BufRead` loop do. Returns what the consumer
obtained and whether it saw EOF (a 0-byte read) within the schedule. -/
def bpDrain : Bytes → List Bytes → List Nat → Bytes × Bool
  | _, _, [] => ([], false)
  | buf, bs, n :: reqs =>
    let (got, buf', bs') := bpRead buf bs n
    if got.isEmpty then ([], true)
    else
      let (rest, eof) := bpDrain buf' bs' reqs
      (got ++ rest, eof)

/-- events of a source that can fail -/
inductive Ev where
  | data (bs : Bytes)
  | err
deriving Repr, DecidableEq

end Rpgp
