import RpgpModel.Wire
import RpgpProofs.Framing
/-! Proofs about the packet-body codecs of `RpgpModel/Wire.lean` (C05). -/
namespace Rpgp.Wire
open Rpgp

/-! ## primitive readers -/

theorem take_append (a r : Bytes) : take a.length (a ++ r) = some (a, r) := by
  simp [take]

theorem take_append' (n : Nat) (a r : Bytes) (h : a.length = n) : take n (a ++ r) = some (a, r) := by
  subst h; exact take_append a r

theorem take_eq_some {n : Nat} {b x r : Bytes} (h : take n b = some (x, r)) :
    b = x ++ r ∧ x.length = n := by
  unfold take at h
  split at h
  · simp at h
  · simp only [Option.some.injEq, Prod.mk.injEq] at h
    obtain ⟨rfl, rfl⟩ := h
    constructor
    · simp
    · simp; omega

theorem take_all (b : Bytes) : take b.length b = some (b, []) := by
  have := take_append b []
  simpa using this

theorem u8_cons (x : Byte) (r : Bytes) : u8 (x :: r) = some (x, r) := rfl

theorem u8_eq_some {b : Bytes} {x : Byte} {r : Bytes} (h : u8 b = some (x, r)) : b = x :: r := by
  cases b with
  | nil => simp [u8] at h
  | cons y t => simp [u8] at h; obtain ⟨rfl, rfl⟩ := h; rfl

/-! ## big-endian numbers -/

theorem beBytes_length (k n : Nat) : (beBytes k n).length = k := by
  induction k with
  | zero => simp [beBytes]
  | succ k ih => simp [beBytes, ih]

theorem beNat_be16 (n : Nat) (h : n < 65536) : beNat (be16 n) = n := by
  rw [be16_eq, beNat_two, toUInt8_toNat_of_lt _ (by omega), toUInt8_toNat_of_lt _ (by omega)]
  omega

theorem beNat_be32 (n : Nat) (h : n < 4294967296) : beNat (be32 n) = n := by
  rw [be32_eq, beNat_four, toUInt8_toNat_of_lt _ (by omega), toUInt8_toNat_of_lt _ (by omega),
    toUInt8_toNat_of_lt _ (by omega), toUInt8_toNat_of_lt _ (by omega)]
  omega

theorem be16_length (n : Nat) : (be16 n).length = 2 := beBytes_length 2 n
theorem be32_length (n : Nat) : (be32 n).length = 4 := beBytes_length 4 n

/-- a two-octet string is the big-endian encoding of its value -/
theorem be16_beNat (h : Bytes) (hl : h.length = 2) : be16 (beNat h) = h := by
  match h, hl with
  | [a, b], _ =>
    have ha := a.toNat_lt
    have hb := b.toNat_lt
    rw [beNat_two, be16_eq]
    have h1 : (a.toNat * 256 + b.toNat) / 256 % 256 = a.toNat := by omega
    have h2 : (a.toNat * 256 + b.toNat) % 256 = b.toNat := by omega
    simp [h1, h2]

theorem be32_beNat (h : Bytes) (hl : h.length = 4) : be32 (beNat h) = h := by
  match h, hl with
  | [a, b, c, d], _ =>
    have ha := a.toNat_lt
    have hb := b.toNat_lt
    have hc := c.toNat_lt
    have hd := d.toNat_lt
    rw [beNat_four, be32_eq]
    have h1 : (a.toNat * 16777216 + b.toNat * 65536 + c.toNat * 256 + d.toNat) / 16777216 % 256 = a.toNat := by omega
    have h2 : (a.toNat * 16777216 + b.toNat * 65536 + c.toNat * 256 + d.toNat) / 65536 % 256 = b.toNat := by omega
    have h3 : (a.toNat * 16777216 + b.toNat * 65536 + c.toNat * 256 + d.toNat) / 256 % 256 = c.toNat := by omega
    have h4 : (a.toNat * 16777216 + b.toNat * 65536 + c.toNat * 256 + d.toNat) % 256 = d.toNat := by omega
    simp [h1, h2, h3, h4]

theorem beNat_two_lt (h : Bytes) (hl : h.length = 2) : beNat h < 65536 := by
  match h, hl with
  | [a, b], _ =>
    have ha := a.toNat_lt
    have hb := b.toNat_lt
    rw [beNat_two]; omega

theorem beNat_four_lt (h : Bytes) (hl : h.length = 4) : beNat h < 4294967296 := by
  match h, hl with
  | [a, b, c, d], _ =>
    have ha := a.toNat_lt
    have hb := b.toNat_lt
    have hc := c.toNat_lt
    have hd := d.toNat_lt
    rw [beNat_four]; omega

/-! ## MPI -/

theorem byteBits_le (x : Byte) : byteBits x ≤ 8 := by
  unfold byteBits; repeat (split; omega)
  omega

theorem byteBits_pos (x : Byte) (h : x ≠ 0) : 1 ≤ byteBits x := by
  have : x.toNat ≠ 0 := fun e => h (UInt8.toNat_inj.mp (by simpa using e))
  unfold byteBits; repeat (split; omega)
  omega

theorem stripZeros_fixed {m : Bytes} (h : stripZeros m = m) : m = [] ∨ ∃ x r, m = x :: r ∧ x ≠ 0 := by
  cases m with
  | nil => exact Or.inl rfl
  | cons x r =>
    right
    refine ⟨x, r, rfl, ?_⟩
    intro hx
    subst hx
    simp only [stripZeros, if_true] at h
    have : (stripZeros r).length ≤ r.length := by
      clear h
      induction r with
      | nil => simp [stripZeros]
      | cons y t ih => simp only [stripZeros]; split <;> simp <;> omega
    rw [h] at this
    simp at this
    omega

theorem stripZeros_length_le (b : Bytes) : (stripZeros b).length ≤ b.length := by
  induction b with
  | nil => simp [stripZeros]
  | cons y t ih => simp only [stripZeros]; split <;> simp <;> omega

theorem stripZeros_idem (b : Bytes) : stripZeros (stripZeros b) = stripZeros b := by
  induction b with
  | nil => simp [stripZeros]
  | cons y t ih =>
    simp only [stripZeros]
    split
    · exact ih
    · rename_i h; simp [stripZeros, h]

theorem bitLen_le (m : Bytes) : bitLen m ≤ 8 * m.length := by
  cases m with
  | nil => simp [bitLen]
  | cons x r => have := byteBits_le x; simp [bitLen]; omega

/-- octets needed for the announced bit count = octets stored, when there is no leading zero -/
theorem bitLen_bytes {m : Bytes} (h : stripZeros m = m) : (bitLen m + 7) / 8 = m.length := by
  rcases stripZeros_fixed h with rfl | ⟨x, r, rfl, hx⟩
  · simp [bitLen]
  · have h1 := byteBits_pos x hx
    have h2 := byteBits_le x
    simp [bitLen]; omega

theorem mpiSer_length (m : Bytes) : (mpiSer m).length = mpiWriteLen m := by
  simp [mpiSer, mpiWriteLen, be16_length]

theorem mpi_parse_ser (m rest : Bytes) (h : MpiWF m) : mpiParse (mpiSer m ++ rest) = some (m, rest) := by
  obtain ⟨hs, hb⟩ := h
  have hb' : bitLen m ≤ 16384 := hb
  unfold mpiParse mpiSer
  rw [List.append_assoc, take_append' 2 _ _ (be16_length _)]
  simp only [beNat_be16 _ (show bitLen m < 65536 by omega)]
  have : ¬ (Gen.mpiMaxBits < bitLen m) := by simp [Gen.mpiMaxBits]; omega
  simp only [this, if_false, bitLen_bytes hs, take_append, hs]

theorem mpi_parse_wf {b m r : Bytes} (h : mpiParse b = some (m, r)) : MpiWF m := by
  unfold mpiParse at h
  split at h
  · simp at h
  · rename_i hd r0 ht
    split at h
    · simp at h
    · rename_i hmax
      split at h
      · simp at h
      · rename_i raw r' ht2
        simp only [Option.some.injEq, Prod.mk.injEq] at h
        obtain ⟨rfl, rfl⟩ := h
        refine ⟨stripZeros_idem raw, ?_⟩
        have h1 := (take_eq_some ht2).2
        have h2 := stripZeros_length_le raw
        have h3 := bitLen_le (stripZeros raw)
        simp only [Gen.mpiMaxBits] at hmax ⊢
        omega

/-- what the parser consumed, and that re-serialising gives the input back exactly when the
announced bit count is the true one (and there is no leading zero octet) -/
theorem mpi_ser_parse {b m r : Bytes} (h : mpiParse b = some (m, r)) :
    ∃ hd raw, b = hd ++ raw ++ r ∧ hd.length = 2 ∧ m = stripZeros raw ∧
      (mpiSer m ++ r = b ↔ (stripZeros raw = raw ∧ beNat hd = bitLen raw)) := by
  unfold mpiParse at h
  split at h
  · simp at h
  · rename_i hd r0 ht
    split at h
    · simp at h
    · rename_i hmax
      split at h
      · simp at h
      · rename_i raw r' ht2
        simp only [Option.some.injEq, Prod.mk.injEq] at h
        obtain ⟨rfl, rfl⟩ := h
        obtain ⟨e1, l1⟩ := take_eq_some ht
        obtain ⟨e2, l2⟩ := take_eq_some ht2
        refine ⟨hd, raw, by rw [e1, e2, List.append_assoc], l1, rfl, ?_⟩
        subst e1 e2
        have hb : beNat hd ≤ 16384 := by simp [Gen.mpiMaxBits] at hmax; omega
        have hraw := bitLen_le raw
        constructor
        · intro heq
          simp only [mpiSer, List.append_assoc] at heq
          have hlen : (be16 (bitLen (stripZeros raw))).length = hd.length := by rw [be16_length, l1]
          have h1 := List.append_inj heq hlen
          have h2 : stripZeros raw = raw := (List.append_cancel_right_eq _ _ _).mp h1.2
          refine ⟨h2, ?_⟩
          have h3 : be16 (bitLen raw) = hd := by rw [← h2]; exact h1.1
          rw [← h3, beNat_be16]
          omega
        · rintro ⟨hs, hbits⟩
          simp only [mpiSer, hs, ← hbits, be16_beNat hd l1, List.append_assoc]

theorem mpisSer_length (ms : List Bytes) : (mpisSer ms).length = mpisWriteLen ms := by
  induction ms with
  | nil => simp [mpisSer, mpisWriteLen]
  | cons m t ih =>
    simp only [mpisSer, mpisWriteLen, List.map_cons, List.flatten_cons, List.length_append, List.sum_cons] at ih ⊢
    rw [mpiSer_length, ih]

theorem mpisSer_cons (m : Bytes) (t : List Bytes) : mpisSer (m :: t) = mpiSer m ++ mpisSer t := by
  simp [mpisSer]

theorem mpis_parse_ser (ms : List Bytes) (rest : Bytes) (h : ∀ m ∈ ms, MpiWF m) :
    mpisParse ms.length (mpisSer ms ++ rest) = some (ms, rest) := by
  induction ms with
  | nil => simp [mpisParse, mpisSer]
  | cons m t ih =>
    simp only [List.length_cons, mpisParse, mpisSer_cons, List.append_assoc]
    rw [mpi_parse_ser m _ (h m (by simp))]
    simp only [ih (fun x hx => h x (by simp [hx]))]

theorem mpis_parse_wf : ∀ (n : Nat) (b : Bytes) (ms : List Bytes) (r : Bytes),
    mpisParse n b = some (ms, r) → ms.length = n ∧ ∀ m ∈ ms, MpiWF m := by
  intro n
  induction n with
  | zero => intro b ms r h; simp [mpisParse] at h; obtain ⟨rfl, _⟩ := h; simp
  | succ n ih =>
    intro b ms r h
    simp only [mpisParse] at h
    split at h
    · simp at h
    · rename_i m r1 hm
      split at h
      · simp at h
      · rename_i ms' r2 hms
        simp only [Option.some.injEq, Prod.mk.injEq] at h
        obtain ⟨rfl, rfl⟩ := h
        obtain ⟨hl, hw⟩ := ih _ _ _ hms
        refine ⟨by simp [hl], ?_⟩
        intro x hx
        simp at hx
        rcases hx with rfl | hx
        · exact mpi_parse_wf hm
        · exact hw x hx

/-! ## S2K -/

theorem s2kSer_length (s : S2k) : (s2kSer s).length = s2kWriteLen s := by
  cases s <;> simp [s2kSer, s2kWriteLen] <;> omega

theorem s2k_parse_ser (s : S2k) (rest : Bytes) (h : S2kWF s) (hr : s.isOther = true → rest = []) :
    s2kParse (s2kSer s ++ rest) = some (s, rest) := by
  cases s with
  | simple hash => simp [s2kSer, s2kParse, u8]
  | salted hash salt =>
    simp only [S2kWF] at h
    simp [s2kSer, s2kParse, u8, take_append' _ salt rest h]
  | iterated hash salt c =>
    simp only [S2kWF] at h
    simp [s2kSer, s2kParse, u8, take_append' _ salt _ h]
  | argon2 salt t p m =>
    simp only [S2kWF] at h
    simp [s2kSer, s2kParse, u8, take_append' _ salt _ h]
  | other t u =>
    simp only [S2kWF] at h
    have := hr rfl
    subst this
    simp [s2kSer, s2kParse, u8, h.1, h.2.1, h.2.2.1, h.2.2.2]

theorem s2k_parse_wf {b : Bytes} {s : S2k} {r : Bytes} (h : s2kParse b = some (s, r)) : S2kWF s := by
  unfold s2kParse at h
  split at h
  · simp at h
  · rename_i t r0 _
    by_cases c0 : t.toNat = 0
    · simp only [c0, if_true] at h
      split at h <;> simp at h
      obtain ⟨rfl, _⟩ := h; simp [S2kWF]
    · by_cases c1 : t.toNat = 1
      · simp only [c1, if_true] at h
        simp only [show ¬ ((1 : Nat) = 0) by decide, if_false] at h
        split at h
        · split at h
          · rename_i ht
            simp at h; obtain ⟨rfl, _⟩ := h
            exact (take_eq_some ht).2
          · simp at h
        · simp at h
      · by_cases c3 : t.toNat = 3
        · simp only [c3, if_true, show ¬ ((3 : Nat) = 0) by decide, show ¬ ((3 : Nat) = 1) by decide, if_false] at h
          split at h
          · split at h
            · rename_i ht
              split at h
              · simp at h; obtain ⟨rfl, _⟩ := h
                exact (take_eq_some ht).2
              · simp at h
            · simp at h
          · simp at h
        · by_cases c4 : t.toNat = 4
          · simp only [c4, if_true, show ¬ ((4 : Nat) = 0) by decide, show ¬ ((4 : Nat) = 1) by decide,
              show ¬ ((4 : Nat) = 3) by decide, if_false] at h
            split at h
            · rename_i ht
              split at h
              · simp at h; obtain ⟨rfl, _⟩ := h
                exact (take_eq_some ht).2
              · simp at h
            · simp at h
          · simp only [c0, c1, c3, c4, if_false] at h
            simp at h; obtain ⟨rfl, _⟩ := h
            exact ⟨c0, c1, c3, c4⟩

/-! ## secret-key S2K section -/

theorem s2kLen_eq {k : S2k} {n : Nat} (hw : S2kWF k) (h : s2kLen k = some n) :
    s2kWriteLen k = n ∧ n ≤ 20 ∧ k.isOther = false := by
  cases k <;> simp [s2kLen, S2kWF, S2k.isOther, s2kWriteLen, Gen.s2kLenSimple, Gen.s2kLenSalted, Gen.s2kLenIterated,
    Gen.s2kLenArgon2, Gen.s2kSaltLen, Gen.s2kArgonSaltLen] at * <;> omega

theorem symBlockSize_le (a : Byte) : symBlockSize a ≤ 16 := by
  unfold symBlockSize; split <;> (try split) <;> omega

theorem aeadNonceSize_le (a : Byte) : aeadNonceSize a ≤ 16 := by
  unfold aeadNonceSize; simp [Gen.aeadNonceEax, Gen.aeadNonceOcb, Gen.aeadNonceGcm]
  split <;> (try split) <;> (try split) <;> omega

theorem secret_len (v6 : Bool) (s : Secret) (b : Bytes) (h : secretSer v6 s = some b) :
    b.length = secretWriteLen v6 s := by
  obtain ⟨p, d⟩ := s
  cases p with
  | unprotected => simp [secretSer] at h; subst h; simp [secretWriteLen]; omega
  | legacyCfb sym iv =>
    cases v6 <;> simp [secretSer, secretFields] at h
    · subst h; simp [secretWriteLen]; omega
    · obtain ⟨_, rfl⟩ := h; simp [secretWriteLen]; omega
  | aead sym mode k nonce =>
    cases v6
    · simp [secretSer, secretFields] at h
      subst h; simp [secretWriteLen, s2kSer_length]; omega
    · cases hk : s2kLen k with
      | none => simp [secretSer, secretFields, hk] at h
      | some l =>
        simp [secretSer, secretFields, hk] at h
        obtain ⟨_, rfl⟩ := h
        simp [secretWriteLen, s2kSer_length]; omega
  | cfb sym k iv =>
    cases v6
    · simp [secretSer, secretFields] at h
      subst h; simp [secretWriteLen, s2kSer_length]; omega
    · cases hk : s2kLen k with
      | none => simp [secretSer, secretFields, hk] at h
      | some l =>
        simp [secretSer, secretFields, hk] at h
        obtain ⟨_, rfl⟩ := h
        simp [secretWriteLen, s2kSer_length]; omega
  | malleableCfb sym k iv =>
    cases v6 <;> simp [secretSer, secretFields] at h
    · subst h; simp [secretWriteLen, s2kSer_length]; omega
    · obtain ⟨_, rfl⟩ := h; simp [secretWriteLen, s2kSer_length]; omega

theorem s2kInSecret_v4 (k : S2k) (rest : Bytes) (hw : S2kWF k) (ho : k.isOther = true → rest = []) :
    s2kInSecret false (s2kSer k ++ rest) = some (k, rest) := by
  simp [s2kInSecret, s2k_parse_ser k rest hw ho]

theorem s2kInSecret_v6 (k : S2k) (l : Nat) (rest : Bytes) (hw : S2kWF k) (hl : s2kLen k = some l) :
    s2kInSecret true (l.toUInt8 :: (s2kSer k ++ rest)) = some (k, rest) := by
  obtain ⟨_, hle, hno⟩ := s2kLen_eq hw hl
  have h1 : l.toUInt8.toNat = l := toUInt8_toNat_of_lt l (by omega)
  simp [s2kInSecret, u8, s2k_parse_ser k rest hw (by simp [hno]), hl, h1]

theorem secret_parse_ser (v6 : Bool) (s : Secret) (b : Bytes) (hw : SecretWF v6 s)
    (h : secretSer v6 s = some b) : secretParseChecked v6 b = some s := by
  obtain ⟨p, d⟩ := s
  cases p with
  | unprotected =>
    simp [secretSer] at h; subst h
    cases v6 <;> simp [secretParseChecked, secretParse, u8, usageOctet]
  | legacyCfb sym iv =>
    simp only [SecretWF, Gen.usageAead] at hw
    obtain ⟨rfl, h1, h2, h3⟩ := hw
    simp [secretSer, secretFields] at h; subst h
    have c0 : ¬ sym.toNat = 0 := by omega
    have c1 : ¬ sym.toNat = 253 := by omega
    have c2 : ¬ sym.toNat = 254 := by omega
    have c3 : ¬ sym.toNat = 255 := by omega
    simp [secretParseChecked, secretParse, secretCount, secretProtected, u8, usageOctet, c0, c1, c2, c3, Gen.usageAead, Gen.usageCfb,
      Gen.usageMalleableCfb, take_append' _ iv d h3]
  | aead sym mode k nonce =>
    simp only [SecretWF] at hw
    obtain ⟨hk, hn, hv, ho⟩ := hw
    cases v6
    · simp [secretSer, secretFields] at h; subst h
      have ho' : k.isOther = true → nonce ++ d = [] := by intro hh; simp [ho hh]
      simp [secretParseChecked, secretParse, secretCount, secretProtected, u8, usageOctet, Gen.usageAead, s2kInSecret_v4 k _ hk ho',
        take_append' _ nonce d hn]
    · obtain ⟨l, hl⟩ := Option.isSome_iff_exists.mp (hv rfl)
      obtain ⟨hwl, hle, _⟩ := s2kLen_eq hk hl
      have hnl := aeadNonceSize_le mode
      simp [secretSer, secretFields, hl] at h
      obtain ⟨hf, rfl⟩ := h
      have hfl : (2 + (s2kSer k).length + nonce.length + 1) < 256 := by rw [s2kSer_length]; omega
      have h1 : ¬ ((s2kSer k).length + nonce.length + 1 + 1 + 1) % 256 = 0 := by omega
      simp [secretParseChecked, secretParse, secretCount, secretProtected, u8, usageOctet, Gen.usageAead, Gen.usageCfb, h1,
        s2kInSecret_v6 k l _ hk hl, take_append' _ nonce d hn]
  | cfb sym k iv =>
    simp only [SecretWF] at hw
    obtain ⟨hk, hn, hv, ho⟩ := hw
    cases v6
    · simp [secretSer, secretFields] at h; subst h
      have ho' : k.isOther = true → iv ++ d = [] := by intro hh; simp [ho hh]
      simp [secretParseChecked, secretParse, secretCount, secretProtected, u8, usageOctet, Gen.usageAead, Gen.usageCfb,
        s2kInSecret_v4 k _ hk ho', take_append' _ iv d hn]
    · obtain ⟨l, hl⟩ := Option.isSome_iff_exists.mp (hv rfl)
      obtain ⟨hwl, hle, _⟩ := s2kLen_eq hk hl
      have hnl := symBlockSize_le sym
      simp [secretSer, secretFields, hl] at h
      obtain ⟨hf, rfl⟩ := h
      have hfl : (s2kSer k).length + iv.length + 1 + 1 < 256 := by rw [s2kSer_length]; omega
      have h1 : ¬ ((s2kSer k).length + iv.length + 1 + 1) % 256 = 0 := by omega
      simp [secretParseChecked, secretParse, secretCount, secretProtected, u8, usageOctet, Gen.usageAead, Gen.usageCfb, h1,
        s2kInSecret_v6 k l _ hk hl, take_append' _ iv d hn]
  | malleableCfb sym k iv =>
    simp only [SecretWF] at hw
    obtain ⟨rfl, hk, hn, ho⟩ := hw
    simp [secretSer, secretFields] at h; subst h
    have ho' : k.isOther = true → iv ++ d = [] := by intro hh; simp [ho hh]
    simp [secretParseChecked, secretParse, secretCount, secretProtected, u8, usageOctet, Gen.usageAead, Gen.usageCfb,
      Gen.usageMalleableCfb, s2k_parse_ser k _ hk ho', take_append' _ iv d hn]

theorem s2k_parse_other {b : Bytes} {k : S2k} {r : Bytes} (h : s2kParse b = some (k, r))
    (ho : k.isOther = true) : r = [] := by
  unfold s2kParse at h
  split at h
  · simp at h
  · rename_i t r0 _
    split at h
    · split at h <;> simp at h; obtain ⟨rfl, _⟩ := h; simp [S2k.isOther] at ho
    · split at h
      · split at h
        · split at h <;> simp at h
          obtain ⟨rfl, _⟩ := h; simp [S2k.isOther] at ho
        · simp at h
      · split at h
        · split at h
          · split at h
            · split at h <;> simp at h
              obtain ⟨rfl, _⟩ := h; simp [S2k.isOther] at ho
            · simp at h
          · simp at h
        · split at h
          · split at h
            · split at h <;> simp at h
              obtain ⟨rfl, _⟩ := h; simp [S2k.isOther] at ho
            · simp at h
          · simp at h; exact h.2

theorem s2kInSecret_wf {v6 : Bool} {b : Bytes} {k : S2k} {r : Bytes} (h : s2kInSecret v6 b = some (k, r)) :
    S2kWF k ∧ (v6 = true → (s2kLen k).isSome) ∧ (k.isOther = true → r = []) := by
  cases v6
  · simp only [s2kInSecret, Bool.false_eq_true, if_false] at h
    exact ⟨s2k_parse_wf h, by simp, s2k_parse_other h⟩
  · simp only [s2kInSecret, if_true] at h
    split at h
    · simp at h
    · split at h
      · simp at h
      · rename_i s r' hp
        split at h
        · simp at h
        · rename_i n hn
          split at h
          · simp at h; obtain ⟨rfl, rfl⟩ := h
            exact ⟨s2k_parse_wf hp, by simp [hn], s2k_parse_other hp⟩
          · simp at h

theorem secretProtected_wf {v6 : Bool} {u : Byte} {r : Bytes} {s : Secret}
    (h : secretProtected v6 u r = some s) (hu0 : u.toNat ≠ 0) :
    usageOctet s.params = u ∧
      ((v6 = true → u.toNat = Gen.usageAead ∨ u.toNat = Gen.usageCfb) → SecretWF v6 s) := by
  unfold secretProtected at h
  split at h
  · -- aead
    rename_i hua
    split at h
    · rename_i sym mode r2
      split at h
      · simp at h
      · rename_i k r3 hk
        split at h
        · simp at h
        · rename_i nonce r4 hn
          simp at h; subst h
          obtain ⟨w1, w2, w3⟩ := s2kInSecret_wf hk
          obtain ⟨e, l⟩ := take_eq_some hn
          refine ⟨?_, fun _ => ⟨w1, l, w2, ?_⟩⟩
          · apply UInt8.toNat_inj.mp; simp [usageOctet, hua, Gen.usageAead]
          · intro ho
            have := w3 ho
            subst this
            have e' : nonce = [] ∧ r4 = [] := by simpa using e.symm
            exact e'
    · simp at h
  · split at h
    · -- cfb
      rename_i hua huc
      split at h
      · simp at h
      · rename_i sym r2 _
        split at h
        · simp at h
        · rename_i k r3 hk
          split at h
          · simp at h
          · rename_i iv r4 hn
            simp at h; subst h
            obtain ⟨w1, w2, w3⟩ := s2kInSecret_wf hk
            obtain ⟨e, l⟩ := take_eq_some hn
            refine ⟨?_, fun _ => ⟨w1, l, w2, ?_⟩⟩
            · apply UInt8.toNat_inj.mp; simp [usageOctet, huc, Gen.usageCfb]
            · intro ho
              have := w3 ho
              subst this
              have e' : iv = [] ∧ r4 = [] := by simpa using e.symm
              exact e'
    · split at h
      · -- usage 255: malleable CFB, version 4 layout only
        rename_i hua huc hum
        split at h
        · simp at h
        · rename_i sym r2 _
          split at h
          · simp at h
          · rename_i k r3 hk
            split at h
            · simp at h
            · rename_i iv r4 hn
              simp at h; subst h
              obtain ⟨e, l⟩ := take_eq_some hn
              refine ⟨?_, fun hv => ?_⟩
              · apply UInt8.toNat_inj.mp; simp [usageOctet, hum, Gen.usageMalleableCfb]
              · have hv4 : v6 = false := by
                  cases v6
                  · rfl
                  · rcases hv rfl with c | c
                    · exact absurd c hua
                    · exact absurd c huc
                refine ⟨hv4, s2k_parse_wf hk, l, ?_⟩
                intro ho
                have := s2k_parse_other hk ho
                subst this
                have e' : iv = [] ∧ r4 = [] := by simpa using e.symm
                exact e'
      · rename_i hua huc hum
        split at h
        · simp at h
        · rename_i iv r2 hn
          simp at h; subst h
          refine ⟨rfl, fun hv => ?_⟩
          have hv4 : v6 = false := by
            cases v6
            · rfl
            · rcases hv rfl with c | c
              · exact absurd c hua
              · exact absurd c huc
          have hlt := u.toNat_lt
          simp only [Gen.usageAead, Gen.usageCfb, Gen.usageMalleableCfb] at hua huc hum
          exact ⟨hv4, by omega, by simp only [Gen.usageAead]; omega, (take_eq_some hn).2⟩

/-- the parser only returns well-formed values (D5b fixed: also for usage octet 255) -/
theorem secret_parse_wf {v6 : Bool} {b : Bytes} {s : Secret} (h : secretParseChecked v6 b = some s) :
    SecretWF v6 s := by
  unfold secretParseChecked at h
  split at h
  · simp at h
  · rename_i s0 hp
    have hs : s0 = s ∧ (v6 = true → (usageOctet s0.params).toNat = 0 ∨ (usageOctet s0.params).toNat = Gen.usageAead ∨
        (usageOctet s0.params).toNat = Gen.usageCfb) := by
      cases v6
      · simp at h; exact ⟨h, by simp⟩
      · simp only [if_true] at h
        split at h
        · rename_i hc; simp at h; exact ⟨h, fun _ => hc⟩
        · simp at h
    obtain ⟨rfl, hu⟩ := hs
    clear h
    unfold secretParse at hp
    split at hp
    · simp at hp
    · rename_i u r hb
      split at hp
      · simp at hp; subst hp; simp [SecretWF]
      · rename_i hu0
        split at hp
        · simp at hp
        · rename_i r' _
          obtain ⟨hoct, hw⟩ := secretProtected_wf hp hu0
          apply hw
          intro hv
          have := hu hv
          rw [hoct] at this
          rcases this with c | c | c
          · exact absurd c hu0
          · exact Or.inl c
          · exact Or.inr c

/-! ## subpackets -/

theorem subLenSer_length (form len : Nat) (h : SubLenWF form len) :
    (subLenSer form len).length = subLenWriteLen form := by
  rcases h with ⟨rfl, _⟩ | ⟨rfl, _⟩ | ⟨rfl, _⟩ <;> simp [subLenSer, subLenWriteLen, be32_length]

theorem subLen_parse_ser (form len : Nat) (rest : Bytes) (h : SubLenWF form len) :
    subLenParse (subLenSer form len ++ rest) = some (form, len, rest) := by
  rcases h with ⟨rfl, hl⟩ | ⟨rfl, h1, h2⟩ | ⟨rfl, hl⟩
  · have : len.toUInt8.toNat = len := toUInt8_toNat_of_lt _ (by omega)
    simp [subLenSer, subLenParse, this, Gen.subLenOneMax]; omega
  · have e1 : ((len - 192) / 256 + 192).toUInt8.toNat = (len - 192) / 256 + 192 := toUInt8_toNat_of_lt _ (by omega)
    have e2 : ((len - 192) % 256).toUInt8.toNat = (len - 192) % 256 := toUInt8_toNat_of_lt _ (by omega)
    have c1 : ¬ ((len - 192) / 256 + 192 ≤ 191) := by omega
    have c2 : (len - 192) / 256 + 192 ≤ 254 := by omega
    have e3 : ((len - 192) / 256 + 192 - 192) * 256 + 192 + (len - 192) % 256 = len := by omega
    simp only [subLenSer, show ¬ ((2 : Nat) = 1) by decide, if_false, if_true, List.cons_append, List.nil_append,
      subLenParse, e1, e2, Gen.subLenOneMax, Gen.subLenTwoMax, c1, c2, e3]
  · have c1 : ¬ ((255 : UInt8).toNat ≤ 191) := by decide
    have c2 : ¬ ((255 : UInt8).toNat ≤ 254) := by decide
    simp only [subLenSer, show ¬ ((5 : Nat) = 1) by decide, show ¬ ((5 : Nat) = 2) by decide, if_false,
      List.cons_append, subLenParse, Gen.subLenOneMax, Gen.subLenTwoMax, c1, c2,
      take_append' 4 _ rest (be32_length len), beNat_be32 len hl]

theorem subLen_parse_wf {b : Bytes} {form len : Nat} {r : Bytes} (h : subLenParse b = some (form, len, r)) :
    SubLenWF form len := by
  cases b with
  | nil => simp [subLenParse] at h
  | cons o t =>
    have ho := o.toNat_lt
    simp only [subLenParse, Gen.subLenOneMax, Gen.subLenTwoMax] at h
    by_cases c1 : o.toNat ≤ 191
    · simp only [c1, if_true, Option.some.injEq, Prod.mk.injEq] at h
      obtain ⟨rfl, rfl, _⟩ := h; exact Or.inl ⟨rfl, by omega⟩
    · by_cases c2 : o.toNat ≤ 254
      · simp only [c1, c2, if_true, if_false] at h
        cases t with
        | nil => simp at h
        | cons a t' =>
          have := a.toNat_lt
          simp only [Option.some.injEq, Prod.mk.injEq] at h
          obtain ⟨rfl, rfl, _⟩ := h
          exact Or.inr (Or.inl ⟨rfl, by omega, by omega⟩)
      · simp only [c1, c2, if_false] at h
        cases ht : take 4 t with
        | none => simp [ht] at h
        | some p =>
          obtain ⟨l, r'⟩ := p
          simp only [ht, Option.some.injEq, Prod.mk.injEq] at h
          obtain ⟨rfl, rfl, _⟩ := h
          exact Or.inr (Or.inr ⟨rfl, beNat_four_lt l (take_eq_some ht).2⟩)

theorem typeOctet_roundtrip (typ : Byte) (critical : Bool) (h : typ.toNat < 128) :
    let t := (typ.toNat + (if critical then 128 else 0)).toUInt8
    (t.toNat % 128).toUInt8 = typ ∧ decide (128 ≤ t.toNat) = critical := by
  intro t
  have ht : t.toNat = typ.toNat + (if critical then 128 else 0) := by
    apply toUInt8_toNat_of_lt; cases critical <;> simp <;> omega
  cases critical
  · simp only [ht, Bool.false_eq_true, if_false, Nat.add_zero]
    refine ⟨?_, by simp; omega⟩
    rw [Nat.mod_eq_of_lt h]
    exact UInt8.toNat_inj.mp (toUInt8_toNat_of_lt _ (by omega))
  · simp only [ht, if_true]
    refine ⟨?_, by simp⟩
    have : (typ.toNat + 128) % 128 = typ.toNat := by omega
    rw [this]
    exact UInt8.toNat_inj.mp (toUInt8_toNat_of_lt _ (by omega))

theorem sub_parse_ser (emb : Bytes → Option Bytes) (s : Subpacket) (b rest : Bytes) (hw : SubWF emb s)
    (hs : subSer s = some b) : subParse emb (b ++ rest) = some (s, rest) := by
  obtain ⟨hl, hlen, htyp, hnorm, hdw⟩ := hw
  unfold subSer at hs
  rw [if_pos (by rw [hdw]; exact hlen)] at hs
  simp only [Option.some.injEq] at hs
  subst hs
  obtain ⟨h1, h2⟩ := typeOctet_roundtrip s.typ s.critical htyp
  have hne : ¬ (s.len = 0) := by omega
  have htk : take (s.len - 1) (s.body ++ rest) = some (s.body, rest) := take_append' _ _ _ (by omega)
  unfold subParse
  rw [List.append_assoc, List.append_assoc, subLen_parse_ser _ _ _ hl]
  simp only [hne, if_false, List.cons_append, List.nil_append, u8, htk, h1, hnorm, h2]

theorem sub_len (emb : Bytes → Option Bytes) (s : Subpacket) (b : Bytes) (hw : SubWF emb s) (hs : subSer s = some b) :
    b.length = subWriteLen s := by
  obtain ⟨hl, hlen, _, _, hdw⟩ := hw
  unfold subSer at hs
  split at hs
  · simp at hs; subst hs
    simp [subWriteLen, subLenSer_length _ _ hl]; omega
  · simp at hs

/-- without the well-formedness assumption: what is written is as long as announced exactly when
`SubpacketData::write_len` agrees with the data's length (false for non-ASCII key-server URLs) -/
theorem sub_len_iff (s : Subpacket) (b : Bytes) (hl : SubLenWF s.form s.len) (hs : subSer s = some b) :
    b.length = subWriteLen s ↔ subDataWriteLen s.typ s.body = s.body.length := by
  unfold subSer at hs
  split at hs
  · rename_i h
    simp at hs; subst hs
    simp [subWriteLen, subLenSer_length _ _ hl]; omega
  · simp at hs

theorem areaSer_cons {s : Subpacket} {ss : List Subpacket} {b : Bytes} (h : areaSer (s :: ss) = some b) :
    ∃ a t, subSer s = some a ∧ areaSer ss = some t ∧ b = a ++ t := by
  simp only [areaSer] at h
  split at h
  · rename_i a t ha ht
    simp at h; exact ⟨a, t, ha, ht, h.symm⟩
  · simp at h

theorem subSer_ne_nil {s : Subpacket} {a : Bytes} (h : subSer s = some a) : a ≠ [] := by
  unfold subSer at h
  split at h
  · simp at h; subst h; simp
  · simp at h

theorem area_parse_ser (emb : Bytes → Option Bytes) (ss : List Subpacket) : ∀ (b : Bytes) (fuel : Nat),
    (∀ s ∈ ss, SubWF emb s) → areaSer ss = some b → ss.length ≤ fuel → areaParse emb fuel b = some ss := by
  induction ss with
  | nil =>
    intro b fuel _ h _
    simp [areaSer] at h; subst h
    cases fuel <;> simp [areaParse]
  | cons s t ih =>
    intro b fuel hw h hf
    obtain ⟨a, tb, ha, ht, rfl⟩ := areaSer_cons h
    obtain ⟨f, rfl⟩ : ∃ f, fuel = f + 1 := ⟨fuel - 1, by simp at hf; omega⟩
    have hne : (a ++ tb).isEmpty = false := by
      have := subSer_ne_nil ha
      cases a <;> simp_all
    simp only [areaParse, hne, Bool.false_eq_true, if_false, sub_parse_ser emb s a tb (hw s (by simp)) ha,
      ih tb f (fun x hx => hw x (by simp [hx])) ht (by simp at hf; omega)]

theorem area_len (emb : Bytes → Option Bytes) (ss : List Subpacket) : ∀ (b : Bytes),
    (∀ s ∈ ss, SubWF emb s) → areaSer ss = some b → b.length = areaWriteLen ss := by
  induction ss with
  | nil => intro b _ h; simp [areaSer] at h; subst h; simp [areaWriteLen]
  | cons s t ih =>
    intro b hw h
    obtain ⟨a, tb, ha, ht, rfl⟩ := areaSer_cons h
    have h1 := sub_len emb s a (hw s (by simp)) ha
    have h2 := ih tb (fun x hx => hw x (by simp [hx])) ht
    simp only [areaWriteLen, List.map_cons, List.sum_cons, List.length_append] at h2 ⊢
    omega

theorem area_length_ge (ss : List Subpacket) (b : Bytes)
    (h : areaSer ss = some b) : ss.length ≤ b.length := by
  induction ss generalizing b with
  | nil => simp
  | cons s t ih =>
    obtain ⟨a, tb, ha, ht, rfl⟩ := areaSer_cons h
    have := subSer_ne_nil ha
    have := ih tb ht
    cases a <;> simp_all; omega

/-! ## signatures -/

theorem sigBytes_len (sb : SigBytes) : (sigBytesSer sb).length = sigBytesWriteLen sb := by
  cases sb <;> simp [sigBytesSer, sigBytesWriteLen, mpisSer_length]

theorem sigBytes_parse_ser (pk : Byte) (sb : SigBytes) (h : SigBytesWF pk sb) :
    sigBytesParse pk (sigBytesSer sb) = some sb := by
  cases sb with
  | mpis ms =>
    obtain ⟨hc, hw⟩ := h
    have := mpis_parse_ser ms [] hw
    simp only [List.append_nil] at this
    simp [sigBytesParse, sigBytesSer, hc, this]
  | native b =>
    obtain ⟨hc, h16, h27⟩ := h
    by_cases c : pk.toNat = 27
    · have hl := h27 c
      have := take_all b
      rw [hl] at this
      simp [sigBytesParse, sigBytesSer, hc, c, this]
    · simp [sigBytesParse, sigBytesSer, hc, h16, c]

theorem areaLen_take (v6 : Bool) (n : Nat) (rest : Bytes) (h : n < (if v6 then 4294967296 else 65536)) :
    take (areaLenOctets v6) (beBytes (areaLenOctets v6) n ++ rest) = some (beBytes (areaLenOctets v6) n, rest) ∧
      beNat (beBytes (areaLenOctets v6) n) = n := by
  cases v6
  · simp only [Bool.false_eq_true, if_false] at h
    exact ⟨take_append' _ _ _ (beBytes_length _ _), beNat_be16 n h⟩
  · simp only [if_true] at h
    exact ⟨take_append' _ _ _ (beBytes_length _ _), beNat_be32 n h⟩

theorem areaParseCanon_some {emb : Bytes → Option Bytes} {raw : Bytes} {hs : List Subpacket}
    (h : areaParseCanon emb raw = some hs) : areaParse emb (raw.length + 1) raw = some hs ∧ areaSer hs = some raw := by
  unfold areaParseCanon at h
  cases hp : areaParse emb (raw.length + 1) raw with
  | none => simp [hp] at h
  | some x =>
    simp only [hp] at h
    by_cases hc : areaSer x = some raw
    · rw [if_pos hc] at h
      cases h
      exact ⟨rfl, hc⟩
    · rw [if_neg hc] at h
      cases h

theorem areaParseCanon_of {emb : Bytes → Option Bytes} {raw : Bytes} {hs : List Subpacket}
    (hp : areaParse emb (raw.length + 1) raw = some hs) (hc : areaSer hs = some raw) :
    areaParseCanon emb raw = some hs := by
  unfold areaParseCanon
  simp [hp, hc]

theorem sig_len (emb : Bytes → Option Bytes) (s : Sig) (b : Bytes) (hw : SigWF emb s) (hs : sigSer s = some b) :
    b.length = sigWriteLen s := by
  cases s with
  | v3 ver typ created issuer pk hash left sb =>
    simp [sigSer] at hs; subst hs
    simp [sigWriteLen, sigBytes_len]; omega
  | unknown ver data => simp [sigSer] at hs; subst hs; simp [sigWriteLen]; omega
  | v4 v6 typ pk hash hashed unhashed left salt sb =>
    obtain ⟨hh, hu, _, _, _⟩ := hw
    cases hh' : areaSer hashed with
    | none => simp [sigSer, hh'] at hs
    | some h =>
      cases hu' : areaSer unhashed with
      | none => simp [sigSer, hh', hu'] at hs
      | some u =>
        have l1 := area_len emb hashed h hh hh'
        have l2 := area_len emb unhashed u hu hu'
        cases v6
        · simp [sigSer, hh', hu'] at hs
          obtain ⟨_, rfl⟩ := hs
          simp [sigWriteLen, sigBytes_len, beBytes_length, areaLenOctets, l1, l2]; omega
        · simp [sigSer, hh', hu'] at hs
          obtain ⟨_, rfl⟩ := hs
          simp [sigWriteLen, sigBytes_len, beBytes_length, areaLenOctets, l1, l2]; omega

theorem sig_parse_ser (emb : Bytes → Option Bytes) (s : Sig) (b : Bytes) (hw : SigWF emb s)
    (hs : sigSer s = some b) : sigParse emb b = some s := by
  cases s with
  | v3 ver typ created issuer pk hash left sb =>
    obtain ⟨hv, hc, hi, hl, hsb⟩ := hw
    simp [sigSer] at hs; subst hs
    match left, hl with
    | [l1, l2], _ =>
      have h5 : ¬ ((5 : UInt8).toNat ≠ Gen.sigV3HashedLen) := by decide
      simp only [sigParse, u8, hv, if_true, h5, if_false, List.append_assoc, take_append' 4 created _ hc,
        take_append' 8 issuer _ hi, List.cons_append, List.nil_append, sigBytes_parse_ser pk sb hsb]
  | unknown ver data =>
    obtain ⟨h2, h3, h4, h6⟩ := hw
    simp [sigSer] at hs; subst hs
    simp [sigParse, u8, h2, h3, h4, h6]
  | v4 v6 typ pk hash hashed unhashed left salt sb =>
    obtain ⟨hh, hu, hl, hsb, hv⟩ := hw
    cases hh' : areaSer hashed with
    | none => simp [sigSer, hh'] at hs
    | some h =>
      cases hu' : areaSer unhashed with
      | none => simp [sigSer, hh', hu'] at hs
      | some u =>
        have l1 := area_len emb hashed h hh hh'
        have l2 := area_len emb unhashed u hu hu'
        have p1 := area_parse_ser emb hashed h (h.length + 1) hh hh' (by have := area_length_ge hashed h hh'; omega)
        have p2 := area_parse_ser emb unhashed u (u.length + 1) hu hu' (by have := area_length_ge unhashed u hu'; omega)
        have pc1 := areaParseCanon_of p1 hh'
        cases v6
        · simp only [Bool.false_eq_true, if_false] at hv
          obtain ⟨rfl, b1, b2⟩ := hv
          simp [sigSer, hh', hu'] at hs
          obtain ⟨_, rfl⟩ := hs
          obtain ⟨t1, n1⟩ := areaLen_take false h.length (h ++ (beBytes (areaLenOctets false) u.length ++ (u ++ (left ++ sigBytesSer sb)))) (by rw [l1]; exact b1)
          obtain ⟨t2, n2⟩ := areaLen_take false u.length (u ++ (left ++ sigBytesSer sb)) (by rw [l2]; exact b2)
          have hv4 : ((4 : UInt8).toNat = 2 ∨ (4 : UInt8).toNat = 3) = False := by decide
          simp only [sigParse, u8, hv4, if_false,
            show ((4 : UInt8).toNat = 4 ∨ (4 : UInt8).toNat = 6) = True by decide, if_true,
            show decide ((4 : UInt8).toNat = 6) = false by decide, ← l1, ← l2, t1, n1, take_append, pc1, t2, n2, p2,
            take_append' 2 left _ hl, Bool.false_eq_true, sigBytes_parse_ser pk sb hsb]
        · simp only [if_true] at hv
          obtain ⟨hsalt, b1, b2⟩ := hv
          simp [sigSer, hh', hu'] at hs
          obtain ⟨⟨_, _, hs256⟩, rfl⟩ := hs
          have hsl : salt.length.toUInt8.toNat = salt.length := toUInt8_toNat_of_lt _ hs256
          obtain ⟨t1, n1⟩ := areaLen_take true h.length (h ++ (beBytes (areaLenOctets true) u.length ++ (u ++ (left ++ (salt.length.toUInt8 :: (salt ++ sigBytesSer sb)))))) (by rw [l1]; exact b1)
          obtain ⟨t2, n2⟩ := areaLen_take true u.length (u ++ (left ++ (salt.length.toUInt8 :: (salt ++ sigBytesSer sb)))) (by rw [l2]; exact b2)
          have hv6 : ((6 : UInt8).toNat = 2 ∨ (6 : UInt8).toNat = 3) = False := by decide
          simp only [sigParse, u8, hv6, if_false,
            show ((6 : UInt8).toNat = 4 ∨ (6 : UInt8).toNat = 6) = True by decide, if_true,
            show decide ((6 : UInt8).toNat = 6) = true by decide, ← l1, ← l2, t1, n1, take_append, pc1, t2, n2, p2,
            take_append' 2 left _ hl, hsl, hsalt, sigBytes_parse_ser pk sb hsb]

/-! ## keys -/

theorem pubParamsSer_length (pp : PubParams) (h : ∀ k, pp = .x25519 k → k.length = 32) :
    (pubParamsSer pp).length = pubParamsWriteLen pp := by
  cases pp with
  | x25519 k => simp [pubParamsSer, pubParamsWriteLen, h k rfl]
  | _ => simp [pubParamsSer, pubParamsWriteLen, mpiSer_length] <;> omega


theorem pubParams_parse_ser (trust : Bool) (alg : Byte) (len : Option Nat) (pp : PubParams) (rest : Bytes)
    (h : pubParamsFor alg pp)
    (hu : ∀ d, pp = .unknown d → (len = none ∧ rest = []) ∨ len = some d.length) :
    pubParamsParse trust alg len (pubParamsSer pp ++ rest) = some (pp, rest) := by
  cases pp with
  | blob d => simp [pubParamsFor] at h
  | unknown d =>
    obtain ⟨hm, h1, h2, h3⟩ := h
    have h1' : ¬ (alg.toNat = 1 ∨ alg.toNat = 2 ∨ alg.toNat = 3) := h1
    have h2' : ¬ (alg.toNat = 16 ∨ alg.toNat = 20) := h2
    have h3' : ¬ alg.toNat = 25 := h3
    rcases hu d rfl with ⟨rfl, rfl⟩ | rfl
    · simp [pubParamsParse, pubParamsSer, hm, h1', h2', h3']
    · simp [pubParamsParse, pubParamsSer, hm, h1', h2', h3', take_append]
  | rsa n e =>
    obtain ⟨ha, hn, he, hadm⟩ := h
    have hm : keyAlgModelled alg = true := by rcases ha with a | a | a <;> simp [keyAlgModelled, a]
    have := mpis_parse_ser [n, e] rest (by intro m hm; simp at hm; rcases hm with rfl | rfl <;> assumption)
    simp only [mpisSer, List.map_cons, List.map_nil, List.flatten_cons, List.flatten_nil, List.append_nil,
      List.length_cons, List.length_nil] at this
    simp only [pubParamsParse, pubParamsSer, hm, Bool.not_true, Bool.false_eq_true, if_false, ha, if_true, this, hadm]
  | elgamal p g y =>
    obtain ⟨ha, hp, hg, hy⟩ := h
    have hm : keyAlgModelled alg = true := by rcases ha with a | a <;> simp [keyAlgModelled, a]
    have h1 : ¬ (alg.toNat = 1 ∨ alg.toNat = 2 ∨ alg.toNat = 3) := by omega
    have := mpis_parse_ser [p, g, y] rest (by intro m hm; simp at hm; rcases hm with rfl | rfl | rfl <;> assumption)
    simp only [mpisSer, List.map_cons, List.map_nil, List.flatten_cons, List.flatten_nil, List.append_nil,
      List.length_cons, List.length_nil, List.append_assoc, Nat.zero_add] at this
    simp only [pubParamsParse, pubParamsSer, hm, Bool.not_true, Bool.false_eq_true, if_false, h1, ha, if_true,
      List.append_assoc, this]
  | x25519 k =>
    obtain ⟨ha, hk⟩ := h
    have hm : keyAlgModelled alg = true := by simp [keyAlgModelled, ha]
    simp [pubParamsParse, pubParamsSer, hm, ha, take_append' 32 k rest hk]

theorem pubKeySer_length (secret : Bool) (k : PubKey) (h : PubKeyWF secret k) :
    (pubKeySer k).length = pubKeyWriteLen k := by
  obtain ⟨hc, hp, hv⟩ := h
  have hl := pubParamsSer_length k.params (by intro x hx; rw [hx] at hp; exact hp.2)
  rcases hv with ⟨h3, he, _⟩ | ⟨h4, he⟩ | ⟨h6, he, _⟩
  · simp [pubKeySer, pubKeyWriteLen, h3, hc, he, hl]; omega
  · have n3 : isV3 k.version = false := by simp [isV3, h4]
    have n6 : isV6 k.version = false := by simp [isV6, h4]
    simp [pubKeySer, pubKeyWriteLen, n3, n6, hc, hl]; omega
  · have n3 : isV3 k.version = false := by simp [isV3, h6]
    have n6 : isV6 k.version = true := by simp [isV6, h6]
    simp [pubKeySer, pubKeyWriteLen, n3, n6, hc, hl, be32_length]; omega

theorem pubKey_parse_ser (trust secret : Bool) (k : PubKey) (rest : Bytes) (h : PubKeyWF secret k)
    (hu : k.version.toNat ≠ 6 → ∀ d, k.params = .unknown d → rest = []) :
    pubKeyParse trust secret (pubKeySer k ++ rest) = some (k, rest) := by
  obtain ⟨ver, created, exp, alg, pp⟩ := k
  obtain ⟨hc, hp, hv⟩ := h
  simp only at hc hp hv hu
  rcases hv with ⟨h3, he, ha⟩ | ⟨h4, rfl⟩ | ⟨h6, rfl, hlt, hne⟩
  · have hne6 : ver.toNat ≠ 6 := by simp [isV3] at h3; omega
    have hpp := pubParams_parse_ser trust alg none pp rest hp
      (by intro d hd; exact Or.inl ⟨rfl, hu hne6 d hd⟩)
    simp only [pubKeySer, h3, if_true, List.cons_append, List.append_assoc, pubKeyParse, pubKeyParseWith, u8,
      take_append' 4 created _ hc, take_append' 2 exp _ he, List.nil_append, ha, hpp]
  · have n3 : isV3 ver = false := by simp [isV3, h4]
    have n6 : isV6 ver = false := by simp [isV6, h4]
    have hpp := pubParams_parse_ser trust alg none pp rest hp
      (by intro d hd; exact Or.inl ⟨rfl, hu (by omega) d hd⟩)
    simp only [pubKeySer, n3, n6, Bool.false_eq_true, if_false, List.cons_append, List.append_assoc, pubKeyParse, pubKeyParseWith, u8,
      h4, if_true, take_append' 4 created _ hc, List.nil_append, hpp]
  · have n3 : isV3 ver = false := by simp [isV3, h6]
    have n6 : isV6 ver = true := by simp [isV6, h6]
    have hl := pubParamsSer_length pp (by intro x hx; rw [hx] at hp; exact hp.2)
    have hpp := pubParams_parse_ser trust alg (some (pubParamsWriteLen pp)) pp [] hp
      (by intro d hd; right; rw [hd]; simp [pubParamsWriteLen])
    simp only [List.append_nil] at hpp
    have htk : (pubParamsSer pp ++ rest).take (pubParamsWriteLen pp) = pubParamsSer pp := by
      rw [← hl]; simp
    have hdr : (pubParamsSer pp ++ rest).drop (pubParamsWriteLen pp) = rest := by
      rw [← hl]; simp
    simp only [pubKeySer, n3, n6, Bool.false_eq_true, if_false, if_true, List.cons_append, List.append_assoc,
      pubKeyParse, pubKeyParseWith, u8, h6, take_append' 4 created _ hc, List.nil_append,
      take_append' 4 (be32 _) _ (be32_length _), beNat_be32 _ hlt, htk, hdr, hpp]
    have hex : pubLenExact = true := by decide
    have hnz := hne (Or.inr hex)
    simp [hex, hnz]
    omega

/-! ## session-key packets -/

theorem pkeskVals_len (v : PkeskVals) (b : Bytes) (h : pkeskValsSer v = some b) : b.length = pkeskValsWriteLen v := by
  cases v with
  | rsa m => simp [pkeskValsSer] at h; subst h; simp [pkeskValsWriteLen, mpiSer_length]
  | elgamal x y => simp [pkeskValsSer] at h; subst h; simp [pkeskValsWriteLen, mpiSer_length]
  | ecdh pt esk =>
    simp [pkeskValsSer] at h; obtain ⟨_, rfl⟩ := h
    simp [pkeskValsWriteLen, mpiSer_length]; omega
  | xdh w eph sym esk =>
    cases sym with
    | none => simp [pkeskValsSer] at h; obtain ⟨_, rfl⟩ := h; simp [pkeskValsWriteLen]; omega
    | some a => simp [pkeskValsSer] at h; obtain ⟨_, rfl⟩ := h; simp [pkeskValsWriteLen]; omega
  | other k => simp [pkeskValsSer] at h; subst h; simp [pkeskValsWriteLen]

theorem pkeskVals_parse_ser (alg : Byte) (v3 : Bool) (v : PkeskVals) (b : Bytes) (hw : PkeskValsWF alg v3 v)
    (h : pkeskValsSer v = some b) : pkeskValsParse alg v3 b = some (v, []) := by
  cases v with
  | rsa m =>
    obtain ⟨hc, hm⟩ := hw
    simp [pkeskValsSer] at h; subst h
    have := mpi_parse_ser m [] hm
    simp only [List.append_nil] at this
    simp [pkeskValsParse, hc, this]
  | elgamal x y =>
    obtain ⟨hc, hx, hy⟩ := hw
    simp [pkeskValsSer] at h; subst h
    have := mpis_parse_ser [x, y] [] (by intro m hm; simp at hm; rcases hm with rfl | rfl <;> assumption)
    simp only [mpisSer, List.map_cons, List.map_nil, List.flatten_cons, List.flatten_nil, List.append_nil,
      List.length_cons, List.length_nil, Nat.zero_add] at this
    simp [pkeskValsParse, hc, this]
  | ecdh pt esk =>
    obtain ⟨hc, hp, hl⟩ := hw
    simp [pkeskValsSer, hl] at h; subst h
    have e1 : esk.length.toUInt8.toNat = esk.length := toUInt8_toNat_of_lt _ hl
    simp [pkeskValsParse, hc, mpi_parse_ser pt _ hp, u8, e1, take_all]
  | other k =>
    simp [pkeskValsSer] at h; subst h
    have hc : pkeskAlgClass alg = .rest := hw
    simp [pkeskValsParse, hc]
  | xdh w eph sym esk =>
    obtain ⟨hc, he, hs, hl⟩ := hw
    have e4 := take_all esk
    cases v3
    · have : sym = none := by cases sym <;> simp_all
      subst this
      simp only [Bool.false_eq_true, if_false] at hl
      simp [pkeskValsSer, hl.2] at h; subst h
      have e1 : esk.length.toUInt8.toNat = esk.length := toUInt8_toNat_of_lt _ hl.2
      have e2 : ¬ esk.length = 0 := by omega
      cases w
      · simp only [Bool.false_eq_true, if_false] at hc he
        simp only [pkeskValsParse, hc, xdhParse, Bool.false_eq_true, if_false, take_append' 32 eph _ he, u8, e1, e2, e4]
      · simp only [if_true] at hc he
        simp only [pkeskValsParse, hc, xdhParse, if_true, Bool.false_eq_true, if_false, take_append' 56 eph _ he, u8, e1, e2, e4]
    · obtain ⟨a, rfl⟩ : ∃ a, sym = some a := by cases sym <;> simp_all
      simp only [if_true] at hl
      simp only [pkeskValsSer, hl, if_true, Option.some.injEq] at h; subst h
      have e1 : (esk.length + 1).toUInt8.toNat = esk.length + 1 := toUInt8_toNat_of_lt _ hl
      have e2 : ¬ esk.length + 1 = 0 := by omega
      have e3 : esk.length + 1 - 1 = esk.length := by omega
      cases w
      · simp only [Bool.false_eq_true, if_false] at hc he
        simp only [pkeskValsParse, hc, xdhParse, Bool.false_eq_true, if_false, if_true, take_append' 32 eph _ he, u8, e1, e2, e3, e4]
      · simp only [if_true] at hc he
        simp only [pkeskValsParse, hc, xdhParse, if_true, take_append' 56 eph _ he, u8, e1, e2, e3, e4, if_false]

theorem pkesk_len (p : Pkesk) (b : Bytes) (h : pkeskSer p = some b) : b.length = pkeskWriteLen p := by
  cases p with
  | v3 id alg vals =>
    simp [pkeskSer] at h; obtain ⟨v, hv, rfl⟩ := h
    simp [pkeskWriteLen, pkeskVals_len vals v hv]; omega
  | v6 fp alg vals =>
    cases fp with
    | none =>
      simp [pkeskSer] at h; obtain ⟨v, hv, rfl⟩ := h
      simp [pkeskWriteLen, pkeskVals_len vals v hv]; omega
    | some kf =>
      obtain ⟨kv, f⟩ := kf
      simp [pkeskSer] at h; obtain ⟨v, hv, rfl⟩ := h
      simp [pkeskWriteLen, pkeskVals_len vals v hv]; omega
  | other ver data => simp [pkeskSer] at h; subst h; simp [pkeskWriteLen]; omega

theorem fpLenNew_le {kv : Byte} {n : Nat} (h : fpLenNew kv = some n) : n ≤ 32 := by
  unfold fpLenNew at h
  split at h
  · simp at h; omega
  · split at h
    · simp at h; omega
    · split at h <;> simp at h; omega

theorem pkesk_parse_ser (p : Pkesk) (b : Bytes) (hw : PkeskWF p) (h : pkeskSer p = some b) :
    pkeskParse b = some p := by
  cases p with
  | other ver data =>
    obtain ⟨h3, h6⟩ := hw
    simp [pkeskSer] at h; subst h
    simp [pkeskParse, u8, h3, h6]
  | v3 id alg vals =>
    obtain ⟨hi, hv⟩ := hw
    simp [pkeskSer] at h; obtain ⟨v, hvs, rfl⟩ := h
    simp [pkeskParse, u8, take_append' 8 id _ hi, pkeskVals_parse_ser alg true vals v hv hvs]
  | v6 fp alg vals =>
    cases fp with
    | none =>
      have hv : PkeskValsWF alg false vals := hw
      simp [pkeskSer] at h; obtain ⟨v, hvs, rfl⟩ := h
      simp [pkeskParse, u8, pkeskVals_parse_ser alg false vals v hv hvs]
    | some kf =>
      obtain ⟨kv, f⟩ := kf
      obtain ⟨hf, hv⟩ := hw
      simp [pkeskSer] at h; obtain ⟨v, hvs, rfl⟩ := h
      have hle := fpLenNew_le hf
      have e2 : ¬ (f.length + 1) % 256 = 0 := by omega
      have e3 : (f.length + 1) % 256 - 1 = f.length := by omega
      simp [pkeskParse, u8, e2, e3, take_append, hf, pkeskVals_parse_ser alg false vals v hv hvs]

theorem skesk_len (s : Skesk) (b : Bytes) (h : skeskSer s = some b) : b.length = skeskWriteLen s := by
  cases s with
  | v4 sym k esk => simp [skeskSer] at h; subst h; simp [skeskWriteLen, s2kSer_length]; omega
  | v5 sym k iv esk => simp [skeskSer] at h; subst h; simp [skeskWriteLen, s2kSer_length]; omega
  | v6 sym a k iv esk =>
    simp [skeskSer] at h; obtain ⟨_, rfl⟩ := h; simp [skeskWriteLen, s2kSer_length]; omega
  | other ver data => simp [skeskSer] at h; subst h; simp [skeskWriteLen]; omega

theorem skesk_parse_ser (s : Skesk) (b : Bytes) (hw : SkeskWF s) (h : skeskSer s = some b) :
    skeskParse b = some s := by
  cases s with
  | v4 sym k esk =>
    obtain ⟨hk, ho⟩ := hw
    simp [skeskSer] at h; subst h
    simp [skeskParse, u8, s2k_parse_ser k esk hk ho]
  | v5 sym k iv esk =>
    obtain ⟨hk, ho, hi, he⟩ := hw
    simp [skeskSer] at h; subst h
    simp [skeskParse, u8, s2k_parse_ser k _ hk (by simp [ho]), take_append' _ iv esk hi, ← he, take_all]
  | v6 sym a k iv esk =>
    obtain ⟨hk, ha, hi, he, hl⟩ := hw
    simp [skeskSer, hl] at h; subst h
    have e1 : (s2kWriteLen k).toUInt8.toNat = s2kWriteLen k := toUInt8_toNat_of_lt _ (by omega)
    have h1 : (s2kSer k ++ (iv ++ esk)).take (s2kWriteLen k) = s2kSer k := by rw [← s2kSer_length]; simp
    have h2 : (s2kSer k ++ (iv ++ esk)).drop (s2kWriteLen k) = iv ++ esk := by rw [← s2kSer_length]; simp
    have h3 := s2k_parse_ser k [] hk (by simp)
    simp only [List.append_nil] at h3
    have h4 : ¬ esk.length < 16 := by omega
    have h5 : ¬ Gen.wireSkesk6FieldsMax < 3 + s2kWriteLen k + iv.length := by simp only [Gen.wireSkesk6FieldsMax]; omega
    simp [skeskParse, u8, e1, h1, h2, h3, take_append' _ iv esk hi, ha, h4, h5]
  | other ver data =>
    obtain ⟨h4, h5, h6⟩ := hw
    simp [skeskSer] at h; subst h
    simp [skeskParse, u8, h4, h5, h6]

/-! ## one-pass signatures, literal data, SEIPD -/

theorem splitLast_append (d : Bytes) (l : Byte) : splitLast (d ++ [l]) = some (d, l) := by
  induction d with
  | nil => simp [splitLast]
  | cons x t ih =>
    cases t with
    | nil => simp [splitLast]
    | cons y t' =>
      simp only [List.cons_append] at ih ⊢
      simp only [splitLast, ih]

theorem ops_len (o : Ops) (b : Bytes) (h : opsSer o = some b) : b.length = opsWriteLen o := by
  cases o with
  | v3 t hh p id l => simp [opsSer] at h; subst h; simp [opsWriteLen]; omega
  | v6 t hh p salt fp l => simp [opsSer] at h; obtain ⟨_, rfl⟩ := h; simp [opsWriteLen]; omega
  | unknown v t hh p d l => simp [opsSer] at h; subst h; simp [opsWriteLen]; omega

theorem ops_parse_ser (o : Ops) (b : Bytes) (hw : OpsWF o) (h : opsSer o = some b) : opsParse b = some o := by
  cases o with
  | v3 t hh p id l =>
    have hi : id.length = 8 := hw
    simp [opsSer] at h; subst h
    simp [opsParse, take_append' 8 id [l] hi]
  | v6 t hh p salt fp l =>
    obtain ⟨hs, hf⟩ := hw
    simp [opsSer, hs] at h; subst h
    have e1 : salt.length.toUInt8.toNat = salt.length := toUInt8_toNat_of_lt _ hs
    simp [opsParse, u8, e1, take_append, take_append' 32 fp [l] hf]
  | unknown v t hh p d l =>
    obtain ⟨h3, h6⟩ := hw
    simp [opsSer] at h; subst h
    simp [opsParse, h3, h6, splitLast_append]

theorem literal_len (l : Literal) (b : Bytes) (h : literalSer l = some b) : b.length = literalWriteLen l := by
  simp [literalSer] at h; obtain ⟨_, rfl⟩ := h; simp [literalWriteLen]; omega

theorem literal_parse_ser (l : Literal) (b : Bytes) (hw : LiteralWF l) (h : literalSer l = some b) :
    literalParse b = some l := by
  obtain ⟨hn, hc⟩ := hw
  simp [literalSer, hn] at h; subst h
  have e1 : l.name.length.toUInt8.toNat = l.name.length := toUInt8_toNat_of_lt _ hn
  simp [literalParse, e1, take_append, take_append' 4 l.created l.data hc]

theorem seipd_len (s : Seipd) : (seipdSer s).length = seipdWriteLen s := by
  cases s <;> simp [seipdSer, seipdWriteLen] <;> omega

theorem seipd_parse_ser (s : Seipd) (hw : SeipdWF s) : seipdParse (seipdSer s) = some s := by
  cases s with
  | v1 d => simp [seipdSer, seipdParse]
  | v2 sym a c salt d =>
    obtain ⟨hc, hs⟩ := hw
    have : ¬ Gen.chunkSizeMax < c.toNat := by omega
    simp [seipdSer, seipdParse, this, take_append' 32 salt d hs]

/-! ## packet bodies -/

theorem body_len (trust : Bool) (emb : Bytes → Option Bytes) (body : Body) (b : Bytes)
    (hw : BodyWF trust emb body) (hs : bodySer body = some b) : b.length = bodyWriteLen body := by
  cases body with
  | sig s => exact sig_len emb s b hw hs
  | ops o => exact ops_len o b hs
  | pkesk p => exact pkesk_len p b hs
  | skesk s => exact skesk_len s b hs
  | pubKey k => simp [bodySer] at hs; subst hs; exact pubKeySer_length false k hw
  | secKey k s =>
    obtain ⟨hk, _, _, _⟩ := hw
    simp [bodySer] at hs
    obtain ⟨t, ht, rfl⟩ := hs
    simp [bodyWriteLen, pubKeySer_length true k hk, secret_len _ s t ht]
  | literal l => exact literal_len l b hs
  | seipd s => simp [bodySer] at hs; subst hs; exact seipd_len s
  | compressed a d => simp [bodySer] at hs; subst hs; simp [bodyWriteLen]; omega
  | marker => simp [bodySer] at hs; subst hs; rfl
  | trust => simp [bodySer] at hs; subst hs; rfl
  | raw d => simp [bodySer] at hs; subst hs; rfl
  | mdc h => simp [bodySer] at hs; subst hs; rfl

theorem body_parse_ser (trust : Bool) (body : Body) (b : Bytes)
    (hw : BodyWF trust (embFor b) body) (hs : bodySer body = some b) :
    bodyParse trust (bodyClass body) b = .ok body := by
  cases body with
  | sig s => simp [bodyParse, bodyClass, optB, sig_parse_ser (embFor b) s b hw hs]
  | ops o => simp [bodyParse, bodyClass, optB, ops_parse_ser o b hw hs]
  | pkesk p => simp [bodyParse, bodyClass, optB, pkesk_parse_ser p b hw hs]
  | skesk s => simp [bodyParse, bodyClass, optB, skesk_parse_ser s b hw hs]
  | literal l => simp [bodyParse, bodyClass, optB, literal_parse_ser l b hw hs]
  | seipd s => simp [bodySer] at hs; subst hs; simp [bodyParse, bodyClass, optB, seipd_parse_ser s hw]
  | compressed a d => simp [bodySer] at hs; subst hs; simp [bodyParse, bodyClass]
  | marker => simp [bodySer] at hs; subst hs; simp [bodyParse, bodyClass]
  | trust => simp [bodySer] at hs; subst hs; simp [bodyParse, bodyClass]
  | raw d => simp [bodySer] at hs; subst hs; simp [bodyParse, bodyClass]
  | mdc h =>
    have : h.length = Gen.mdcHashLen := hw
    simp [bodySer] at hs; subst hs; simp [bodyParse, bodyClass, this]
  | pubKey k =>
    simp [bodySer] at hs; subst hs
    have := pubKey_parse_ser trust false k [] hw (by intros; rfl)
    simp only [List.append_nil] at this
    simp [bodyParse, bodyClass, this]
  | secKey k s =>
    obtain ⟨hk, hsw, hu, hp⟩ := hw
    simp [bodySer] at hs
    obtain ⟨t, ht, rfl⟩ := hs
    have h1 := pubKey_parse_ser trust true k t hk (by intro h6 d hd; exact absurd hd (hu h6 d))
    have h2 := secret_parse_ser _ s t hsw ht
    simp only [bodyParse, bodyClass, secKeyParse, h1, h2]
    obtain ⟨par, dat⟩ := s
    cases par with
    | unprotected =>
      have := hp rfl
      simp only at this
      simp [this]
    | _ => simp

/-! ## packets: header + body -/

theorem writeHeader_length (nf : Bool) (tag n : Nat) :
    (writeHeader nf tag n).length = headerLenFn nf n := by
  cases nf
  · simp only [writeHeader, Bool.false_eq_true, if_false, encodeOldLen, headerLenFn, Gen.whOldOneOctetLimit,
      Gen.whOldTwoOctetLimit, Gen.hlOldOneOctetLimit, Gen.hlOldTwoOctetLimit]
    by_cases c1 : n < 256
    · simp [c1]
    · by_cases c2 : n < 65536 <;> simp [c1, c2, be16_length, be32_length]
  · simp only [writeHeader, if_true, encodeNewLenHdr, headerLenFn, Gen.whNewOneOctetLimit, Gen.whNewTwoOctetLimit,
      Gen.hlNewOneOctetLimit, Gen.hlNewTwoOctetLimit]
    by_cases c1 : n < 192
    · simp [c1]
    · by_cases c2 : n < 8384 <;> simp [c1, c2, be32_length]

/-- `PacketHeader::write_len` of a fixed-length header = `header_len` of the same length -/
theorem hdrWriteLen_fixed (nf : Bool) (tag n : Nat) :
    hdrWriteLen { newFormat := nf, tag := tag, len := .fixed n } = headerLenFn nf n := by
  cases nf
  · simp only [hdrWriteLen, headerLenFn, Gen.oftOneOctetLimit, Gen.oftTwoOctetLimit,
      Gen.phwOldType0Len, Gen.phwOldType1Len, Gen.phwOldType2Len,
      Gen.hlOldOneOctetLimit, Gen.hlOldTwoOctetLimit, Bool.false_eq_true, if_false]
    by_cases c1 : n < 256
    · simp [c1]
    · by_cases c2 : n < 65536 <;> simp [c1, c2]
  · simp only [hdrWriteLen, headerLenFn, Gen.phwNewOneOctetLimit, Gen.phwNewTwoOctetLimit,
      Gen.hlNewOneOctetLimit, Gen.hlNewTwoOctetLimit, if_true]
    by_cases c1 : n < 192
    · simp [c1]
    · by_cases c2 : n < 8384 <;> simp [c1, c2]

/-- what `to_writer_with_header` writes: for every stored length except indeterminate, a fresh
fixed-length header announcing exactly the body that follows -/
theorem packetSer_fixed {p : Packet} {out : Bytes} (h : packetSer p = some out) (hi : p.hdr.len ≠ .indet) :
    ∃ b, bodySer p.body = some b ∧ bodyWriteLen p.body < 4294967296 ∧
      out = writeHeader p.hdr.newFormat p.hdr.tag (bodyWriteLen p.body) ++ b := by
  unfold packetSer at h
  split at h
  · simp at h
  · rename_i b hb
    split at h
    · rename_i hl; exact absurd hl hi
    · split at h
      · rename_i hlt; simp at h; exact ⟨b, hb, hlt, h.symm⟩
      · simp at h

theorem header_truthful (trust : Bool) (emb : Bytes → Option Bytes) (p : Packet) (out rest : Bytes)
    (h : packetSer p = some out) (hi : p.hdr.len ≠ .indet) (hw : BodyWF trust emb p.body)
    (ht : if p.hdr.newFormat then p.hdr.tag < 64 else p.hdr.tag < 16) :
    ∃ b, bodySer p.body = some b ∧
      deframe (out ++ rest) =
        .ok ({ newFormat := p.hdr.newFormat, tag := p.hdr.tag, len := .fixed b.length }, b, rest) := by
  obtain ⟨b, hb, hlt, rfl⟩ := packetSer_fixed h hi
  have hl := body_len trust emb p.body b hw hb
  refine ⟨b, hb, ?_⟩
  rw [← hl] at hlt ⊢
  exact deframe_fixed p.hdr.newFormat p.hdr.tag ht b rest hlt

theorem keyBodyModelled_ser (secret : Bool) (k : PubKey) (t : Bytes) (h : PubKeyWF secret k) :
    keyBodyModelled (pubKeySer k ++ t) = true := by
  obtain ⟨ver, created, exp, alg, pp⟩ := k
  obtain ⟨hc, hp, hv⟩ := h
  simp only at hc hp hv
  have hm : keyAlgModelled alg = true := by
    cases pp with
    | blob d => simp [pubParamsFor] at hp
    | unknown d => exact hp.1
    | rsa n e => rcases hp.1 with a | a | a <;> simp [keyAlgModelled, a]
    | elgamal p g y => rcases hp.1 with a | a <;> simp [keyAlgModelled, a]
    | x25519 key => simp [keyAlgModelled, hp.1]
  match created, hc with
  | [c1, c2, c3, c4], _ =>
    rcases hv with ⟨h3, _, _⟩ | ⟨h4, _⟩ | ⟨h6, _, _⟩
    · have : ¬ (ver.toNat = 4 ∨ ver.toNat = 6) := by simp [isV3] at h3; omega
      simp [pubKeySer, h3, keyBodyModelled, this]
    · have n3 : isV3 ver = false := by simp [isV3, h4]
      have n6 : isV6 ver = false := by simp [isV6, h4]
      simp [pubKeySer, n3, n6, keyBodyModelled, h4, hm]
    · have n3 : isV3 ver = false := by simp [isV3, h6]
      have n6 : isV6 ver = true := by simp [isV6, h6]
      simp [pubKeySer, n3, n6, keyBodyModelled, h6, hm]

theorem bodySer_keyModelled (trust : Bool) (emb : Bytes → Option Bytes) (body : Body) (b : Bytes)
    (hw : BodyWF trust emb body) (hs : bodySer body = some b)
    (hc : bodyClass body = .pubKey ∨ bodyClass body = .secKey) : keyBodyModelled b = true := by
  cases body <;> simp [bodyClass] at hc
  · rename_i k
    simp [bodySer] at hs; subst hs
    have := keyBodyModelled_ser false k [] hw
    simpa using this
  · rename_i k s
    simp [bodySer] at hs
    obtain ⟨t, _, rfl⟩ := hs
    exact keyBodyModelled_ser true k t hw.1

/-- **parse ∘ serialize = id on packets** (fixed-length framing, either header format) -/
theorem packet_parse_ser (trust : Bool) (p : Packet) (out rest : Bytes)
    (h : packetSer p = some out)
    (hfresh : p.hdr.len = .fixed (bodyWriteLen p.body))
    (ht : if p.hdr.newFormat then p.hdr.tag < 64 else p.hdr.tag < 16)
    (hcl : tagClass p.hdr.tag = bodyClass p.body)
    (hw : ∀ b, bodySer p.body = some b → BodyWF trust (embFor b) p.body) :
    packetParse trust (out ++ rest) = .ok (p, rest) := by
  have hi : p.hdr.len ≠ .indet := by rw [hfresh]; simp
  obtain ⟨b, hb, hlt, rfl⟩ := packetSer_fixed h hi
  have hwb := hw b hb
  have hl := body_len trust (embFor b) p.body b hwb hb
  have hd : deframe (writeHeader p.hdr.newFormat p.hdr.tag (bodyWriteLen p.body) ++ b ++ rest) =
      .ok ({ newFormat := p.hdr.newFormat, tag := p.hdr.tag, len := .fixed b.length }, b, rest) := by
    rw [← hl] at hlt ⊢
    exact deframe_fixed p.hdr.newFormat p.hdr.tag ht b rest hlt
  unfold packetParse
  rw [hd]
  simp only [hcl]
  have hmod : ¬ (!trust ∧ (bodyClass p.body = .pubKey ∨ bodyClass p.body = .secKey) ∧ keyBodyModelled b = false) := by
    rintro ⟨_, hc, hk⟩
    rw [bodySer_keyModelled trust (embFor b) p.body b hwb hb hc] at hk
    simp at hk
  rw [if_neg hmod, body_parse_ser trust p.body b hwb hb]
  obtain ⟨⟨nf, tag, len⟩, body⟩ := p
  simp only at hfresh hl ⊢
  rw [hfresh, hl]

/-- **announced total length = written length**, whatever the stored header says -/
theorem packet_len (trust : Bool) (emb : Bytes → Option Bytes) (p : Packet) (out : Bytes)
    (h : packetSer p = some out) (hw : BodyWF trust emb p.body) :
    out.length = packetWriteLen p := by
  unfold packetSer at h
  cases hb : bodySer p.body with
  | none => simp [hb] at h
  | some b =>
    have hl := body_len trust emb p.body b hw hb
    simp only [hb] at h
    unfold packetWriteLen
    cases hlen : p.hdr.len with
    | indet =>
      simp only [hlen] at h
      simp at h; subst h
      simp [hl]; omega
    | fixed n =>
      simp only [hlen] at h
      split at h
      · simp at h; subst h; simp [writeHeader_length, hl]
      · simp at h
    | part n =>
      simp only [hlen] at h
      split at h
      · simp at h; subst h; simp [writeHeader_length, hl]
      · simp at h

/-! ## mutations -/

theorem areaWriteLen_insert (l : List Subpacket) (idx : Nat) (sp : Subpacket) :
    areaWriteLen (l.take idx ++ sp :: l.drop idx) = areaWriteLen l + subWriteLen sp := by
  have : areaWriteLen l = areaWriteLen (l.take idx ++ l.drop idx) := by rw [List.take_append_drop]
  rw [this]
  simp only [areaWriteLen, List.map_append, List.sum_append, List.map_cons, List.sum_cons]; omega

theorem areaWriteLen_erase (l : List Subpacket) (idx : Nat) (sp : Subpacket) (h : l[idx]? = some sp) :
    areaWriteLen (l.eraseIdx idx) + subWriteLen sp = areaWriteLen l := by
  induction l generalizing idx with
  | nil => simp at h
  | cons x t ih =>
    cases idx with
    | zero => simp at h; subst h; simp [areaWriteLen]; omega
    | succ i =>
      simp at h
      have := ih i h
      simp [areaWriteLen] at this ⊢; omega

/-- `unhashed_subpacket_insert` keeps the stored length field in step with `write_len` -/
theorem sigInsert_fresh (p q : Packet) (idx : Nat) (sp : Subpacket)
    (hf : p.hdr.len = .fixed (bodyWriteLen p.body)) (h : sigInsertUnhashed p idx sp = some q) :
    q.hdr.len = .fixed (bodyWriteLen q.body) := by
  obtain ⟨⟨nf, tag, len⟩, body⟩ := p
  simp only at hf
  subst hf
  unfold sigInsertUnhashed at h
  split at h
  · rename_i v6 typ pk hash hashed unhashed left salt sb n hb hl
    simp only at hb hl
    split at h
    · simp at h; subst h
      simp only at hl ⊢
      injection hl with hl
      subst hb
      simp only [bodyWriteLen, sigWriteLen, areaWriteLen_insert] at hl ⊢
      congr 1; omega
    · simp at h
  · simp at h

/-- `unhashed_subpacket_remove` likewise -/
theorem sigRemove_fresh (p q : Packet) (idx : Nat)
    (hf : p.hdr.len = .fixed (bodyWriteLen p.body)) (h : sigRemoveUnhashed p idx = some q) :
    q.hdr.len = .fixed (bodyWriteLen q.body) := by
  obtain ⟨⟨nf, tag, len⟩, body⟩ := p
  simp only at hf
  subst hf
  unfold sigRemoveUnhashed at h
  split at h
  · rename_i v6 typ pk hash hashed unhashed left salt sb n hb hl
    simp only at hb hl
    split at h
    · rename_i sp hsp
      simp at h; subst h
      simp only at hl ⊢
      injection hl with hl
      subst hb
      have := areaWriteLen_erase unhashed idx sp hsp
      simp only [bodyWriteLen, sigWriteLen] at hl ⊢
      congr 1; omega
    · simp at h
  · simp at h

theorem certSer_cons {p : Packet} {ps : List Packet} {b : Bytes} (h : certSer (p :: ps) = some b) :
    ∃ a t, packetSer p = some a ∧ certSer ps = some t ∧ b = a ++ t := by
  simp only [certSer] at h
  split at h
  · rename_i a t ha ht
    simp at h; exact ⟨a, t, ha, ht, h.symm⟩
  · simp at h

theorem packetSer_length (trust : Bool) (emb : Bytes → Option Bytes) (p : Packet) (out : Bytes)
    (h : packetSer p = some out) (hi : p.hdr.len ≠ .indet) (hw : BodyWF trust emb p.body) :
    out.length = headerLenFn p.hdr.newFormat (bodyWriteLen p.body) + bodyWriteLen p.body := by
  obtain ⟨b, hb, _, rfl⟩ := packetSer_fixed h hi
  simp [writeHeader_length, body_len trust emb p.body b hw hb]

theorem cert_len (trust : Bool) (emb : Bytes → Option Bytes) (ps : List Packet) : ∀ (b : Bytes),
    certSer ps = some b → (∀ p ∈ ps, p.hdr.len ≠ .indet ∧ BodyWF trust emb p.body) →
    b.length = certWriteLenFixed ps := by
  induction ps with
  | nil => intro b h _; simp [certSer] at h; subst h; simp [certWriteLenFixed]
  | cons p t ih =>
    intro b h hw
    obtain ⟨a, tb, ha, ht, rfl⟩ := certSer_cons h
    have h1 := packetSer_length trust emb p a ha (hw p (by simp)).1 (hw p (by simp)).2
    have h2 := ih tb ht (fun x hx => hw x (by simp [hx]))
    simp only [certWriteLenFixed, List.map_cons, List.sum_cons, List.length_append] at h2 ⊢
    omega

/-! ## the parser only returns well-formed subpackets / signatures -/

theorem boolOctet_idem (b : Byte) : boolOctet (boolOctet b) = boolOctet b := by
  unfold boolOctet; split <;> simp

theorem normKind_spec (emb : Bytes → Option Bytes) (hemb : ∀ x y, emb x = some y → emb y = some y)
    (k : SubKind) (raw body : Bytes) (h : normKind emb k raw = some body) :
    body.length = raw.length ∧ normKind emb k body = some body := by
  cases k with
  | fixed n =>
    simp only [normKind] at h
    split at h <;> simp at h
    subst h; rename_i hl; simp [normKind, hl]
  | bool =>
    simp only [normKind] at h
    split at h <;> simp at h
    subst h; simp [normKind, boolOctet_idem]
  | revKey =>
    simp only [normKind] at h
    split at h
    · split at h <;> simp at h
      subst h; rename_i hc
      simp only [normKind, hc, and_self, if_true, and_true]
    · simp at h
  | notationData =>
    simp only [normKind] at h
    split at h
    · rename_i f z1 z2 z3 n1 n2 v1 v2 rest
      split at h <;> simp at h
      subst h; rename_i hc
      refine ⟨by simp, ?_⟩
      simp only [normKind, hc, and_self, if_true]
      by_cases c : f.toNat = 128 <;> simp [c]
    · simp at h
  | utf8 =>
    simp only [normKind] at h
    split at h <;> simp at h
    subst h; rename_i n hn; simp [normKind, hn]
  | atLeast n =>
    simp only [normKind] at h
    split at h <;> simp at h
    subst h; rename_i hl; simp [normKind, hl]
  | embedded =>
    simp only [normKind] at h
    split at h
    · rename_i out ho
      split at h <;> simp at h
      subst h; rename_i hl
      simp [normKind, hemb _ _ ho, hl]
    · simp at h
  | fingerprint =>
    simp only [normKind] at h
    split at h
    · rename_i v fp
      split at h
      · rename_i n hn
        split at h <;> simp at h
        subst h; rename_i hl
        simp [normKind, hn, hl]
      · simp at h
    · simp at h
  | even =>
    simp only [normKind] at h
    split at h <;> simp at h
    subst h; rename_i hl; simp [normKind, hl]
  | any => simp [normKind] at h; subst h; simp [normKind]

theorem sub_parse_wf (emb : Bytes → Option Bytes) (hemb : ∀ x y, emb x = some y → emb y = some y)
    {b : Bytes} {s : Subpacket} {r : Bytes} (h : subParse emb b = some (s, r)) : SubWF emb s := by
  unfold subParse at h
  split at h
  · simp at h
  · rename_i form len r0 hl
    split at h
    · simp at h
    · rename_i hne
      split at h
      · simp at h
      · rename_i t r1 _
        split at h
        · simp at h
        · rename_i raw r2 ht
          split at h
          · simp at h
          · rename_i body hn
            simp at h
            obtain ⟨rfl, rfl⟩ := h
            have hlt := t.toNat_lt
            have e1 : (t.toNat % 128).toUInt8.toNat = t.toNat % 128 := toUInt8_toNat_of_lt _ (by omega)
            obtain ⟨l1, l2⟩ := normKind_spec emb hemb _ raw body hn
            have hraw := (take_eq_some ht).2
            refine ⟨subLen_parse_wf hl, ?_, ?_, ?_, ?_⟩
            · simp only; omega
            · simp only [e1]; omega
            · exact l2
            · rfl

theorem area_parse_wf (emb : Bytes → Option Bytes) (hemb : ∀ x y, emb x = some y → emb y = some y) :
    ∀ (fuel : Nat) (b : Bytes) (ss : List Subpacket), areaParse emb fuel b = some ss → ∀ s ∈ ss, SubWF emb s := by
  intro fuel
  induction fuel with
  | zero =>
    intro b ss h
    simp only [areaParse] at h
    split at h <;> simp at h
    subst h; simp
  | succ f ih =>
    intro b ss h
    simp only [areaParse] at h
    split at h
    · simp at h; subst h; simp
    · split at h
      · simp at h
      · rename_i s r hs
        split at h
        · simp at h
        · rename_i t ht
          simp at h; subst h
          intro x hx
          simp at hx
          rcases hx with rfl | hx
          · exact sub_parse_wf emb hemb hs
          · exact ih r t ht x hx

theorem sigBytes_parse_wf {pk : Byte} {b : Bytes} {sb : SigBytes} (h : sigBytesParse pk b = some sb) :
    SigBytesWF pk sb := by
  unfold sigBytesParse at h
  split at h
  · rename_i n hn
    split at h
    · rename_i ms r hm
      split at h <;> simp at h
      subst h
      obtain ⟨hl, hw⟩ := mpis_parse_wf n b ms r hm
      exact ⟨by rw [hn, hl], hw⟩
    · simp at h
  · rename_i hn
    split at h
    · simp at h
    · rename_i h16
      split at h
      · rename_i h27
        split at h
        · rename_i s r ht
          split at h <;> simp at h
          subst h
          exact ⟨hn, h16, fun _ => (take_eq_some ht).2⟩
        · simp at h
      · rename_i h27
        simp at h; subst h
        exact ⟨hn, h16, fun c => absurd c h27⟩

theorem subLen_parse_consumed {b : Bytes} {form len : Nat} {r : Bytes} (h : subLenParse b = some (form, len, r)) :
    b.length = subLenWriteLen form + r.length := by
  cases b with
  | nil => simp [subLenParse] at h
  | cons o t =>
    simp only [subLenParse] at h
    by_cases c1 : o.toNat ≤ Gen.subLenOneMax
    · simp only [c1, if_true, Option.some.injEq, Prod.mk.injEq] at h
      obtain ⟨rfl, _, rfl⟩ := h; simp [subLenWriteLen]; omega
    · by_cases c2 : o.toNat ≤ Gen.subLenTwoMax
      · simp only [c1, c2, if_true, if_false] at h
        cases t with
        | nil => simp at h
        | cons a t' =>
          simp only [Option.some.injEq, Prod.mk.injEq] at h
          obtain ⟨rfl, _, rfl⟩ := h; simp [subLenWriteLen]; omega
      · simp only [c1, c2, if_false] at h
        cases ht : take 4 t with
        | none => simp [ht] at h
        | some p =>
          obtain ⟨l, r'⟩ := p
          simp only [ht, Option.some.injEq, Prod.mk.injEq] at h
          obtain ⟨rfl, _, rfl⟩ := h
          obtain ⟨e, hl⟩ := take_eq_some ht
          subst e
          simp [subLenWriteLen, hl]; omega

theorem sub_parse_consumed {emb : Bytes → Option Bytes} {b : Bytes} {s : Subpacket} {r : Bytes}
    (h : subParse emb b = some (s, r)) : b.length = subWriteLen s + r.length := by
  unfold subParse at h
  split at h
  · simp at h
  · rename_i form len r0 hl
    split at h
    · simp at h
    · rename_i hne
      split at h
      · simp at h
      · rename_i t r1 hu
        split at h
        · simp at h
        · rename_i raw r2 ht
          split at h
          · simp at h
          · simp at h
            obtain ⟨rfl, rfl⟩ := h
            have c1 := subLen_parse_consumed hl
            have c2 := u8_eq_some hu
            obtain ⟨c3, c4⟩ := take_eq_some ht
            subst c2 c3
            simp [subWriteLen] at c1 ⊢
            omega

theorem area_parse_len (emb : Bytes → Option Bytes) : ∀ (fuel : Nat) (b : Bytes) (ss : List Subpacket),
    areaParse emb fuel b = some ss → areaWriteLen ss = b.length := by
  intro fuel
  induction fuel with
  | zero =>
    intro b ss h
    simp only [areaParse] at h
    split at h <;> simp at h
    subst h; rename_i he; cases b <;> simp_all [areaWriteLen]
  | succ f ih =>
    intro b ss h
    simp only [areaParse] at h
    split at h
    · simp at h; subst h; rename_i he; cases b <;> simp_all [areaWriteLen]
    · split at h
      · simp at h
      · rename_i s r hs
        split at h
        · simp at h
        · rename_i t ht
          simp at h; subst h
          have := ih r t ht
          have := sub_parse_consumed hs
          simp [areaWriteLen] at *
          omega

theorem areaLen_lt (v6 : Bool) (l : Bytes) (hl : l.length = areaLenOctets v6) :
    beNat l < (if v6 then 4294967296 else 65536) := by
  cases v6
  · simp [areaLenOctets] at hl ⊢; exact beNat_two_lt l hl
  · simp [areaLenOctets] at hl ⊢; exact beNat_four_lt l hl

theorem sig_parse_wf (emb : Bytes → Option Bytes) (hemb : ∀ x y, emb x = some y → emb y = some y)
    {b : Bytes} {s : Sig} (h : sigParse emb b = some s) : SigWF emb s := by
  unfold sigParse at h
  split at h
  · simp at h
  · rename_i v r _
    split at h
    · -- v2 / v3
      rename_i hv
      split at h
      · rename_i five typ r1
        split at h
        · simp at h
        · split at h
          · simp at h
          · rename_i created r2 hc
            split at h
            · simp at h
            · rename_i issuer r3 hi
              split at h
              · rename_i pk hash l1 l2 r4
                split at h
                · rename_i sb hsb
                  simp at h; subst h
                  exact ⟨hv, (take_eq_some hc).2, (take_eq_some hi).2, rfl, sigBytes_parse_wf hsb⟩
                · simp at h
              · simp at h
      · simp at h
    · split at h
      · -- v4 / v6
        rename_i hnv3 hv
        split at h
        · rename_i typ pk hash r1
          dsimp only at h
          generalize decide (v.toNat = 6) = v6 at h
          split at h
          · simp at h
          · rename_i hl r2 hhl
            split at h
            · simp at h
            · rename_i harea r3 hha
              split at h
              · simp at h
              · rename_i hashed hhpc
                have hhp := (areaParseCanon_some hhpc).1
                split at h
                · simp at h
                · rename_i ul r4 hul
                  split at h
                  · simp at h
                  · rename_i uarea r5 hua
                    split at h
                    · simp at h
                    · rename_i unhashed hup
                      split at h
                      · simp at h
                      · rename_i left r6 hleft
                        have w1 := area_parse_wf emb hemb _ _ _ hhp
                        have w2 := area_parse_wf emb hemb _ _ _ hup
                        have b1 := areaLen_lt _ hl (take_eq_some hhl).2
                        have b2 := areaLen_lt _ ul (take_eq_some hul).2
                        have e1 := (take_eq_some hha).2
                        have e2 := (take_eq_some hua).2
                        cases v6
                        · simp only [Bool.false_eq_true, if_false] at h
                          split at h
                          · rename_i sb hsb
                            simp at h; subst h
                            simp only [Bool.false_eq_true, if_false] at b1 b2
                            refine ⟨w1, w2, (take_eq_some hleft).2, sigBytes_parse_wf hsb, ?_⟩
                            have a1 := area_parse_len emb _ _ _ hhp
                            have a2 := area_parse_len emb _ _ _ hup
                            simp only [Bool.false_eq_true, if_false]
                            exact ⟨trivial, by omega, by omega⟩
                          · simp at h
                        · simp only [if_true] at h b1 b2
                          split at h
                          · simp at h
                          · rename_i sl r7 _
                            split at h
                            · simp at h
                            · rename_i salt r8 hsalt
                              split at h
                              · rename_i hsl
                                split at h
                                · rename_i sb hsb
                                  simp at h; subst h
                                  have a1 := area_parse_len emb _ _ _ hhp
                                  have a2 := area_parse_len emb _ _ _ hup
                                  refine ⟨w1, w2, (take_eq_some hleft).2, sigBytes_parse_wf hsb, ?_⟩
                                  simp only [if_true]
                                  exact ⟨hsl, by omega, by omega⟩
                                · simp at h
                              · simp at h
        · simp at h
      · rename_i hnv3 hnv4
        simp at h; subst h
        simp only [SigWF]
        omega

/-- the parsed hashed area writes back to exactly the octets that were read -/
theorem sig_parse_hashed_canonical (emb : Bytes → Option Bytes) (b : Bytes) (v6 : Bool) (typ pk hash : Byte)
    (hashed unhashed : List Subpacket) (left salt : Bytes) (sb : SigBytes)
    (h : sigParse emb b = some (.v4 v6 typ pk hash hashed unhashed left salt sb)) :
    areaSer hashed = some (rawHashedArea b) := by
  unfold sigParse at h
  split at h
  · simp at h
  · rename_i v r hu8
    split at h
    · -- v2 / v3: never a `.v4`
      split at h
      · split at h
        · simp at h
        · split at h
          · simp at h
          · split at h
            · simp at h
            · split at h
              · split at h
                · simp at h
                · simp at h
              · simp at h
      · simp at h
    · split at h
      · rename_i hnv3 hv
        split at h
        · rename_i typ' pk' hash' r1
          dsimp only at h
          have hb : b = v :: typ' :: pk' :: hash' :: r1 := by
            cases b with
            | nil => simp [u8] at hu8
            | cons x t => simp [u8] at hu8; obtain ⟨rfl, rfl⟩ := hu8; rfl
          have hw : areaLenOctets (decide (v.toNat = 6)) = (if v.toNat = 6 then 4 else 2) := by
            by_cases h6 : v.toNat = 6 <;> simp [areaLenOctets, h6]
          generalize hg : decide (v.toNat = 6) = v6' at h hw
          split at h
          · simp at h
          · rename_i hl r2 hhl
            split at h
            · simp at h
            · rename_i harea r3 hha
              split at h
              · simp at h
              · rename_i hashed' hhpc
                have hc := (areaParseCanon_some hhpc).2
                have e1 := take_eq_some hhl
                have e2 := take_eq_some hha
                have hraw : rawHashedArea b = harea := by
                  rw [hb]
                  simp only [rawHashedArea]
                  rw [← hw, e1.1, ← e1.2, List.take_left' rfl, List.drop_left' rfl, e2.1, ← e2.2, List.take_left' rfl]
                split at h
                · simp at h
                · split at h
                  · simp at h
                  · split at h
                    · simp at h
                    · split at h
                      · simp at h
                      · cases v6'
                        · simp only [Bool.false_eq_true, if_false] at h
                          split at h
                          · simp at h
                            obtain ⟨_, _, _, _, rfl, _⟩ := h
                            rw [hraw]; exact hc
                          · simp at h
                        · simp only [if_true] at h
                          split at h
                          · simp at h
                          · split at h
                            · simp at h
                            · split at h
                              · split at h
                                · simp at h
                                  obtain ⟨_, _, _, _, rfl, _⟩ := h
                                  rw [hraw]; exact hc
                                · simp at h
                              · simp at h
        · simp at h
      · simp at h

theorem sub_ser_some (emb : Bytes → Option Bytes) (s : Subpacket) (h : SubWF emb s) : ∃ b, subSer s = some b := by
  obtain ⟨_, hl, _, _, hd⟩ := h
  unfold subSer
  rw [if_pos (by rw [hd]; exact hl)]
  exact ⟨_, rfl⟩

theorem area_ser_some (emb : Bytes → Option Bytes) (ss : List Subpacket) (h : ∀ s ∈ ss, SubWF emb s) :
    ∃ b, areaSer ss = some b := by
  induction ss with
  | nil => exact ⟨[], rfl⟩
  | cons s t ih =>
    obtain ⟨a, ha⟩ := sub_ser_some emb s (h s (by simp))
    obtain ⟨b, hb⟩ := ih (fun x hx => h x (by simp [hx]))
    exact ⟨a ++ b, by simp [areaSer, ha, hb]⟩

theorem hashSaltLen_le {h : Byte} {n : Nat} (hs : hashSaltLen h = some n) : n ≤ 32 := by
  unfold hashSaltLen at hs
  split at hs <;> simp at hs <;> omega

theorem sig_ser_some (emb : Bytes → Option Bytes) (s : Sig) (h : SigWF emb s) : ∃ b, sigSer s = some b := by
  cases s with
  | v3 => exact ⟨_, rfl⟩
  | unknown => exact ⟨_, rfl⟩
  | v4 v6 typ pk hash hashed unhashed left salt sb =>
    obtain ⟨hh, hu, _, _, hv⟩ := h
    obtain ⟨a, ha⟩ := area_ser_some emb hashed hh
    obtain ⟨b, hb⟩ := area_ser_some emb unhashed hu
    cases v6
    · simp only [Bool.false_eq_true, if_false] at hv
      obtain ⟨rfl, b1, b2⟩ := hv
      simp only [sigSer, ha, hb, Bool.false_eq_true, if_false, b1, b2, List.length_nil, Nat.zero_lt_succ, and_self, if_true]
      exact ⟨_, rfl⟩
    · simp only [if_true] at hv
      obtain ⟨hs, b1, b2⟩ := hv
      have := hashSaltLen_le hs
      have hs256 : salt.length < 256 := by omega
      simp only [sigSer, ha, hb, if_true, b1, b2, hs256, and_self]
      exact ⟨_, rfl⟩

/-- accepted signatures are written to bytes that parse back to the equal value (for any
embedded-signature normaliser that is itself idempotent) -/
theorem sig_reparse (emb : Bytes → Option Bytes) (hemb : ∀ x y, emb x = some y → emb y = some y)
    {b : Bytes} {s : Sig} (h : sigParse emb b = some s) :
    ∃ w, sigSer s = some w ∧ sigParse emb w = some s := by
  have hw := sig_parse_wf emb hemb h
  obtain ⟨w, hs⟩ := sig_ser_some emb s hw
  exact ⟨w, hs, sig_parse_ser emb s w hw hs⟩

/-- the embedded-signature normaliser is idempotent at every nesting bound -/
theorem sigNorm_idem : ∀ (fuel : Nat) (x y : Bytes), sigNorm fuel x = some y → sigNorm fuel y = some y := by
  intro fuel
  induction fuel with
  | zero => intro x y h; simp [sigNorm] at h
  | succ f ih =>
    intro x y h
    simp only [sigNorm] at h ⊢
    split at h
    · simp at h
    · rename_i s hp
      have hw := sig_parse_wf (sigNorm f) ih hp
      rw [sig_parse_ser (sigNorm f) s y hw h]
      exact h

theorem literal_parse_wf {b : Bytes} {l : Literal} (h : literalParse b = some l) : LiteralWF l := by
  unfold literalParse at h
  split at h
  · rename_i mode nl r
    split at h
    · simp at h
    · rename_i name r1 hn
      split at h
      · simp at h
      · rename_i created data hc
        simp at h; subst h
        have := nl.toNat_lt
        exact ⟨by simp only; rw [(take_eq_some hn).2]; omega, (take_eq_some hc).2⟩
  · simp at h

theorem seipd_parse_wf {b : Bytes} {s : Seipd} (h : seipdParse b = some s) : SeipdWF s := by
  unfold seipdParse at h
  split at h
  · rename_i v r
    split at h
    · simp at h; subst h; trivial
    · split at h
      · split at h
        · rename_i sym aead chunk r1
          split at h
          · simp at h
          · rename_i hc
            split at h
            · rename_i salt data hs
              simp at h; subst h
              exact ⟨by omega, (take_eq_some hs).2⟩
            · simp at h
        · simp at h
      · simp at h
  · simp at h

theorem splitLast_some {b d : Bytes} {l : Byte} (h : splitLast b = some (d, l)) : b = d ++ [l] := by
  induction b generalizing d with
  | nil => simp [splitLast] at h
  | cons x t ih =>
    cases t with
    | nil => simp [splitLast] at h; obtain ⟨rfl, rfl⟩ := h; rfl
    | cons y t' =>
      simp only [splitLast] at h
      split at h
      · rename_i i l' hi
        simp at h; obtain ⟨rfl, rfl⟩ := h
        rw [ih hi]; rfl
      · simp at h

theorem ops_parse_wf {b : Bytes} {o : Ops} (h : opsParse b = some o) : OpsWF o := by
  unfold opsParse at h
  split at h
  · rename_i v typ hash pk r
    split at h
    · split at h
      · rename_i id last ht
        simp at h; subst h
        exact (take_eq_some ht).2
      · simp at h
    · split at h
      · split at h
        · simp at h
        · rename_i sl r1 _
          split at h
          · simp at h
          · rename_i salt r2 hs
            split at h
            · rename_i fp last hf
              simp at h; subst h
              have := sl.toNat_lt
              exact ⟨by rw [(take_eq_some hs).2]; omega, (take_eq_some hf).2⟩
            · simp at h
      · rename_i h3 h6
        split at h
        · simp at h; subst h; exact ⟨h3, h6⟩
        · simp at h
  · simp at h

theorem ops_ser_some (o : Ops) (h : OpsWF o) : ∃ w, opsSer o = some w := by
  cases o with
  | v3 => exact ⟨_, rfl⟩
  | unknown => exact ⟨_, rfl⟩
  | v6 t hh p salt fp l => obtain ⟨hs, _⟩ := h; simp [opsSer, hs]

theorem literal_ser_some (l : Literal) (h : LiteralWF l) : ∃ w, literalSer l = some w := by
  simp [literalSer, h.1]

/-- the parser only returns well-formed SKESK values (N7 fixed: the version 6 parser checks that
the parameter fields fit the count octet) -/
theorem skesk_parse_wf {b : Bytes} {s : Skesk} (h : skeskParse b = some s) : SkeskWF s := by
  unfold skeskParse at h
  split at h
  · simp at h
  · rename_i v r _
    split at h
    · split at h
      · simp at h
      · rename_i sym r1 _
        split at h
        · simp at h
        · rename_i k r2 hk
          simp at h; subst h
          exact ⟨s2k_parse_wf hk, fun ho => s2k_parse_other hk ho⟩
    · split at h
      · split at h
        · rename_i sym mode r1
          split at h
          · simp at h
          · split at h
            · simp at h
            · rename_i k r2 hk
              split at h
              · simp at h
              · rename_i iv r3 hiv
                split at h
                · simp at h
                · rename_i esk r4 hesk
                  split at h
                  · simp at h; subst h
                    refine ⟨s2k_parse_wf hk, ?_, (take_eq_some hiv).2, (take_eq_some hesk).2⟩
                    cases ho : k.isOther with
                    | false => rfl
                    | true =>
                      have := s2k_parse_other hk ho
                      subst this
                      have := (take_eq_some hiv).1
                      have hl := (take_eq_some hiv).2
                      simp [aeadNonceSize, Gen.aeadNonceOcb] at hl
                      simp at this
                      rw [this.1] at hl
                      simp at hl
                  · simp at h
        · simp at h
      · split at h
        · split at h
          · rename_i cnt sym aead sl r1
            split at h
            · simp at h
            · rename_i k wrest hk
              split at h
              · simp at h
              · rename_i iv esk hiv
                split at h
                · simp at h
                · rename_i hfit
                  simp only [Gen.wireSkesk6FieldsMax] at hfit
                  split at h
                  · simp at h
                  · rename_i hak
                    split at h
                    · simp at h
                    · rename_i hesk
                      simp at h; subst h
                      refine ⟨s2k_parse_wf hk, by simpa using hak, (take_eq_some hiv).2, by omega, by omega⟩
          · simp at h
        · rename_i h4 h5 h6
          simp at h; subst h
          exact ⟨h4, h5, h6⟩

theorem skesk_ser_some (s : Skesk) (h : SkeskWF s) : ∃ w, skeskSer s = some w := by
  cases s with
  | v4 => exact ⟨_, rfl⟩
  | v5 => exact ⟨_, rfl⟩
  | other => exact ⟨_, rfl⟩
  | v6 sym a k iv esk => obtain ⟨_, _, _, _, hl⟩ := h; simp [skeskSer, hl]

end Rpgp.Wire
