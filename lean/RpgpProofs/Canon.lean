import RpgpModel.Canon
/-! Helper lemmas and main proofs about canonicalisation (C14, used by C06/C09/C16). -/
namespace Rpgp
theorem CR_ne_LF : CR ≠ LF := by decide
@[simp] theorem LF_beq_CR : (LF == CR) = false := by decide
@[simp] theorem CR_beq_LF : (CR == LF) = false := by decide
@[simp] theorem endsCR_nil : endsCR [] = false := rfl
@[simp] theorem endsCR_single (b : Byte) : endsCR [b] = (b == CR) := rfl
@[simp] theorem endsCR_cons_cons (a b : Byte) (r : Bytes) : endsCR (a :: b :: r) = endsCR (b :: r) := rfl

theorem endsCR_cons_ne_nil (x : Byte) (r : Bytes) (h : r ≠ []) : endsCR (x :: r) = endsCR r := by
  cases r with
  | nil => simp at h
  | cons => rfl

theorem endsCR_append_ne_nil (a b : Bytes) (h : b ≠ []) : endsCR (a ++ b) = endsCR b := by
  induction a with
  | nil => rfl
  | cons x a ih =>
    rw [List.cons_append, endsCR_cons_ne_nil _ _ (by simp [h]), ih]

theorem endsCR_cons_of_ne (b : Byte) (r : Bytes) (h : b ≠ CR) : endsCR (b :: r) = endsCR r := by
  cases r <;> simp [h]
@[simp] theorem endsCR_LF_cons (r : Bytes) : endsCR (LF :: r) = endsCR r :=
  endsCR_cons_of_ne _ _ (by decide)

theorem hashLoop_eq (xs : Bytes) : hashLoop xs = (canonGo false xs, endsCR xs) := by
  fun_induction hashLoop xs <;> simp_all [canonGo, CR_ne_LF]
  rename_i b r h1 h2 o f hh ih
  have : (b == CR) = false := by simpa using h2
  simp [this, endsCR_cons_of_ne _ _ h2, hh]

def carry (p : Bool) (a : Bytes) : Bool := if a = [] then p else endsCR a
@[simp] theorem carry_nil (p : Bool) : carry p [] = p := rfl
theorem carry_cons (p : Bool) (b : Byte) (r : Bytes) : carry p (b :: r) = carry (b == CR) r := by
  cases r <;> simp [carry]

theorem canonGo_append (p : Bool) (a b : Bytes) :
    canonGo p (a ++ b) = canonGo p a ++ canonGo (carry p a) b := by
  induction a generalizing p with
  | nil => simp [canonGo]
  | cons x a ih =>
    simp only [List.cons_append, canonGo, carry_cons]
    by_cases hx : x = LF
    · subst hx
      cases p <;> simp [ih]
    · simp [hx, ih]

theorem canon_append (a b : Bytes) : canon (a ++ b) = canon a ++ canonGo (endsCR a) b := by
  unfold canon
  rw [canonGo_append]
  cases a <;> simp [carry]

theorem canonGo_false_append (a b : Bytes) :
    canonGo false (a ++ b) = canonGo false a ++ canonGo (endsCR a) b := canon_append a b

theorem hasher_fold (chunks : List Bytes) (h : Hasher) (seen : Bytes)
    (hout : h.out = canon seen) (hflag : h.lastWasCr = endsCR seen) :
    (chunks.foldl Hasher.hashBuf h).out = canon (seen ++ chunks.flatten) ∧
    (chunks.foldl Hasher.hashBuf h).lastWasCr = endsCR (seen ++ chunks.flatten) := by
  induction chunks generalizing h seen with
  | nil => simp [hout, hflag]
  | cons c cs ih =>
    simp only [List.foldl_cons, List.flatten_cons]
    rw [← List.append_assoc]
    apply ih
    · cases c with
      | nil => simp [Hasher.hashBuf, hout]
      | cons b r =>
        simp only [Hasher.hashBuf, hashLoop_eq]
        rw [canon_append, hout, ← hflag]
        cases hl : h.lastWasCr
        · simp
        · by_cases hb : b = LF
          · subst hb; simp [canonGo]
          · have : (b == LF) = false := by simpa using hb
            simp [this, canonGo, hb]
    · cases c with
      | nil => simp [Hasher.hashBuf, hflag]
      | cons b r =>
        simp only [Hasher.hashBuf, hashLoop_eq]
        rw [endsCR_append_ne_nil _ _ (by simp)]
        cases hl : h.lastWasCr
        · simp
        · by_cases hb : b = LF
          · subst hb
            cases r <;> simp
          · have : (b == LF) = false := by simpa using hb
            simp [this]

theorem replaceNewlines_crlf (xs : Bytes) : replaceNewlines CRLF xs = canonGo false xs := by
  fun_induction replaceNewlines CRLF xs <;> simp_all [canonGo, CR_ne_LF, CRLF]
  rename_i b r h1 h2 ih
  have : (b == CR) = false := by simpa using h2
  simp [this]

theorem endsCR_eq_getLastD (w : Bytes) : endsCR w = (w.getLastD 0 == CR) := by
  induction w with
  | nil => decide
  | cons x r ih =>
    cases r with
    | nil => simp
    | cons y r' => simpa using ih

theorem canonGo_cons_CR (p : Bool) (r : Bytes) : canonGo p (CR :: r) = CR :: canonGo true r := by
  simp [canonGo, CR_ne_LF]

/-- the prefix/`start` arithmetic of `cleanup_buffer` -/
theorem cleanup_algebra (pend c : Bool) (x : Bytes)
    (hc : c = true ↔ ∃ t, x = LF :: t) :
    (if pend then (if c then ([CR, LF], 1) else ([CR], 0)) else (([] : Bytes), 0)).1 ++
      canonGo false (x.drop (if pend then (if c then ([CR, LF], 1) else ([CR], 0)) else (([] : Bytes), 0)).2)
      = canonGo false ((if pend then [CR] else []) ++ x) := by
  cases pend
  · simp
  · cases c
    · have hx : ∀ t, x ≠ LF :: t := by
        intro t ht; have := hc.2 ⟨t, ht⟩; simp at this
      simp only [if_true, List.drop_zero, List.cons_append, List.nil_append, canonGo_cons_CR]
      cases x with
      | nil => simp [canonGo]
      | cons y t =>
        have hy : y ≠ LF := fun h => hx t (by rw [h])
        simp [canonGo, hy, Bool.false_eq_true]
    · obtain ⟨t, rfl⟩ := hc.1 rfl
      simp [canonGo, CR_ne_LF]

theorem headD_append_of_ne_nil (w r : Bytes) (d : Byte) (h : w ≠ []) : (w ++ r).headD d = w.headD d := by
  cases w <;> simp_all

theorem nrCleanup_spec (W : Nat) (inBuf w : Bytes) (hW : 0 < W) (hlen : inBuf.length = W)
    (hw : w.length ≤ W) :
    (nrCleanup CRLF W inBuf w).2 = w ++ inBuf.drop w.length ∧
    (nrCleanup CRLF W inBuf w).1 =
      canonGo false ((if endsCR inBuf then [CR] else []) ++
        (if w.length = W ∧ endsCR w then w.dropLast else w)) := by
  refine ⟨rfl, ?_⟩
  have hcl : canonGo false [CR, LF] = [CR, LF] := by decide
  simp only [nrCleanup, replaceNewlines_crlf, hcl]
  have hca := cleanup_algebra (endsCR inBuf)
  simp only [← endsCR_eq_getLastD]
  by_cases hfull : w.length = W
  · -- full read
    subst hfull
    have hdrop : inBuf.drop w.length = [] := by simp [hlen]
    have hwne : w ≠ [] := by intro h; simp [h] at hW
    simp only [hdrop, List.append_nil, beq_self_eq_true, Bool.true_and, true_and, List.take_length]
    by_cases hd : endsCR w
    · simp only [hd, if_true]
      have hx : List.take (w.length - 1) w = w.dropLast := by rw [List.dropLast_eq_take]
      rw [hx]
      have := hca (w.headD 0 == LF && decide (w.length > 0)) w.dropLast (by
        constructor
        · intro h
          simp only [Bool.and_eq_true, beq_iff_eq, decide_eq_true_eq] at h
          cases w with
          | nil => simp at hwne
          | cons y t =>
            simp at h
            cases t with
            | nil => simp at hd; rw [h] at hd; exact absurd hd (by decide)
            | cons z t' => exact ⟨(z :: t').dropLast, by simp [h]⟩
        · rintro ⟨t, ht⟩
          cases w with
          | nil => simp at hwne
          | cons y t' =>
            cases t' with
            | nil => simp at ht
            | cons z t'' => simp at ht; simp [ht.1])
      cases he : endsCR inBuf <;> simp_all
    · simp only [hd, Bool.false_eq_true, if_false]
      have := hca (w.headD 0 == LF && decide (w.length > 0)) w (by
        constructor
        · intro h
          simp only [Bool.and_eq_true, beq_iff_eq, decide_eq_true_eq] at h
          cases w with
          | nil => simp at hwne
          | cons y t => simp at h; exact ⟨t, by rw [h]⟩
        · rintro ⟨t, rfl⟩; simp)
      cases he : endsCR inBuf <;> simp_all
  · -- short read
    have hne : (w.length == W) = false := by simpa using hfull
    simp only [hne, Bool.false_and, Bool.false_eq_true, if_false, hfull, false_and]
    have htake : List.take w.length (w ++ List.drop w.length inBuf) = w := by simp
    rw [htake]
    have := hca ((w ++ List.drop w.length inBuf).headD 0 == LF && decide (w.length > 0)) w (by
      constructor
      · intro h
        simp only [Bool.and_eq_true, beq_iff_eq, decide_eq_true_eq] at h
        cases w with
        | nil => simp at h
        | cons y t => simp at h; exact ⟨t, by rw [h]⟩
      · rintro ⟨t, rfl⟩; simp)
    cases he : endsCR inBuf <;> simp_all

theorem dropLast_append_CR (w : Bytes) (h : endsCR w = true) : w.dropLast ++ [CR] = w := by
  induction w with
  | nil => simp at h
  | cons x r ih =>
    cases r with
    | nil => simp at h; simp [h]
    | cons y r' => simp at h; simpa using ih h

/-- what the reader has produced: canon of (pending CR ++ input) -/
theorem nrBlocks_flatten (W : Nat) (hW : 0 < W) : ∀ (n : Nat) (inp inBuf : Bytes),
    inp.length ≤ n → inBuf.length = W →
    (nrBlocks CRLF W inBuf inp).flatten =
      canonGo false ((if endsCR inBuf then [CR] else []) ++ inp) := by
  intro n
  induction n with
  | zero =>
    intro inp inBuf hn hlen
    have : inp = [] := by cases inp <;> simp_all
    subst this
    rw [nrBlocks]
    have hW' : ¬ W = 0 := by omega
    have hs := (nrCleanup_spec W inBuf [] hW hlen (by simp)).2
    have hne : ¬ ((0 : Nat) = W) := by omega
    simp [hW', hW, hs, hne]
  | succ n ih =>
    intro inp inBuf hn hlen
    rw [nrBlocks]
    have hW' : ¬ W = 0 := by omega
    simp only [hW', dite_false]
    by_cases hshort : inp.length < W
    · have htake : inp.take W = inp := List.take_of_length_le (by omega)
      have hs := (nrCleanup_spec W inBuf inp hW hlen (by omega)).2
      have hne : ¬ (inp.length = W) := by omega
      simp [hshort, htake, hs, hne]
    · have hwl : (inp.take W).length = W := by simp; omega
      have hspec := nrCleanup_spec W inBuf (inp.take W) hW hlen (by omega)
      simp only [hshort, dite_false, List.flatten_cons]
      rw [ih (inp.drop W) _ (by simp; omega) (by rw [hspec.1]; simp [hwl, hlen])]
      rw [hspec.2, hspec.1]
      have hdrop : List.drop (inp.take W).length inBuf = [] := by simp [hwl, hlen]
      rw [hdrop, List.append_nil]
      simp only [hwl, true_and]
      have hsplit : inp = inp.take W ++ inp.drop W := (List.take_append_drop W inp).symm
      generalize hw : inp.take W = w at *
      generalize hr : inp.drop W = rest at *
      subst hsplit
      by_cases hd : endsCR w
      · simp only [hd, if_true]
        have hwd := dropLast_append_CR w hd
        have : canonGo false ([CR] ++ rest) = canonGo (endsCR ((if endsCR inBuf = true then [CR] else []) ++ w.dropLast)) ([CR] ++ rest) := by
          simp [canonGo_cons_CR]
        rw [this, ← canonGo_false_append]
        congr 1
        rw [List.append_assoc, ← List.append_assoc w.dropLast, hwd]
      · simp only [hd, Bool.false_eq_true, if_false, List.nil_append]
        have hwne : w ≠ [] := by intro h; subst h; simp at hwl; omega
        have : endsCR ((if endsCR inBuf = true then [CR] else []) ++ w) = false := by
          rw [endsCR_append_ne_nil _ _ hwne]; simpa using hd
        rw [← List.append_assoc]
        rw [canonGo_false_append _ rest, this]

theorem endsCR_replicate_zero (n : Nat) : endsCR (List.replicate n (0 : Byte)) = false := by
  induction n with
  | zero => rfl
  | succ n ih => rw [List.replicate_succ, endsCR_cons_of_ne _ _ (by decide), ih]

theorem normalizedRead_eq_canon (W : Nat) (hW : 0 < W) (inp : Bytes) :
    normalizedRead W inp = canon inp := by
  unfold normalizedRead
  rw [nrBlocks_flatten W hW inp.length inp (nrInit W) (Nat.le_refl _) (by simp [nrInit])]
  have : endsCR (nrInit W) = false := by
    exact endsCR_replicate_zero W
  simp [this, canon]

/-! ### consequences -/

theorem canonGo_canonGo (p : Bool) (d : Bytes) : canonGo p (canonGo p d) = canonGo p d := by
  induction d generalizing p with
  | nil => simp [canonGo]
  | cons b r ih =>
    by_cases hb : b = LF
    · subst hb
      cases p
      · simp [canonGo, CR_ne_LF, ih]
      · simp [canonGo, ih]
    · simp [canonGo, hb, ih]

theorem canon_idem (d : Bytes) : canon (canon d) = canon d := canonGo_canonGo false d

/-- convert CRLF line endings to LF (`replace_newlines(_, "\n")`) -/
def toLF (d : Bytes) : Bytes := replaceNewlines [LF] d

theorem replaceNewlines_cons_other (repl : Bytes) (b : Byte) (r : Bytes) (h1 : b ≠ LF) (h2 : b ≠ CR) :
    replaceNewlines repl (b :: r) = b :: replaceNewlines repl r := by
  conv => lhs; unfold replaceNewlines
  simp [h1, h2]

theorem replaceNewlines_cons_LF (repl : Bytes) (r : Bytes) :
    replaceNewlines repl (LF :: r) = repl ++ replaceNewlines repl r := by
  conv => lhs; unfold replaceNewlines
  simp

theorem toLF_canonGo_false (d : Bytes) : toLF (canonGo false d) = toLF d := by
  unfold toLF
  fun_induction replaceNewlines [LF] d <;> simp_all [canonGo, CR_ne_LF, replaceNewlines]
  rename_i b r h1 h2 ih
  have : (b == CR) = false := by simpa using h2
  rw [this, replaceNewlines_cons_other _ _ _ h1 h2, ih]

theorem toLF_canon (d : Bytes) : toLF (canon d) = toLF d := toLF_canonGo_false d

/-- `canon` identifies nothing but line-ending representation -/
theorem canon_sensitive (d d' : Bytes) (h : canon d = canon d') : toLF d = toLF d' := by
  rw [← toLF_canon d, ← toLF_canon d', h]

/-- an LF-only text and its CRLF form are recovered from each other -/
theorem toLF_canon_of_noCR (d : Bytes) (h : ∀ b ∈ d, b ≠ CR) : toLF (canon d) = d := by
  rw [toLF_canon]
  unfold toLF
  induction d with
  | nil => simp [replaceNewlines]
  | cons b r ih =>
    have hb : b ≠ CR := h b (by simp)
    have hr : ∀ x ∈ r, x ≠ CR := fun x hx => h x (by simp [hx])
    by_cases hl : b = LF
    · subst hl; rw [replaceNewlines_cons_LF, ih hr]; simp
    · rw [replaceNewlines_cons_other _ _ _ hl hb, ih hr]

/-! ### `CrLfCheckReader` -/

theorem crlfScan_eq (xs : Bytes) : crlfScan xs = crlfOkGo false xs := by
  fun_induction crlfScan xs <;> simp_all [crlfOkGo, CR_ne_LF]
  · rename_i b; by_cases h : b = LF <;> simp [h]
  · rename_i b c r h1 h2 ih
    by_cases hc : c = LF
    · subst hc
      have : b ≠ CR := fun h => h2 h rfl
      simp [this]
    · simp [hc]

theorem crlfOkGo_append (p : Bool) (a b : Bytes) :
    crlfOkGo p (a ++ b) = (crlfOkGo p a && crlfOkGo (carry p a) b) := by
  induction a generalizing p with
  | nil => simp [crlfOkGo]
  | cons x a ih =>
    simp only [List.cons_append, crlfOkGo, carry_cons, ih]
    split <;> simp

theorem crlfCheckChunks_eq (f : Bool) (chunks : List Bytes) :
    crlfCheckChunks f chunks =
      if crlfOkGo f chunks.flatten then some (carry f chunks.flatten) else none := by
  induction chunks generalizing f with
  | nil => simp [crlfCheckChunks, crlfOkGo]
  | cons c cs ih =>
    cases c with
    | nil => simp [crlfCheckChunks, ih]
    | cons b r =>
      simp only [crlfCheckChunks, List.flatten_cons, crlfOkGo_append, crlfScan_eq]
      have hbody : crlfOkGo false (if (f && b == LF) = true then r else b :: r) = crlfOkGo f (b :: r) := by
        cases f
        · simp
        · by_cases hb : b = LF
          · subst hb; simp [crlfOkGo]
          · have : (b == LF) = false := by simpa using hb
            simp [this, crlfOkGo, hb]
      have hcarry : carry f (b :: r) = endsCR (b :: r) := by simp [carry]
      rw [hbody, ih, hcarry]
      have hc2 : carry f (b :: (r ++ cs.flatten)) = carry (endsCR (b :: r)) cs.flatten := by
        by_cases hcs : cs.flatten = []
        · simp [hcs, carry]
        · simp only [carry, hcs, if_false]
          rw [show (b :: (r ++ cs.flatten)) = (b :: r) ++ cs.flatten from rfl, endsCR_append_ne_nil _ _ hcs]
          simp
      cases h1 : crlfOkGo f (b :: r) <;> simp [hc2]

theorem crlfOkGo_iff_canonGo (p : Bool) (d : Bytes) : crlfOkGo p d = true ↔ canonGo p d = d := by
  induction d generalizing p with
  | nil => simp [crlfOkGo, canonGo]
  | cons b r ih =>
    by_cases hb : b = LF
    · subst hb
      cases p
      · simp [crlfOkGo, canonGo, CR_ne_LF]
      · simp [crlfOkGo, canonGo, ih]
    · have : (b == LF) = false := by simpa using hb
      simp [crlfOkGo, canonGo, hb, this, ih]

/-- `CrLfCheckReader` accepts a text, however it is chunked, iff it is already canonical -/
theorem crlfCheck_iff (chunks : List Bytes) :
    crlfCheck chunks = true ↔ canon chunks.flatten = chunks.flatten := by
  unfold crlfCheck canon
  rw [crlfCheckChunks_eq, ← crlfOkGo_iff_canonGo]
  split <;> simp_all

end Rpgp
