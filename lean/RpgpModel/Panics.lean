import RpgpModel.Bytes
import RpgpModel.Gen.Constants
import RpgpModel.Framing
/-!
# Panics — index-safety model of the decision / slicing regions reached by hostile input (C04)

Every Rust site that can panic — slice indexing `x[i]`, ranges `x[a..b]`, `copy_from_slice`,
`unwrap`/`expect`, `unreachable!`, unsigned subtraction, checked integer arithmetic, `String`
cuts — is written as a *checked* operation whose failure is the distinguished outcome
`Out.panic`; `Err(_)` returns are `Out.err`.  The regions are transcribed from the code as it is
(including the sites that do panic on the pinned tree: `pkeskDecodeV3`, `skeskV4Decode`,
`aesKwUnwrapLen`, `encSecretChecksum`, `b64Read` with an empty output buffer); the repaired forms
used by the candidate patches are the `…Fixed` definitions.

Arithmetic convention: `usize`/`u32`/`u16` subtraction below zero and addition above the type's
maximum are `panic` (the debug-build semantics; a release build wraps and then fails at the
following allocation or slice, which is what the harness observes as `capacity overflow`).
Cryptographic primitives never appear: the functions take the primitive's *output* (decrypted
session key, unwrapped key, base64-decoded checksum) as an argument.
-/
namespace Rpgp.Panics
open Rpgp

/-- result of running a region: a value, an `Err(_)`, or a Rust panic -/
inductive Out (α : Type) where
  | ok (a : α)
  | err
  | panic
deriving Repr, DecidableEq

namespace Out
def bind {α β : Type} : Out α → (α → Out β) → Out β
  | ok a, f => f a
  | err, _ => err
  | panic, _ => panic

instance : Monad Out where
  pure := ok
  bind := Out.bind

def isPanic {α : Type} : Out α → Bool
  | panic => true
  | _ => false

/-- class of the outcome, as printed by the driver -/
def cls {α : Type} : Out α → String
  | ok _ => "ok"
  | err => "err"
  | panic => "panic"
end Out

open Out

/-! ## checked primitives -/

/-- `l[i]` -/
def idx (l : Bytes) (i : Nat) : Out Byte :=
  match l[i]? with
  | some b => ok b
  | none => panic

/-- index check on a buffer of which only the length matters -/
def chkIdx (len i : Nat) : Out Unit := if i < len then ok () else panic

/-- `a - b` on an unsigned type -/
def sub (a b : Nat) : Out Nat := if b ≤ a then ok (a - b) else panic

/-- `a + b` on a type with `2^bits` values -/
def addW (bound a b : Nat) : Out Nat := if a + b < bound then ok (a + b) else panic

/-- `l[a..b]` -/
def slice (l : Bytes) (a b : Nat) : Out Bytes :=
  if a ≤ b ∧ b ≤ l.length then ok ((l.take b).drop a) else panic

/-- `l[a..]` -/
def sliceFrom (l : Bytes) (a : Nat) : Out Bytes := slice l a l.length

/-- `l[..b]` -/
def sliceTo (l : Bytes) (b : Nat) : Out Bytes := slice l 0 b

/-- range check on a buffer of which only the length matters: length of `x[a..b]` -/
def chkRange (len a b : Nat) : Out Nat := if a ≤ b ∧ b ≤ len then ok (b - a) else panic

/-- `dst.copy_from_slice(src)` -/
def copyLen (dst src : Nat) : Out Unit := if dst = src then ok () else panic

/-- `ensure!(c)` -/
def ensure (c : Bool) : Out Unit := if c then ok () else err

/-- `<[u8; n]>::try_from(slice).expect(..)` -/
def expectLen (s : Bytes) (n : Nat) : Out Unit := if s.length = n then ok () else panic

/-- `BufReadParsing::read_u8` & co. on an in-memory stream: `Err(UnexpectedEof)` when short -/
def readN (n : Nat) (inp : Bytes) : Out (Bytes × Bytes) :=
  if n ≤ inp.length then ok (inp.take n, inp.drop n) else err

def read1 (inp : Bytes) : Out (Byte × Bytes) :=
  match inp with
  | b :: r => ok (b, r)
  | [] => err

/-! ## tables -/

def lookup (t : List (Nat × Nat)) (k : Nat) : Nat :=
  match t.find? (fun e => e.1 == k) with
  | some e => e.2
  | none => 0

/-- `SymmetricKeyAlgorithm::from(octet).key_size()` -/
def symKeySize (a : Nat) : Nat := lookup Gen.symKeySizeTable a
/-- `SymmetricKeyAlgorithm::from(octet).block_size()` -/
def symBlockSize (a : Nat) : Nat := lookup Gen.symBlockSizeTable a

def aeadRow (a : Nat) : Option (Nat × Nat × Nat × Nat) := Gen.aeadTable.find? (fun e => e.1 == a)
/-- `AeadAlgorithm::from(octet).nonce_size()` -/
def aeadNonceSize (a : Nat) : Nat := match aeadRow a with | some (_, n, _, _) => n | none => 0
/-- `AeadAlgorithm::from(octet).iv_size()` -/
def aeadIvSize (a : Nat) : Nat := match aeadRow a with | some (_, _, n, _) => n | none => 0
/-- `AeadAlgorithm::from(octet).tag_size()` -/
def aeadTagSize (a : Nat) : Option Nat := match aeadRow a with | some (_, _, _, n) => some n | none => none

/-! ## 1. decoding of a decrypted session key — `types/params/plain_secret.rs  PlainSecretParams::decrypt` -/

inductive SessionKey where
  | v34 (alg : Nat) (key : Bytes)
  | v5 (key : Bytes)
  | v6 (key : Bytes)
deriving Repr, DecidableEq

/-- `checksum::calculate_simple`: sum of the octets mod 65536 (the `u32` accumulator of the
release build wraps; 65536 divides 2^32) -/
def simpleChecksum (bs : Bytes) : Nat := (bs.foldl (fun a b => a + b.toNat) 0) % 65536

/-- `checksum::simple(actual, data)?` -/
def checksumSimple (actual data : Bytes) : Out Unit := ensure (beNat actual == simpleChecksum data)

/-- the `EskType::V3_4` arm, as it is in the tree: `decrypted_key[0]` comes first -/
def pkeskDecodeV3 (dk : Bytes) : Out SessionKey := do
  let a ← idx dk 0                                            -- decrypted_key[0]
  let alg := a.toNat
  ensure (alg != 0)                                           -- != Plaintext
  let ks := symKeySize alg
  ensure (dk.length == ks + Gen.pkeskV3Overhead)              -- ensure_eq!(len, key_size + 3)
  let key ← slice dk 1 (ks + 1)                               -- decrypted_key[1..=key_size]
  let ck ← slice dk (ks + 1) (ks + 3)                         -- [key_size + 1..key_size + 3]
  expectLen ck 2                                              -- .try_into().expect("fixed size")
  checksumSimple ck key
  pure (.v34 alg key)

/-- candidate repair of D4a: `ensure!(!decrypted_key.is_empty())` in front -/
def pkeskDecodeV3Fixed (dk : Bytes) : Out SessionKey := do
  ensure (!dk.isEmpty)
  pkeskDecodeV3 dk

/-- the `EskType::V6` arm -/
def pkeskDecodeV6 (dk : Bytes) : Out SessionKey := do
  let len := dk.length
  ensure (decide (len ≥ Gen.pkeskV6MinLen))
  let n ← sub len Gen.pkeskV6CkLen
  let key ← slice dk 0 n                                      -- decrypted_key[0..len - 2]
  let ck ← sliceFrom dk n                                     -- decrypted_key[len - 2..]
  expectLen ck 2
  checksumSimple ck key
  pure (.v6 key)

/-- RFC 9580 §11.5 padding of the ECDH plaintext (what an honest sender wraps) -/
def pkcs5Pad (m : Bytes) : Bytes :=
  let p := Gen.ecdhPadBlock - m.length % Gen.ecdhPadBlock
  m ++ List.replicate p p.toUInt8

/-- X25519 / X448 arms: the unwrapped key is returned as it is; `sym` is the cleartext algorithm
octet of a v3 PKESK (`none` for v6) -/
def pkeskDecodeX (v6 : Bool) (sym : Option Nat) (key : Bytes) : Out SessionKey :=
  match v6, sym with
  | false, some a => ok (.v34 a key)
  | true, none => ok (.v6 key)
  | _, _ => err

/-! ## 2. SKESK decode — `packet/sym_key_encrypted_session_key.rs  decrypt` -/

/-- the `V4` arm after CFB decryption (`dk` = decrypted bytes), as it is in the tree -/
def skeskV4Decode (dk : Bytes) : Out SessionKey := do
  let a ← idx dk 0                                            -- decrypted_key[0]
  let key ← sliceFrom dk 1                                    -- &decrypted_key[1..]
  let ks := symKeySize a.toNat
  if ks == 0 then err
  else if ks != key.length then err
  else pure (.v34 a.toNat key)

/-- candidate repair of D4c(1) -/
def skeskV4DecodeFixed (dk : Bytes) : Out SessionKey := do
  ensure (!dk.isEmpty)
  skeskV4Decode dk

/-- `AeadAlgorithm::decrypt_in_place(sym, key, nonce, ad, buf)`: the slicing in front of the
primitive.  Supported pairs are AES-128/192/256 × EAX/OCB/GCM; `key[..ks]`, `Nonce::from_slice`
(asserts the length).  `open` is the primitive's verdict on the buffer. -/
def aeadDecryptInPlace (sym aead keyLen nonceLen : Nat) (opened : Option Bytes) : Out Bytes := do
  let ks := symKeySize sym
  let supportedSym := sym == Gen.symIdAES128 || sym == Gen.symIdAES192 || sym == Gen.symIdAES256
  match aeadTagSize aead with
  | none => err                                               -- `_ => UnsupporedAlgorithm`
  | some _ =>
    if !supportedSym then err
    else do
      let _ ← chkRange keyLen 0 ks                            -- &key[..16|24|32]
      copyLen (aeadNonceSize aead) nonceLen                   -- Nonce::from_slice(nonce)
      match opened with
      | some pt => pure pt
      | none => err

/-- `V5` arm: the caller's key is the AEAD key, the nonce is the parsed IV (`AeadProps` fixes its
length per mode) -/
def skeskV5Decode (sym aead keyLen : Nat) (opened : Option Bytes) : Out SessionKey := do
  let pt ← aeadDecryptInPlace sym aead keyLen (aeadIvSize aead) opened
  pure (.v5 pt)

/-- `V6` arm: HKDF output of 42 octets is the AEAD key -/
def skeskV6Decode (sym aead : Nat) (opened : Option Bytes) : Out SessionKey := do
  -- hk.expand(&info, &mut okm).expect("42"): HKDF-SHA256 admits up to 255*32 octets
  let pt ← aeadDecryptInPlace sym aead Gen.aeadSetupOkmLen (aeadIvSize aead) opened
  pure (.v6 pt)

/-! ## 3. ECDH / X25519 / X448 unwrap — `crypto/aes_kw.rs unwrap`, `crypto/ecdh.rs derive_session_key` -/

/-- `aes_kw::unwrap(key, data)`: `let len = data.len() - IV_LEN;` comes before any check -/
def aesKwUnwrapLen (keyLen dataLen : Nat) : Out Nat := do
  let len ← sub dataLen Gen.aesKwIvLen                        -- data.len() - IV_LEN
  -- match key.len()*8 { 128|192|256 => Kek::new(from_slice(key)).unwrap(data,out), _ => Err }
  if keyLen != 16 && keyLen != 24 && keyLen != 32 then err
  -- aes-kw crate: data.len() % 8 != 0 => Err; n = data.len()/8 - 1 (checked_sub => Err);
  -- out.len() != n*8 => Err
  else if dataLen % 8 != 0 then err
  else pure len

/-- `aes_kw::unwrap` with the primitive's verdict (`none` = integrity check failed) -/
def aesKwUnwrap (keyLen dataLen : Nat) (prim : Option Bytes) : Out Bytes := do
  let _ ← aesKwUnwrapLen keyLen dataLen
  match prim with
  | some pt => pure pt
  | none => err

/-- candidate repair of D4f: reject short input first -/
def aesKwUnwrapLenFixed (keyLen dataLen : Nat) : Out Nat := do
  ensure (decide (dataLen ≥ Gen.aesKwIvLen))
  aesKwUnwrapLen keyLen dataLen

/-- PKCS5-style unpadding block of `derive_session_key` on the unwrapped key -/
def ecdhUnpad (padded : Bytes) : Out Bytes := do
  let len := padded.length
  ensure (len % Gen.ecdhPadBlock == 0)
  ensure (!padded.isEmpty)
  let pad ← match padded.getLast? with                        -- .last().expect("is not empty")
    | some p => ok p
    | none => panic
  if pad.toNat == 0 || pad.toNat > len then err             -- `*pad == 0 || *pad as usize > len`
  else do
    let unpaddedLen ← sub len pad.toNat
    let tail ← sliceFrom padded unpaddedLen                   -- decrypted_key_padded[unpadded_len..]
    if tail.any (fun b => b != pad) then err
    else do
      let dk := padded.take unpaddedLen                       -- truncate
      ensure (!dk.isEmpty)
      pure dk

/-- `derive_session_key(shared, esk, encrypted_key_len, ..)`: the length arithmetic in front of
the unwrap, `kekLen` = `alg_sym.key_size()` octets of the KDF digest, `unwrap` the primitive's
verdict (the padded plaintext) -/
def ecdhDerive (encKeyLen eskLen kekLen : Nat) (unwrapped : Option Bytes) : Out Bytes := do
  -- let mut v = vec![0; encrypted_key_len]; v[(encrypted_key_len - esk.len())..].copy_from_slice(esk)
  let off ← sub encKeyLen eskLen
  let dst ← chkRange encKeyLen off encKeyLen
  copyLen dst eskLen
  let _ ← aesKwUnwrapLen kekLen encKeyLen
  match unwrapped with
  | none => err
  | some padded => ecdhUnpad padded

/-- an ECDH recipient: unwrap, unpad (`derive_session_key`), then the common decode -/
def pkeskDecodeViaEcdh (v6 : Bool) (padded : Bytes) : Out SessionKey := do
  let dk ← ecdhUnpad padded
  if v6 then pkeskDecodeV6 dk else pkeskDecodeV3 dk

/-! ## 4. SEIPDv2 set-up — `crypto/aead.rs aead_setup_rfc9580`, `aead/decryptor.rs new_rfc9580`,
`reader/sym_encrypted_protected.rs decrypt` -/

/-- `aead_setup_rfc9580(sym, aead, ..)`: (message key length, nonce length) -/
def aeadSetup (sym aead : Nat) : Out (Nat × Nat) := do
  let okm := Gen.aeadSetupOkmLen
  let ks := symKeySize sym
  let src ← chkRange okm 0 ks                                 -- &okm[..key_size]
  copyLen ks src                                              -- message_key.copy_from_slice
  let raw ← sub (aeadNonceSize aead) Gen.aeadSetupNonceCounter -- nonce_size() - 8
  let iv ← chkRange okm ks (ks + raw)                         -- &okm[ks..ks + raw_iv_len]
  let dst ← chkRange (aeadNonceSize aead) 0 raw               -- nonce[..raw_iv_len]
  copyLen dst iv
  pure (ks, aeadNonceSize aead)

/-- `StreamDecryptor::new_rfc9580` as it is now (D4b repaired: `tag_size()` is consulted first) -/
def streamDecryptorNew (sym aead : Nat) : Out (Nat × Nat) :=
  match aeadTagSize aead with
  | none => err
  | some _ => aeadSetup sym aead

/-- the pre-repair order (regression witness for D4b) -/
def streamDecryptorNewPreFix (sym aead : Nat) : Out (Nat × Nat) := do
  let r ← aeadSetup sym aead
  match aeadTagSize aead with
  | none => err
  | some _ => pure r

/-- `SymEncryptedProtectedDataConfig::try_from_reader` (v2 fields) + `decrypt` with a v6 session
key of `keyLen` octets: chunk-size octet validated at parse time, key length compared with the
cipher's, then `new_rfc9580` -/
def seipd2Admit (sym aead cs keyLen : Nat) : Out (Nat × Nat) := do
  ensure (decide (cs ≤ Gen.chunkSizeMaxOctet))                -- ChunkSize::try_from
  ensure (keyLen == symKeySize sym)                           -- ensure_eq!(session_key.len(), key_size)
  streamDecryptorNew sym aead

/-- admission followed by the first AEAD call on the container (`opened` = the primitive's verdict
on the first chunk / final tag; `none` for a container the attacker made up) -/
def seipd2Open (sym aead cs keyLen : Nat) (opened : Option Bytes) : Out Bytes := do
  let (ks, nonceLen) ← seipd2Admit sym aead cs keyLen
  aeadDecryptInPlace sym aead ks nonceLen opened

/-! ## 4b. admission of a session key by every encrypted container —
`reader/sym_encrypted.rs` (SED, tag 9), `reader/sym_encrypted_protected.rs` (SEIPD v1/v2 and the
GnuPG "OCB encrypted data" packet, tag 20), `message/types.rs Edata::decrypt_with_options` -/

/-- what travels with a session key: `PlainSessionKey::{V3_4 { sym_alg }, V5, V6}` -/
inductive SkKind where
  | v34 (alg : Nat)
  | v5
  | v6
deriving Repr, DecidableEq

/-- key lengths `KeyInit::new_from_slice` of the RustCrypto cipher accepts (the primitive's
contract): CAST5 5..16, Blowfish 4..56, Twofish 16/24/32, every other cipher exactly its key size -/
def cipherKeyLenOk (sym keyLen : Nat) : Bool :=
  if sym == Gen.symIdCAST5 then decide (5 ≤ keyLen ∧ keyLen ≤ 16)
  else if sym == Gen.symIdBlowfish then decide (4 ≤ keyLen ∧ keyLen ≤ 56)
  else if sym == Gen.symIdTwofish then keyLen == 16 || keyLen == 24 || keyLen == 32
  else keyLen == symKeySize sym

/-- `StreamDecryptor::new(alg, ..)` as it was before repair D18d: Plaintext and unknown ciphers are
refused, then `BufDecryptor::<C>::new_from_slices(key, iv)` (`Err(InvalidLength)` for a key length the
cipher does not take) — Blowfish and CAST5 take lengths that are not the session-key size. -/
def cfbNewPreFix (sym keyLen : Nat) : Out Unit :=
  if symKeySize sym = 0 then err else ensure (cipherKeyLenOk sym keyLen)

/-- repaired: `ensure_eq!(key.len(), alg.key_size())` comes first; the cipher's own check follows -/
def cfbNewFixed (sym keyLen : Nat) : Out Unit :=
  if keyLen != symKeySize sym then err
  else cfbNewPreFix sym keyLen

/-- `StreamDecryptor::new(alg, ..)` of `crypto/sym/decryptor.rs`, as the tree has it (the translator
reports whether the length comparison is there).  No slicing happens on the key. -/
def cfbNew (sym keyLen : Nat) : Out Unit :=
  if Gen.fixD18dCfbSessionKeyLenChecked = 1 then cfbNewFixed sym keyLen else cfbNewPreFix sym keyLen

/-- SED (tag 9): needs `enable_legacy()`, only v3/v4 session keys -/
def sedAdmit (legacy : Bool) (sk : SkKind) (keyLen : Nat) : Out Unit :=
  if !legacy then err
  else match sk with
    | .v34 alg => cfbNew alg keyLen
    | _ => err

/-- SEIPD v1: only v3/v4 session keys -/
def seipd1Admit (sk : SkKind) (keyLen : Nat) : Out Unit :=
  match sk with
  | .v34 alg => cfbNew alg keyLen
  | _ => err

/-- SEIPD v2 through the reader: only v6 session keys, then `seipd2Admit` -/
def seipd2AdmitSk (sym aead cs : Nat) (sk : SkKind) (keyLen : Nat) : Out (Nat × Nat) :=
  match sk with
  | .v6 => seipd2Admit sym aead cs keyLen
  | _ => err

/-- `GnupgAeadDataConfig::try_from_reader`: version 1, OCB only, a valid chunk-size octet -/
def gnupgConfigOk (version aead cs : Nat) : Bool :=
  version == 1 && aead == Gen.aeadIdOcb && decide (cs ≤ Gen.chunkSizeMaxOctet)

/-- the `match session_key` of the GnuPG-AEAD branch: v6 keys are refused, a v3/v4 key must name
the packet's cipher -/
def gnupgSkCheck (sym : Nat) (sk : SkKind) : Out Unit :=
  match sk with
  | .v6 => err
  | .v34 a => ensure (sym == a)
  | .v5 => ok ()

/-- `StreamDecryptor::new_gnupg`: the session key itself is the message key (no slicing here);
`tag_size()` decides. Returns (message key length, nonce length). -/
def gnupgNew (aead keyLen : Nat) : Out (Nat × Nat) :=
  match aeadTagSize aead with
  | none => err
  | some _ => ok (keyLen, aeadIvSize aead)

/-- GnuPG AEAD (tag 20): needs `enable_gnupg_aead()`; the key length is compared with the cipher's
for every kind of session key -/
def gnupgAdmit (optIn : Bool) (sym aead : Nat) (sk : SkKind) (keyLen : Nat) : Out (Nat × Nat) :=
  if !optIn then err
  else do
    gnupgSkCheck sym sk
    ensure (keyLen == symKeySize sym)                         -- ensure_eq!(session_key.len(), key_size)
    gnupgNew aead keyLen

/-- the hazardous variant in which the length is compared only for v5 keys ("the ESK layer has
already matched a v3/v4 key against its algorithm" — false for X25519/X448 v3 PKESK, where the
algorithm octet travels in the clear).  Regression witness only. -/
def gnupgAdmitTrustingEsk (optIn : Bool) (sym aead : Nat) (sk : SkKind) (keyLen : Nat) : Out (Nat × Nat) :=
  if !optIn then err
  else do
    gnupgSkCheck sym sk
    ensure (sk != .v5 || keyLen == symKeySize sym)
    gnupgNew aead keyLen

/-- admission and the first AEAD call on the container -/
def gnupgOpenWith (admission : Bool → Nat → Nat → SkKind → Nat → Out (Nat × Nat))
    (optIn : Bool) (sym aead : Nat) (sk : SkKind) (keyLen : Nat) (opened : Option Bytes) : Out Bytes := do
  let (k, n) ← admission optIn sym aead sk keyLen
  aeadDecryptInPlace sym aead k n opened

def gnupgOpen := gnupgOpenWith gnupgAdmit

/-! ## 4c. RSA signature value padding — `crypto/rsa.rs verify` -/

/-- length of the value handed to `RsaSignature::try_from`: a short value is left-padded to the
modulus size, anything else is passed on as it is -/
def rsaVerifyPad (keySize sigLen : Nat) : Out Nat :=
  if sigLen < keySize then do
    let diff ← sub keySize sigLen
    let dst ← chkRange keySize diff keySize                   -- signature_padded[diff..]
    copyLen dst sigLen
    pure keySize
  else pure sigLen

/-- the hazardous variant that pads unconditionally with `saturating_sub` (regression witness) -/
def rsaVerifyPadAlways (keySize sigLen : Nat) : Out Nat := do
  let diff := keySize - sigLen
  let dst ← chkRange keySize diff keySize
  copyLen dst sigLen
  pure keySize

/-- `rsa::verify`: padding, then the primitive's verdict -/
def rsaVerify (keySize sigLen : Nat) (valid : Bool) : Out Unit := do
  let _ ← rsaVerifyPad keySize sigLen
  ensure valid

/-- ECDSA (`crypto/ecdsa.rs verify`, every curve) and EdDSA legacy (`PubKeyInner::verify`): `r` and
`s` are left-padded into a `2 * FLEN` buffer after `ensure!(r.len() <= FLEN)`, `ensure!(s.len() <= FLEN)` -/
def fieldPad2 (flen rLen sLen : Nat) : Out Unit := do
  ensure (decide (rLen ≤ flen))
  ensure (decide (sLen ≤ flen))
  let a ← sub flen rLen
  let d ← chkRange (2 * flen) a flen                          -- sig_bytes[(FLEN - r.len())..FLEN]
  copyLen d rLen
  let b ← sub flen sLen
  let d2 ← chkRange (2 * flen) (flen + b) (2 * flen)          -- sig_bytes[FLEN + (FLEN - s.len())..]
  copyLen d2 sLen

/-- the same without the two `ensure!`s (regression witness) -/
def fieldPad2Unguarded (flen rLen sLen : Nat) : Out Unit := do
  let a ← sub flen rLen
  let d ← chkRange (2 * flen) a flen
  copyLen d rLen
  let b ← sub flen sLen
  let d2 ← chkRange (2 * flen) (flen + b) (2 * flen)
  copyLen d2 sLen

/-- how a signature value reaches the primitive, per algorithm family (`PubKeyInner::verify`):
`native = true` for `SignatureBytes::Native`, `lens` the octet lengths of the MPIs (or of the blob),
`unit` the modulus / field / blob size, `valid` the primitive's verdict on a well-shaped value -/
inductive SigAlg where
  | rsa | field | dsa | native
deriving Repr, DecidableEq

def sigShape (alg : SigAlg) (unit : Nat) (native : Bool) (lens : List Nat) (valid : Bool) : Out Unit :=
  match alg, native, lens with
  | .rsa, false, [l] => rsaVerify unit l valid
  | .field, false, [r, s] => do fieldPad2 unit r s; ensure valid
  | .dsa, false, [_, _] => ensure valid
  | .native, true, [l] => do ensure (l == unit); ensure valid    -- `<&[u8; N]>::try_from(sig)?`
  | _, _, _ => err                                              -- wrong representation / count

/-! ## 5. packet header and length decoding — `types/packet.rs`, `packet/header.rs` -/

/-- `1u32 << n` (panics when `n ≥ 32`) -/
def shl32 (n : Nat) : Out Nat := if n < 32 then ok (2 ^ n) else panic

/-- `PacketLength::try_from_reader`, checked -/
def decodeNewLenC (inp : Bytes) : Out (Len × Bytes) := do
  let (o, r) ← read1 inp
  if o.toNat ≤ Gen.rdOneOctetMax then pure (Len.fixed o.toNat, r)
  else if o.toNat ≤ Gen.rdTwoOctetMax then do
    let (a, r') ← read1 r
    let d ← sub o.toNat Gen.rdTwoOctetSub                     -- olen as u32 - 192
    let s ← addW 4294967296 (d * 2 ^ Gen.rdTwoOctetShift) Gen.rdTwoOctetAdd
    let l ← addW 4294967296 s a.toNat
    pure (Len.fixed l, r')
  else if o.toNat ≤ Gen.rdPartialMax then do
    let p ← shl32 (o.toNat % (Gen.rdPartialMask + 1))         -- 1 << (olen & 0x1F)
    pure (Len.part p, r)
  else do
    let (bs, r') ← readN 4 r
    pure (Len.fixed (beNat bs), r')

/-- `PacketHeader::try_from_reader`, checked (`unreachable!` on the 2-bit length type) -/
def parseHeaderC (inp : Bytes) : Out (Hdr × Bytes) := do
  let (h, r) ← read1 inp
  if h.toNat / 64 = 3 then do
    let (l, r') ← decodeNewLenC r
    pure ({ newFormat := true, tag := h.toNat % 64, len := l }, r')
  else if h.toNat / 64 = 2 then do
    let tag := h.toNat / 4 % 16
    match h.toNat % 4 with
    | 0 => do let (bs, r') ← readN 1 r; pure ({ newFormat := false, tag, len := .fixed (beNat bs) }, r')
    | 1 => do let (bs, r') ← readN 2 r; pure ({ newFormat := false, tag, len := .fixed (beNat bs) }, r')
    | 2 => do let (bs, r') ← readN 4 r; pure ({ newFormat := false, tag, len := .fixed (beNat bs) }, r')
    | 3 => pure ({ newFormat := false, tag, len := .indet }, r)
    | _ => panic                                              -- unreachable!("only 2 bits")
  else err

/-! ## 6. `EncryptedSecretParams::checksum` — `types/params/encrypted_secret.rs` -/

/-- S2K usage octet → length of the slice `checksum()` takes: 254 (`Cfb`) → 20, other protected
modes → 2 -/
def encSecretChecksumLen (usage : Nat) : Nat := if usage == 254 then Gen.escSha1Len else Gen.escSimpleLen

/-- `self.data[self.data.len() - k..].to_vec()` -/
def encSecretChecksum (usage : Nat) (data : Bytes) : Out Bytes := do
  let off ← sub data.length (encSecretChecksumLen usage)
  sliceFrom data off

/-- candidate repair of D4c(2): `self.data.len().saturating_sub(k)` -/
def encSecretChecksumFixed (usage : Nat) (data : Bytes) : Out Bytes :=
  sliceFrom data (data.length - encSecretChecksumLen usage)

/-! ## 7. S2K `derive_key` argument handling — `types/s2k.rs` -/

/-- `(p as f32).log2().ceil() as u8` for `p ≤ 32` (`p = 0`: `-inf` saturates to 0) -/
def ceilLog2 (p : Nat) : Nat := if p ≤ 1 then 0 else Nat.log2 (p - 1) + 1

/-- `2u32.pow(e)` -/
def pow2u32 (e : Nat) : Out Nat := if 2 ^ e < 4294967296 then ok (2 ^ e) else panic

/-- Argon2 arm up to the call of the primitive: admission of the octet triple `(t, p, m_enc)`;
the last line is the documented contract of `argon2::Params::new` (m ≥ 8p, t ≥ 1, p ≥ 1,
output length ≥ 4) -/
def argon2Admit (t p mEnc keySize : Nat) : Out Unit := do
  ensure (decide (t ≤ Gen.argon2MaxT ∧ p ≤ Gen.argon2MaxP))
  let minM := ceilLog2 p
  ensure (decide (mEnc ≥ minM ∧ mEnc ≤ Gen.argon2MaxMEnc))
  let m ← pow2u32 mEnc
  ensure (decide (m ≤ Gen.argon2MemLimitKib))
  ensure (decide (8 * p ≤ m ∧ 1 ≤ t ∧ 1 ≤ p ∧ 4 ≤ keySize))

/-- `decode_count` -/
def s2kDecodeCount (c : Nat) : Nat := (16 + c % 16) * 2 ^ (c / 16 + Gen.s2kExpBias)

/-- `while count > data_size { count -= data_size }` (fuel = initial count) -/
def s2kReduce (ds : Nat) : Nat → Nat → Nat
  | 0, c => c
  | f + 1, c => if c > ds then s2kReduce ds f (c - ds) else c

/-- the slicing of one round of the iterated-and-salted arm: `salt` is `[u8; 8]` -/
def s2kIterTail (pwLen coded : Nat) : Out Unit := do
  let saltLen := 8
  let dataSize := saltLen + pwLen
  let c0 := s2kDecodeCount coded
  let c1 := if c0 < dataSize then dataSize else c0
  let count := s2kReduce dataSize c1 c1
  if count < saltLen then do
    let _ ← chkRange saltLen 0 count                          -- &salt[..count]
    pure ()
  else do
    let c ← sub count saltLen
    let _ ← chkRange pwLen 0 c                                -- &passphrase[..count]
    pure ()

/-- what one round feeds the hasher after the zero prefix: only the iterated arm slices -/
def s2kRoundFeed (pwLen : Nat) (coded : Option Nat) : Out Unit :=
  match coded with
  | some c => s2kIterTail pwLen c
  | none => ok ()

/-- rounds loop of the Simple/Salted/Iterated arms: `zeros[..round]`, `key[start..end]`,
`hash[..end - start]` (`rounds = ceil(key_size / digest_size)`, exact for the sizes in play) -/
def s2kRounds (dsz ksz pwLen : Nat) (coded : Option Nat) : Nat → Nat → Out Unit
  | 0, _ => ok ()
  | todo + 1, round => do
    let rounds := (ksz + dsz - 1) / dsz
    let _ ← chkRange rounds 0 round                           -- &zeros[..round]
    s2kRoundFeed pwLen coded
    let start := round * dsz
    let last ← sub rounds 1                                   -- rounds - 1
    let end_ := if round == last then ksz else (round + 1) * dsz
    let n ← chkRange ksz start end_                           -- key[start..end]
    let d ← sub end_ start
    let h ← chkRange dsz 0 d                                  -- &hash[..end - start]
    copyLen n h
    s2kRounds dsz ksz pwLen coded todo (round + 1)

/-- `derive_key` for the hash-based specifiers; `dsz = none`: unknown hash → `Err` -/
def s2kDeriveHashed (dsz : Option Nat) (ksz pwLen : Nat) (coded : Option Nat) : Out Unit :=
  match dsz with
  | none => err
  | some 0 => err  -- no such digest
  | some d => s2kRounds d ksz pwLen coded ((ksz + d - 1) / d) 0

/-! ## 8. MPI decode — `types/mpi.rs Mpi::try_from_reader` -/

def stripLeadingZeros : Bytes → Bytes
  | [] => []
  | b :: r => if b == 0 then stripLeadingZeros r else b :: r

def mpiDecode (inp : Bytes) : Out (Bytes × Bytes) := do
  let (hd, r) ← readN 2 inp
  let bits := beNat hd
  if bits > Gen.mpiMaxBits then err
  else do
    let s ← addW 65536 bits Gen.mpiRound                      -- (len_bits + 7) on u16
    let n := s / 2 ^ Gen.mpiShift
    let (body, r') ← readN n r
    pure (stripLeadingZeros body, r')

/-! ## 9. subpacket length decode — `packet/signature/subpacket.rs`, `de.rs subpackets` -/

def subpacketLenC (inp : Bytes) : Out (Nat × Bytes) := do
  let (o, r) ← read1 inp
  if o.toNat ≤ Gen.spOneOctetMax then pure (o.toNat, r)
  else if o.toNat ≤ Gen.spTwoOctetMax then do
    let (a, r') ← read1 r
    let d ← sub o.toNat Gen.spTwoOctetSub                     -- olen as u16 - 192
    chkIdx 16 Gen.spTwoOctetShift                             -- shift amount < 16
    let s ← addW 65536 (d * 2 ^ Gen.spTwoOctetShift % 65536) Gen.spTwoOctetAdd
    let l ← addW 65536 s a.toNat
    pure (l, r')
  else do
    let (bs, r') ← readN 4 r
    pure (beNat bs, r')

/-- one iteration of `subpackets`: (type octet, body length, rest) -/
def subpacketHeadC (inp : Bytes) : Out (Byte × Nat × Bytes) := do
  let (len, r) ← subpacketLenC inp
  ensure (len != 0)                                           -- "empty subpacket is not allowed"
  let (typ, r') ← read1 r
  let bodyLen ← sub len 1                                     -- packet_len.len() - 1
  pure (typ, bodyLen, r')

/-! ## 10. `Base64Reader::read` — `base64/reader.rs` -/

def isBase64Token (c : Byte) : Bool :=
  (0x41 ≤ c.toNat && c.toNat ≤ 0x5A) || (0x61 ≤ c.toNat && c.toNat ≤ 0x7A)
    || (0x30 ≤ c.toNat && c.toNat ≤ 0x39) || c == 47 || c == 43 || c == 61 || c == LF || c == CR

/-- `while buf[buf_i] == b'\r' || buf[buf_i] == b'\n' { buf_i += 1; if buf_i == buf.len() { break } }` -/
def b64SkipNl (buf : Bytes) : Nat → Nat → Out Nat
  | 0, i => ok i
  | f + 1, i => do
    let c ← idx buf i
    if c == CR || c == LF then
      if i + 1 == buf.length then ok (i + 1) else b64SkipNl buf f (i + 1)
    else ok i

/-- the `loop` of `read`: current `fill_buf` slice `buf`, later slices `rest`, cursor `i`, bytes
written so far `out` (`n = out.length`), capacity `intoLen`.  Returns what was written and the
unconsumed source. -/
def b64Loop (intoLen : Nat) : Nat → Bytes → List Bytes → Nat → Bytes → Out (Bytes × List Bytes)
  | 0, buf, rest, i, out => ok (out, buf.drop i :: rest)
  | f + 1, buf, rest, i, out => do
    let i ← b64SkipNl buf (buf.length + 1) i
    let step : Out (Bool × Nat × Bytes) :=
      if i < buf.length then do
        let c ← idx buf i
        if !isBase64Token c then pure (true, i, out)
        else do
          chkIdx intoLen out.length                           -- into[n] = buf[buf_i]
          let out := out ++ [c]
          if out.length == intoLen then pure (true, i + 1, out) else pure (false, i + 1, out)
      else pure (false, i, out)
    let (brk, i, out) ← step
    if brk then ok (out, buf.drop i :: rest)
    else if i == buf.length then
      match rest with
      | [] => ok (out, [])
      | [] :: rest' => ok (out, rest')                        -- empty fill_buf: EOF
      | (c :: cs) :: rest' => b64Loop intoLen f (c :: cs) rest' 0 out
    else b64Loop intoLen f buf rest i out

def totalLen (src : List Bytes) : Nat := (src.map List.length).sum + src.length

/-- `Base64Reader::read(into)` with `into.len() = intoLen` over the source slices `src` -/
def b64Read (intoLen : Nat) (src : List Bytes) : Out (Bytes × List Bytes) :=
  match src with
  | [] => ok ([], [])
  | [] :: rest => ok ([], rest)
  | (c :: cs) :: rest => b64Loop intoLen (2 * totalLen src + 2) (c :: cs) rest 0 []

/-- candidate repair: `if into.is_empty() { return Ok(0) }` -/
def b64ReadFixed (intoLen : Nat) (src : List Bytes) : Out (Bytes × List Bytes) :=
  if intoLen = 0 then ok ([], src) else b64Read intoLen src

/-! ## 11. `read_checksum` — `armor/reader.rs` -/

/-- `for a in checksum.iter().rev() { buf[i] = *a; i -= 1; }` -/
def readChecksumLoop : Bytes → Nat → Bytes → Out Bytes
  | [], _, buf => ok buf
  | a :: r, i, buf => do
    chkIdx buf.length i
    let buf := buf.set i a
    let i ← sub i 1
    readChecksumLoop r i buf

/-- `read_checksum(input)` after base64 decoding (`dec` = decoded octets) -/
def readChecksum (dec : Bytes) : Out Nat := do
  let buf ← readChecksumLoop dec.reverse dec.length (List.replicate Gen.armorCrcBufLen 0)
  pure (beNat buf)

/-! ## 11b. `Dearmor::read` state hand-over — `armor/reader.rs impl Read for Dearmor` -/

/-- `Part` of the dearmor state machine -/
inductive DPart where
  | header | body | footer | done | temp
deriving Repr, DecidableEq

/-- one `read` call: `mem::replace(&mut self.current_part, Part::Temp)`, then the step for the
part that was current; `stepOk = false` is an `Err` propagated with `?` — the state is then left
at `Temp`.  A body step that is not at its end stays in `body` (`more = true`). -/
def dearmorCall (st : DPart) (stepOk more : Bool) : DPart × Out Unit :=
  match st with
  | .temp => (.temp, panic)                                   -- Part::Temp => panic!("invalid state")
  | .done => (.done, ok ())
  | .header => if stepOk then (.body, ok ()) else (.temp, err)
  | .body => if stepOk then ((if more then .body else .footer), ok ()) else (.temp, err)
  -- `read_footer`: a footer that parses but does not match / fails the CRC sets `Done` before `bail!`
  | .footer => if stepOk then (.done, ok ()) else if more then (.done, err) else (.temp, err)

/-- candidate repair of D4g: `Part::Temp => return Err(..)` -/
def dearmorCallFixed (st : DPart) (stepOk more : Bool) : DPart × Out Unit :=
  match st with
  | .temp => (.temp, err)
  | s => dearmorCall s stepOk more

/-- a consumer polling the reader: outcome of the last call made (polling goes on after `Err`,
which the `Read` contract allows) -/
def dearmorCalls (call : DPart → Bool → Bool → DPart × Out Unit) : DPart → List (Bool × Bool) → Out Unit
  | _, [] => ok ()
  | st, (okStep, more) :: rest =>
    match call st okStep more with
    | (_, Out.panic) => Out.panic
    | (st', _) => dearmorCalls call st' rest

/-! ## 11c. `LiteralDataReader` state hand-over — `reader/literal.rs fill_inner` -/

inductive LitState where
  | body | done | error
deriving Repr, DecidableEq

/-- `LiteralDataReader::is_done()` -/
def litIsDone (st : LitState) (bufferEmpty : Bool) : Out Bool :=
  match st with
  | .done => ok bufferEmpty
  | .body => ok false
  | .error => panic                                           -- panic!("LiteralDataReader errored")

/-- `fill_inner` before the repair (D4h): `if self.is_done()` comes first, and `is_done` panics in
the `Error` state.  `bufferEmpty`: nothing left in the buffer; `fillOk`: `fill_buffer_bytes`
succeeded; `short`: it delivered less than `BUFFER_SIZE` (source exhausted). -/
def litFillInnerPreFix (st : LitState) (bufferEmpty fillOk short : Bool) : LitState × Out Unit :=
  match litIsDone st bufferEmpty with
  | .panic => (st, panic)
  | .err => (st, err)
  | .ok true => (st, ok ())
  | .ok false =>
    match st with
    | .body =>
      if !bufferEmpty then (.body, ok ())
      else if !fillOk then (.error, err)                      -- mem::replace(self, Error); `?`
      else if short then (.done, ok ()) else (.body, ok ())
    | .done => (.done, ok ())
    | .error => (.error, panic)                               -- Self::Error => panic!("LiteralReader errored")

/-- `fill_inner` with the guard `if matches!(self, Self::Error) { return Err(..) }` in front -/
def litFillInner (st : LitState) (bufferEmpty fillOk short : Bool) : LitState × Out Unit :=
  match st with
  | .error => (.error, err)
  | s => litFillInnerPreFix s bufferEmpty fillOk short

/-- a consumer that keeps calling `read`/`fill_buf` (each runs `fill_inner`), whatever it returned -/
def litCalls (call : LitState → Bool → Bool → Bool → LitState × Out Unit) :
    LitState → List (Bool × Bool × Bool) → Out Unit
  | _, [] => ok ()
  | st, (e, f, s) :: rest =>
    match call st e f s with
    | (_, Out.panic) => Out.panic
    | (st', _) => litCalls call st' rest

/-! ## 12. `read_cleartext_body` — `composed/cleartext.rs` -/

def DASHES5 : Bytes := [DASH, DASH, DASH, DASH, DASH]
def NLDASHES5 : Bytes := LF :: DASHES5

def rfindGo (pat : Bytes) : Bytes → Nat → Option Nat → Option Nat
  | [], _, acc => acc
  | c :: r, i, acc => rfindGo pat r (i + 1) (if pat.isPrefixOf (c :: r) then some i else acc)

/-- `str::rfind(pat)` for a non-empty pattern -/
def rfind (pat s : Bytes) : Option Nat := rfindGo pat s 0 none

def isCont (b : Byte) : Bool := 0x80 ≤ b.toNat && b.toNat ≤ 0xBF

/-- `s.is_char_boundary(n)` on the UTF-8 bytes -/
def isBoundary (s : Bytes) (n : Nat) : Bool :=
  if n == s.length then true
  else match s[n]? with
    | some b => !isCont b
    | none => false

/-- `String::split_off(at)` -/
def splitOff (s : Bytes) (at_ : Nat) : Out (Bytes × Bytes) :=
  if isBoundary s at_ then ok (s.take at_, s.drop at_) else panic

/-- `String::truncate(n)` -/
def truncate (s : Bytes) (n : Nat) : Out Bytes :=
  if n ≤ s.length then (if isBoundary s n then ok (s.take n) else panic) else ok s

def endsWith (s suf : Bytes) : Bool := suf.reverse.isPrefixOf s.reverse

/-- the loop; `lines` are the successive `read_line` results (an empty one = EOF) -/
def clearBodyLoop : List Bytes → Bytes → Out (Bytes × Bytes)
  | [], _ => err
  | l :: ls, out =>
    if l.isEmpty then err
    else
      let out := out ++ l
      if DASHES5.isPrefixOf out then ok ([], out)
      else match rfind NLDASHES5 out with
        | some pos => do
          let (out, rest) ← splitOff out (pos + 1)
          if endsWith out [CR, LF] then do
            let n ← sub out.length 2
            let out ← truncate out n
            pure (out, rest)
          else do
            let n ← sub out.length 1
            let out ← truncate out n
            pure (out, rest)
        | none => clearBodyLoop ls out

/-- split a text the way successive `BufRead::read_line` calls do -/
def readLines : Bytes → Bytes → List Bytes
  | [], cur => if cur.isEmpty then [] else [cur]
  | b :: r, cur => if b == LF then (cur ++ [b]) :: readLines r [] else readLines r (cur ++ [b])

def readCleartextBody (text : Bytes) : Out (Bytes × Bytes) := clearBodyLoop (readLines text []) []

/-! ## 13. `NormalizedReader` window arithmetic — `normalize_lines.rs` -/

/-- `replace_newlines` (same definition as `Rpgp.replaceNewlines`, kept local so that this file
depends on the framing layer only) -/
def replaceNl (repl : Bytes) : Bytes → Bytes
  | [] => []
  | [b] => if b == LF then repl else [b]
  | b :: c :: r =>
    if b == LF then repl ++ replaceNl repl (c :: r)
    else if b == CR && c == LF then repl ++ replaceNl repl r
    else b :: replaceNl repl (c :: r)

/-- second half of `cleanup_buffer`: the edge case `[last_char, in_buffer[0]]` and the slice
`in_buffer[start..end]` -/
def nrTail (repl : Bytes) (lastChar : Byte) (inBuf' : Bytes) (read end_ : Nat) : Out (Bytes × Bytes) := do
  let first ← idx inBuf' 0                                    -- [last_char, self.in_buffer[0]]
  let (pre, start) :=
    if lastChar == CR then
      if first == LF && read > 0 then (replaceNl repl [CR, LF], 1) else ([CR], 0)
    else ([], 0)
  let mid ← slice inBuf' start end_                           -- &self.in_buffer[start..end]
  pure (pre ++ replaceNl repl mid, inBuf')

/-- one `fill_buffer` + `cleanup_buffer` round with every index checked.  `inBuf` is
`in_buffer` (length `W`) *before* the read, `w` the bytes the read delivered. -/
def nrCleanupC (repl : Bytes) (inBuf w : Bytes) : Out (Bytes × Bytes) := do
  let W := inBuf.length
  let li ← sub W 1                                            -- self.in_buffer.len() - 1
  let lastChar ← idx inBuf li
  let read := w.length
  if read > W then panic                                      -- fill_buffer never over-fills
  else do
    let inBuf' := w ++ inBuf.drop read
    let lastNow ← idx inBuf' li
    if read == W && lastNow == CR then do
      let end_ ← sub read 1                                   -- end = read - 1
      nrTail repl lastChar inBuf' read end_
    else nrTail repl lastChar inBuf' read read

/-- the successive rounds of `NormalizedReader` reading `inp` to the end through a window of
`W` octets (`fuel` bounds the number of rounds: each consumes `W > 0` octets) -/
def nrBlocksC (repl : Bytes) (W : Nat) : Nat → Bytes → Bytes → Out Bytes
  | 0, _, _ => ok []
  | f + 1, inBuf, inp => do
    let w := inp.take W
    let (blk, inBuf') ← nrCleanupC repl inBuf w
    if inp.length < W then pure blk
    else do
      let rest ← nrBlocksC repl W f inBuf' (inp.drop W)
      pure (blk ++ rest)

/-- `NormalizedReader::new(src, lb)` read to the end -/
def normalizedReadC (repl : Bytes) (W : Nat) (inp : Bytes) : Out Bytes :=
  nrBlocksC repl W (inp.length + 1) (List.replicate W 0) inp

/-! ## 14. `LineWriter::write` — `line_writer.rs` -/

structure LwState where
  extra : Bytes        -- extra[..extra_len]
  finished : Bool
deriving Repr, DecidableEq

/-- `write`, last part: "still not enough" return, else line break and hand-over to the inner
writer (`buffer` has `N + 2` octets) -/
def lwEmit (N : Nat) (lb : Bytes) (st : LwState) (bufPos inputPos : Nat) (buffer : Bytes) :
    Out (Nat × Bytes × LwState) := do
  let bufLen := N + 2
  if bufPos < N then pure (inputPos, [], { st with extra := [] })
  else do
    let d ← chkRange bufLen bufPos (bufPos + lb.length)       -- buffer[pos..pos + line_break.len()]
    copyLen d lb.length
    let _ ← chkRange bufLen 0 (bufPos + lb.length)            -- &self.buffer[..buffer_pos]
    pure (inputPos, buffer ++ lb, { st with extra := [] })

/-- `write`, middle part: `if buffer_pos < sl { copy the missing octets from input }` -/
def lwFill (N : Nat) (lb : Bytes) (st : LwState) (input : Bytes) (bufPos : Nat) (buffer : Bytes) :
    Out (Nat × Bytes × LwState) := do
  let bufLen := N + 2
  if bufPos < N then do
    let a ← sub N bufPos                                      -- sl - buffer_pos
    let b ← sub input.length 0                                -- input.len() - input_pos
    let missing := min a b
    let d ← chkRange bufLen bufPos (bufPos + missing)
    let s ← chkRange input.length 0 missing
    copyLen d s
    lwEmit N lb st (bufPos + missing) missing (buffer ++ input.take missing)
  else lwEmit N lb st bufPos 0 buffer

/-- one `write(input)` for line length `N` and line break `lb`; returns (bytes consumed, bytes
handed to the inner writer, new state) -/
def lwWrite (N : Nat) (lb : Bytes) (st : LwState) (input : Bytes) : Out (Nat × Bytes × LwState) := do
  if st.finished then panic                                   -- "Cannot write more after calling finish()"
  else if input.isEmpty then pure (0, [], st)
  else
    let orig := st.extra.length
    if orig + input.length < N then do
      let n ← chkRange N orig (orig + input.length)           -- self.extra[orig..extra_len]
      copyLen n input.length
      pure (input.length, [], { st with extra := st.extra ++ input })
    else
      let bufLen := N + 2
      if orig > 0 then do                                     -- if self.extra_len > 0
        let copied := min orig bufLen
        let d ← chkRange bufLen 0 copied
        let s ← chkRange N 0 copied
        copyLen d s
        let _ ← sub orig copied                               -- self.extra_len -= copied
        lwFill N lb st input copied (st.extra.take copied)
      else lwFill N lb st input 0 []

/-- a sequence of `write` calls (each retried with the unconsumed rest, as `write_all` does, while
progress is made) -/
def lwWriteAll (N : Nat) (lb : Bytes) : Nat → LwState → Bytes → Out (Bytes × LwState)
  | 0, st, _ => ok ([], st)
  | f + 1, st, input =>
    if input.isEmpty then ok ([], st)
    else do
      let (n, emitted, st') ← lwWrite N lb st input
      if n == 0 then err                                      -- WriteZero
      else do
        let (more, st'') ← lwWriteAll N lb f st' (input.drop n)
        pure (emitted ++ more, st'')

/-! ## the tree being checked

`Gen.fixD…` (re-extracted from the source on every run) say whether a repair is present; the
`…Cur` functions are the model of *this* tree and are what the driver answers with. -/

def pkeskDecodeV3Cur (dk : Bytes) : Out SessionKey :=
  if Gen.fixD4a = 1 then pkeskDecodeV3Fixed dk else pkeskDecodeV3 dk

def pkeskDecodeViaEcdhCur (v6 : Bool) (padded : Bytes) : Out SessionKey := do
  let dk ← ecdhUnpad padded
  if v6 then pkeskDecodeV6 dk else pkeskDecodeV3Cur dk

def skeskV4DecodeCur (dk : Bytes) : Out SessionKey :=
  if Gen.fixD4c1 = 1 then skeskV4DecodeFixed dk else skeskV4Decode dk

def encSecretChecksumCur (usage : Nat) (data : Bytes) : Out Bytes :=
  if Gen.fixD4c2 = 1 then encSecretChecksumFixed usage data else encSecretChecksum usage data

def b64ReadCur (intoLen : Nat) (src : List Bytes) : Out (Bytes × List Bytes) :=
  if Gen.fixD4c3 = 1 then b64ReadFixed intoLen src else b64Read intoLen src

def aesKwUnwrapCur (keyLen dataLen : Nat) (prim : Option Bytes) : Out Bytes :=
  if Gen.fixD4f = 1 ∧ dataLen < Gen.aesKwIvLen then err else aesKwUnwrap keyLen dataLen prim

def ecdhDeriveCur (encKeyLen eskLen kekLen : Nat) (unwrapped : Option Bytes) : Out Bytes :=
  if Gen.fixEcdhLen = 1 ∧ encKeyLen < eskLen then err
  else if Gen.fixD4f = 1 ∧ eskLen ≤ encKeyLen ∧ encKeyLen < Gen.aesKwIvLen then err
  else ecdhDerive encKeyLen eskLen kekLen unwrapped

def litFillInnerCur (st : LitState) (bufferEmpty fillOk short : Bool) : LitState × Out Unit :=
  if Gen.fixD4h = 1 then litFillInner st bufferEmpty fillOk short
  else litFillInnerPreFix st bufferEmpty fillOk short

def dearmorCallCur (st : DPart) (stepOk more : Bool) : DPart × Out Unit :=
  if Gen.fixD4g = 1 then dearmorCallFixed st stepOk more else dearmorCall st stepOk more

/-- `finish()` of the line writer: the pending partial line and a line break -/
def lwFinish (lb : Bytes) (st : LwState) : Bytes × LwState :=
  if st.finished then ([], st)
  else if st.extra.length > 0 then (st.extra ++ lb, { extra := [], finished := true })
  else ([], { st with finished := true })

/-- a whole session: `write_all` of each chunk, then `finish` -/
def lwSession (N : Nat) (lb : Bytes) : List Bytes → LwState → Out Bytes
  | [], st => ok (lwFinish lb st).1
  | c :: cs, st => do
    let (e, st') ← lwWriteAll N lb (c.length + 1) st c
    let rest ← lwSession N lb cs st'
    pure (e ++ rest)

end Rpgp.Panics
