import RpgpProofs.E2ESigned
/-! E2E, part 3: the optional compression layer — `readInner (compressedLayer …)`. -/
namespace Rpgp.E2E
open Rpgp

/-- the first packet of a signed stream is an OPS packet or the literal packet — never a compressed
data packet (so `is_compressed()` is false and the reader goes straight to the signed level) -/
theorem deframe_signedStream_head (P : Prims) (c : Cfg) (src : List Bytes) (S : Bytes)
    (wf : SignedWF P c src) (hS : signedStream P c src = some S) :
    ∃ h b r, deframe S = .ok (h, b, r) ∧ h.tag ≠ Gen.e2eTagCompressed := by
  obtain ⟨hopsA, _, hSeq⟩ := signedStream_some_inv P c src S hS
  have hopsF := opsBodies_facts c hopsA
  cases hob : opsBodies c with
  | nil =>
    rw [hSeq, hob]
    simp only [List.map_nil, List.flatten_nil, List.nil_append]
    obtain ⟨h, hd, ht⟩ := deframe_literalPkt c src.flatten
      ((sigBodies P c src).reverse.map fun b => fixedPkt Gen.e2eTagSignature (b.getD [])).flatten wf.k wf.litLen
    exact ⟨h, _, _, hd, by rw [ht]; decide⟩
  | cons ob rest =>
    have hmem : ob ∈ opsBodies c := by rw [hob]; exact List.mem_cons_self ..
    obtain ⟨si, hsi, hobeq⟩ := List.mem_map.mp hmem
    obtain ⟨b', hb'⟩ := hopsF si hsi
    have hbound : (ob.getD []).length < 4294967296 := by
      rw [← hobeq, hb', Option.getD_some]
      exact opsBody_bound _ _ _ _ (wf.ops si.1 (List.fst_mem_of_mem_zipIdx hsi) _) hb'
    rw [hSeq, hob]
    simp only [List.map_cons, List.flatten_cons, List.append_assoc]
    exact ⟨_, _, _, deframe_fixedPkt Gen.e2eTagOps (by decide) _ _ hbound, (by decide : Gen.e2eTagOps ≠ Gen.e2eTagCompressed)⟩

/-- **compression layer round trip** (any algorithm octet, `decompress ∘ compress = id` as a law) -/
theorem readInner_compressedLayer (P : Prims) (LC : ∀ a x, P.decompress a (P.compress a x) = some x)
    (o : ReadOpts) (c : Cfg) (src : List Bytes) (S : Bytes) (wf : SignedWF P c src)
    (hS : signedStream P c src = some S)
    (hcomp : ∀ a, c.compression = some a → a < 256 ∧ 1 + (P.compress a S).length < 4294967296) :
    readInner P o (compressedLayer P c S) = readSigned P o S := by
  unfold readInner compressedLayer
  cases hc : c.compression with
  | none =>
    obtain ⟨h, b, r, hd, ht⟩ := deframe_signedStream_head P c src S wf hS
    simp only [hd, ht, if_false]
  | some a =>
    obtain ⟨ha, hl⟩ := hcomp a hc
    have h1 : ([a.toUInt8] : Bytes).length ≤ 2 ^ c.k := by
      have : 1 ≤ 2 ^ c.k := Nat.one_le_two_pow
      simpa using this
    obtain ⟨h, hd, htag⟩ := deframe_emitPartial Gen.e2eTagCompressed c.k [a.toUInt8] (P.compress a S) []
      (by decide) wf.k.1 wf.k.2 h1 (by simpa using hl)
    simp only [List.append_nil] at hd
    simp only [hd, htag, if_true, List.singleton_append]
    have : a.toUInt8.toNat = a := toUInt8_toNat_of_lt a ha
    simp [this, LC]

end Rpgp.E2E
