namespace F
abbrev Byte := UInt8

/-- new-format length, fixed -/
def encLen (n : Nat) : List Byte :=
  if n < 192 then [n.toUInt8]
  else if n < 8384 then [((n - 192) / 256 + 192).toUInt8, ((n - 192) % 256).toUInt8]
  else [255, (n / 16777216 % 256).toUInt8, (n / 65536 % 256).toUInt8, (n / 256 % 256).toUInt8, (n % 256).toUInt8]

inductive Len | fixed (n : Nat) | part (n : Nat)
deriving DecidableEq, Repr

def decLen : List Byte → Option (Len × List Byte)
  | [] => none
  | o :: r =>
    if o.toNat < 192 then some (Len.fixed o.toNat, r)
    else if o.toNat < 224 then
      match r with
      | a :: r' => some (Len.fixed ((o.toNat - 192) * 256 + 192 + a.toNat), r')
      | [] => none
    else if o.toNat < 255 then some (Len.part (2 ^ (o.toNat % 32)), r)
    else match r with
      | a :: b :: c :: d :: r' => some (Len.fixed (a.toNat * 16777216 + b.toNat * 65536 + c.toNat * 256 + d.toNat), r')
      | _ => none

theorem dec_enc (n : Nat) (h : n < 4294967296) (rest : List Byte) :
    decLen (encLen n ++ rest) = some (Len.fixed n, rest) := by
  unfold encLen
  split
  · have h1 : n % 256 = n := by omega
    simp [decLen, h1, *]
  · split
    · have h1 : ((n - 192) / 256 + 192) % 256 = (n - 192) / 256 + 192 := by omega
      have h2 : ¬ ((n - 192) / 256 + 192 < 192) := by omega
      have h3 : (n - 192) / 256 + 192 < 224 := by omega
      have h4 : ((n - 192) / 256 + 192 - 192) * 256 + 192 + (n - 192) % 256 = n := by omega
      simp [decLen, h1, h2, h3]
      clear h1 h2 h3 h4 h
      have := Nat.div_add_mod (n - 192) 256
      omega
    · have h4 : n / 16777216 % 256 * 16777216 + n / 65536 % 256 * 65536 + n / 256 % 256 * 256 + n % 256 = n := by omega
      simp [decLen, h4]

/-- partial body emission: chunks of size `c` as Partial, final Fixed -/
def emitTail (k : Nat) (body : List Byte) : List Byte :=
  let c := 2 ^ k
  if h : body.length < c then encLen body.length ++ body
  else (224 + k).toUInt8 :: (body.take c ++ emitTail k (body.drop c))
termination_by body.length
decreasing_by simp; have : 0 < 2 ^ k := Nat.pow_pos (by decide); omega

/-- reader: concatenate segments until a fixed one -/
def deframeTail (fuel : Nat) (inp : List Byte) : Option (List Byte × List Byte) :=
  match fuel with
  | 0 => none
  | fuel + 1 =>
    match decLen inp with
    | none => none
    | some (Len.fixed n, r) => if r.length < n then none else some (r.take n, r.drop n)
    | some (Len.part n, r) =>
      if r.length < n then none else
      match deframeTail fuel (r.drop n) with
      | none => none
      | some (b, rest) => some (r.take n ++ b, rest)

theorem dec_part (k : Nat) (hk : k ≤ 30) (r : List Byte) :
    decLen ((224 + k).toUInt8 :: r) = some (Len.part (2 ^ k), r) := by
  have h1 : (224 + k) % 256 = 224 + k := by omega
  have h2 : ¬ (224 + k < 192) := by omega
  have h3 : ¬ (224 + k < 224) := by omega
  have h4 : 224 + k < 255 := by omega
  have h5 : (224 + k) % 32 = k := by omega
  simp [decLen, h1, h2, h3, h4, h5]

theorem roundtrip (k : Nat) (hk : k ≤ 30) : ∀ (m : Nat) (body rest : List Byte) (fuel : Nat),
    body.length ≤ m → body.length < 4294967296 → body.length + 1 ≤ fuel →
    deframeTail fuel (emitTail k body ++ rest) = some (body, rest) := by
  have hc : 0 < 2 ^ k := Nat.pow_pos (by decide)
  intro m
  induction m with
  | zero =>
    intro body rest fuel hm hb hf
    have : body = [] := by cases body <;> simp_all
    subst this
    unfold emitTail
    obtain ⟨f, rfl⟩ : ∃ f, fuel = f + 1 := ⟨fuel - 1, by simp at hf; omega⟩
    simp [deframeTail, hc, encLen, decLen]
  | succ m ih =>
    intro body rest fuel hm hb hf
    obtain ⟨f, rfl⟩ : ∃ f, fuel = f + 1 := ⟨fuel - 1, by omega⟩
    unfold emitTail
    simp only
    split
    · simp [deframeTail, dec_enc body.length hb]
    · rename_i hge
      have hlen : (body.take (2 ^ k)).length = 2 ^ k := by simp; omega
      have ih' := ih (body.drop (2 ^ k)) rest f (by simp; omega) (by simp; omega) (by simp; omega)
      simp only [List.cons_append, deframeTail, dec_part k hk]
      have hd : List.drop (2 ^ k) (List.take (2 ^ k) body ++ emitTail k (List.drop (2 ^ k) body) ++ rest)
          = emitTail k (List.drop (2 ^ k) body) ++ rest := by
        rw [List.append_assoc, List.drop_left' hlen]
      have ht : List.take (2 ^ k) (List.take (2 ^ k) body ++ emitTail k (List.drop (2 ^ k) body) ++ rest)
          = List.take (2 ^ k) body := by
        rw [List.append_assoc, List.take_left' hlen]
      have hl : ¬ ((List.take (2 ^ k) body ++ emitTail k (List.drop (2 ^ k) body) ++ rest).length < 2 ^ k) := by
        simp; omega
      rw [if_neg hl, hd, ih', ht]
      simp
end F
