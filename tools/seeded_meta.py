#!/usr/bin/env python3
"""seeded_meta.py: (re)write seeded/<ID>/meta.json for the entries of tools/seeded_table.json, taking the
confirmation result from /tmp/confirm/<id>_<n>.result when present (kept if already recorded)."""
import json, os
T = json.load(open('/verif/tools/seeded_table.json'))
for e in T:
    d = f"/verif/seeded/{e['id']}"
    os.makedirs(d, exist_ok=True)
    p = f"{d}/meta.json"
    old = json.load(open(p)) if os.path.exists(p) else {}
    low, n = e['id'].lower().split('-')
    res = None
    rp = f"/tmp/confirm/{low}_{n}.result"
    if os.path.exists(rp):
        res = [l.strip() for l in open(rp) if l.strip()]
    conf = old.get('confirmed_by_me', {})
    if res and 'done' in res:
        conf = {"how": "tools/confirm_seeded.sh in a scratch worktree: full suite with the patch, demo test with and without the patch", "result": res}
    meta = {
        "breaks_property": e['id'].split('-')[0],
        "summary": e['summary'],
        "needs_to_manifest": e['needs'],
        "source": "independent sub-agent given only the property text and a scratch worktree of /repo",
        "confirmed_by_me": conf,
        "checks_run": "tools/try_seeded.sh <patch> <PROP...> (bench copy of /verif + /repo with the patch applied, quick tier, seed 0)",
        "caught_by": e['caught_by'],
        "missed_by_first_version_of_the_check": e.get('missed_first', False),
        "strengthening": e.get('strengthening', ""),
    }
    if e.get('neutralised_by'):
        meta["made_harmless_by_repair"] = {"commit": e['neutralised_by'], "note": e.get('neutralised_note', "")}
    json.dump(meta, open(p, 'w'), indent=1)
print(len(T), "entries")
