//! C01, end-to-end structure walk (model: lean/RpgpModel/E2E.lean, ops in lean/RpgpModel/Ops/C01.lean).
//!
//! writer -> model reader: a message the real `MessageBuilder` wrote is walked the way `E2E.readFull`
//! walks it, one request per level; the implementation's answer of each level is what the *real*
//! parser / reader reports for the same bytes:
//!
//!   e2e_top armored=0|1 msg=<hex>    dearmor, packet split, ESK parse + filter, container config
//!   seipd2_dec / seipd1_dec          (C03 ops) the container under the session key this harness owns:
//!                                    HKDF / AEAD opens / CFB / SHA-1 evaluated here with RustCrypto
//!                                    (src/plan.rs), the windowed / hold-back logic by the model
//!   e2e_inner data=<hex>             compressed data packet? algorithm octet, compressed bytes
//!   e2e_signed data=<hex>            OPS* literal SIG*: literal header + payload, every OPS and
//!                                    signature packet field by field, and the digest pre-image of
//!                                    every hash slot (impl side: identified from `reader.hash(i)`)
//!
//! model writer -> real reader: the literal packet (and the SEIPDv2 container) of real messages are
//! re-framed by the model (`e2e_frame`: arbitrary legal partial segmentations, non-minimal fixed
//! lengths, old format), re-encrypted by the plan interpreter under the same session key, and fed
//! to `Message::from_bytes -> decrypt -> decompress -> read -> verify`.

use std::io::{BufReader, Read};

use pgp::armor::Dearmor;
use pgp::composed::{Edata, Esk, FullSignaturePacket, Message, PlainSessionKey};
use pgp::crypto::aead::{AeadAlgorithm, ChunkSize};
use pgp::crypto::hash::HashAlgorithm;
use pgp::crypto::sym::SymmetricKeyAlgorithm;
use pgp::packet::{
    AeadProps, Decompressor, OpsVersionSpecific, ProtectedDataConfig, PublicKeyEncryptedSessionKey, Signature,
    SignatureVersionSpecific, StreamDecryptor, SymEncryptedProtectedDataConfig, SymKeyEncryptedSessionKey,
};
use pgp::ser::Serialize;
use pgp::types::{Fingerprint, KeyVersion, Seipdv1ReadMode};
use sha1::{Digest, Sha1};

use crate::ctx::{guarded, hx, Ctx};
use crate::frame::cksum;
use crate::plan;
use crate::props::c06::canon_ref;
use crate::props::c17::real_deframe;
use crate::sigrec::hash_with;

pub const MAX_V1: usize = 1 << 30;

fn ser<T: Serialize>(x: &T) -> Vec<u8> {
    let mut v = Vec::new();
    let _ = x.to_writer(&mut v);
    v
}

fn dash(b: &[u8]) -> String {
    if b.is_empty() { "-".into() } else { hex::encode(b) }
}

fn fp_version(f: &Fingerprint) -> u8 {
    match f.version() {
        Some(KeyVersion::V2) => 2,
        Some(KeyVersion::V3) => 3,
        Some(KeyVersion::V4) => 4,
        Some(KeyVersion::V5) => 5,
        Some(KeyVersion::V6) => 6,
        _ => 0,
    }
}

/// same format as `Ops.C01.showEsk`
fn esk_desc(e: &Esk) -> String {
    match e {
        Esk::PublicKeyEncryptedSessionKey(p) => match p {
            PublicKeyEncryptedSessionKey::V3 { id, pk_algo, values, .. } => {
                format!("P3.{}.{}.{}", dash(id.as_ref()), u8::from(*pk_algo), cksum(&ser(values)))
            }
            PublicKeyEncryptedSessionKey::V6 { fingerprint: None, pk_algo, values, .. } => {
                format!("P6.-.{}.{}", u8::from(*pk_algo), cksum(&ser(values)))
            }
            PublicKeyEncryptedSessionKey::V6 { fingerprint: Some(f), pk_algo, values, .. } => {
                let mut b = vec![fp_version(f)];
                b.extend_from_slice(f.as_bytes());
                format!("P6.{}.{}.{}", hex::encode(b), u8::from(*pk_algo), cksum(&ser(values)))
            }
            PublicKeyEncryptedSessionKey::Other { version, .. } => format!("P?.{version}"),
        },
        Esk::SymKeyEncryptedSessionKey(s) => match s {
            SymKeyEncryptedSessionKey::V4 { sym_algorithm, s2k, encrypted_key, .. } => {
                format!("S4.{}.{}.{}", u8::from(*sym_algorithm), hex::encode(ser(s2k)), cksum(encrypted_key))
            }
            SymKeyEncryptedSessionKey::V5 { sym_algorithm, s2k, aead, encrypted_key, .. } => {
                format!("S5.{}.{}.{}.{}", u8::from(*sym_algorithm), hex::encode(ser(s2k)), dash(aead_iv(aead)), cksum(encrypted_key))
            }
            SymKeyEncryptedSessionKey::V6 { sym_algorithm, s2k, aead, encrypted_key, .. } => {
                format!(
                    "S6.{}.{}.{}.{}.{}",
                    u8::from(*sym_algorithm),
                    u8::from(AeadAlgorithm::from(aead)),
                    hex::encode(ser(s2k)),
                    dash(aead_iv(aead)),
                    cksum(encrypted_key)
                )
            }
            SymKeyEncryptedSessionKey::Other { version, .. } => format!("S?.{version}"),
        },
    }
}

fn aead_iv(a: &AeadProps) -> &[u8] {
    match a {
        AeadProps::Eax { iv } => iv,
        AeadProps::Ocb { iv } => iv,
        AeadProps::Gcm { iv } => iv,
    }
}

/// the real packet splitter over a whole stream: (tag, body) per packet
pub fn real_packets(mut rest: Vec<u8>) -> Option<Vec<(u8, Vec<u8>)>> {
    let mut out = Vec::new();
    let mut guard = 0;
    while !rest.is_empty() {
        guard += 1;
        if guard > 200 {
            return None;
        }
        match real_deframe(&rest) {
            (ans, Some((b, r))) => {
                let f: Vec<&str> = ans.split(':').collect();
                let tag: u8 = f.get(2)?.parse().ok()?;
                out.push((tag, b));
                rest = r;
            }
            _ => return None,
        }
    }
    Some(out)
}

fn show_packets(p: &Option<Vec<(u8, Vec<u8>)>>) -> String {
    match p {
        None => "x".into(),
        Some(v) if v.is_empty() => "-".into(),
        Some(v) => v.iter().map(|(t, b)| format!("{t}.{}", cksum(b))).collect::<Vec<_>>().join(","),
    }
}

pub enum Container {
    V1,
    V2 { sym: SymmetricKeyAlgorithm, aead: AeadAlgorithm, cs: u8, salt: [u8; 32] },
}

pub struct TopView {
    pub bin: Vec<u8>,
    pub packets: Vec<(u8, Vec<u8>)>,
    pub container: Option<(Container, Vec<u8>)>, // config, ciphertext
}

/// level 1: what the real dearmor / packet parser / message parser see
pub fn top_level(ctx: &mut Ctx, armored: bool, msg: &[u8]) -> Option<TopView> {
    let r = guarded(|| -> Result<(String, Option<TopView>), String> {
        let (ai, bin) = if armored {
            let mut d = Dearmor::new(BufReader::new(msg));
            let mut out = Vec::new();
            d.read_to_end(&mut out).map_err(|e| format!("dearmor: {e}"))?;
            (format!("a.{}", d.checksum.map(|c| c.to_string()).unwrap_or_else(|| "-".into())), out)
        } else {
            ("-".to_string(), msg.to_vec())
        };
        let pkts = real_packets(bin.clone());
        let mut container = None;
        let top = match Message::from_bytes(&bin[..]) {
            Err(_) => "err".to_string(),
            Ok(Message::Encrypted { esk, edata, .. }) => {
                let body = pkts.as_ref().and_then(|p| p.iter().find(|(t, _)| *t == 18).map(|(_, b)| b.clone())).unwrap_or_default();
                let ed = match &edata {
                    Edata::SymEncryptedProtectedData { reader } => match reader.config() {
                        ProtectedDataConfig::Seipd(SymEncryptedProtectedDataConfig::V1) => {
                            let ct = body.get(1..).unwrap_or(&[]).to_vec();
                            let s = format!("V1.{}", cksum(&ct));
                            container = Some((Container::V1, ct));
                            s
                        }
                        ProtectedDataConfig::Seipd(SymEncryptedProtectedDataConfig::V2 { sym_alg, aead, chunk_size, salt }) => {
                            let ct = body.get(36..).unwrap_or(&[]).to_vec();
                            let cs: u8 = (*chunk_size).into();
                            let s = format!("V2.{}.{}.{}.{}.{}", u8::from(*sym_alg), u8::from(*aead), cs, hex::encode(salt), cksum(&ct));
                            container = Some((Container::V2 { sym: *sym_alg, aead: *aead, cs, salt: *salt }, ct));
                            s
                        }
                        _ => "other".to_string(),
                    },
                    _ => "other".to_string(),
                };
                let esks = if esk.is_empty() { "-".to_string() } else { esk.iter().map(esk_desc).collect::<Vec<_>>().join(",") };
                format!("enc:{esks};{ed}")
            }
            Ok(_) => "plain".to_string(),
        };
        let ans = format!("ok:{ai}|{}|{top}", show_packets(&pkts));
        Ok((ans, pkts.map(|packets| TopView { bin, packets, container })))
    });
    let req = format!("e2e_top armored={} msg={}", armored as u8, hx(msg));
    match r {
        Ok(Ok((ans, view))) => {
            ctx.case(req, ans);
            view
        }
        Ok(Err(_)) => {
            ctx.case(req, "err:armor".into());
            None
        }
        Err(_) => {
            ctx.case(req, "panic".into());
            None
        }
    }
}

fn read_all<R: Read>(mut r: R) -> (Vec<u8>, bool) {
    let mut out = Vec::new();
    let ok = r.read_to_end(&mut out).is_ok();
    (out, ok)
}

fn show(r: &(Vec<u8>, bool)) -> String {
    format!("{}:{}", if r.1 { "ok" } else { "err" }, hx(&r.0))
}

/// HKDF of RFC 9580 5.13.2 with the plan interpreter's primitives
pub fn v2_keys(sym: SymmetricKeyAlgorithm, aead: AeadAlgorithm, cs: u8, salt: &[u8], sk: &[u8]) -> Option<(Vec<u8>, Vec<u8>, [u8; 5])> {
    let info = [0xD2, 0x02, u8::from(sym), u8::from(aead), cs];
    let ks = sym.key_size();
    let ns = aead.nonce_size();
    if ns < 8 || ks == 0 {
        return None;
    }
    let okm = plan::hkdf(8, salt, sk, &info, ks + ns - 8).ok()?;
    Some((okm[..ks].to_vec(), okm[ks..].to_vec(), info))
}

/// level 2: the container under the session key this harness owns; returns the plaintext the real
/// decryptor released (on clean EOF)
pub fn decrypt_level(ctx: &mut Ctx, c: &Container, ct: &[u8], sk: &[u8], sym_v1: Option<SymmetricKeyAlgorithm>) -> Option<Vec<u8>> {
    match c {
        Container::V2 { sym, aead, cs, salt } => {
            let (mk, iv, info) = v2_keys(*sym, *aead, *cs, salt, sk)?;
            let csz = 1usize << (*cs as usize + 6);
            let mut rows: Vec<String> = Vec::new();
            if ct.len() >= 16 {
                let body_len = ct.len() - 16;
                let step = csz + 16;
                let (mut off, mut idx, mut total) = (0usize, 0u64, 0usize);
                let mut all_ok = true;
                while off < body_len {
                    let len = step.min(body_len - off);
                    let mut nonce = iv.clone();
                    nonce.extend_from_slice(&idx.to_be_bytes());
                    match plan::aead_open(u8::from(*sym), u8::from(*aead), &mk, &nonce, &info, &ct[off..off + len]) {
                        Ok(p) => {
                            total += p.len();
                            rows.push(format!("{idx};-;{off};{len};{}", hx(&p)));
                        }
                        Err(_) => {
                            rows.push(format!("{idx};-;{off};{len};x"));
                            all_ok = false;
                            break;
                        }
                    }
                    off += len;
                    idx += 1;
                }
                if all_ok {
                    let mut ad = info.to_vec();
                    ad.extend_from_slice(&(total as u64).to_be_bytes());
                    let mut nonce = iv.clone();
                    nonce.extend_from_slice(&idx.to_be_bytes());
                    match plan::aead_open(u8::from(*sym), u8::from(*aead), &mk, &nonce, &ad, &ct[body_len..]) {
                        Ok(p) => rows.push(format!("{idx};{total};{body_len};16;{}", hx(&p))),
                        Err(_) => rows.push(format!("{idx};{total};{body_len};16;x")),
                    }
                }
            }
            let real = guarded(|| {
                let Ok(chunk) = ChunkSize::try_from(*cs) else { return (vec![], false) };
                match StreamDecryptor::v2(*sym, *aead, chunk, salt, sk, ct) {
                    Ok(d) => read_all(d),
                    Err(_) => (vec![], false),
                }
            })
            .unwrap_or((b"PANIC".to_vec(), false));
            let rows = if rows.is_empty() { "-".to_string() } else { rows.join(",") };
            ctx.case(format!("seipd2_dec cs={csz} info={} ct={} rows={rows}", hx(&info), hx(ct)), show(&real));
            real.1.then_some(real.0)
        }
        Container::V1 => {
            let sym = sym_v1?;
            let bs = sym.block_size();
            let dec = plan::cfb_decrypt(u8::from(sym), sk, &vec![0u8; bs], ct).ok()?;
            let (hin, hout) = if dec.len() >= 20 {
                let hin = dec[..dec.len() - 20].to_vec();
                let h = Sha1::digest(&hin).to_vec();
                (hin, h)
            } else {
                (vec![], vec![])
            };
            let real = guarded(|| match StreamDecryptor::v1(sym, Seipdv1ReadMode::CheckFirst { max_message_size: MAX_V1 }, sk, ct) {
                Ok(d) => read_all(d),
                Err(_) => (vec![], false),
            })
            .unwrap_or((b"PANIC".to_vec(), false));
            ctx.case(format!("seipd1_dec mode=cf bs={bs} max={MAX_V1} dec={} hin={} hout={}", hx(&dec), hx(&hin), hx(&hout)), show(&real));
            real.1.then_some(real.0)
        }
    }
}

/// level 3: compressed data packet?  Returns the signed-level stream (decompressed with the crate's
/// own decoder wrappers: inflate / bzip2 are primitives here)
pub fn inner_level(ctx: &mut Ctx, plain: &[u8]) -> Option<Vec<u8>> {
    let (ans, parts) = real_deframe(plain);
    let req = format!("e2e_inner data={}", hx(plain));
    let Some((body, _rest)) = parts else {
        ctx.case(req, "err".into());
        return None;
    };
    let tag: u8 = ans.split(':').nth(2).and_then(|t| t.parse().ok()).unwrap_or(255);
    if tag != 8 {
        ctx.case(req, "s".into());
        return Some(plain.to_vec());
    }
    if body.is_empty() {
        ctx.case(req, "err".into());
        return None;
    }
    ctx.case(req, format!("z:{}.{}", body[0], cksum(&body[1..])));
    let r = guarded(|| match Decompressor::from_reader(&body[..]) {
        Ok(d) => read_all(d),
        Err(_) => (vec![], false),
    })
    .unwrap_or((vec![], false));
    r.1.then_some(r.0)
}

fn ops_desc(o: &pgp::packet::OnePassSignature) -> String {
    let last = if o.is_nested() { 0 } else { 1 };
    let (t, h, p) = (u8::from(o.typ()), u8::from(o.hash_algorithm()), u8::from(o.public_key_algorithm()));
    match o.version_specific() {
        OpsVersionSpecific::V3 { key_id } => format!("3.{t}.{h}.{p}.-.{}.{last}", dash(key_id.as_ref())),
        OpsVersionSpecific::V6 { salt, fingerprint } => format!("6.{t}.{h}.{p}.{}.{}.{last}", dash(salt), dash(fingerprint)),
        OpsVersionSpecific::Unknown { version, .. } => format!("?{version}"),
    }
}

struct SigView {
    desc: String,
    hash: u8,
    salt: Vec<u8>,
    tail: Vec<u8>,
}

fn sig_view(s: &Signature) -> Option<SigView> {
    let cfg = s.config()?;
    let (ver, salt) = match &cfg.version_specific {
        SignatureVersionSpecific::V4 => (4u8, Vec::new()),
        SignatureVersionSpecific::V6 { salt } => (6u8, salt.clone()),
        _ => return None,
    };
    let mut area = Vec::new();
    for sp in &cfg.hashed_subpackets {
        sp.to_writer(&mut area).ok()?;
    }
    let left = s.signed_hash_value()?;
    let sb = match s.signature()? {
        pgp::types::SignatureBytes::Mpis(ms) => {
            let mut v = Vec::new();
            for m in ms {
                m.to_writer(&mut v).ok()?;
            }
            v
        }
        pgp::types::SignatureBytes::Native(b) => b.to_vec(),
    };
    let (typ, pk, hash) = (u8::from(cfg.typ), u8::from(cfg.pub_alg), u8::from(cfg.hash_alg));
    // hashed fields + trailer, written from RFC 9580 5.2.4
    let mut tail = vec![ver, typ, pk, hash];
    if ver == 4 {
        tail.extend_from_slice(&(area.len() as u16).to_be_bytes());
    } else {
        tail.extend_from_slice(&(area.len() as u32).to_be_bytes());
    }
    tail.extend_from_slice(&area);
    let n = tail.len() as u32;
    tail.extend_from_slice(&[ver, 0xFF]);
    tail.extend_from_slice(&n.to_be_bytes());
    Some(SigView {
        desc: format!("{ver}.{typ}.{pk}.{hash}.{}.{}.{}.{}", cksum(&area), dash(&left), dash(&salt), cksum(&sb)),
        hash,
        salt,
        tail,
    })
}

pub struct SignedView {
    pub payload: Vec<u8>,
    pub n_sigs: usize,
}

/// level 4: OPS* literal SIG*
pub fn signed_level(ctx: &mut Ctx, stream: &[u8]) -> Option<SignedView> {
    let req = format!("e2e_signed data={}", hx(stream));
    let r = guarded(|| -> Result<(String, SignedView), String> {
        let mut m = Message::from_bytes(stream).map_err(|e| format!("parse: {e}"))?;
        let mut payload = Vec::new();
        m.read_to_end(&mut payload).map_err(|e| format!("read: {e}"))?;
        let hdr = m.literal_data_header().ok_or("no literal header")?;
        let hb = ser(hdr);
        let nl = *hb.get(1).ok_or("short header")? as usize;
        let name = hb.get(2..2 + nl).ok_or("short header")?;
        let date = hb.get(2 + nl..2 + nl + 4).ok_or("short header")?;
        let lit = format!("{}.{}.{}.{}", hb[0], dash(name), dash(date), cksum(&payload));
        let (mut ops, mut sigs, mut pres) = (Vec::new(), Vec::new(), Vec::new());
        if let Message::Signed { reader, .. } = &m {
            let full = reader.signatures().ok_or("signatures not available")?;
            for (i, f) in full.iter().enumerate() {
                match f {
                    FullSignaturePacket::Ops { ops: o, signature } => {
                        ops.push(ops_desc(o));
                        let v = sig_view(signature);
                        sigs.push(v.as_ref().map(|v| v.desc.clone()).unwrap_or_else(|| "x".into()));
                        // which pre-image did the reader's hash slot see? decided by the real hash function
                        let pre = match (reader.hash(i), v) {
                            (Some(d), Some(v)) => {
                                let mut found = None;
                                for data in [payload.clone(), canon_ref(&payload)] {
                                    let mut p = v.salt.clone();
                                    p.extend_from_slice(&data);
                                    p.extend_from_slice(&v.tail);
                                    if hash_with(v.hash, &p).as_deref() == Some(d) {
                                        found = Some(cksum(&p));
                                        break;
                                    }
                                }
                                found.unwrap_or_else(|| "unidentified".into())
                            }
                            (None, _) => "nomatch".into(),
                            _ => "x".into(),
                        };
                        pres.push(pre);
                    }
                    FullSignaturePacket::Signature { .. } => return Err("prefixed signature".into()),
                }
            }
        }
        let j = |l: &Vec<String>| if l.is_empty() { "-".to_string() } else { l.join(",") };
        let n_sigs = sigs.len();
        Ok((format!("ok:lit={lit}|ops={}|sig={}|pre={}", j(&ops), j(&sigs), j(&pres)), SignedView { payload, n_sigs }))
    });
    match r {
        Ok(Ok((ans, v))) => {
            ctx.case(req, ans);
            Some(v)
        }
        Ok(Err(e)) => {
            ctx.case(req, format!("err:{}", e.split(':').next().unwrap_or("x").replace(' ', "_")));
            None
        }
        Err(_) => {
            ctx.case(req, "panic".into());
            None
        }
    }
}

/// the whole walk; returns (inner signed-level stream, top view) for the reverse direction
pub fn walk(ctx: &mut Ctx, armored: bool, msg: &[u8], sk: Option<&[u8]>, sym_v1: Option<SymmetricKeyAlgorithm>, payload: &[u8], inp: &str) -> Option<(Vec<u8>, TopView)> {
    let site = "MessageBuilder -> model structure walk (E2E.readFull)";
    let top = top_level(ctx, armored, msg)?;
    let plain = match (&top.container, sk) {
        (Some((c, ct)), Some(sk)) => {
            let p = decrypt_level(ctx, c, ct, sk, sym_v1);
            ctx.oracle("container_opens_with_builder_session_key", site, inp, p.is_some(), "real decryptor did not reach a clean EOF");
            p?
        }
        (Some(_), None) => return None,
        (None, _) => top.bin.clone(),
    };
    let inner = inner_level(ctx, &plain)?;
    let v = signed_level(ctx, &inner)?;
    ctx.oracle("payload_returned_unchanged", site, inp, v.payload == payload, &format!("got {} bytes, want {}", v.payload.len(), payload.len()));
    ctx.stat("e2e_walk");
    Some((inner, top))
}

// ------------------------------------------------------------------------------------------------
// reverse direction

/// SEIPDv2 encryption by the plan interpreter (RFC 9580 5.13.2)
pub fn v2_encrypt(sym: SymmetricKeyAlgorithm, aead: AeadAlgorithm, cs: u8, salt: &[u8], sk: &[u8], pt: &[u8]) -> Option<Vec<u8>> {
    let (mk, iv, info) = v2_keys(sym, aead, cs, salt, sk)?;
    let csz = 1usize << (cs as usize + 6);
    let mut out = Vec::new();
    let mut idx = 0u64;
    for chunk in pt.chunks(csz) {
        let mut nonce = iv.clone();
        nonce.extend_from_slice(&idx.to_be_bytes());
        out.extend(plan::aead_seal(u8::from(sym), u8::from(aead), &mk, &nonce, &info, chunk).ok()?);
        idx += 1;
    }
    let mut ad = info.to_vec();
    ad.extend_from_slice(&(pt.len() as u64).to_be_bytes());
    let mut nonce = iv.clone();
    nonce.extend_from_slice(&idx.to_be_bytes());
    out.extend(plan::aead_seal(u8::from(sym), u8::from(aead), &mk, &nonce, &ad, &[]).ok()?);
    Some(out)
}

/// a random legal partial segmentation of a body of `n` octets (exponents; first >= 9), or None
/// when the body is too short for a first partial chunk
pub fn random_segs(rng: &mut impl rand::Rng, n: usize) -> Option<Vec<u32>> {
    if n < 512 {
        return None;
    }
    let mut segs = Vec::new();
    let mut left = n;
    let kmax = (usize::BITS - 1 - left.leading_zeros()).min(14);
    let k1 = rng.gen_range(9..=kmax);
    segs.push(k1);
    left -= 1usize << k1;
    while left > 0 && segs.len() < 40 && rng.gen_bool(0.8) {
        let kmax = (usize::BITS - 1 - left.leading_zeros()).min(13);
        let k = rng.gen_range(0..=kmax);
        segs.push(k);
        left -= 1usize << k;
    }
    Some(segs)
}

pub fn frame_request(tag: u8, kind: &str, extra: &str, body: &[u8]) -> String {
    format!("e2e_frame tag={tag} kind={kind} {extra} body={}", hx(body))
}
