//! C02, line endings: text (0x01) and binary (0x00) document signatures over texts whose line
//! structure is the input, through every data entry point.
//!
//! "verifies only for the exact content it was made over (up to the documented text-mode
//! line-ending equivalence) … truncating/extending the message makes every verification entry point
//! return an error": the only documented equivalence is LF <-> CR LF (RFC 9580 5.2.1.2: "line
//! endings converted to <CR><LF>"); a lone CR is content, at the end of the document too.
//!
//! Documents: every shape of line ending at the start, in the middle and at the END (none, LF, CR LF,
//! lone CR, CR CR, LF CR), line endings around the 512-octet window of `NormalizedReader` and around
//! the 8192-octet read size of the message reader.  The document is handed to the signer and to the
//! streaming verifiers whole, in one-octet reads and cut right after every CR.
//! Mutations: insert / remove CR, LF, CR LF at the start, at the end, at every line end and at the
//! window positions; the oracle (RFC canonical form, `sigrec::rfc_canon_text`) says which must still
//! verify, the Lean model says the same through `canon`.
use super::inline::{one, Parts};
use super::*;
use crate::io::ScheduledReader;

/// chunks that end right after every CR (and at most `max` octets long)
pub(super) fn cut_after_cr(d: &[u8], max: usize) -> Vec<Vec<u8>> {
    let mut out = Vec::new();
    let mut cur = Vec::new();
    for &b in d {
        cur.push(b);
        if b == b'\r' || cur.len() >= max {
            out.push(std::mem::take(&mut cur));
        }
    }
    if !cur.is_empty() {
        out.push(cur);
    }
    out
}

/// one-octet reads (97-octet reads for long documents)
fn small_reads(d: &[u8]) -> Vec<Vec<u8>> {
    let n = if d.len() <= 1500 { 1 } else { 97 };
    d.chunks(n).map(|c| c.to_vec()).collect()
}

/// positions at which line-ending octets are inserted / removed
fn eol_positions(d: &[u8]) -> Vec<usize> {
    let mut p = vec![0, d.len()];
    for (i, &b) in d.iter().enumerate() {
        if b == b'\n' || b == b'\r' {
            p.push(i);
            p.push(i + 1);
        }
    }
    for w in [512usize, 1024, 8192] {
        for q in w.saturating_sub(2)..=w + 2 {
            if q <= d.len() {
                p.push(q);
            }
        }
    }
    p.sort_unstable();
    p.dedup();
    p
}

/// insert / remove CR, LF, CR LF at every line-ending position, at both ends and at the window
/// positions
pub(super) fn eol_mutations(d: &[u8]) -> Vec<Mutn> {
    let mut out: Vec<Mutn> = Vec::new();
    let mut seen: std::collections::HashSet<Vec<u8>> = std::collections::HashSet::new();
    seen.insert(d.to_vec());
    let mut push = |desc: String, off: usize, v: Vec<u8>, out: &mut Vec<Mutn>| {
        if seen.insert(v.clone()) {
            out.push(Mutn { desc, off, out: v });
        }
    };
    for p in eol_positions(d) {
        for (name, ins) in [("cr", &b"\r"[..]), ("lf", &b"\n"[..]), ("crlf", &b"\r\n"[..])] {
            let mut v = d.to_vec();
            v.splice(p..p, ins.iter().copied());
            push(format!("eol:ins-{name}@{p}"), p.min(d.len().saturating_sub(1)), v, &mut out);
        }
        if p < d.len() && (d[p] == b'\r' || d[p] == b'\n') {
            let mut v = d.to_vec();
            v.remove(p);
            push(format!("eol:del@{p}"), p, v, &mut out);
            if d[p] == b'\r' && p + 1 < d.len() && d[p + 1] == b'\n' {
                let mut v = d.to_vec();
                v.drain(p..p + 2);
                push(format!("eol:del-crlf@{p}"), p, v, &mut out);
            }
        }
    }
    for m in eol_variants(d) {
        push(m.desc.clone(), m.off, m.out, &mut out);
    }
    out
}

fn long_text(n: usize, marks: &[(usize, &[u8])]) -> Vec<u8> {
    let mut v: Vec<u8> = (0..n).map(|i| if i % 61 == 60 { b'\n' } else { b'a' + (i % 23) as u8 }).collect();
    for (at, what) in marks {
        for (k, b) in what.iter().enumerate() {
            if at + k < v.len() {
                v[at + k] = *b;
            }
        }
    }
    v
}

fn documents(ctx: &Ctx) -> Vec<(String, Vec<u8>)> {
    let mut v: Vec<(String, Vec<u8>)> = Vec::new();
    for (name, d) in [
        ("no-eol", &b"pay 100 to alice"[..]),
        ("lf-inside", b"pay 100 to alice\nref 4711"),
        ("ends-lf", b"line one\nline two\n"),
        ("ends-crlf", b"line one\r\nline two\r\n"),
        ("ends-cr", b"line one\nline two\r"),
        ("ends-crcr", b"x\r\r"),
        ("ends-lfcr", b"x\n\r"),
        ("starts-lf", b"\nx"),
        ("starts-cr", b"\rx"),
        ("only-cr", b"\r"),
        ("only-lf", b"\n"),
        ("only-crlf", b"\r\n"),
        ("mixed", b"a\rb\n\nc\r\n\rd"),
        ("empty", b""),
    ] {
        v.push((name.to_string(), d.to_vec()));
    }
    // the NormalizedReader window (512) and the message reader's read size (8192)
    v.push(("w512-cr511-lf512".into(), long_text(700, &[(511, b"\r\n")])));
    v.push(("w512-cr511-x".into(), long_text(700, &[(511, b"\rx")])));
    v.push(("w512-lf512".into(), long_text(700, &[(510, b"xx\n")])));
    v.push(("w1024-ends-cr".into(), long_text(1024, &[(1023, b"\r")])));
    if ctx.thorough() {
        v.push(("w512-ends-cr".into(), long_text(512, &[(511, b"\r")])));
        v.push(("w1024-crlf-straddle".into(), long_text(1100, &[(1023, b"\r\n")])));
    }
    v.push(("r8192-cr8191-lf8192".into(), long_text(8300, &[(8191, b"\r\n")])));
    v.push(("r8192-ends-cr".into(), long_text(8192, &[(8191, b"\r")])));
    v.push(("r8192-cr8191-x".into(), long_text(8200, &[(8191, b"\rx")])));
    v
}

/// One-Pass Signature packet body for `sig` made by `signer`
pub(super) fn ops_body(sig: &Signature, signer: &PubAny, last: u8) -> Option<Vec<u8>> {
    let cfg = sig.config()?;
    let mut v = vec![0u8, u8::from(cfg.typ), u8::from(cfg.hash_alg), u8::from(cfg.pub_alg)];
    match &cfg.version_specific {
        SignatureVersionSpecific::V4 => {
            v[0] = 3;
            v.extend_from_slice(signer.legacy_key_id().as_ref());
        }
        SignatureVersionSpecific::V6 { salt } => {
            v[0] = 6;
            v.push(salt.len() as u8);
            v.extend_from_slice(salt);
            v.extend_from_slice(signer.fingerprint().as_bytes());
        }
        _ => return None,
    }
    v.push(last);
    Some(v)
}

pub(super) fn lit_head(text: bool) -> Vec<u8> {
    vec![if text { b'u' } else { b'b' }, 0, 0, 0, 0, 0]
}

/// the detached entry points on one document, delivered whole and in pieces
fn run_detached(sig: &Signature, d: &[u8], vk: &VK) -> Vec<(&'static str, String)> {
    let ds = DetachedSignature::new(sig.clone());
    vec![
        ("Signature::verify (slice)", answer(&guarded(|| sig.verify(vk, d)))),
        ("Signature::verify (reads cut after every CR)", answer(&guarded(|| sig.verify(vk, ScheduledReader::from_chunks(&cut_after_cr(d, 4096)))))),
        ("Signature::verify (small reads)", answer(&guarded(|| sig.verify(vk, ScheduledReader::from_chunks(&small_reads(d)))))),
        ("DetachedSignature::verify", answer(&guarded(|| ds.verify(vk, d)))),
    ]
}

pub(super) fn run(ctx: &mut Ctx, fixes: &[Fix]) {
    let mut rng = ChaCha8Rng::seed_from_u64(ctx.rng.gen());
    let docs = documents(ctx);
    for fix in fixes {
        if fix.weight >= 2 || (fix.weight == 1 && !ctx.thorough() && fix.name != "ed25519-v4") {
            continue;
        }
        let hash = fix.hashes[0];
        let vk = VK { k: fix.prim_pub.clone(), yes: false };
        for (dname, doc) in &docs {
            // the lighter fixture: a few documents only
            if fix.weight == 1 && !ctx.thorough() && !matches!(dname.as_str(), "ends-cr" | "lf-inside" | "mixed" | "r8192-ends-cr") {
                continue;
            }
            let long = doc.len() > 256;
            for text in [true, false] {
                if !text && (long || fix.weight >= 1) && !ctx.thorough() {
                    continue;
                }
                let typ = if text { SignatureType::Text } else { SignatureType::Binary };
                let label = format!("{} {} doc={dname} {}", fix.name, if text { "text" } else { "binary" }, hash_label(hash));
                // sign with the document delivered in reads that end right after every CR
                let cfg = match config_for(&mut rng, &fix.prim_sec, typ, hash, false, None) {
                    Ok(c) => c,
                    Err(_) => continue,
                };
                let chunks = cut_after_cr(doc, 4096);
                let sig = match guarded(|| cfg.sign(&fix.prim_sec, &Password::empty(), ScheduledReader::from_chunks(&chunks))) {
                    Ok(Ok(s)) => s,
                    other => {
                        ctx.oracle("original_verifies", "SignatureConfig::sign (reads cut after every CR)", &label, false, &format!("{:?}", other.map(|r| r.map(|_| ()))));
                        continue;
                    }
                };
                ctx.stat(&format!("text:signed:{}:{}", fix.name, if text { "text" } else { "binary" }));
                let body = body_of(&sig);
                let rfc0 = Subject::Doc(doc.clone());
                let mut t0 = Tables::default();
                if let Err(e) = log_original(&mut t0, &sig, &rfc0, &fix.prim_pub) {
                    // the signer hashed something else than the RFC's canonical form of the document
                    ctx.oracle("original_verifies", "SignatureConfig::sign (reads cut after every CR) vs RFC 9580 5.2.4", &format!("{label} data={}", hx(doc)), false, &e);
                    continue;
                }
                let Ok(sig) = parse_sig(&body) else { continue };
                let ops = ops_body(&sig, &fix.prim_pub, 1);

                // every variant of the document: itself, and the line-ending mutations
                let mut variants: Vec<(String, Vec<u8>, Option<bool>)> = vec![("original".into(), doc.clone(), None)];
                let mut ms = eol_mutations(doc);
                if long && (!ctx.thorough() || doc.len() > 2048) {
                    // long documents: the ends and the window positions, thinned elsewhere
                    let n = doc.len();
                    ms = ms.into_iter().enumerate().filter(|(i, m)| m.off < 4 || m.off + 4 >= n || (m.off % 512 >= 508 || m.off % 512 <= 4) || i % 7 == 0).map(|(_, m)| m).collect();
                }
                for m in ms {
                    let same = if text { sigrec::rfc_canon_text(&m.out) == sigrec::rfc_canon_text(doc) } else { m.out == *doc };
                    variants.push((m.desc, m.out, Some(same)));
                }
                for (desc, d2, same) in variants {
                    let rfc = Subject::Doc(d2.clone());
                    let t = tables_for(&t0, &[&body], &rfc);
                    let inp = format!("{label} {desc} data={} sig={}", hx(&d2), hx(&body));
                    let check = |ctx: &mut Ctx, site: &str, ans: &str| match same {
                        None => ctx.oracle("original_verifies", site, &inp, ans == "ok", ans),
                        Some(true) => {
                            ctx.stat("text:equivalent");
                            ctx.oracle("eol_variant_verifies", site, &inp, ans == "ok", ans)
                        }
                        Some(false) => {
                            ctx.stat(&format!("text:changed:{ans}"));
                            ctx.oracle("mutation_rejected", site, &inp, ans != "ok", "changed content still verifies")
                        }
                    };
                    // detached
                    let req = format!("snd_verify ep=data sig={} {} data={} {}", hx(&body), kdesc("k", &vk.k), hx(&d2), t.show(false));
                    for (site, ans) in run_detached(&sig, &d2, &vk) {
                        ctx.case(req.clone(), ans.clone());
                        check(ctx, site, &ans);
                    }
                    // inline, one-pass and prefixed (the same signature packet: what is hashed is the same)
                    for one_pass in [true, false] {
                        if long && !one_pass && (!ctx.thorough() || doc.len() > 2048) && same.is_some() {
                            continue;
                        }
                        let p = Parts { ops: if one_pass { ops.clone() } else { None }, lit_head: lit_head(text), data: d2.clone(), sig: body.clone() };
                        let site = if one_pass { "one-pass signed message" } else { "prefixed signed message" };
                        let ans = one(ctx, site, &inp, &p, &vk, &t0, false);
                        check(ctx, site, &ans);
                    }
                }
            }
        }
    }
}
