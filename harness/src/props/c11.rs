//! C11 — signed digests are exactly those RFC 9580 §5.2.4 prescribes.
//!
//! Observation point (property text): "a recording SigningKey/VerifyingKey implementation passed
//! to the public sign/verify APIs sees the digest".  Every scenario below drives a *public* rpgp
//! API with a recording key (`sigrec::RecSigner` / `RecVerifier`), takes the signature and the
//! signed material *from the wire* with the harness's own mini parser, evaluates RFC 9580 §5.2.4
//! (`sigrec::rfc_preimage`, written from the RFC text) and hashes it with the RustCrypto crates.
//!
//! Oracles (restatements of the property text, independent of the Lean model):
//!   digest_is_rfc        the digest handed to the primitive == hash(RFC pre-image) and the
//!                        signature type belongs to the subject class that was hashed
//!   salt_size_is_rfc     v6: the salt that was hashed has the size RFC 9580 table 23 ties to the
//!                        hash algorithm
//!   wire_fields_hashed   the hashed fields are those of the serialized packet (covered by the
//!                        first oracle: the pre-image is built from the wire form)
//!   rfc_digest_accepted  a signature whose left-16 field equals the RFC digest's first two octets
//!                        is not turned down with "invalid signed hash value"
//!
//!   composed_digest_is_rfc  every digest the certificate-level verifiers
//!                        (`SignedKeyDetails::verify_bindings`, `SignedPublicSubKey::verify_bindings`)
//!                        hand to the key is the RFC digest of one of the certificate's signatures
//!
//! Scenario groups (all seeded from `ctx.rng`):
//!   run_sign_data      SignatureConfig::sign x keys (RFC 9580 test keys v4/v6 RSA, NIST P, Ed25519,
//!                      Ed448, EdDSA-legacy + generated) x hash sweep x documents (block-size and
//!                      8 KiB / 512-octet window edges, CR/LF mixes) x hashed areas 0 .. 65535, 65536
//!                      (v4 must refuse) and > 65535 (v6), each followed by Signature::verify
//!   run_detached       DetachedSignature::sign_{binary,text}_data_with_subpackets, to_writer,
//!                      from_bytes, verify
//!   run_messages       MessageBuilder (from_bytes / from_reader with 512-octet partial chunks,
//!                      one or two signers, binary / text), then Message::verify /
//!                      verify_nested_explicit on the parsed message
//!   run_cleartext      CleartextSignedMessage::sign, armor, from_string, verify
//!   run_certifications 0x10-0x13, 0x30 x User IDs (empty, non-UTF-8, long) and User Attributes
//!                      (image, unknown types in every subpacket length form) x self / third-party
//!                      x cross-version signee; packet-level and SignedUser(-Attribute) verifiers
//!   run_key_sigs       0x1F, 0x20 (self / third party), 0x18, 0x28, 0x19, PublicSubkey::sign
//!   run_fixture_certs  every key file under tests/: packets cut by the harness, subject = wire
//!                      bodies, each signature through the matching Signature::verify_*, embedded
//!                      back signatures, then the composed verify_bindings API
//!   run_fixture_csf    RFC 9580 cleartext vectors under tests/rfc9580
//!   run_crafted        signature packets assembled by the harness ("made elsewhere"): v3 / v4 /
//!                      v6 x all twelve types x raw hashed areas (non-minimal subpacket lengths,
//!                      unknown subpackets, 65535, and beyond 65535 for v6), permissive verifier
//!   run_crafted_inline one-pass and signature-prefixed messages assembled by the harness,
//!                      v3 / v4 / v6, literal in fixed and partial-length framing, every type
//!   run_guards         every type through every signing routine; v6 salts of the wrong size
//!   run_random         random routine x key x hash x hashed-subpacket set x subject, both sides
//!   run_other_types    Standalone / Timestamp (outside the property; correspondence only)
//!
//! Correspondence op (model: RpgpModel/SigDigest.lean, handler RpgpModel/Ops/C11.lean):
//!   sigpre path=<routine> v=<3|4|6> typ= pk= h= area=<bx> salt=<bx> created= sv=<signer key
//!          version> [data=<bx>,<bx>..] [k1=<ver>:<write_len>:<bx>] [k2=..] [tag=] [id=<write_len>:<bx>]
//!   The model answers with the octets the routine feeds its hasher (`ok:<repr>`), or `none` when
//!   the routine returns an error before the primitive is called.  The implementation's answer
//!   is `ok:<repr P>` for the pre-image candidate P that the *observed digest certifies*
//!   (hash(P) == digest seen by the recording key), `mismatch:<digest>` when no candidate hashes
//!   to the observed digest, `none` when the primitive was never called.

use std::io::Read;

use pgp::composed::{
    CleartextSignedMessage, Deserializable, DetachedSignature, KeyType, Message, MessageBuilder,
    SecretKeyParamsBuilder, SignedPublicKey, SignedSecretKey, SubkeyParamsBuilder, SubpacketConfig,
};
use pgp::crypto::ecc_curve::ECCCurve;
use pgp::crypto::hash::HashAlgorithm;
use pgp::crypto::public_key::PublicKeyAlgorithm;
use pgp::packet::{
    Notation, Packet, PacketParser, PublicKey, PublicSubkey, SecretKey, SecretSubkey, Signature, SignatureConfig,
    SignatureType, Subpacket, SubpacketData, UserAttribute, UserId,
};
use pgp::ser::Serialize;
use pgp::types::{
    KeyDetails, KeyId, KeyVersion, Mpi, PacketHeaderVersion, Password, SignatureBytes, SignedUser,
    SignedUserAttribute, SigningKey, Tag, Timestamp, VerifyingKey,
};
use rand::{Rng, SeedableRng};
use rand_chacha::ChaCha8Rng;

use crate::ctx::{guarded, Ctx};
use crate::frame::pattern;
use crate::io::ScheduledReader;
use crate::sigrec::*;

// ------------------------------------------------------------------------------------------
// scenario bookkeeping

thread_local! {
    /// (serializations looked at, those whose write_len() differs from the octets written, first example)
    static TRUTHFUL: std::cell::RefCell<(u64, u64, String)> = const { std::cell::RefCell::new((0, 0, String::new())) };
}

/// the theorems assume `Ser.truthful` (write_len() = length of to_writer()); measured here for
/// every key and identity that is hashed in this run
fn note_truthful(kind: &str, announced: usize, written: &[u8]) {
    TRUTHFUL.with(|t| {
        let mut t = t.borrow_mut();
        t.0 += 1;
        if announced != written.len() {
            t.1 += 1;
            if t.2.is_empty() {
                t.2 = format!("{kind}: write_len()={announced}, to_writer() wrote {} octets: {}", written.len(), hex::encode(&written[..written.len().min(64)]));
            }
        }
    });
}

/// code-side view of a key for the request line: version(), write_len(), to_writer()
fn key_arg<K: KeyDetails + Serialize>(k: &K) -> String {
    let mut b = Vec::new();
    let _ = k.to_writer(&mut b);
    let v: u8 = k.version().into();
    note_truthful("key", k.write_len(), &b);
    format!("{}:{}:{}", v, k.write_len(), bx(&b, &[]))
}

fn ser_arg<S: Serialize>(s: &S, pats: &[(usize, usize)]) -> String {
    let mut b = Vec::new();
    let _ = s.to_writer(&mut b);
    note_truthful("identity", s.write_len(), &b);
    format!("{}:{}", s.write_len(), bx(&b, pats))
}

/// wire view of a key: body of the packet rpgp writes into a certificate
fn wire_key<K: Serialize>(k: &K) -> WKey {
    let mut b = Vec::new();
    let _ = k.to_writer(&mut b);
    WKey { body: b }
}

fn wire_body<S: Serialize>(s: &S) -> Vec<u8> {
    let mut b = Vec::new();
    let _ = s.to_writer(&mut b);
    b
}

/// fields of a signature as rpgp serializes it (parsed back with the independent parser)
fn wire_fields(sig: &Signature) -> Option<SigFields> {
    let mut b = Vec::new();
    sig.to_writer(&mut b).ok()?;
    parse_sig_body(&b)
}

struct Obs<'a> {
    path: &'a str,
    site: &'a str,
    /// request-line arguments after the common signature fields
    extra: String,
    /// signer key version (request line)
    sv: u8,
    fields: SigFields,
    /// subject according to the wire (RFC view), tried first
    subject: Subject,
    /// other candidate subjects (what the code may have hashed instead)
    alts: Vec<Subject>,
    /// request arguments to use instead of `extra` when the i-th alternative is the one the
    /// observed digest certifies (empty: always `extra`)
    alt_extra: Vec<String>,
    /// appended to the oracle's replayable input (e.g. the text as given to the signer)
    oracle_note: String,
    /// (hash algorithm octet, digest) seen by the recording key
    digest: Option<(u8, Vec<u8>)>,
    pats: &'a [(usize, usize)],
    /// outcome reported by the library call
    lib_ok: bool,
    lib_err: String,
}

fn settle(ctx: &mut Ctx, o: Obs) {
    let f = &o.fields;
    let mkreq = |extra: &str| -> String {
        format!(
            "sigpre path={} v={} typ={} pk={} h={} area={} salt={} created={} sv={} {}",
            o.path,
            f.ver,
            f.typ,
            f.pk,
            f.hash,
            bx(&f.area, o.pats),
            bx(&f.salt, &[]),
            f.created,
            o.sv,
            extra
        )
        .trim_end()
        .to_string()
    };
    let req = mkreq(&o.extra);
    let oreq = format!("{req}{}", o.oracle_note);
    ctx.stat(&format!("path:{}", o.path));
    ctx.stat(&format!("sigver:{}", f.ver));
    ctx.stat(&format!("typ:0x{:02x}", f.typ));
    ctx.stat(&format!("hash:{}", f.hash));
    ctx.stat(&format!("pk:{}", f.pk));
    ctx.stat(&format!(
        "area:{}",
        match f.area.len() {
            0 => "0",
            1..=255 => "1..255",
            256..=65534 => "256..65534",
            65535 => "65535",
            _ => ">65535",
        }
    ));
    let Some((h, d)) = &o.digest else {
        // only refusals that the model describes become correspondence cases: length overflow,
        // type / version guards, salt size.  Parse failures of dummy signatures, the left-16
        // check (needs the hash) and issuer matching are outside the pre-image model.
        let e = o.lib_err.as_str();
        let modelled = e.contains("out of range integral")
            || e.contains("not allowed")
            || e.contains("Expected ")
            || e.contains("Illegal salt length")
            || e.contains("can not sign non certification")
            || e.contains("must be suitable for direct")
            || e.contains("incompatible signature type")
            || e.contains("invalid tag for certification");
        if e.contains("invalid signed hash value") || e.contains("No matching signature found") {
            let p = rfc_preimage(f, &o.subject);
            let rfc_left = hash_with(f.hash, &p).map(|d| [d[0], d[1]]);
            ctx.oracle(
                "rfc_digest_accepted",
                o.site,
                &req,
                rfc_left != Some(f.left16),
                &format!("left16 on the wire {} equals the RFC digest's, yet the library reports: {}", hex::encode(f.left16), e.chars().take(80).collect::<String>()),
            );
        }
        if !modelled {
            ctx.stat(&format!("no-digest-unmodelled:{}", o.path));
            let e: String = o.lib_err.chars().filter(|c| !c.is_control()).take(90).collect();
            ctx.stat(&format!("no-digest-why:{}:{}", o.path, e));
            if e.contains("assertion failed") || e.contains("invalid signed hash") {
                ctx.note(&format!("left-16 mismatch reported by the library (RFC digest also differs from the packet's left-16): {} typ=0x{:02x} v{} hash={}", o.site, f.typ, f.ver, f.hash));
            }
            return;
        }
        ctx.stat(&format!("no-digest:{}", o.path));
        let e: String = o.lib_err.chars().filter(|c| !c.is_control()).take(90).collect();
        ctx.stat(&format!("no-digest-why:{}:{}", o.path, e));
        ctx.case(req, "none".to_string());
        return;
    };
    ctx.stat(&format!("primitive-called:{}:{}", o.path, if o.lib_ok { "library-ok" } else { "library-err" }));
    let p_rfc = rfc_preimage(f, &o.subject);
    let class_ok = f.ver < 4 && matches!(o.subject, Subject::Doc(_) | Subject::Cert(..) | Subject::Direct(_) | Subject::Bind(..))
        && rfc_class(f.typ) == Some(o.subject.class())
        || rfc_class(f.typ) == Some(o.subject.class());
    let hash_ok = *h == f.hash && hash_with(*h, &p_rfc).as_deref() == Some(&d[..]);
    let detail = format!(
        "lib={} digest={} rfc_digest={} class_ok={} hash_alg_seen={}",
        if o.lib_ok { "ok".to_string() } else { format!("err({})", o.lib_err) },
        hex::encode(d),
        hash_with(f.hash, &p_rfc).map(hex::encode).unwrap_or_default(),
        class_ok,
        h
    );
    // the property quantifies over these type octets; Standalone (0x02) / Timestamp (0x40) only
    // take part in the correspondence (the model has the code's branch for them)
    let in_scope = matches!(f.typ, 0x00 | 0x01 | 0x10..=0x13 | 0x18 | 0x19 | 0x1F | 0x20 | 0x28 | 0x30);
    if in_scope {
        ctx.oracle("digest_is_rfc", o.site, &oreq, hash_ok && class_ok, &detail);
    } else {
        ctx.stat("out-of-scope-type:correspondence-only");
    }
    if f.ver == 6 {
        ctx.oracle(
            "salt_size_is_rfc",
            o.site,
            &req,
            rfc_salt_size(f.hash) == Some(f.salt.len()),
            &format!("salt {} octets, hash alg {}", f.salt.len(), f.hash),
        );
    }
    // correspondence: the candidate that the observed digest certifies
    let mut ans = None;
    let mut case_req = req.clone();
    if hash_ok {
        ans = Some(p_rfc);
    } else {
        for (i, s) in o.alts.iter().enumerate() {
            let p = rfc_preimage(f, s);
            if hash_with(*h, &p).as_deref() == Some(&d[..]) {
                ans = Some(p);
                if let Some(e) = o.alt_extra.get(i) {
                    case_req = mkreq(e);
                }
                break;
            }
        }
    }
    match ans {
        Some(p) => ctx.case(case_req, format!("ok:{}", repr(&p))),
        None => ctx.case(case_req, format!("mismatch:{}", hex::encode(d))),
    }
}

fn chunks_arg(chunks: &[Vec<u8>], pats: &[(usize, usize)]) -> String {
    if chunks.is_empty() {
        return "-".into();
    }
    chunks.iter().map(|c| bx(c, pats)).collect::<Vec<_>>().join(",")
}

// ------------------------------------------------------------------------------------------
// keys

struct TestKey {
    name: String,
    ssk: SignedSecretKey,
    spk: SignedPublicKey,
}

fn repo_dir() -> String {
    std::env::var("VERIF_REPO").unwrap_or_else(|_| "/repo".to_string())
}

fn load_tsk(rel: &str) -> Option<TestKey> {
    let p = format!("{}/{}", repo_dir(), rel);
    let f = std::fs::File::open(&p).ok()?;
    let (ssk, _) = SignedSecretKey::from_armor_single(f).ok()?;
    let spk: SignedPublicKey = ssk.clone().into();
    Some(TestKey { name: rel.to_string(), ssk, spk })
}

fn gen_key(rng: &mut ChaCha8Rng, version: KeyVersion, kt: KeyType, sub: Option<KeyType>, name: &str) -> Option<TestKey> {
    let mut b = SecretKeyParamsBuilder::default();
    b.version(version)
        .key_type(kt)
        .can_sign(true)
        .can_certify(true)
        .created_at(Timestamp::from_secs(1_700_000_000))
        .primary_user_id(format!("{name} <{name}@example.org>"));
    if let Some(st) = sub {
        let sp = SubkeyParamsBuilder::default()
            .version(version)
            .key_type(st)
            .can_sign(true)
            .created_at(Timestamp::from_secs(1_700_000_001))
            .build()
            .ok()?;
        b.subkeys(vec![sp]);
    }
    let ssk = b.build().ok()?.generate(rng).ok()?;
    let spk: SignedPublicKey = ssk.clone().into();
    Some(TestKey { name: name.to_string(), ssk, spk })
}

fn hash_of(h: u8) -> HashAlgorithm {
    HashAlgorithm::from(h)
}

fn fixed_subpackets(key: &impl KeyDetails, secs: u32) -> Vec<Subpacket> {
    vec![
        Subpacket::regular(SubpacketData::SignatureCreationTime(Timestamp::from_secs(secs))).expect("sp"),
        Subpacket::regular(SubpacketData::IssuerFingerprint(key.fingerprint())).expect("sp"),
    ]
}

/// hashed subpackets whose serialized length is exactly `total` (>= 16): creation time +
/// a notation whose value is `pattern(seed, n)`
fn area_of_size(total: usize, seed: usize) -> Option<(Vec<Subpacket>, (usize, usize))> {
    // creation time subpacket: 1 (len) + 1 (type) + 4 = 6 octets
    // notation subpacket: len-of-len + 1 (type) + 4 (flags) + 2 + 2 + name + value
    let name = b"c11@example.org";
    let fixed = 6;
    for lol in [1usize, 2, 5] {
        let inner = total.checked_sub(fixed + lol)?; // type + flags + lens + name + value
        let overhead = 1 + 4 + 2 + 2 + name.len();
        if inner < overhead {
            continue;
        }
        let vlen = inner - overhead;
        if vlen > 65535 {
            // notation value length is a two-octet field
            return None;
        }
        let ok = match lol {
            1 => inner < 192,
            2 => (192..=16319).contains(&inner),
            _ => inner > 16319,
        };
        if !ok {
            continue;
        }
        let n = Notation { readable: false, name: name.to_vec().into(), value: pattern(seed, vlen).into() };
        let sps = vec![
            Subpacket::regular(SubpacketData::SignatureCreationTime(Timestamp::from_secs(1_700_000_100))).ok()?,
            Subpacket::regular(SubpacketData::Notation(n)).ok()?,
        ];
        return Some((sps, (seed, vlen)));
    }
    None
}

/// several notations to get past 65535 octets (v6)
fn area_big(n_notations: usize, vlen: usize, seed: usize) -> (Vec<Subpacket>, Vec<(usize, usize)>) {
    let mut sps = vec![Subpacket::regular(SubpacketData::SignatureCreationTime(Timestamp::from_secs(1_700_000_100))).expect("sp")];
    let mut pats = Vec::new();
    for i in 0..n_notations {
        let n = Notation { readable: false, name: b"c11@example.org".to_vec().into(), value: pattern(seed + i, vlen).into() };
        sps.push(Subpacket::regular(SubpacketData::Notation(n)).expect("sp"));
        pats.push((seed + i, vlen));
    }
    (sps, pats)
}

fn mk_config(rng: &mut ChaCha8Rng, key: &impl SigningKey, typ: SignatureType, hash: u8) -> Option<SignatureConfig> {
    match key.version() {
        KeyVersion::V4 => Some(SignatureConfig::v4(typ, key.algorithm(), hash_of(hash))),
        KeyVersion::V6 => SignatureConfig::v6(rng, typ, key.algorithm(), hash_of(hash)).ok(),
        _ => None,
    }
}

fn kver(k: &impl KeyDetails) -> u8 {
    k.version().into()
}

// ------------------------------------------------------------------------------------------
// documents

fn text_docs(ctx: &mut Ctx) -> Vec<Vec<u8>> {
    let mut v: Vec<Vec<u8>> = vec![
        b"".to_vec(),
        b"\n".to_vec(),
        b"\r".to_vec(),
        b"\r\n".to_vec(),
        b"abc".to_vec(),
        b"abc\n".to_vec(),
        b"abc\r".to_vec(),
        b"abc\r\n".to_vec(),
        b"a\nb\r\nc\rd\n\n\r\r\n".to_vec(),
        b"line one \nline two\t\n".to_vec(),
        "h\u{e9}llo w\u{f6}rld\n".as_bytes().to_vec(),
    ];
    let n = ctx.pick(6, 40);
    for i in 0..n {
        let len = [5usize, 63, 511, 512, 513, 1023, 1024, 1025, 3000][i % 9];
        v.push(crate::gen::random_text(&mut ctx.rng, len, b"ab\r\n\n \r"));
    }
    // CR exactly at the NormalizedReader window edge (512) and at the 8 KiB copy buffer edge
    for edge in [511usize, 512, 1023, 8191, 8192] {
        let mut t = vec![b'x'; edge];
        t.push(b'\r');
        t.push(b'\n');
        t.extend_from_slice(b"tail\n");
        v.push(t);
    }
    v
}

fn split_random(ctx: &mut Ctx, d: &[u8]) -> Vec<Vec<u8>> {
    match ctx.rng.gen_range(0..4) {
        0 => {
            if d.is_empty() {
                vec![]
            } else {
                vec![d.to_vec()]
            }
        }
        1 => crate::gen::random_chunking(&mut ctx.rng, d, 3),
        2 => crate::gen::random_chunking(&mut ctx.rng, d, 700),
        _ => {
            let c = ctx.rng.gen_range(0..=d.len());
            crate::gen::chunk_at(d, &[c])
        }
    }
}

// ------------------------------------------------------------------------------------------
// sign side

const HASHES_V6: [u8; 6] = [8, 9, 10, 11, 12, 14];
const HASHES_V4: [u8; 7] = [2, 8, 9, 10, 11, 12, 14];

fn hashes_for(ver: u8) -> &'static [u8] {
    if ver == 6 {
        &HASHES_V6
    } else {
        &HASHES_V4
    }
}

/// `SignatureConfig::sign` over a document, then every verify interface on the result
#[allow(clippy::too_many_arguments)]
fn sign_data_case<S: SigningKey, V: VerifyingKey + Serialize>(
    ctx: &mut Ctx,
    sk: &S,
    pk: &V,
    typ: SignatureType,
    hash: u8,
    hashed: Vec<Subpacket>,
    pats: &[(usize, usize)],
    doc: &[u8],
    doc_pats: &[(usize, usize)],
) -> Option<Signature> {
    let mut cfg_rng = ChaCha8Rng::seed_from_u64(ctx.rng.gen());
    let mut config = mk_config(&mut cfg_rng, sk, typ, hash)?;
    config.hashed_subpackets = hashed;
    let chunks = split_random(ctx, doc);
    let rec = RecSigner::new(sk);
    let reader = ScheduledReader::from_chunks(&chunks);
    let cfg2 = config.clone();
    let res = guarded(|| cfg2.sign(&rec, &Password::empty(), reader));
    let seen = rec.take();
    let mut all_pats = pats.to_vec();
    all_pats.extend_from_slice(doc_pats);
    let sig = match res {
        Ok(Ok(sig)) => sig,
        other => {
            // no signature: the model must also refuse, provided the refusal is one of the modelled ones
            let err = match other {
                Ok(Err(e)) => e.to_string(),
                Err(p) => format!("panic {p}"),
                _ => String::new(),
            };
            let area: Vec<u8> = config.hashed_subpackets.iter().flat_map(|s| wire_body(s)).collect();
            let modelled = (kver(sk) == 4 && area.len() > 65535) || !matches!(typ, SignatureType::Binary | SignatureType::Text);
            ctx.stat(&format!("sign-error:{}", if modelled { "modelled" } else { "other" }));
            if !modelled {
                let e: String = err.chars().take(60).collect();
                ctx.stat(&format!("sign-error-other:pk{}:h{}:{}", u8::from(sk.algorithm()), hash, e));
            }
            if modelled && seen.is_empty() {
                let salt = match &config.version_specific {
                    pgp::packet::SignatureVersionSpecific::V6 { salt } => salt.clone(),
                    _ => vec![],
                };
                let f = SigFields {
                    ver: kver(sk),
                    typ: typ.into(),
                    pk: sk.algorithm().into(),
                    hash,
                    area,
                    unhashed: vec![],
                    salt,
                    created: 0,
                    left16: [0, 0],
                };
                settle(
                    ctx,
                    Obs {
                        path: "signData",
                        site: "SignatureConfig::sign",
                        extra: format!("data={}", chunks_arg(&chunks, &all_pats)),
                        sv: kver(sk),
                        fields: f,
                        subject: Subject::Doc(doc.to_vec()),
                        alts: vec![], alt_extra: vec![], oracle_note: String::new(),
                        digest: None,
                        pats: &all_pats,
                        lib_ok: false,
                        lib_err: err,
                    },
                );
            }
            return None;
        }
    };
    let f = wire_fields(&sig)?;
    settle(
        ctx,
        Obs {
            path: "signData",
            site: "SignatureConfig::sign",
            extra: format!("data={}", chunks_arg(&chunks, &all_pats)),
            sv: kver(sk),
            fields: f.clone(),
            subject: Subject::Doc(doc.to_vec()),
            alts: vec![], alt_extra: vec![], oracle_note: String::new(),
            digest: seen.first().cloned(),
            pats: &all_pats,
            lib_ok: true,
            lib_err: String::new(),
        },
    );
    // verify side, detached: Signature::verify on the re-parsed packet
    let reparsed = reparse_sig(&sig).unwrap_or_else(|| sig.clone());
    let rv = RecVerifier::new(pk, true);
    let r = guarded(|| reparsed.verify(&rv, doc));
    let seen = rv.take();
    settle(
        ctx,
        Obs {
            path: "verData",
            site: "Signature::verify",
            extra: format!("data={}", bx(doc, &all_pats)),
            sv: kver(pk),
            fields: f,
            subject: Subject::Doc(doc.to_vec()),
            alts: vec![], alt_extra: vec![], oracle_note: String::new(),
            digest: seen.first().cloned(),
            pats: &all_pats,
            lib_ok: matches!(r, Ok(Ok(()))),
            lib_err: format!("{r:?}"),
        },
    );
    Some(sig)
}

/// serialize with header, parse back through rpgp's packet parser
fn reparse_sig(sig: &Signature) -> Option<Signature> {
    let mut b = Vec::new();
    pgp::packet::PacketTrait::to_writer_with_header(sig, &mut b).ok()?;
    parse_sig_packet(&b)
}

fn parse_sig_packet(b: &[u8]) -> Option<Signature> {
    let mut pp = PacketParser::new(b);
    match pp.next()? {
        Ok(Packet::Signature(s)) => Some(s),
        _ => None,
    }
}

fn run_sign_data(ctx: &mut Ctx, keys: &[TestKey]) {
    let texts = text_docs(ctx);
    let bin_lens: Vec<usize> = if ctx.thorough() {
        vec![0, 1, 2, 55, 56, 63, 64, 65, 111, 112, 119, 120, 127, 128, 129, 8191, 8192, 8193, 70000]
    } else {
        vec![0, 1, 55, 56, 64, 111, 112, 128, 8192, 70000]
    };
    for (ki, k) in keys.iter().enumerate() {
        let sk = &k.ssk.primary_key;
        let pk = &k.spk.primary_key;
        let ver = kver(sk);
        // hash algorithm sweep on a short binary and a short text document
        for &h in hashes_for(ver) {
            for typ in [SignatureType::Binary, SignatureType::Text] {
                let hashed = fixed_subpackets(sk, 1_700_000_200);
                sign_data_case(ctx, sk, pk, typ, h, hashed, &[], b"hello\nworld\r\n", &[]);
            }
        }
        // documents
        let h = hashes_for(ver)[1 + ki % 3];
        for (i, &n) in bin_lens.iter().enumerate() {
            let seed = 300 + i;
            let doc = pattern(seed, n);
            let typ = if i % 3 == 2 { SignatureType::Text } else { SignatureType::Binary };
            sign_data_case(ctx, sk, pk, typ, h, fixed_subpackets(sk, 1_700_000_201), &[], &doc, &[(seed, n)]);
        }
        let stride = if ctx.thorough() { 1 } else { 1 + keys.len() / 3 };
        for (i, t) in texts.iter().enumerate() {
            if (i + ki) % stride != 0 {
                continue;
            }
            sign_data_case(ctx, sk, pk, SignatureType::Text, h, fixed_subpackets(sk, 1_700_000_202), &[], t, &[]);
            if i % 4 == 0 {
                sign_data_case(ctx, sk, pk, SignatureType::Binary, h, fixed_subpackets(sk, 1_700_000_202), &[], t, &[]);
            }
        }
        // hashed-area sizes: empty, boundaries of the subpacket length forms, 64 KiB edge
        let mut sizes: Vec<usize> = vec![0, 30, 197, 198, 199, 16300, 16400, 65534, 65535, 65536];
        if ctx.thorough() {
            sizes.extend([31, 100, 255, 256, 257, 8000, 16325, 16326, 16327, 16328, 16329, 65000, 65533]);
        }
        for (i, &sz) in sizes.iter().enumerate() {
            if !ctx.thorough() && ki >= 4 && sz > 199 && sz != 65535 && sz != 65536 {
                continue;
            }
            let (hashed, pats) = if sz == 0 {
                (vec![], vec![])
            } else {
                match area_of_size(sz, 700 + i) {
                    Some((s, p)) => (s, vec![p]),
                    None => continue,
                }
            };
            let typ = if i % 2 == 0 { SignatureType::Binary } else { SignatureType::Text };
            sign_data_case(ctx, sk, pk, typ, h, hashed, &pats, b"area test\n", &[]);
        }
        // beyond 65535 octets of hashed subpackets (v6 has a four-octet length; v4 must refuse)
        for (n, vlen) in [(2usize, 40000usize), (3, 65535)] {
            if !ctx.thorough() && ki >= 6 {
                continue;
            }
            let (hashed, pats) = area_big(n, vlen, 900);
            sign_data_case(ctx, sk, pk, SignatureType::Binary, h, hashed, &pats, b"big area", &[]);
        }
    }
}


// ------------------------------------------------------------------------------------------
// detached signatures

fn run_detached(ctx: &mut Ctx, keys: &[TestKey]) {
    let docs: Vec<(Vec<u8>, Vec<(usize, usize)>)> = vec![
        (b"".to_vec(), vec![]),
        (b"detached\n".to_vec(), vec![]),
        (b"a\r\nb\nc\r".to_vec(), vec![]),
        (pattern(41, 9000), vec![(41, 9000)]),
    ];
    for (ki, k) in keys.iter().enumerate() {
        let sk = &k.ssk.primary_key;
        let pk = &k.spk.primary_key;
        let ver = kver(sk);
        let hs = hashes_for(ver);
        for (di, (doc, dp)) in docs.iter().enumerate() {
            for text in [false, true] {
                let h = hs[(ki + di + text as usize) % hs.len()];
                let with_sp = (ki + di) % 2 == 0;
                let rec = RecSigner::new(sk);
                let mut rng = ChaCha8Rng::seed_from_u64(ctx.rng.gen());
                let res = guarded(|| {
                    let sp = if with_sp {
                        SubpacketConfig::UserDefined { hashed: fixed_subpackets(sk, 1_700_000_300), unhashed: vec![] }
                    } else {
                        SubpacketConfig::Default
                    };
                    if text {
                        DetachedSignature::sign_text_data_with_subpackets(&mut rng, &rec, &Password::empty(), hash_of(h), &doc[..], sp)
                    } else {
                        DetachedSignature::sign_binary_data_with_subpackets(&mut rng, &rec, &Password::empty(), hash_of(h), &doc[..], sp)
                    }
                });
                let seen = rec.take();
                let Ok(Ok(ds)) = res else {
                    ctx.stat("detached:sign-error");
                    continue;
                };
                let Some(f) = wire_fields(&ds.signature) else { continue };
                let site = if text { "DetachedSignature::sign_text_data_with_subpackets" } else { "DetachedSignature::sign_binary_data_with_subpackets" };
                settle(
                    ctx,
                    Obs {
                        path: "signData",
                        site,
                        extra: format!("data={}", bx(doc, dp)),
                        sv: ver,
                        fields: f.clone(),
                        subject: Subject::Doc(doc.clone()),
                        alts: vec![], alt_extra: vec![], oracle_note: String::new(),
                        digest: seen.first().cloned(),
                        pats: dp,
                        lib_ok: true,
                        lib_err: String::new(),
                    },
                );
                // through the wire and back
                let mut wire = Vec::new();
                if ds.to_writer(&mut wire).is_err() {
                    continue;
                }
                let Ok(ds2) = DetachedSignature::from_bytes(&wire[..]) else {
                    ctx.stat("detached:reparse-error");
                    continue;
                };
                let rv = RecVerifier::new(pk, true);
                let r = guarded(|| ds2.verify(&rv, doc));
                let seen = rv.take();
                settle(
                    ctx,
                    Obs {
                        path: "verData",
                        site: "DetachedSignature::verify",
                        extra: format!("data={}", bx(doc, dp)),
                        sv: kver(pk),
                        fields: f,
                        subject: Subject::Doc(doc.clone()),
                        alts: vec![], alt_extra: vec![], oracle_note: String::new(),
                        digest: seen.first().cloned(),
                        pats: dp,
                        lib_ok: matches!(r, Ok(Ok(()))),
                        lib_err: format!("{r:?}"),
                    },
                );
            }
        }
    }
}

// ------------------------------------------------------------------------------------------
// messages: MessageBuilder signers (one-pass), Message::verify*

/// data of a literal packet body (format, name, date stripped)
fn literal_data(body: &[u8]) -> Option<&[u8]> {
    let nl = *body.get(1)? as usize;
    body.get(2 + nl + 4..)
}

fn run_messages(ctx: &mut Ctx, keys: &[TestKey]) {
    let docs: Vec<(Vec<u8>, Vec<(usize, usize)>)> = vec![
        (b"".to_vec(), vec![]),
        (b"hello world\n".to_vec(), vec![]),
        (b"x\r\ny\nz\r".to_vec(), vec![]),
        (pattern(77, 8192 + 3), vec![(77, 8195)]),
        (pattern(78, 20000), vec![(78, 20000)]),
    ];
    let n = keys.len();
    for ki in 0..n {
        for (di, (doc, dp)) in docs.iter().enumerate() {
            if !ctx.thorough() && di >= 3 && ki % 3 != 0 {
                continue;
            }
            for variant in 0..4usize {
                // variant: bit0 = text mode, bit1 = reader source with partial chunks
                let text = variant & 1 == 1;
                let from_reader = variant & 2 == 2;
                let two = (ki + di + variant) % 3 == 0 && n > 1;
                let signer_idx: Vec<usize> = if two { vec![ki, (ki + 1) % n] } else { vec![ki] };
                let recs: Vec<RecSigner<SecretKey>> = signer_idx.iter().map(|&i| RecSigner::new(&keys[i].ssk.primary_key)).collect();
                let hashes: Vec<u8> = signer_idx
                    .iter()
                    .enumerate()
                    .map(|(j, &i)| {
                        let hs = hashes_for(kver(&keys[i].ssk.primary_key));
                        hs[(di + variant + j + 1) % hs.len()]
                    })
                    .collect();
                let mut rng = ChaCha8Rng::seed_from_u64(ctx.rng.gen());
                let out = guarded(|| -> Option<Vec<u8>> {
                    if from_reader {
                        let src = ScheduledReader::new(doc, &[1, 511, 513]);
                        let mut b = MessageBuilder::from_reader("", src);
                        b.partial_chunk_size(512).ok()?;
                        if text {
                            b.sign_text();
                        }
                        for (r, &h) in recs.iter().zip(&hashes) {
                            b.sign(r, Password::empty(), hash_of(h));
                        }
                        b.to_vec(&mut rng).ok()
                    } else {
                        let mut b = MessageBuilder::from_bytes("", doc.clone());
                        if text {
                            b.sign_text();
                        }
                        for (r, &h) in recs.iter().zip(&hashes) {
                            b.sign_with_subpackets(
                                r,
                                Password::empty(),
                                hash_of(h),
                                SubpacketConfig::UserDefined { hashed: fixed_subpackets(r.inner, 1_700_000_400), unhashed: vec![] },
                            );
                        }
                        b.to_vec(&mut rng).ok()
                    }
                });
                let Ok(Some(out)) = out else {
                    ctx.stat("message:build-error");
                    continue;
                };
                let Some(pkts) = split_packets(&out) else {
                    ctx.oracle("message_wire_parses", "MessageBuilder::to_vec", &hex::encode(&out[..out.len().min(64)]), false, "own parser rejects the output");
                    continue;
                };
                let sig_bodies: Vec<&Vec<u8>> = pkts.iter().filter(|(t, _)| *t == 2).map(|(_, b)| b).collect();
                let lit = pkts.iter().find(|(t, _)| *t == 11).and_then(|(_, b)| literal_data(b)).map(|d| d.to_vec());
                let Some(lit) = lit else { continue };
                if sig_bodies.len() != recs.len() {
                    continue;
                }
                // signer j signed the signature packet at position n-1-j
                let mut wire_sigs: Vec<SigFields> = Vec::new();
                for (j, r) in recs.iter().enumerate() {
                    let Some(f) = parse_sig_body(sig_bodies[recs.len() - 1 - j]) else { continue };
                    let seen = r.take();
                    settle(
                        ctx,
                        Obs {
                            path: "signData",
                            site: if from_reader { "MessageBuilder::from_reader+sign" } else { "MessageBuilder::from_bytes+sign_with_subpackets" },
                            extra: format!("data={}", bx(&lit, dp)),
                            sv: kver(r.inner),
                            fields: f.clone(),
                            subject: Subject::Doc(lit.clone()),
                            alts: vec![], alt_extra: vec![], oracle_note: String::new(),
                            digest: seen.first().cloned(),
                            pats: dp,
                            lib_ok: true,
                            lib_err: String::new(),
                        },
                    );
                    wire_sigs.push(f);
                }
                if wire_sigs.len() != recs.len() {
                    continue;
                }
                // verify side: parse the message, read it to the end, verify signature j with key j
                for (j, &i) in signer_idx.iter().enumerate() {
                    let pk = &keys[i].spk.primary_key;
                    let rv = RecVerifier::new(pk, true);
                    let r = guarded(|| -> Result<(), String> {
                        let mut msg = Message::from_bytes(&out[..]).map_err(|e| e.to_string())?;
                        let _ = msg.as_data_vec().map_err(|e| e.to_string())?;
                        if j == 0 && recs.len() == 1 {
                            msg.verify(&rv).map(|_| ()).map_err(|e| e.to_string())
                        } else {
                            msg.verify_nested_explicit(j, &rv).map(|_| ()).map_err(|e| e.to_string())
                        }
                    });
                    let seen = rv.take();
                    settle(
                        ctx,
                        Obs {
                            path: "verInline",
                            site: "Message::verify / verify_nested_explicit (one-pass)",
                            extra: format!("data={}", bx(&lit, dp)),
                            sv: kver(pk),
                            fields: wire_sigs[j].clone(),
                            subject: Subject::Doc(lit.clone()),
                            alts: vec![], alt_extra: vec![], oracle_note: String::new(),
                            digest: seen.first().cloned(),
                            pats: dp,
                            lib_ok: matches!(r, Ok(Ok(()))),
                            lib_err: format!("{r:?}"),
                        },
                    );
                }
            }
        }
    }
}

// ------------------------------------------------------------------------------------------
// cleartext signature framework

/// RFC 9580 §7.2: "any trailing whitespace -- spaces (0x20) and tabs (0x09) -- at the end of any
/// line is removed when the cleartext signature is generated and verified"
fn csf_trim(text: &[u8]) -> Vec<u8> {
    let mut out = Vec::with_capacity(text.len());
    let mut lines = text.split(|&b| b == b'\n').peekable();
    while let Some(l) = lines.next() {
        let last = lines.peek().is_none();
        let (core, cr) = if !last && l.last() == Some(&b'\r') { (&l[..l.len() - 1], true) } else { (l, false) };
        let mut end = core.len();
        while end > 0 && (core[end - 1] == b' ' || core[end - 1] == b'\t') {
            end -= 1;
        }
        out.extend_from_slice(&core[..end]);
        if cr {
            out.push(b'\r');
        }
        if !last {
            out.push(b'\n');
        }
    }
    out
}

fn run_cleartext(ctx: &mut Ctx, keys: &[TestKey]) {
    let texts: Vec<&str> = vec![
        "",
        "hello",
        "hello\n",
        "- dash first\n-- two\nFrom here\n",
        "a\r\nb\nc",
        "multi\n\n\nline\n",
        "h\u{e9}llo\nw\u{f6}rld\n",
        // trailing blanks: the text that is hashed must be the trimmed one (RFC 9580 §7.2)
        "abc \nx",
        "tab\t\nend\n",
        "both \t \nlast line  ",
    ];
    for (ki, k) in keys.iter().enumerate() {
        let sk = &k.ssk.primary_key;
        let pk = &k.spk.primary_key;
        for (ti, t) in texts.iter().enumerate() {
            if !ctx.thorough() && (ki + ti) % 2 == 1 && ti < 7 {
                continue;
            }
            let rec = RecSigner::new(sk);
            let mut rng = ChaCha8Rng::seed_from_u64(ctx.rng.gen());
            let res = guarded(|| CleartextSignedMessage::sign(&mut rng, t, &rec, &Password::empty()));
            let seen = rec.take();
            let Ok(Ok(csm)) = res else {
                ctx.stat("cleartext:sign-error");
                continue;
            };
            let Some(sig) = csm.signatures().first() else { continue };
            let Some(f) = wire_fields(sig) else { continue };
            let trimmed = csf_trim(t.as_bytes());
            ctx.stat(if trimmed.len() != t.len() { "cleartext:trailing-blanks" } else { "cleartext:plain" });
            settle(
                ctx,
                Obs {
                    path: "signData",
                    site: "CleartextSignedMessage::sign",
                    // what is fed to `SignatureConfig::sign` is the text after NormalizedReader:
                    // of the trimmed text if the signer trims (RFC 9580 section 7.2), else of the
                    // text as given - decided by which of the two the observed digest certifies
                    extra: format!("data={}", bx(&rfc_canon_text(&trimmed), &[])),
                    sv: kver(sk),
                    fields: f.clone(),
                    subject: Subject::Doc(trimmed.clone()),
                    alts: vec![Subject::Doc(t.as_bytes().to_vec())],
                    alt_extra: vec![format!("data={}", bx(&rfc_canon_text(t.as_bytes()), &[]))],
                    oracle_note: format!(" text={}", bx(t.as_bytes(), &[])),
                    digest: seen.first().cloned(),
                    pats: &[],
                    lib_ok: true,
                    lib_err: String::new(),
                },
            );
            // armor -> parse -> verify
            let Ok(armored) = csm.to_armored_string(Default::default()) else { continue };
            let Ok((csm2, _)) = CleartextSignedMessage::from_string(&armored) else {
                ctx.stat("cleartext:reparse-error");
                continue;
            };
            let rv = RecVerifier::new(pk, true);
            let r = guarded(|| csm2.verify(&rv).map(|_| ()));
            let seen = rv.take();
            let signed_text = csm2.signed_text();
            settle(
                ctx,
                Obs {
                    path: "verData",
                    site: "CleartextSignedMessage::verify",
                    extra: format!("data={}", bx(signed_text.as_bytes(), &[])),
                    sv: kver(pk),
                    fields: f,
                    subject: Subject::Doc(trimmed),
                    alts: vec![Subject::Doc(signed_text.as_bytes().to_vec())],
                    alt_extra: vec![], oracle_note: String::new(),
                    digest: seen.first().cloned(),
                    pats: &[],
                    lib_ok: matches!(r, Ok(Ok(()))),
                    lib_err: format!("{r:?}"),
                },
            );
        }
    }
}

// ------------------------------------------------------------------------------------------
// certifications 0x10-0x13, 0x30 over User IDs and User Attributes

enum Ident {
    Uid(UserId, Vec<u8>),
    Attr(UserAttribute, Vec<u8>),
}

fn parse_one(bytes: &[u8]) -> Option<Packet> {
    let mut pp = PacketParser::new(bytes);
    pp.next()?.ok()
}

fn idents(ctx: &mut Ctx) -> Vec<(Ident, Vec<(usize, usize)>)> {
    let mut v = Vec::new();
    let mut add_uid = |raw: Vec<u8>, pats: Vec<(usize, usize)>| {
        if let Some(Packet::UserId(u)) = parse_one(&packet5(13, &raw)) {
            v.push((Ident::Uid(u, raw), pats));
        }
    };
    add_uid(b"Alice Lovelace <alice@openpgp.example>".to_vec(), vec![]);
    add_uid(vec![], vec![]);
    add_uid(vec![0xff, 0xfe, 0x00, 0x80], vec![]);
    add_uid(pattern(5, 300), vec![(5, 300)]);
    if ctx.thorough() {
        add_uid(pattern(6, 70000), vec![(6, 70000)]);
    }
    // attributes: image built by the library; unknown types with each subpacket length form
    if let Ok(a) = UserAttribute::new_image(pattern(9, 500).into()) {
        let raw = wire_body(&a);
        v.push((Ident::Attr(a, raw), vec![(9, 500)]));
    }
    for (form, n) in [(1u8, 20usize), (2, 20), (5, 20), (2, 300), (5, 300), (5, 20000)] {
        if !ctx.thorough() && n > 300 {
            continue;
        }
        let body = pattern(10 + n, n);
        let raw = match form {
            1 => subpacket_raw(1, 0x65, &body),
            2 if n + 1 >= 192 => subpacket_raw(2, 0x65, &body),
            2 => {
                // non-minimal is impossible in the two-octet form (it starts at 192); use 5
                subpacket_raw(5, 0x65, &body)
            }
            _ => subpacket_raw(5, 0x65, &body),
        };
        let Some(raw) = raw else { continue };
        if let Some(Packet::UserAttribute(a)) = parse_one(&packet5(17, &raw)) {
            v.push((Ident::Attr(a, raw), vec![(10 + n, n)]));
        }
    }
    v
}

const CERT_TYPES: [SignatureType; 5] = [
    SignatureType::CertGeneric,
    SignatureType::CertPersona,
    SignatureType::CertCasual,
    SignatureType::CertPositive,
    SignatureType::CertRevocation,
];

fn run_certifications(ctx: &mut Ctx, keys: &[TestKey]) {
    let ids = idents(ctx);
    let n = keys.len();
    let mut count = 0usize;
    for ki in 0..n {
        let signer = &keys[ki];
        let sk = &signer.ssk.primary_key;
        let spub = &signer.spk.primary_key;
        // signees: the signer itself, and a key of the other version (third-party)
        let other = (0..n).map(|d| (ki + 1 + d) % n).find(|&j| kver(&keys[j].spk.primary_key) != kver(sk)).unwrap_or((ki + 1) % n);
        for (which, signee_idx) in [(0usize, ki), (1, other)] {
            let signee = &keys[signee_idx].spk.primary_key;
            for (ii, (ident, ipats)) in ids.iter().enumerate() {
                for (ti, typ) in CERT_TYPES.iter().enumerate() {
                    count += 1;
                    if !ctx.thorough() && (count % 3 != 0) && !(ki < 2 && ii == 0) {
                        continue;
                    }
                    let hs = hashes_for(kver(sk));
                    let h = hs[(ii + ti + ki) % hs.len()];
                    let mut cfg_rng = ChaCha8Rng::seed_from_u64(ctx.rng.gen());
                    let Some(mut config) = mk_config(&mut cfg_rng, sk, *typ, h) else { continue };
                    config.hashed_subpackets = fixed_subpackets(sk, 1_700_000_500);
                    let rec = RecSigner::new(sk);
                    let (tag, attr, raw, id_arg) = match ident {
                        Ident::Uid(u, raw) => (Tag::UserId, false, raw.clone(), ser_arg(u, ipats)),
                        Ident::Attr(a, raw) => (Tag::UserAttribute, true, raw.clone(), ser_arg(a, ipats)),
                    };
                    let tagn: u8 = tag.into();
                    let res = guarded(|| match ident {
                        Ident::Uid(u, _) => {
                            if which == 0 && ti % 2 == 0 {
                                config.clone().sign_certification(&rec, signee, &Password::empty(), tag, u)
                            } else {
                                config.clone().sign_certification_third_party(&rec, &Password::empty(), signee, tag, u)
                            }
                        }
                        Ident::Attr(a, _) => config.clone().sign_certification_third_party(&rec, &Password::empty(), signee, tag, a),
                    });
                    let seen = rec.take();
                    let Ok(Ok(sig)) = res else {
                        ctx.stat("cert:sign-error");
                        continue;
                    };
                    let Some(f) = wire_fields(&sig) else { continue };
                    let subject = Subject::Cert(wire_key(signee), attr, raw.clone());
                    let extra = format!("k1={} tag={} id={}", key_arg(signee), tagn, id_arg);
                    settle(
                        ctx,
                        Obs {
                            path: "signCert",
                            site: "SignatureConfig::sign_certification(_third_party)",
                            extra: extra.clone(),
                            sv: kver(sk),
                            fields: f.clone(),
                            subject: subject.clone(),
                            alts: vec![], alt_extra: vec![], oracle_note: String::new(),
                            digest: seen.first().cloned(),
                            pats: ipats,
                            lib_ok: true,
                            lib_err: String::new(),
                        },
                    );
                    // verify: packet-level entry points and the SignedUser / SignedUserAttribute wrappers
                    let sig2 = reparse_sig(&sig).unwrap_or_else(|| sig.clone());
                    let rv = RecVerifier::new(spub, true);
                    let (site, r) = match (ident, (count / 3) % 3) {
                        (Ident::Uid(u, _), 0) => (
                            "Signature::verify_third_party_certification",
                            guarded(|| sig2.verify_third_party_certification(signee, &rv, tag, u)),
                        ),
                        (Ident::Uid(u, _), 1) if which == 0 => {
                            ("Signature::verify_certification", guarded(|| sig2.verify_certification(&rv, tag, u)))
                        }
                        (Ident::Uid(u, _), _) => (
                            "SignedUser::verify_third_party",
                            guarded(|| SignedUser::new(u.clone(), vec![sig2.clone()]).verify_third_party(signee, &rv)),
                        ),
                        (Ident::Attr(a, _), 0) => (
                            "Signature::verify_third_party_certification",
                            guarded(|| sig2.verify_third_party_certification(signee, &rv, tag, a)),
                        ),
                        (Ident::Attr(a, _), _) => (
                            "SignedUserAttribute::verify_third_party",
                            guarded(|| SignedUserAttribute::new(a.clone(), vec![sig2.clone()]).verify_third_party(signee, &rv)),
                        ),
                    };
                    let seen = rv.take();
                    settle(
                        ctx,
                        Obs {
                            path: "verCert",
                            site,
                            extra,
                            sv: kver(spub),
                            fields: f,
                            subject,
                            alts: vec![], alt_extra: vec![], oracle_note: String::new(),
                            digest: seen.first().cloned(),
                            pats: ipats,
                            lib_ok: matches!(r, Ok(Ok(()))),
                            lib_err: format!("{r:?}"),
                        },
                    );
                }
            }
            // the convenience signers of the identity packets
            if let Some((Ident::Uid(u, raw), _)) = ids.first() {
                let rec = RecSigner::new(sk);
                let mut rng = ChaCha8Rng::seed_from_u64(ctx.rng.gen());
                let res = guarded(|| {
                    if which == 0 {
                        u.sign(&mut rng, &rec, signee, &Password::empty())
                    } else {
                        u.sign_third_party(&mut rng, &rec, &Password::empty(), signee, SignatureType::CertCasual)
                    }
                });
                let seen = rec.take();
                if let Ok(Ok(su)) = res {
                    if let Some(f) = su.signatures.first().and_then(wire_fields) {
                        let tagn: u8 = Tag::UserId.into();
                        settle(
                            ctx,
                            Obs {
                                path: "signCert",
                                site: "UserId::sign / sign_third_party",
                                extra: format!("k1={} tag={} id={}", key_arg(signee), tagn, ser_arg(u, &[])),
                                sv: kver(sk),
                                fields: f,
                                subject: Subject::Cert(wire_key(signee), false, raw.clone()),
                                alts: vec![], alt_extra: vec![], oracle_note: String::new(),
                                digest: seen.first().cloned(),
                                pats: &[],
                                lib_ok: true,
                                lib_err: String::new(),
                            },
                        );
                    }
                }
            }
            if let Some((Ident::Attr(a, raw), ap)) = ids.iter().find(|(i, _)| matches!(i, Ident::Attr(..))) {
                let rec = RecSigner::new(sk);
                let mut rng = ChaCha8Rng::seed_from_u64(ctx.rng.gen());
                let res = guarded(|| {
                    if which == 0 {
                        a.sign(&mut rng, &rec, signee, &Password::empty())
                    } else {
                        a.sign_third_party(&mut rng, &rec, &Password::empty(), signee, SignatureType::CertGeneric)
                    }
                });
                let seen = rec.take();
                if let Ok(Ok(sa)) = res {
                    if let Some(f) = sa.signatures.first().and_then(wire_fields) {
                        let tagn: u8 = Tag::UserAttribute.into();
                        settle(
                            ctx,
                            Obs {
                                path: "signCert",
                                site: "UserAttribute::sign / sign_third_party",
                                extra: format!("k1={} tag={} id={}", key_arg(signee), tagn, ser_arg(a, ap)),
                                sv: kver(sk),
                                fields: f,
                                subject: Subject::Cert(wire_key(signee), true, raw.clone()),
                                alts: vec![], alt_extra: vec![], oracle_note: String::new(),
                                digest: seen.first().cloned(),
                                pats: ap,
                                lib_ok: true,
                                lib_err: String::new(),
                            },
                        );
                    }
                }
            }
        }
    }
}

// ------------------------------------------------------------------------------------------
// key signatures: 0x18 / 0x28 / 0x19 / 0x1F / 0x20

fn run_key_sigs(ctx: &mut Ctx, keys: &[TestKey]) {
    let n = keys.len();
    for ki in 0..n {
        let k = &keys[ki];
        let sk = &k.ssk.primary_key;
        let ppub = &k.spk.primary_key;
        let hs = hashes_for(kver(sk));
        // direct key / key revocation: self and third party
        let other = &keys[(ki + 1) % n].spk.primary_key;
        for (ti, typ) in [SignatureType::Key, SignatureType::KeyRevocation].iter().enumerate() {
            for (which, signee) in [(0usize, ppub), (1, other)] {
                let h = hs[(ki + ti + which) % hs.len()];
                let mut cfg_rng = ChaCha8Rng::seed_from_u64(ctx.rng.gen());
                let Some(mut config) = mk_config(&mut cfg_rng, sk, *typ, h) else { continue };
                config.hashed_subpackets = fixed_subpackets(sk, 1_700_000_600);
                let rec = RecSigner::new(sk);
                let res = guarded(|| config.clone().sign_key(&rec, &Password::empty(), signee));
                let seen = rec.take();
                let Ok(Ok(sig)) = res else {
                    ctx.stat("key:sign-error");
                    continue;
                };
                let Some(f) = wire_fields(&sig) else { continue };
                let extra = format!("k1={}", key_arg(signee));
                let subject = Subject::Direct(wire_key(signee));
                settle(
                    ctx,
                    Obs {
                        path: "signKey",
                        site: "SignatureConfig::sign_key",
                        extra: extra.clone(),
                        sv: kver(sk),
                        fields: f.clone(),
                        subject: subject.clone(),
                        alts: vec![], alt_extra: vec![], oracle_note: String::new(),
                        digest: seen.first().cloned(),
                        pats: &[],
                        lib_ok: true,
                        lib_err: String::new(),
                    },
                );
                let sig2 = reparse_sig(&sig).unwrap_or_else(|| sig.clone());
                let rv = RecVerifier::new(ppub, true);
                let (site, r) = if which == 0 {
                    ("Signature::verify_key", guarded(|| sig2.verify_key(&rv)))
                } else {
                    ("Signature::verify_key_third_party", guarded(|| sig2.verify_key_third_party(signee, &rv)))
                };
                let seen = rv.take();
                settle(
                    ctx,
                    Obs {
                        path: "verKey",
                        site,
                        extra,
                        sv: kver(ppub),
                        fields: f,
                        subject,
                        alts: vec![], alt_extra: vec![], oracle_note: String::new(),
                        digest: seen.first().cloned(),
                        pats: &[],
                        lib_ok: matches!(r, Ok(Ok(()))),
                        lib_err: format!("{r:?}"),
                    },
                );
            }
        }
        // subkey binding / revocation and the back signature
        for ssub in k.ssk.secret_subkeys.iter() {
            let sub_sk: &SecretSubkey = &ssub.key;
            let sub_pub: &PublicSubkey = sub_sk.public_key();
            for (ti, typ) in [SignatureType::SubkeyBinding, SignatureType::SubkeyRevocation].iter().enumerate() {
                let h = hs[(ki + ti + 2) % hs.len()];
                let mut cfg_rng = ChaCha8Rng::seed_from_u64(ctx.rng.gen());
                let Some(mut config) = mk_config(&mut cfg_rng, sk, *typ, h) else { continue };
                config.hashed_subpackets = fixed_subpackets(sk, 1_700_000_700);
                let rec = RecSigner::new(sk);
                let res = guarded(|| config.clone().sign_subkey_binding(&rec, ppub, &Password::empty(), sub_pub));
                let seen = rec.take();
                let Ok(Ok(sig)) = res else {
                    ctx.stat("subkey:sign-error");
                    continue;
                };
                let Some(f) = wire_fields(&sig) else { continue };
                let extra = format!("k1={} k2={}", key_arg(ppub), key_arg(sub_pub));
                let subject = Subject::Bind(wire_key(ppub), wire_key(sub_pub));
                settle(
                    ctx,
                    Obs {
                        path: "signSub",
                        site: "SignatureConfig::sign_subkey_binding",
                        extra: extra.clone(),
                        sv: kver(sk),
                        fields: f.clone(),
                        subject: subject.clone(),
                        alts: vec![], alt_extra: vec![], oracle_note: String::new(),
                        digest: seen.first().cloned(),
                        pats: &[],
                        lib_ok: true,
                        lib_err: String::new(),
                    },
                );
                let sig2 = reparse_sig(&sig).unwrap_or_else(|| sig.clone());
                let rv = RecVerifier::new(ppub, true);
                let r = guarded(|| sig2.verify_subkey_binding(&rv, sub_pub));
                let seen = rv.take();
                settle(
                    ctx,
                    Obs {
                        path: "verSub",
                        site: "Signature::verify_subkey_binding",
                        extra,
                        sv: kver(ppub),
                        fields: f,
                        subject,
                        alts: vec![], alt_extra: vec![], oracle_note: String::new(),
                        digest: seen.first().cloned(),
                        pats: &[],
                        lib_ok: matches!(r, Ok(Ok(()))),
                        lib_err: format!("{r:?}"),
                    },
                );
            }
            // PublicSubkey::sign (binding made by the primary)
            {
                let rec = RecSigner::new(sk);
                let mut rng = ChaCha8Rng::seed_from_u64(ctx.rng.gen());
                let res = guarded(|| sub_pub.sign(&mut rng, &rec, ppub, &Password::empty(), Default::default(), None));
                let seen = rec.take();
                if let Ok(Ok(sig)) = res {
                    if let Some(f) = wire_fields(&sig) {
                        settle(
                            ctx,
                            Obs {
                                path: "signSub",
                                site: "PublicSubkey::sign",
                                extra: format!("k1={} k2={}", key_arg(ppub), key_arg(sub_pub)),
                                sv: kver(sk),
                                fields: f,
                                subject: Subject::Bind(wire_key(ppub), wire_key(sub_pub)),
                                alts: vec![], alt_extra: vec![], oracle_note: String::new(),
                                digest: seen.first().cloned(),
                                pats: &[],
                                lib_ok: true,
                                lib_err: String::new(),
                            },
                        );
                    }
                }
            }
            // primary key binding 0x19 made by the subkey
            {
                let h = hs[(ki + 1) % hs.len()];
                let mut cfg_rng = ChaCha8Rng::seed_from_u64(ctx.rng.gen());
                let Some(mut config) = mk_config(&mut cfg_rng, sub_sk, SignatureType::KeyBinding, h) else { continue };
                config.hashed_subpackets = fixed_subpackets(sub_sk, 1_700_000_800);
                let rec = RecSigner::new(sub_sk);
                let res = guarded(|| config.clone().sign_primary_key_binding(&rec, sub_pub, &Password::empty(), ppub));
                let seen = rec.take();
                let Ok(Ok(sig)) = res else {
                    ctx.stat("backsig:sign-error");
                    continue;
                };
                let Some(f) = wire_fields(&sig) else { continue };
                let extra = format!("k1={} k2={}", key_arg(ppub), key_arg(sub_pub));
                let subject = Subject::Bind(wire_key(ppub), wire_key(sub_pub));
                settle(
                    ctx,
                    Obs {
                        path: "signPrim",
                        site: "SignatureConfig::sign_primary_key_binding",
                        extra: extra.clone(),
                        sv: kver(sub_sk),
                        fields: f.clone(),
                        subject: subject.clone(),
                        alts: vec![], alt_extra: vec![], oracle_note: String::new(),
                        digest: seen.first().cloned(),
                        pats: &[],
                        lib_ok: true,
                        lib_err: String::new(),
                    },
                );
                let sig2 = reparse_sig(&sig).unwrap_or_else(|| sig.clone());
                let rv = RecVerifier::new(sub_pub, true);
                let r = guarded(|| sig2.verify_primary_key_binding(&rv, ppub));
                let seen = rv.take();
                settle(
                    ctx,
                    Obs {
                        path: "verPrim",
                        site: "Signature::verify_primary_key_binding",
                        extra,
                        sv: kver(sub_pub),
                        fields: f,
                        subject,
                        alts: vec![], alt_extra: vec![], oracle_note: String::new(),
                        digest: seen.first().cloned(),
                        pats: &[],
                        lib_ok: matches!(r, Ok(Ok(()))),
                        lib_err: format!("{r:?}"),
                    },
                );
            }
        }
    }
}


// ------------------------------------------------------------------------------------------
// certificates from the fixture tree: every signature, subject taken from the wire

fn find_key_files(dir: &std::path::Path, out: &mut Vec<std::path::PathBuf>, depth: usize) {
    if depth > 6 {
        return;
    }
    let Ok(rd) = std::fs::read_dir(dir) else { return };
    let mut entries: Vec<_> = rd.filter_map(|e| e.ok()).map(|e| e.path()).collect();
    entries.sort();
    for p in entries {
        if p.is_dir() {
            find_key_files(&p, out, depth + 1);
        } else if let Ok(md) = p.metadata() {
            if md.len() > 0 && md.len() < 600_000 {
                out.push(p);
            }
        }
    }
}

/// binary packet sequence of a key file (armored or binary), if it starts with a key packet
fn key_file_packets(path: &std::path::Path) -> Option<Vec<(u8, Vec<u8>)>> {
    let raw = std::fs::read(path).ok()?;
    let bin = if raw.first().map(|b| b & 0x80 != 0).unwrap_or(false) {
        raw
    } else if find_sub(&raw, b"KEY BLOCK-----").is_some() {
        dearmor_first(&raw)?
    } else {
        return None;
    };
    let pk = split_packets(&bin)?;
    match pk.first() {
        Some((5 | 6, _)) => Some(pk),
        _ => None,
    }
}

enum Comp {
    None,
    Uid(UserId, Vec<u8>),
    Attr(UserAttribute, Vec<u8>),
    Sub(PublicSubkey, WKey),
}

fn public_body(tag: u8, body: &[u8]) -> Option<Vec<u8>> {
    match tag {
        6 | 14 => Some(body.to_vec()),
        5 | 7 => Some(body[..pubkey_len(body)?].to_vec()),
        _ => None,
    }
}

/// one signature of a certificate: call the matching packet-level verify entry point with a
/// recording (delegating) verifier
#[allow(clippy::too_many_arguments)]
fn fixture_sig(
    ctx: &mut Ctx,
    file: &str,
    sig_body: &[u8],
    primary: &PublicKey,
    wprimary: &WKey,
    comp: &Comp,
    rfc_digests: &mut Vec<Vec<u8>>,
) {
    let Some(f) = parse_sig_body(sig_body) else {
        ctx.stat("fixture:sig-unparsed-by-harness");
        return;
    };
    let Some(sig) = parse_sig_packet(&packet5(2, sig_body)) else {
        ctx.stat("fixture:sig-unparsed-by-rpgp");
        return;
    };
    let site_file = format!("fixture {file}");
    let class = rfc_class(f.typ);
    match (class, comp) {
        (Some(Class::Direct), _) => {
            let rv = RecVerifier::new(primary, true);
            let r = guarded(|| sig.verify_key(&rv));
            let seen = rv.take();
            let subject = Subject::Direct(wprimary.clone());
            if let Some(d) = hash_with(f.hash, &rfc_preimage(&f, &subject)) {
                rfc_digests.push(d);
            }
            settle(
                ctx,
                Obs {
                    path: "verKey",
                    site: &format!("Signature::verify_key ({site_file})"),
                    extra: format!("k1={}", key_arg(primary)),
                    sv: kver(primary),
                    fields: f,
                    subject,
                    alts: vec![], alt_extra: vec![], oracle_note: String::new(),
                    digest: seen.first().cloned(),
                    pats: &[],
                    lib_ok: matches!(r, Ok(Ok(()))),
                    lib_err: format!("{r:?}"),
                },
            );
        }
        (Some(Class::Cert), Comp::Uid(u, raw)) => {
            let rv = RecVerifier::new(primary, true);
            let r = guarded(|| sig.verify_certification(&rv, Tag::UserId, u));
            let seen = rv.take();
            let subject = Subject::Cert(wprimary.clone(), false, raw.clone());
            if let Some(d) = hash_with(f.hash, &rfc_preimage(&f, &subject)) {
                rfc_digests.push(d);
            }
            settle(
                ctx,
                Obs {
                    path: "verCert",
                    site: &format!("Signature::verify_certification ({site_file})"),
                    extra: format!("k1={} tag=13 id={}", key_arg(primary), ser_arg(u, &[])),
                    sv: kver(primary),
                    fields: f,
                    subject,
                    alts: vec![], alt_extra: vec![], oracle_note: String::new(),
                    digest: seen.first().cloned(),
                    pats: &[],
                    lib_ok: matches!(r, Ok(Ok(()))),
                    lib_err: format!("{r:?}"),
                },
            );
        }
        (Some(Class::Cert), Comp::Attr(a, raw)) => {
            let rv = RecVerifier::new(primary, true);
            let r = guarded(|| sig.verify_certification(&rv, Tag::UserAttribute, a));
            let seen = rv.take();
            let subject = Subject::Cert(wprimary.clone(), true, raw.clone());
            if let Some(d) = hash_with(f.hash, &rfc_preimage(&f, &subject)) {
                rfc_digests.push(d);
            }
            settle(
                ctx,
                Obs {
                    path: "verCert",
                    site: &format!("Signature::verify_certification ({site_file})"),
                    extra: format!("k1={} tag=17 id={}", key_arg(primary), ser_arg(a, &[])),
                    sv: kver(primary),
                    fields: f,
                    subject,
                    alts: vec![], alt_extra: vec![], oracle_note: String::new(),
                    digest: seen.first().cloned(),
                    pats: &[],
                    lib_ok: matches!(r, Ok(Ok(()))),
                    lib_err: format!("{r:?}"),
                },
            );
        }
        (Some(Class::Bind), Comp::Sub(sub, wsub)) if f.typ != 0x19 => {
            let rv = RecVerifier::new(primary, true);
            let r = guarded(|| sig.verify_subkey_binding(&rv, sub));
            let seen = rv.take();
            let subject = Subject::Bind(wprimary.clone(), wsub.clone());
            if let Some(d) = hash_with(f.hash, &rfc_preimage(&f, &subject)) {
                rfc_digests.push(d);
            }
            settle(
                ctx,
                Obs {
                    path: "verSub",
                    site: &format!("Signature::verify_subkey_binding ({site_file})"),
                    extra: format!("k1={} k2={}", key_arg(primary), key_arg(sub)),
                    sv: kver(primary),
                    fields: f.clone(),
                    subject,
                    alts: vec![], alt_extra: vec![], oracle_note: String::new(),
                    digest: seen.first().cloned(),
                    pats: &[],
                    lib_ok: matches!(r, Ok(Ok(()))),
                    lib_err: format!("{r:?}"),
                },
            );
            // embedded primary-key binding signatures (subpacket 32), hashed or unhashed area
            for area in [&f.area, &f.unhashed] {
                let Some(sps) = subpackets(area) else { continue };
                for (t, body) in sps {
                    if t & 0x7f != 32 {
                        continue;
                    }
                    let Some(bf) = parse_sig_body(&body) else { continue };
                    let Some(bsig) = parse_sig_packet(&packet5(2, &body)) else { continue };
                    let rv = RecVerifier::new(sub, true);
                    let r = guarded(|| bsig.verify_primary_key_binding(&rv, primary));
                    let seen = rv.take();
                    let subject = Subject::Bind(wprimary.clone(), wsub.clone());
                    if let Some(d) = hash_with(bf.hash, &rfc_preimage(&bf, &subject)) {
                        rfc_digests.push(d);
                    }
                    settle(
                        ctx,
                        Obs {
                            path: "verPrim",
                            site: &format!("Signature::verify_primary_key_binding ({site_file})"),
                            extra: format!("k1={} k2={}", key_arg(primary), key_arg(sub)),
                            sv: kver(sub),
                            fields: bf,
                            subject,
                            alts: vec![], alt_extra: vec![], oracle_note: String::new(),
                            digest: seen.first().cloned(),
                            pats: &[],
                            lib_ok: matches!(r, Ok(Ok(()))),
                            lib_err: format!("{r:?}"),
                        },
                    );
                }
            }
        }
        _ => ctx.stat("fixture:sig-skipped(type/position)"),
    }
}

fn run_fixture_certs(ctx: &mut Ctx) {
    let mut files = Vec::new();
    find_key_files(std::path::Path::new(&format!("{}/tests", repo_dir())), &mut files, 0);
    // the RFC 9580 vectors first (the quick tier stops after a number of files)
    files.sort_by_key(|p| (!p.display().to_string().contains("/rfc9580/"), p.clone()));
    let mut n_files = 0usize;
    let max_files = ctx.pick(90, 100_000);
    for path in files {
        let rel = path.strip_prefix(repo_dir()).map(|p| p.display().to_string()).unwrap_or_default();
        let Some(pkts) = key_file_packets(&path) else { continue };
        // certificates that need seconds per signature (8k RSA) only in the thorough tier
        if !ctx.thorough() && (rel.contains("rsa8k") || rel.contains("large_rsa")) {
            continue;
        }
        n_files += 1;
        if n_files > max_files {
            break;
        }
        ctx.stat("fixture:files");
        let mut primary: Option<(PublicKey, WKey)> = None;
        let mut comp = Comp::None;
        let mut rfc_digests: Vec<Vec<u8>> = Vec::new();
        let mut cert_bytes: Vec<u8> = Vec::new();
        let flush = |ctx: &mut Ctx, cert_bytes: &mut Vec<u8>, rfc_digests: &mut Vec<Vec<u8>>| {
            if cert_bytes.is_empty() {
                return;
            }
            // composed API over the same certificate: every digest its verifiers see must be one
            // of the RFC digests computed from the wire
            let bytes = std::mem::take(cert_bytes);
            let digests = std::mem::take(rfc_digests);
            let parsed = guarded(|| SignedPublicKey::from_bytes(&bytes[..]).ok());
            if let Ok(Some(spk)) = parsed {
                let rv = RecVerifier::new(&spk.primary_key, true);
                let _ = guarded(|| {
                    let _ = spk.details.verify_bindings(&rv);
                    for sk in &spk.public_subkeys {
                        let _ = sk.verify_bindings(&rv);
                    }
                });
                for (_, d) in rv.take() {
                    let ok = digests.iter().any(|x| *x == d);
                    ctx.oracle(
                        "composed_digest_is_rfc",
                        "SignedKeyDetails::verify_bindings / SignedPublicSubKey::verify_bindings",
                        &format!("file={rel} digest={}", hex::encode(&d)),
                        ok,
                        "digest seen by the verifying key is not the RFC digest of any signature of this certificate",
                    );
                }
            }
        };
        for (tag, body) in &pkts {
            match tag {
                5 | 6 => {
                    flush(ctx, &mut cert_bytes, &mut rfc_digests);
                    primary = None;
                    comp = Comp::None;
                    let Some(pb) = public_body(*tag, body) else {
                        ctx.stat("fixture:primary-public-part-unknown");
                        continue;
                    };
                    if let Some(Packet::PublicKey(k)) = parse_one(&packet5(6, &pb)) {
                        primary = Some((k, WKey { body: pb.clone() }));
                        cert_bytes.extend(packet5(6, &pb));
                        ctx.stat(&format!("fixture:keyver:{}", pb[0]));
                    } else {
                        ctx.stat("fixture:primary-unparsed-by-rpgp");
                    }
                }
                7 | 14 => {
                    comp = Comp::None;
                    if primary.is_none() {
                        continue;
                    }
                    let Some(pb) = public_body(*tag, body) else { continue };
                    if let Some(Packet::PublicSubkey(k)) = parse_one(&packet5(14, &pb)) {
                        comp = Comp::Sub(k, WKey { body: pb.clone() });
                        cert_bytes.extend(packet5(14, &pb));
                    }
                }
                13 => {
                    comp = Comp::None;
                    if primary.is_none() {
                        continue;
                    }
                    if let Some(Packet::UserId(u)) = parse_one(&packet5(13, body)) {
                        comp = Comp::Uid(u, body.clone());
                        cert_bytes.extend(packet5(13, body));
                    }
                }
                17 => {
                    comp = Comp::None;
                    if primary.is_none() {
                        continue;
                    }
                    if let Some(Packet::UserAttribute(a)) = parse_one(&packet5(17, body)) {
                        comp = Comp::Attr(a, body.clone());
                        cert_bytes.extend(packet5(17, body));
                    }
                }
                2 => {
                    if let Some((pk, wpk)) = &primary {
                        cert_bytes.extend(packet5(2, body));
                        fixture_sig(ctx, &rel, body, pk, wpk, &comp, &mut rfc_digests);
                    }
                }
                _ => {}
            }
        }
        flush(ctx, &mut cert_bytes, &mut rfc_digests);
    }
}

// ------------------------------------------------------------------------------------------
// signatures "made elsewhere": packets assembled by the harness, accepted by a permissive
// recording verifier — raw hashed areas, v3, every type

/// serialized signature packet body
#[allow(clippy::too_many_arguments)]
fn craft_sig_body(ver: u8, typ: u8, pk: u8, hash: u8, area: &[u8], salt: &[u8], created: u32, keyid: &[u8], left16: [u8; 2]) -> Vec<u8> {
    let mut b = vec![ver];
    match ver {
        2 | 3 => {
            b.push(5);
            b.push(typ);
            b.extend_from_slice(&created.to_be_bytes());
            b.extend_from_slice(keyid);
            b.push(pk);
            b.push(hash);
            b.extend_from_slice(&left16);
        }
        4 => {
            b.extend_from_slice(&[typ, pk, hash]);
            b.extend_from_slice(&(area.len() as u16).to_be_bytes());
            b.extend_from_slice(area);
            b.extend_from_slice(&[0, 0]);
            b.extend_from_slice(&left16);
        }
        _ => {
            b.extend_from_slice(&[typ, pk, hash]);
            b.extend_from_slice(&(area.len() as u32).to_be_bytes());
            b.extend_from_slice(area);
            b.extend_from_slice(&[0, 0, 0, 0]);
            b.extend_from_slice(&left16);
            b.push(salt.len() as u8);
            b.extend_from_slice(salt);
        }
    }
    // cryptographic part: syntactically right for the algorithm, meaningless
    match pk {
        1 | 3 => b.extend_from_slice(&[0x00, 0x10, 0xAA, 0xBB]),
        17 | 19 | 22 => b.extend_from_slice(&[0x00, 0x10, 0xAA, 0xBB, 0x00, 0x10, 0xCC, 0xDD]),
        27 => b.extend_from_slice(&[0x5a; 64]),
        28 => b.extend_from_slice(&[0x5a; 114]),
        _ => b.extend_from_slice(&[0x00, 0x10, 0xAA, 0xBB]),
    }
    b
}

/// raw hashed areas an independent implementation may legitimately emit
fn raw_areas(ctx: &mut Ctx, v6: bool) -> Vec<(Vec<u8>, Vec<(usize, usize)>)> {
    let ct = |form: u8| subpacket_raw(form, 2, &[0x65, 0x53, 0xf1, 0x00]).expect("sp");
    let mut v: Vec<(Vec<u8>, Vec<(usize, usize)>)> = vec![
        (vec![], vec![]),
        (ct(1), vec![]),
        // non-minimal length encodings of a small subpacket
        (ct(5), vec![]),
        // unknown, non-critical subpacket types; private/experimental range
        ([ct(1), subpacket_raw(1, 0x7f, b"zz").expect("sp"), subpacket_raw(1, 101, &[1, 2, 3]).expect("sp")].concat(), vec![]),
        // notation with the two-octet length form at its lower edge
        ([ct(1), subpacket_raw(2, 101, &pattern(3, 191)).expect("sp")].concat(), vec![(3, 191)]),
        // preferred-algorithm lists, key flags with trailing zero octets (kept verbatim?)
        ([ct(1), subpacket_raw(1, 27, &[0x03, 0x00, 0x00]).expect("sp"), subpacket_raw(1, 11, &[9, 8, 7]).expect("sp")].concat(), vec![]),
    ];
    // up to the v4 limit, and beyond it for v6
    let big = |n: usize, seed: usize| -> (Vec<u8>, Vec<(usize, usize)>) {
        // ct(1) is 6 octets; a five-octet-length subpacket has 6 octets of overhead
        let body = n - 6 - 6;
        ([ct(1), subpacket_raw(5, 101, &pattern(seed, body)).expect("sp")].concat(), vec![(seed, body)])
    };
    v.push(big(65535, 21));
    if v6 {
        v.push(big(65536, 22));
        v.push(big(ctx.pick(70000, 200_000), 23));
    }
    if ctx.thorough() {
        v.push(big(16320 + 12, 24));
        v.push(big(65534, 25));
    }
    v
}

fn run_crafted(ctx: &mut Ctx, keys: &[TestKey]) {
    let v4 = keys.iter().find(|k| kver(&k.spk.primary_key) == 4 && !k.spk.public_subkeys.is_empty());
    let v6 = keys.iter().find(|k| kver(&k.spk.primary_key) == 6 && !k.spk.public_subkeys.is_empty());
    let uid_raw = b"Bob Babbage <bob@openpgp.example>".to_vec();
    let Some(Packet::UserId(uid)) = parse_one(&packet5(13, &uid_raw)) else { return };
    let attr_raw = subpacket_raw(5, 0x66, &pattern(2, 40)).expect("sp");
    let Some(Packet::UserAttribute(attr)) = parse_one(&packet5(17, &attr_raw)) else { return };
    for (k, sigver) in [(v4, 4u8), (v6, 6), (v4, 3)] {
        let Some(k) = k else { continue };
        let primary = &k.spk.primary_key;
        let sub = &k.spk.public_subkeys[0].key;
        let wp = wire_key(primary);
        let ws = wire_key(sub);
        let keyid = primary.legacy_key_id();
        let sub_keyid = sub.legacy_key_id();
        let areas = if sigver == 3 { vec![(vec![], vec![])] } else { raw_areas(ctx, sigver == 6) };
        let hashes: &[u8] = if sigver == 3 { &[1, 2, 3, 8] } else if sigver == 4 { &[2, 3, 8, 10, 12] } else { &[8, 9, 10, 11, 12, 14] };
        let mut count = 0usize;
        for (ai, (area, ap)) in areas.iter().enumerate() {
            for typ in [0x00u8, 0x01, 0x10, 0x11, 0x12, 0x13, 0x18, 0x19, 0x1F, 0x20, 0x28, 0x30] {
                count += 1;
                let h = hashes[count % hashes.len()];
                if !ctx.thorough() && area.len() > 60000 && !matches!(typ, 0x00 | 0x13 | 0x18 | 0x1F) {
                    continue;
                }
                let salt: Vec<u8> = if sigver == 6 { crate::gen::random_bytes(&mut ctx.rng, rfc_salt_size(h).unwrap_or(16)) } else { vec![] };
                let created = 0x3b9a_ca00u32 + count as u32;
                let doc: Vec<u8> = if count % 2 == 0 { b"crafted\ndoc\r\n".to_vec() } else { pattern(60 + ai, 700) };
                let attr_turn = count % 3 == 0;
                let subject = match rfc_class(typ) {
                    Some(Class::Doc) => Subject::Doc(doc.clone()),
                    Some(Class::Direct) => Subject::Direct(wp.clone()),
                    Some(Class::Cert) => {
                        if attr_turn {
                            Subject::Cert(wp.clone(), true, attr_raw.clone())
                        } else {
                            Subject::Cert(wp.clone(), false, uid_raw.clone())
                        }
                    }
                    _ => Subject::Bind(wp.clone(), ws.clone()),
                };
                let mut f = SigFields { ver: sigver, typ, pk: 1, hash: h, area: area.clone(), unhashed: vec![], salt: salt.clone(), created, left16: [0, 0] };
                if sigver == 3 {
                    f.created = created;
                } else {
                    f.created = 0;
                }
                let p = rfc_preimage(&f, &subject);
                let Some(d) = hash_with(h, &p) else { continue };
                f.left16 = [d[0], d[1]];
                let kid: &[u8] = if typ == 0x19 { sub_keyid.as_ref() } else { keyid.as_ref() };
                let body = craft_sig_body(sigver, typ, 1, h, area, &salt, created, kid, f.left16);
                let Some(sig) = parse_sig_packet(&packet5(2, &body)) else {
                    ctx.stat(&format!("crafted:unparsed-by-rpgp:v{sigver}"));
                    continue;
                };
                let mut all_pats = ap.clone();
                all_pats.push((60 + ai, 700));
                let (path, site, extra, sv, seen, r): (&str, &str, String, u8, Vec<(u8, Vec<u8>)>, String) = match rfc_class(typ) {
                    Some(Class::Doc) => {
                        let rv = RecVerifier::new(primary, false);
                        let r = guarded(|| sig.verify(&rv, &doc[..]));
                        ("verData", "Signature::verify (crafted packet)", format!("data={}", bx(&doc, &all_pats)), kver(primary), rv.take(), format!("{r:?}"))
                    }
                    Some(Class::Direct) => {
                        let rv = RecVerifier::new(primary, false);
                        let r = guarded(|| sig.verify_key(&rv));
                        ("verKey", "Signature::verify_key (crafted packet)", format!("k1={}", key_arg(primary)), kver(primary), rv.take(), format!("{r:?}"))
                    }
                    Some(Class::Cert) => {
                        let rv = RecVerifier::new(primary, false);
                        if attr_turn {
                            let r = guarded(|| sig.verify_certification(&rv, Tag::UserAttribute, &attr));
                            (
                                "verCert",
                                "Signature::verify_certification (crafted packet)",
                                format!("k1={} tag=17 id={}", key_arg(primary), ser_arg(&attr, &[])),
                                kver(primary),
                                rv.take(),
                                format!("{r:?}"),
                            )
                        } else {
                            let r = guarded(|| sig.verify_certification(&rv, Tag::UserId, &uid));
                            (
                                "verCert",
                                "Signature::verify_certification (crafted packet)",
                                format!("k1={} tag=13 id={}", key_arg(primary), ser_arg(&uid, &[])),
                                kver(primary),
                                rv.take(),
                                format!("{r:?}"),
                            )
                        }
                    }
                    _ if typ == 0x19 => {
                        let rv = RecVerifier::new(sub, false);
                        let r = guarded(|| sig.verify_primary_key_binding(&rv, primary));
                        (
                            "verPrim",
                            "Signature::verify_primary_key_binding (crafted packet)",
                            format!("k1={} k2={}", key_arg(primary), key_arg(sub)),
                            kver(sub),
                            rv.take(),
                            format!("{r:?}"),
                        )
                    }
                    _ => {
                        let rv = RecVerifier::new(primary, false);
                        let r = guarded(|| sig.verify_subkey_binding(&rv, sub));
                        (
                            "verSub",
                            "Signature::verify_subkey_binding (crafted packet)",
                            format!("k1={} k2={}", key_arg(primary), key_arg(sub)),
                            kver(primary),
                            rv.take(),
                            format!("{r:?}"),
                        )
                    }
                };
                let lib_ok = r.starts_with("Ok(Ok(");
                // the wire is what the harness wrote: `f`
                settle(
                    ctx,
                    Obs { path, site, extra, sv, fields: f, subject, alts: vec![], alt_extra: vec![], oracle_note: String::new(), digest: seen.first().cloned(), pats: &all_pats, lib_ok, lib_err: r },
                );
            }
        }
    }
}

// ------------------------------------------------------------------------------------------
// inline signatures assembled by the harness: one-pass and prefixed, v3 / v4 / v6

fn literal_packet(data: &[u8], partial: bool) -> Vec<u8> {
    let mut body = vec![b'b', 0, 0, 0, 0, 0];
    body.extend_from_slice(data);
    if partial && body.len() > 1024 {
        // 512 + 512 + rest
        crate::frame::frame_partial(11, &[9, 9], &body).unwrap_or_else(|| packet5(11, &body))
    } else {
        packet5(11, &body)
    }
}

fn run_crafted_inline(ctx: &mut Ctx, keys: &[TestKey]) {
    let v4 = keys.iter().find(|k| kver(&k.spk.primary_key) == 4);
    let v6 = keys.iter().find(|k| kver(&k.spk.primary_key) == 6);
    let docs: Vec<(Vec<u8>, Vec<(usize, usize)>)> = vec![
        (b"".to_vec(), vec![]),
        (b"inline\n".to_vec(), vec![]),
        (b"a\rb\r\nc\n\r".to_vec(), vec![]),
        (pattern(90, 8191), vec![(90, 8191)]),
        (pattern(91, 8192), vec![(91, 8192)]),
        (pattern(92, 30000), vec![(92, 30000)]),
    ];
    let mut count = 0usize;
    for (k, sigver) in [(v4, 4u8), (v6, 6), (v4, 3)] {
        let Some(k) = k else { continue };
        let primary = &k.spk.primary_key;
        let keyid = primary.legacy_key_id();
        let fp = primary.fingerprint();
        for (doc, dp) in &docs {
            // every type octet of the property's list goes through the inline path as well: a
            // digest may only be handed to the primitive for the document types
            for typ in [0x00u8, 0x01, 0x10, 0x13, 0x18, 0x19, 0x1F, 0x20, 0x28, 0x30] {
                for ops in [true, false] {
                    if sigver == 3 && ops {
                        continue; // a one-pass packet announces a v4 or v6 signature
                    }
                    count += 1;
                    if typ > 1 && !(doc.len() == 7) {
                        continue;
                    }
                    if !ctx.thorough() && doc.len() > 8191 && count % 2 == 0 {
                        continue;
                    }
                    let hs: &[u8] = if sigver == 6 { &HASHES_V6 } else { &[2, 8, 10, 12] };
                    let h = hs[count % hs.len()];
                    let salt: Vec<u8> = if sigver == 6 { crate::gen::random_bytes(&mut ctx.rng, rfc_salt_size(h).unwrap_or(16)) } else { vec![] };
                    let area = if sigver == 3 { vec![] } else { subpacket_raw(if count % 2 == 0 { 1 } else { 5 }, 2, &[0x65, 0x53, 0xf1, 0x00]).expect("sp") };
                    let created = 0x4000_0000u32 + count as u32;
                    let mut f = SigFields { ver: sigver, typ, pk: 1, hash: h, area: area.clone(), unhashed: vec![], salt: salt.clone(), created: if sigver == 3 { created } else { 0 }, left16: [0, 0] };
                    let subject = Subject::Doc(doc.clone());
                    let p = rfc_preimage(&f, &subject);
                    let Some(d) = hash_with(h, &p) else { continue };
                    f.left16 = [d[0], d[1]];
                    let sig_pkt = packet5(2, &craft_sig_body(sigver, typ, 1, h, &area, &salt, created, keyid.as_ref(), f.left16));
                    let lit = literal_packet(doc, count % 3 == 0);
                    let mut msg = Vec::new();
                    if ops {
                        let mut o = vec![if sigver == 6 { 6 } else { 3 }, typ, h, 1];
                        if sigver == 6 {
                            o.push(salt.len() as u8);
                            o.extend_from_slice(&salt);
                            o.extend_from_slice(fp.as_bytes());
                        } else {
                            o.extend_from_slice(keyid.as_ref());
                        }
                        o.push(1);
                        msg.extend(packet5(4, &o));
                        msg.extend(&lit);
                        msg.extend(&sig_pkt);
                    } else {
                        msg.extend(&sig_pkt);
                        msg.extend(&lit);
                    }
                    let rv = RecVerifier::new(primary, false);
                    let r = guarded(|| -> Result<(), String> {
                        let mut m = Message::from_bytes(&msg[..]).map_err(|e| e.to_string())?;
                        let got = m.as_data_vec().map_err(|e| e.to_string())?;
                        if got != *doc {
                            return Err("literal data differs".into());
                        }
                        m.verify(&rv).map(|_| ()).map_err(|e| e.to_string())
                    });
                    let seen = rv.take();
                    ctx.stat(if ops { "inline:one-pass" } else { "inline:prefixed" });
                    settle(
                        ctx,
                        Obs {
                            path: "verInline",
                            site: if ops { "Message::verify (one-pass, crafted)" } else { "Message::verify (signature-prefixed, crafted)" },
                            extra: format!("data={}", bx(doc, dp)),
                            sv: kver(primary),
                            fields: f,
                            subject,
                            alts: vec![], alt_extra: vec![], oracle_note: String::new(),
                            digest: seen.first().cloned(),
                            pats: dp,
                            lib_ok: matches!(r, Ok(Ok(()))),
                            lib_err: format!("{r:?}"),
                        },
                    );
                }
            }
        }
    }
}

// ------------------------------------------------------------------------------------------
// type / salt guards on the signing side: a digest may only be produced for a signature whose
// type belongs to the subject the routine hashes, and (v6) with a salt of the tabulated size

fn run_guards(ctx: &mut Ctx, keys: &[TestKey]) {
    let all_types: [u8; 12] = [0x00, 0x01, 0x10, 0x11, 0x12, 0x13, 0x18, 0x19, 0x1F, 0x20, 0x28, 0x30];
    let Some(Packet::UserId(uid)) = parse_one(&packet5(13, b"guard")) else { return };
    for k in keys.iter().filter(|k| !k.ssk.secret_subkeys.is_empty()).take(ctx.pick(2, 6)) {
        let sk = &k.ssk.primary_key;
        let ppub = &k.spk.primary_key;
        let sub_sk = &k.ssk.secret_subkeys[0].key;
        let sub_pub = sub_sk.public_key();
        let h = hashes_for(kver(sk))[1];
        for &t in &all_types {
            let typ = SignatureType::from(t);
            for routine in 0..5usize {
                let mut cfg_rng = ChaCha8Rng::seed_from_u64(ctx.rng.gen());
                let signer_is_sub = routine == 3;
                let cfg = if signer_is_sub { mk_config(&mut cfg_rng, sub_sk, typ, h) } else { mk_config(&mut cfg_rng, sk, typ, h) };
                let Some(mut config) = cfg else { continue };
                config.hashed_subpackets = fixed_subpackets(sk, 1_700_000_900);
                let rec = RecSigner::new(sk);
                let rec_sub = RecSigner::new(sub_sk);
                let (path, site, extra, subject, res): (&str, &str, String, Subject, _) = match routine {
                    0 => (
                        "signData",
                        "SignatureConfig::sign",
                        "data=6775617264".to_string(),
                        Subject::Doc(b"guard".to_vec()),
                        guarded(|| config.clone().sign(&rec, &Password::empty(), &b"guard"[..])),
                    ),
                    1 => (
                        "signCert",
                        "SignatureConfig::sign_certification",
                        format!("k1={} tag=13 id={}", key_arg(ppub), ser_arg(&uid, &[])),
                        Subject::Cert(wire_key(ppub), false, b"guard".to_vec()),
                        guarded(|| config.clone().sign_certification(&rec, ppub, &Password::empty(), Tag::UserId, &uid)),
                    ),
                    2 => (
                        "signSub",
                        "SignatureConfig::sign_subkey_binding",
                        format!("k1={} k2={}", key_arg(ppub), key_arg(sub_pub)),
                        Subject::Bind(wire_key(ppub), wire_key(sub_pub)),
                        guarded(|| config.clone().sign_subkey_binding(&rec, ppub, &Password::empty(), sub_pub)),
                    ),
                    3 => (
                        "signPrim",
                        "SignatureConfig::sign_primary_key_binding",
                        format!("k1={} k2={}", key_arg(ppub), key_arg(sub_pub)),
                        Subject::Bind(wire_key(ppub), wire_key(sub_pub)),
                        guarded(|| config.clone().sign_primary_key_binding(&rec_sub, sub_pub, &Password::empty(), ppub)),
                    ),
                    _ => (
                        "signKey",
                        "SignatureConfig::sign_key",
                        format!("k1={}", key_arg(ppub)),
                        Subject::Direct(wire_key(ppub)),
                        guarded(|| config.clone().sign_key(&rec, &Password::empty(), ppub)),
                    ),
                };
                let mut seen = rec.take();
                seen.extend(rec_sub.take());
                let fields = match &res {
                    Ok(Ok(sig)) => wire_fields(sig),
                    _ => None,
                };
                let (lib_ok, lib_err) = match &res {
                    Ok(Ok(_)) => (true, String::new()),
                    Ok(Err(e)) => (false, e.to_string()),
                    Err(p) => (false, format!("panic {p}")),
                };
                let fields = fields.unwrap_or_else(|| {
                    let salt = match &config.version_specific {
                        pgp::packet::SignatureVersionSpecific::V6 { salt } => salt.clone(),
                        _ => vec![],
                    };
                    SigFields {
                        ver: kver(sk),
                        typ: t,
                        pk: if signer_is_sub { sub_sk.algorithm().into() } else { sk.algorithm().into() },
                        hash: h,
                        area: config.hashed_subpackets.iter().flat_map(|s| wire_body(s)).collect(),
                        unhashed: vec![],
                        salt,
                        created: 0,
                        left16: [0, 0],
                    }
                });
                ctx.stat(&format!("guard:{}:{}", path, if seen.is_empty() { "refused" } else { "digest" }));
                settle(
                    ctx,
                    Obs {
                        path,
                        site,
                        extra,
                        sv: if signer_is_sub { kver(sub_sk) } else { kver(sk) },
                        fields,
                        subject,
                        alts: vec![], alt_extra: vec![], oracle_note: String::new(),
                        digest: seen.first().cloned(),
                        pats: &[],
                        lib_ok,
                        lib_err,
                    },
                );
            }
        }
    }
    // v6 salt of a size other than the tabulated one, given through the public constructor
    for k in keys.iter().filter(|k| kver(&k.ssk.primary_key) == 6).take(ctx.pick(1, 3)) {
        let sk = &k.ssk.primary_key;
        let ppub = &k.spk.primary_key;
        for (h, n) in [(8u8, 0usize), (8, 15), (8, 17), (8, 32), (10, 16), (10, 31), (9, 16), (14, 64)] {
            for routine in 0..2usize {
                let typ = if routine == 0 { SignatureType::Binary } else { SignatureType::Key };
                let salt = pattern(n, n);
                let mut config = SignatureConfig::v6_with_salt(typ, sk.algorithm(), hash_of(h), salt.clone());
                config.hashed_subpackets = fixed_subpackets(sk, 1_700_000_950);
                let rec = RecSigner::new(sk);
                let res = if routine == 0 {
                    guarded(|| config.clone().sign(&rec, &Password::empty(), &b"salt"[..]))
                } else {
                    guarded(|| config.clone().sign_key(&rec, &Password::empty(), ppub))
                };
                let seen = rec.take();
                let (lib_ok, lib_err) = match &res {
                    Ok(Ok(_)) => (true, String::new()),
                    Ok(Err(e)) => (false, e.to_string()),
                    Err(p) => (false, format!("panic {p}")),
                };
                let fields = match &res {
                    Ok(Ok(sig)) => wire_fields(sig),
                    _ => None,
                }
                .unwrap_or(SigFields {
                    ver: 6,
                    typ: typ.into(),
                    pk: sk.algorithm().into(),
                    hash: h,
                    area: config.hashed_subpackets.iter().flat_map(|s| wire_body(s)).collect(),
                    unhashed: vec![],
                    salt,
                    created: 0,
                    left16: [0, 0],
                });
                ctx.stat(&format!("guard:salt:{}", if seen.is_empty() { "refused" } else { "digest" }));
                let (path, site, extra, subject) = if routine == 0 {
                    ("signData", "SignatureConfig::v6_with_salt + sign", "data=73616c74".to_string(), Subject::Doc(b"salt".to_vec()))
                } else {
                    ("signKey", "SignatureConfig::v6_with_salt + sign_key", format!("k1={}", key_arg(ppub)), Subject::Direct(wire_key(ppub)))
                };
                settle(ctx, Obs { path, site, extra, sv: 6, fields, subject, alts: vec![], alt_extra: vec![], oracle_note: String::new(), digest: seen.first().cloned(), pats: &[], lib_ok, lib_err });
            }
            // verifying side: a Signature::v6 value (not parsed, so the parser's check is not in
            // the way) with that salt, through the key-signature verifier
            {
                let salt = pattern(n, n);
                let mut f = SigFields { ver: 6, typ: 0x1F, pk: 1, hash: h, area: vec![], unhashed: vec![], salt: salt.clone(), created: 0, left16: [0, 0] };
                let subject = Subject::Direct(wire_key(ppub));
                let Some(d) = hash_with(h, &rfc_preimage(&f, &subject)) else { continue };
                f.left16 = [d[0], d[1]];
                let sig = Signature::v6(
                    pgp::packet::PacketHeader::new_fixed(Tag::Signature, 0),
                    SignatureType::Key,
                    PublicKeyAlgorithm::RSA,
                    hash_of(h),
                    f.left16,
                    dummy_signature(1),
                    vec![],
                    vec![],
                    salt,
                );
                let rv = RecVerifier::new(ppub, false);
                let r = guarded(|| sig.verify_key(&rv));
                let seen = rv.take();
                ctx.stat(&format!("guard:salt-verify:{}", if seen.is_empty() { "refused" } else { "digest" }));
                settle(
                    ctx,
                    Obs {
                        path: "verKey",
                        site: "Signature::v6 value + verify_key (salt as accepted by v6_with_salt)",
                        extra: format!("k1={}", key_arg(ppub)),
                        sv: 6,
                        fields: f,
                        subject,
                        alts: vec![], alt_extra: vec![], oracle_note: String::new(),
                        digest: seen.first().cloned(),
                        pats: &[],
                        lib_ok: matches!(r, Ok(Ok(()))),
                        lib_err: format!("{r:?}"),
                    },
                );
            }
        }
    }
}


// ------------------------------------------------------------------------------------------
// cleartext-signed fixtures (RFC 9580 test vectors under tests/rfc9580): text and signature are
// cut out of the file by the harness (RFC 9580 §7), the library verifies with a recording key

/// (signed text per RFC 9580 §7.2: dash-unescaped, trailing blanks removed, lines joined with
/// CR LF, no final line ending; binary signature packets)
fn csf_parts(text: &str) -> Option<(Vec<u8>, Vec<u8>)> {
    let mut lines = text.split('\n').map(|l| l.strip_suffix('\r').unwrap_or(l));
    if lines.next()?.trim_end() != "-----BEGIN PGP SIGNED MESSAGE-----" {
        return None;
    }
    for l in lines.by_ref() {
        if l.trim().is_empty() {
            break;
        }
    }
    let mut body: Vec<String> = Vec::new();
    let mut rest = String::new();
    let mut in_sig = false;
    for l in lines {
        if !in_sig && l.starts_with("-----BEGIN PGP SIGNATURE-----") {
            in_sig = true;
        }
        if in_sig {
            rest.push_str(l);
            rest.push('\n');
        } else {
            let l = l.strip_prefix("- ").unwrap_or(l);
            body.push(l.trim_end_matches([' ', '\t']).to_string());
        }
    }
    let sig = dearmor_first(rest.as_bytes())?;
    Some((body.join("\r\n").into_bytes(), sig))
}

fn run_fixture_csf(ctx: &mut Ctx) {
    let base = format!("{}/tests/rfc9580", repo_dir());
    let Ok(rd) = std::fs::read_dir(&base) else { return };
    let mut dirs: Vec<_> = rd.filter_map(|e| e.ok()).map(|e| e.path()).filter(|p| p.is_dir()).collect();
    dirs.sort();
    for d in dirs {
        let Ok(text) = std::fs::read_to_string(d.join("csf.msg")) else { continue };
        let Ok(f) = std::fs::File::open(d.join("tsk.asc")) else { continue };
        let Ok((ssk, _)) = SignedSecretKey::from_armor_single(f) else { continue };
        let spk: SignedPublicKey = ssk.into();
        let Some((signed, sigbin)) = csf_parts(&text) else {
            ctx.stat("csf-fixture:harness-parse-failed");
            continue;
        };
        let Some(pkts) = split_packets(&sigbin) else { continue };
        let Ok((csm, _)) = CleartextSignedMessage::from_string(&text) else {
            ctx.stat("csf-fixture:rpgp-parse-failed");
            continue;
        };
        let rel = d.strip_prefix(repo_dir()).map(|p| p.display().to_string()).unwrap_or_default();
        for (tag, body) in pkts {
            if tag != 2 {
                continue;
            }
            let Some(fl) = parse_sig_body(&body) else { continue };
            // try the primary, then each subkey, until one of them is handed a digest
            let mut sv = kver(&spk.primary_key);
            let (mut seen, mut lib) = {
                let rv = RecVerifier::new(&spk.primary_key, true);
                let r = guarded(|| csm.verify(&rv).map(|_| ()));
                (rv.take(), format!("{r:?}"))
            };
            if seen.is_empty() {
                for sk in &spk.public_subkeys {
                    let rv = RecVerifier::new(&sk.key, true);
                    let r = guarded(|| csm.verify(&rv).map(|_| ()));
                    let s = rv.take();
                    if !s.is_empty() {
                        seen = s;
                        sv = kver(&sk.key);
                        lib = format!("{r:?}");
                        break;
                    }
                }
            }
            ctx.stat("csf-fixture:signatures");
            let code_text = csm.signed_text();
            settle(
                ctx,
                Obs {
                    path: "verData",
                    site: &format!("CleartextSignedMessage::verify (fixture {rel}/csf.msg)"),
                    extra: format!("data={}", bx(code_text.as_bytes(), &[])),
                    sv,
                    fields: fl,
                    subject: Subject::Doc(signed.clone()),
                    alts: vec![Subject::Doc(code_text.as_bytes().to_vec())],
                    alt_extra: vec![], oracle_note: String::new(),
                    digest: seen.first().cloned(),
                    pats: &[],
                    lib_ok: lib.starts_with("Ok(Ok("),
                    lib_err: lib,
                },
            );
        }
    }
}


// ------------------------------------------------------------------------------------------
// randomized sweep: routine x key x hash x hashed-subpacket set x subject

/// a random hashed-subpacket set built through the library's own subpacket types (the signing
/// side serializes them twice: once into the hash, once into the packet)
fn random_subpackets(ctx: &mut Ctx, key: &impl KeyDetails) -> (Vec<Subpacket>, Vec<(usize, usize)>) {
    let mut v = Vec::new();
    let mut pats = Vec::new();
    let n = ctx.rng.gen_range(0..7usize);
    for _ in 0..n {
        let secs: u32 = ctx.rng.gen();
        let seed = ctx.rng.gen_range(0..200usize);
        let data = match ctx.rng.gen_range(0..16) {
            0 => SubpacketData::SignatureCreationTime(Timestamp::from_secs(secs)),
            1 => SubpacketData::IssuerFingerprint(key.fingerprint()),
            2 => {
                let vlen = [0usize, 1, 150, 186, 187, 188, 300, 5000][ctx.rng.gen_range(0..8)];
                pats.push((seed, vlen));
                SubpacketData::Notation(Notation { readable: ctx.rng.gen(), name: b"k@example.org".to_vec().into(), value: pattern(seed, vlen).into() })
            }
            3 => SubpacketData::PolicyURI("https://example.org/policy".to_string()),
            4 => SubpacketData::TrustSignature(ctx.rng.gen(), ctx.rng.gen()),
            5 => SubpacketData::RegularExpression(b"<[^>]+[@.]example\\.org>$\0".to_vec().into()),
            6 => SubpacketData::ExportableCertification(ctx.rng.gen()),
            7 => SubpacketData::IsPrimary(ctx.rng.gen()),
            8 => SubpacketData::Revocable(ctx.rng.gen()),
            9 => SubpacketData::SignersUserID(b"signer@example.org".to_vec().into()),
            10 => SubpacketData::PreferredKeyServer("hkps://keys.example.org".to_string()),
            11 => SubpacketData::KeyServerPreferences(smallvec::smallvec![0x80]),
            12 => SubpacketData::PreferredHashAlgorithms(smallvec::smallvec![HashAlgorithm::Sha512, HashAlgorithm::Sha256]),
            13 => SubpacketData::Experimental(101 + (seed % 10) as u8, pattern(seed, seed % 40).into()),
            14 => {
                // key flags built through the setters, second-octet flags included
                let mut f = pgp::packet::KeyFlags::default();
                let bits: u8 = ctx.rng.gen();
                f.set_certify(bits & 1 != 0);
                f.set_sign(bits & 2 != 0);
                f.set_encrypt_comms(bits & 4 != 0);
                f.set_authentication(bits & 8 != 0);
                f.set_adsk(bits & 16 != 0);
                f.set_timestamping(bits & 32 != 0);
                SubpacketData::KeyFlags(f)
            }
            _ => {
                let mut f = pgp::packet::Features::default();
                let bits: u8 = ctx.rng.gen();
                f.set_seipd_v1(bits & 1 != 0);
                f.set_seipd_v2(bits & 2 != 0);
                SubpacketData::Features(f)
            }
        };
        let sp = if ctx.rng.gen_range(0..5) == 0 && !matches!(data, SubpacketData::Experimental(..)) {
            Subpacket::critical(data)
        } else {
            Subpacket::regular(data)
        };
        if let Ok(sp) = sp {
            v.push(sp);
        }
    }
    (v, pats)
}

fn run_random(ctx: &mut Ctx, keys: &[TestKey]) {
    let with_sub: Vec<&TestKey> = keys.iter().filter(|k| !k.ssk.secret_subkeys.is_empty()).collect();
    if with_sub.is_empty() {
        return;
    }
    let n = ctx.pick(250, 6000);
    for it in 0..n {
        let k = with_sub[ctx.rng.gen_range(0..with_sub.len())];
        let other = &keys[ctx.rng.gen_range(0..keys.len())].spk.primary_key;
        let sk = &k.ssk.primary_key;
        let ppub = &k.spk.primary_key;
        let sub_sk = &k.ssk.secret_subkeys[0].key;
        let sub_pub = sub_sk.public_key();
        let hs = hashes_for(kver(sk));
        let h = hs[ctx.rng.gen_range(0..hs.len())];
        let (hashed, pats) = random_subpackets(ctx, sk);
        let routine = it % 5;
        let typ = match routine {
            0 => [SignatureType::Binary, SignatureType::Text][ctx.rng.gen_range(0..2)],
            1 => CERT_TYPES[ctx.rng.gen_range(0..5)],
            2 => [SignatureType::SubkeyBinding, SignatureType::SubkeyRevocation][ctx.rng.gen_range(0..2)],
            3 => SignatureType::KeyBinding,
            _ => [SignatureType::Key, SignatureType::KeyRevocation][ctx.rng.gen_range(0..2)],
        };
        let mut cfg_rng = ChaCha8Rng::seed_from_u64(ctx.rng.gen());
        let cfg = if routine == 3 { mk_config(&mut cfg_rng, sub_sk, typ, h) } else { mk_config(&mut cfg_rng, sk, typ, h) };
        let Some(mut config) = cfg else { continue };
        config.hashed_subpackets = hashed;
        let rec = RecSigner::new(sk);
        let rec_sub = RecSigner::new(sub_sk);
        let dlen = [0usize, 1, 17, 511, 512, 513, 4000][ctx.rng.gen_range(0..7)];
        let doc = crate::gen::random_text(&mut ctx.rng, dlen, b"ab \r\n\n\rz");
        let ulen = [0usize, 1, 40, 255, 256, 1000][ctx.rng.gen_range(0..6)];
        let uid_raw = crate::gen::random_bytes(&mut ctx.rng, ulen);
        let Some(Packet::UserId(uid)) = parse_one(&packet5(13, &uid_raw)) else { continue };
        let signee = if ctx.rng.gen() { ppub } else { other };
        let (path, vpath, site, extra, subject, res): (&str, &str, &str, String, Subject, _) = match routine {
            0 => (
                "signData",
                "verData",
                "SignatureConfig::sign (random)",
                format!("data={}", bx(&doc, &[])),
                Subject::Doc(doc.clone()),
                guarded(|| config.clone().sign(&rec, &Password::empty(), &doc[..])),
            ),
            1 => (
                "signCert",
                "verCert",
                "SignatureConfig::sign_certification_third_party (random)",
                format!("k1={} tag=13 id={}", key_arg(signee), ser_arg(&uid, &[])),
                Subject::Cert(wire_key(signee), false, uid_raw.clone()),
                guarded(|| config.clone().sign_certification_third_party(&rec, &Password::empty(), signee, Tag::UserId, &uid)),
            ),
            2 => (
                "signSub",
                "verSub",
                "SignatureConfig::sign_subkey_binding (random)",
                format!("k1={} k2={}", key_arg(ppub), key_arg(sub_pub)),
                Subject::Bind(wire_key(ppub), wire_key(sub_pub)),
                guarded(|| config.clone().sign_subkey_binding(&rec, ppub, &Password::empty(), sub_pub)),
            ),
            3 => (
                "signPrim",
                "verPrim",
                "SignatureConfig::sign_primary_key_binding (random)",
                format!("k1={} k2={}", key_arg(ppub), key_arg(sub_pub)),
                Subject::Bind(wire_key(ppub), wire_key(sub_pub)),
                guarded(|| config.clone().sign_primary_key_binding(&rec_sub, sub_pub, &Password::empty(), ppub)),
            ),
            _ => (
                "signKey",
                "verKey",
                "SignatureConfig::sign_key (random)",
                format!("k1={}", key_arg(signee)),
                Subject::Direct(wire_key(signee)),
                guarded(|| config.clone().sign_key(&rec, &Password::empty(), signee)),
            ),
        };
        let mut seen = rec.take();
        seen.extend(rec_sub.take());
        let Ok(Ok(sig)) = res else {
            ctx.stat("random:sign-error");
            continue;
        };
        let Some(f) = wire_fields(&sig) else { continue };
        let sv = if routine == 3 { kver(sub_sk) } else { kver(sk) };
        settle(
            ctx,
            Obs {
                path,
                site,
                extra: extra.clone(),
                sv,
                fields: f.clone(),
                subject: subject.clone(),
                alts: vec![], alt_extra: vec![], oracle_note: String::new(),
                digest: seen.first().cloned(),
                pats: &pats,
                lib_ok: true,
                lib_err: String::new(),
            },
        );
        // and back through the parser and the matching verifier
        let Some(sig2) = reparse_sig(&sig) else {
            ctx.stat("random:reparse-failed");
            continue;
        };
        let (vseen, r, vsv): (Vec<(u8, Vec<u8>)>, String, u8) = match routine {
            0 => {
                let rv = RecVerifier::new(ppub, true);
                let r = guarded(|| sig2.verify(&rv, &doc[..]));
                (rv.take(), format!("{r:?}"), kver(ppub))
            }
            1 => {
                let rv = RecVerifier::new(ppub, true);
                let r = guarded(|| sig2.verify_third_party_certification(signee, &rv, Tag::UserId, &uid));
                (rv.take(), format!("{r:?}"), kver(ppub))
            }
            2 => {
                let rv = RecVerifier::new(ppub, true);
                let r = guarded(|| sig2.verify_subkey_binding(&rv, sub_pub));
                (rv.take(), format!("{r:?}"), kver(ppub))
            }
            3 => {
                let rv = RecVerifier::new(sub_pub, true);
                let r = guarded(|| sig2.verify_primary_key_binding(&rv, ppub));
                (rv.take(), format!("{r:?}"), kver(sub_pub))
            }
            _ => {
                let rv = RecVerifier::new(ppub, true);
                let r = guarded(|| sig2.verify_key_third_party(signee, &rv));
                (rv.take(), format!("{r:?}"), kver(ppub))
            }
        };
        settle(
            ctx,
            Obs {
                path: vpath,
                site: "Signature::verify* after serialize + parse (random)",
                extra,
                sv: vsv,
                fields: f,
                subject,
                alts: vec![], alt_extra: vec![], oracle_note: String::new(),
                digest: vseen.first().cloned(),
                pats: &pats,
                lib_ok: r.starts_with("Ok(Ok("),
                lib_err: r,
            },
        );
    }
}


// ------------------------------------------------------------------------------------------
// Standalone / Timestamp through `Signature::verify` (outside the property's type list; the
// model transcribes `hash_data_to_sign`'s one-octet read, so the branch is exercised here)

fn run_other_types(ctx: &mut Ctx, keys: &[TestKey]) {
    let Some(k) = keys.iter().find(|k| kver(&k.spk.primary_key) == 4) else { return };
    let primary = &k.spk.primary_key;
    for typ in [0x02u8, 0x40] {
        for doc in [&b""[..], &b"x"[..], &b"xyz\n"[..]] {
            let area = subpacket_raw(1, 2, &[0x65, 0x53, 0xf1, 0x00]).expect("sp");
            let mut f = SigFields { ver: 4, typ, pk: 1, hash: 8, area: area.clone(), unhashed: vec![], salt: vec![], created: 0, left16: [0, 0] };
            // what the code hashes: the first octet of the data (an error when there is none)
            let code_subject = Subject::Doc(doc.iter().take(1).copied().collect());
            let Some(d) = hash_with(8, &rfc_preimage(&f, &code_subject)) else { continue };
            f.left16 = [d[0], d[1]];
            let body = craft_sig_body(4, typ, 1, 8, &area, &[], 0, &[], f.left16);
            let Some(sig) = parse_sig_packet(&packet5(2, &body)) else { continue };
            let rv = RecVerifier::new(primary, false);
            let r = guarded(|| sig.verify(&rv, doc));
            let seen = rv.take();
            let lib_err = format!("{r:?}");
            // an empty source makes `read_exact` fail: a refusal the model has
            let lib_err = if seen.is_empty() && doc.is_empty() { "Expected one octet of data".to_string() } else { lib_err };
            settle(
                ctx,
                Obs {
                    path: "verData",
                    site: "Signature::verify (Standalone / Timestamp, crafted)",
                    extra: format!("data={}", bx(doc, &[])),
                    sv: 4,
                    fields: f,
                    // RFC 9580 §5.2.1: computed like a signature over a zero-length document
                    subject: Subject::Doc(vec![]),
                    alts: vec![code_subject],
                    alt_extra: vec![], oracle_note: String::new(),
                    digest: seen.first().cloned(),
                    pats: &[],
                    lib_ok: matches!(r, Ok(Ok(()))),
                    lib_err,
                },
            );
        }
    }
}

pub fn run(ctx: &mut Ctx) {
    let mut rng = ChaCha8Rng::seed_from_u64(ctx.rng.gen());
    let mut keys: Vec<TestKey> = Vec::new();
    for rel in [
        "tests/rfc9580/v6-25519-annex-a-4/tsk.asc",
        "tests/rfc9580/v4-ed25519-x25519/tsk.asc",
        "tests/rfc9580/v6-rsa/tsk.asc",
        "tests/rfc9580/v4-rsa/tsk.asc",
        "tests/rfc9580/v6-nistp/tsk.asc",
        "tests/rfc9580/v4-nistp/tsk.asc",
        "tests/rfc9580/v6-ed448-x448/tsk.asc",
        "tests/rfc9580/v4-legacy/tsk.asc",
        "tests/rfc9580/v6-ed25519-x448/tsk.asc",
    ] {
        match load_tsk(rel) {
            Some(k) => keys.push(k),
            None => ctx.note(&format!("fixture not loaded: {rel}")),
        }
    }
    if let Some(k) = gen_key(&mut rng, KeyVersion::V4, KeyType::Ed25519Legacy, Some(KeyType::Ed25519Legacy), "gen-v4-eddsa") {
        keys.push(k);
    }
    if let Some(k) = gen_key(&mut rng, KeyVersion::V6, KeyType::Ed25519, Some(KeyType::Ed25519), "gen-v6-ed25519") {
        keys.push(k);
    }
    if let Some(k) = gen_key(&mut rng, KeyVersion::V4, KeyType::ECDSA(ECCCurve::P256), Some(KeyType::ECDSA(ECCCurve::P256)), "gen-v4-p256") {
        keys.push(k);
    }
    for k in &keys {
        ctx.stat(&format!("key:{}", k.name));
    }
    run_sign_data(ctx, &keys);
    run_detached(ctx, &keys);
    run_messages(ctx, &keys);
    run_cleartext(ctx, &keys);
    run_certifications(ctx, &keys);
    run_key_sigs(ctx, &keys);
    run_fixture_certs(ctx);
    run_fixture_csf(ctx);
    run_crafted(ctx, &keys);
    run_crafted_inline(ctx, &keys);
    run_guards(ctx, &keys);
    run_random(ctx, &keys);
    run_other_types(ctx, &keys);
    let (n, bad, example) = TRUTHFUL.with(|t| t.borrow().clone());
    ctx.oracle(
        "write_len_truthful",
        "Serialize::write_len vs Serialize::to_writer of every key / User ID / User Attribute hashed in this run",
        &format!("checked={n}"),
        bad == 0,
        &format!("{bad} of {n} differ; first: {example}"),
    );
}
