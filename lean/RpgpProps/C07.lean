import RpgpProofs.KeyGenMpi
import RpgpProofs.KeyGenShape
/-!
# C07 — generated keys are valid, self-consistent and usable for every seed and shape (PARTIAL)

Model: `RpgpModel/KeyGen.lean`.  What is proved here, for ALL inputs:

* the value-dependent encodings (MPI strip / bit count / re-padding of fixed-size scalars, EdDSA
  legacy signature halves, 0x40-prefixed native points, reversed Curve25519 secrets) round-trip for
  every value and every number of leading zero octets — the 1/256 cases no finite seed sweep can
  exhaust;
* the builder's validation is the decision table the source contains (tables re-extracted on
  every run);
* over abstract primitives that satisfy the sign/verify law, the self-signatures `generate`
  makes are exactly the ones `verify_bindings` checks (public and secret path), a back-signature
  is embedded exactly for `can_sign` subkeys, and flags / preferences can be read back.

What is NOT proved (carried only by the seed sweep of the harness): that the primitives' key
generation, signing, encryption are correct for a given seed; the serialisation of whole
certificates (C05/C10); secret-key locking (C08).

State after the fixes 7538dec (D7c), 49ffb17 (D7a), 05de5d4 (D5c), ffb9bdd (D7b): the former
`…_partial` theorems are now full statements —
* `validate_v4_needs_uid`: the "V4 keys must have a primary User ID" rule holds for the *effective*
  version, hence `flags_prefs_as_requested` needs no exclusion for validated v4/v6 builders;
* `validate_rejects_unconstructible` / `validated_never_panics`: the versions on which
  `PublicKey::from_inner` panics are refused by the builder;
* `ecdsa_scalar_roundtrip`: ECDSA secrets are re-padded with `pad_key` like all other scalars;
* `export_import_id`: after any history of locking / unlocking the stored packet header is truthful,
  so a key is `==` to its re-import as far as the header is concerned.
Regression theorems about clearly named pre-fix definitions are kept where cheap
(`prefix_ecdsa_from_slice_short_witness`, `prefix_locked_header_stale_witness`,
`prefix_secret_path_ignored_backsig_witness`).
The secret-key path of `verify_bindings` now performs the same checks as the public one (D15a fixed:
`secret_path_eq_public`; regression `prefix_secret_path_ignored_backsig_witness`).  Still as coded: v2/v3
keys (outside the property's quantifier) may be built without any User ID
(`flags_lost_without_uid_witness` shows why the v4 rule matters); an encryption-only algorithm is
refused as primary only when the first signature is attempted (`GenErr.notSigningAlg`).
-/
namespace Rpgp.C07
open Rpgp Rpgp.KeyGen

/-! ## constants and tables (re-extracted from the source on every run) -/

theorem mpi_constants : Gen.maxExternMpiBits = 16384 ∧ Gen.mpiRoundAdd = 7 ∧ Gen.mpiRoundShift = 3 ∧
    Gen.mpiBitsPerByte = 8 := by decide

/-- RFC 9580 §9.1 algorithm ids behind `KeyType::to_alg` -/
theorem alg_ids_rfc :
    Gen.ktAlgRsa = 1 ∧ Gen.ktAlgDsa = 17 ∧ Gen.ktAlgECDH = 18 ∧ Gen.ktAlgECDSA = 19 ∧
    Gen.ktAlgEd25519Legacy = 22 ∧ Gen.ktAlgX25519 = 25 ∧ Gen.ktAlgX448 = 26 ∧ Gen.ktAlgEd25519 = 27 ∧
    Gen.ktAlgEd448 = 28 := by decide

/-- signature type ids and subpacket ids are the RFC's (§5.2.1, §5.2.3.7) -/
theorem sig_constants_rfc :
    Gen.sigTypeCertPositive = 0x13 ∧ Gen.sigTypeSubkeyBinding = 0x18 ∧ Gen.sigTypeKeyBinding = 0x19 ∧
    Gen.sigTypeKey = 0x1F ∧ Gen.spCreationTime = 2 ∧ Gen.spIssuerKeyId = 16 ∧ Gen.spPrefSym = 11 ∧
    Gen.spPrefHash = 21 ∧ Gen.spPrefComp = 22 ∧ Gen.spPrimaryUserId = 25 ∧ Gen.spKeyFlags = 27 ∧
    Gen.spFeatures = 30 ∧ Gen.spEmbeddedSignature = 32 ∧ Gen.spIssuerFingerprint = 33 ∧ Gen.spPrefAead = 39 := by
  decide

/-- key flag bits (§5.2.3.29): certify 0x01, sign 0x02, encrypt 0x04 / 0x08, authenticate 0x20 -/
theorem key_flag_bits_rfc :
    Gen.kfCertifyBit = 0 ∧ Gen.kfSignBit = 1 ∧ Gen.kfEncryptCommsBit = 2 ∧ Gen.kfEncryptStorageBit = 3 ∧
    Gen.kfAuthenticationBit = 5 := by decide

/-- the scalar sizes used for re-padding: both tables in the source agree and are the curve sizes,
and `ecdsa.rs try_from_mpi` pads each curve's secret to exactly that size -/
theorem scalar_sizes :
    Gen.secretLenP256 = 32 ∧ Gen.secretLenP384 = 48 ∧ Gen.secretLenP521 = 66 ∧ Gen.secretLenSecp256k1 = 32 ∧
    Gen.secretLenEd25519Legacy = 32 ∧ Gen.secretLenCurve25519Legacy = 32 ∧ Gen.c25519PadLen = Gen.secretLenCurve25519Legacy ∧
    Gen.ecdsaSecretLenP256 = Gen.secretLenP256 ∧ Gen.ecdsaSecretLenP384 = Gen.secretLenP384 ∧
    Gen.ecdsaSecretLenP521 = Gen.secretLenP521 ∧ Gen.ecdsaSecretLenSecp256k1 = Gen.secretLenSecp256k1 ∧
    Gen.ecdsaPadLenP256 = Gen.ecdsaSecretLenP256 ∧ Gen.ecdsaPadLenP384 = Gen.ecdsaSecretLenP384 ∧
    Gen.ecdsaPadLenP521 = Gen.ecdsaSecretLenP521 ∧ Gen.ecdsaPadLenSecp256k1 = Gen.ecdsaSecretLenSecp256k1 := by decide

/-- native points: writer and reader sites agree on prefix 0x40 and length 33; the EdDSA legacy
signature is rebuilt as 2 × 32 octets from halves shorter than 33 -/
theorem native_constants :
    Gen.eddsaLegacyWrPrefix = 0x40 ∧ Gen.eddsaLegacyRdPrefix = Gen.eddsaLegacyWrPrefix ∧
    Gen.ecdh25519WrPrefix = Gen.eddsaLegacyWrPrefix ∧ Gen.eddsaLegacyRdLen = 33 ∧ Gen.ecdh25519RdLen = 33 ∧
    Gen.eddsaSigLen = 64 ∧ Gen.eddsaSigHalf = 32 ∧ Gen.eddsaSigRLimit = 33 ∧ Gen.eddsaSigSLimit = 33 := by decide

/-- `validate_table` (1): which key types may be asked to sign / authenticate, which to encrypt —
the table of `KeyType::can_sign` / `can_encrypt`, for every parameter of the parametrised variants -/
theorem can_sign_table (bits : Nat) (c : Curve) :
    (KeyType.rsa bits).canSign = true ∧ (KeyType.dsa bits).canSign = true ∧ (KeyType.ecdsa c).canSign = true ∧
    KeyType.ed25519Legacy.canSign = true ∧ KeyType.ed25519.canSign = true ∧ KeyType.ed448.canSign = true ∧
    (KeyType.ecdh c).canSign = false ∧ KeyType.x25519.canSign = false ∧ KeyType.x448.canSign = false := by
  simp [KeyType.canSign, KeyType.idx, Gen.ktCanSignMask]; decide

theorem can_encrypt_table (bits : Nat) (c : Curve) :
    (KeyType.rsa bits).canEncrypt = true ∧ (KeyType.ecdh c).canEncrypt = true ∧ KeyType.x25519.canEncrypt = true ∧
    KeyType.x448.canEncrypt = true ∧ (KeyType.dsa bits).canEncrypt = false ∧ (KeyType.ecdsa c).canEncrypt = false ∧
    KeyType.ed25519Legacy.canEncrypt = false ∧ KeyType.ed25519.canEncrypt = false ∧ KeyType.ed448.canEncrypt = false := by
  simp [KeyType.canEncrypt, KeyType.idx, Gen.ktCanEncryptMask]; decide

/-- every key type can do at least one of the two, and only RSA both -/
theorem capability_partition (k : KeyType) :
    (k.canSign = true ∨ k.canEncrypt = true) ∧ (k.canSign = true ∧ k.canEncrypt = true → ∃ b, k = .rsa b) := by
  cases k <;> simp [KeyType.canSign, KeyType.canEncrypt, KeyType.idx, Gen.ktCanSignMask, Gen.ktCanEncryptMask] <;> decide

/-- `validate_table` (2): curves accepted for ECDSA by the builder = curves the ECDSA generator
supports = {P-256, P-384, P-521, secp256k1}; ECDH generation supports {Curve25519Legacy, P-256,
P-384, P-521} -/
theorem curve_tables :
    Gen.ecdsaValidateCurveMask = Gen.ecdsaGenerateCurveMask ∧
    (∀ c : Curve, Gen.ecdsaValidateCurveMask.testBit c.idx = true ↔ c = .p256 ∨ c = .p384 ∨ c = .p521 ∨ c = .secp256k1) ∧
    (∀ c : Curve, Gen.ecdhGenerateCurveMask.testBit c.idx = true ↔ c = .curve25519Legacy ∨ c = .p256 ∨ c = .p384 ∨ c = .p521) := by
  refine ⟨by decide, ?_, ?_⟩ <;> intro c <;> cases c <;> decide

/-- `validate_table` (3): `validate_keytype` as a closed decision: a capability is refused iff the
algorithm cannot provide it; RSA below 2048 bits and ECDSA outside the four curves are refused -/
theorem validate_keytype_iff (k : KeyType) (sign auth : Bool) (enc : EncCaps) :
    validateKeytype (some k) (some sign) enc (some auth) = .ok () ↔
      (sign = true → k.canSign = true) ∧ (enc ≠ .none → k.canEncrypt = true) ∧ (auth = true → k.canSign = true) ∧
      (∀ b, k = .rsa b → Gen.rsaMinBits ≤ b) ∧
      (∀ c, k = .ecdsa c → Gen.ecdsaValidateCurveMask.testBit c.idx = true) := by
  unfold validateKeytype
  cases hs : k.canSign <;> cases he : k.canEncrypt <;> cases sign <;> cases auth <;> cases enc <;>
    cases k <;> simp_all <;> (try split) <;> simp_all <;> omega

/-- the version rule: a v6 primary takes only v6 subkeys, any other primary no v6 subkey -/
theorem validate_versions_iff (v : Option Nat) (subs : List SubParams) :
    validateVersions v subs = .ok () ↔
      (v = some 6 → ∀ s ∈ subs, s.version = 6) ∧ (v ≠ some 6 → ∀ s ∈ subs, s.version ≠ 6) := by
  induction subs with
  | nil => simp [validateVersions]
  | cons s r ih =>
    by_cases h6 : v = some 6
    · by_cases hs : s.version = 6 <;> simp_all [validateVersions]
    · by_cases hs : s.version = 6 <;> simp_all [validateVersions]

/-- what a successful `build()` guarantees (soundness of `validate`) -/
theorem validate_sound (b : Builder) (h : validate b = .ok ()) :
    unconstructible b.effVersion = false ∧ (∀ s ∈ b.subkeys, unconstructible s.version = false) ∧
    validateVersions b.version b.subkeys = .ok () ∧
    validateKeytype b.keyType b.canSign (b.canEncrypt.getD .none) b.canAuth = .ok () ∧
    (∀ s ∈ b.subkeys, validateKeytype (some s.keyType) (some s.canSign) s.canEncrypt (some s.canAuth) = .ok ()) ∧
    (b.effVersion = 4 → b.primaryUid ≠ none) := by
  unfold validate at h
  by_cases hu : unconstructible b.effVersion = true
  · simp [hu] at h
  · by_cases hsu : (b.subkeys.any fun s => unconstructible s.version) = true
    · simp [hu, hsu] at h
    · rw [if_neg hu, if_neg hsu] at h
      have hsu' : ∀ s ∈ b.subkeys, unconstructible s.version = false := by
        intro s hs
        cases hc : unconstructible s.version with
        | false => rfl
        | true => exact absurd (List.any_eq_true.mpr ⟨s, hs, hc⟩) hsu
      split at h
      · cases h
      · rename_i h1
        split at h
        · cases h
        · rename_i h2
          split at h
          · cases h
          · rename_i h3
            refine ⟨by simpa using hu, hsu', h1, h2, ?_, ?_⟩
            · clear h h1 h2
              generalize b.subkeys = l at h3
              induction l with
              | nil => intro s hs; cases hs
              | cons a r ih =>
                intro s hs
                simp only [validateSubs] at h3
                split at h3
                · cases h3
                · rename_i ha
                  rcases List.mem_cons.mp hs with rfl | hs'
                  · exact ha
                  · exact ih h3 s hs'
            · intro hv hu'
              simp [hv, hu'] at h

/-- "V4 keys must have a primary User ID" — for the version the key will actually have, whether it
was chosen explicitly or left at the builder's default (full statement; before fix 49ffb17 only
`b.version = some 4` was covered) -/
theorem validate_v4_needs_uid (b : Builder) (h : validate b = .ok ()) (hv : b.effVersion = 4) :
    b.primaryUid ≠ none := (validate_sound b h).2.2.2.2.2 hv

/-- the default builder (version never set ⇒ v4) without a User ID is refused -/
theorem validate_default_version_needs_uid :
    validate { keyType := some .ed25519, canSign := some true, canCertify := some true } = .error .v4NeedsUid ∧
    validate { keyType := some .ed25519, canSign := some true, canCertify := some true, primaryUid := some [65] } = .ok () :=
  ⟨by rfl, by rfl⟩

/-- versions for which a key packet cannot be constructed (V5, Other) are refused for the primary
and for every subkey … -/
theorem validate_rejects_unconstructible (b : Builder) (h : validate b = .ok ()) :
    (b.effVersion = 2 ∨ b.effVersion = 3 ∨ b.effVersion = 4 ∨ b.effVersion = 6) ∧
    (∀ s ∈ b.subkeys, s.version = 2 ∨ s.version = 3 ∨ s.version = 4 ∨ s.version = 6) := by
  obtain ⟨h1, h2, _⟩ := validate_sound b h
  have key : ∀ v, unconstructible v = false → v = 2 ∨ v = 3 ∨ v = 4 ∨ v = 6 := by
    intro v hv
    simp only [unconstructible, Bool.not_eq_false', Bool.or_eq_true, beq_iff_eq] at hv
    omega
  exact ⟨key _ h1, fun s hs => key _ (h2 s hs)⟩

/-- … hence `generate` on a validated builder never reaches the `panic!` in
`PubKeyInner::write_len` (neither for the primary nor for a subkey) -/
theorem validated_never_panics (b : Builder) (h : validate b = .ok ()) (kt : KeyType) :
    pubKeyNewCheck b.effVersion kt ≠ .error .panicKeyVersion ∧
    (∀ s ∈ b.subkeys, pubKeyNewCheck s.version s.keyType ≠ .error .panicKeyVersion) := by
  obtain ⟨hp, hs⟩ := validate_rejects_unconstructible b h
  have key : ∀ v k, (v = 2 ∨ v = 3 ∨ v = 4 ∨ v = 6) → pubKeyNewCheck v k ≠ .error .panicKeyVersion := by
    intro v k hv
    unfold pubKeyNewCheck
    split
    · simp
    · split
      · simp
      · simp [hv]
  exact ⟨key _ _ hp, fun s hs' => key _ _ (hs s hs')⟩

/-- a version/algorithm mix the builder lets through and `generate` then refuses (after having
generated the key material): v6 with the legacy Ed25519 / Curve25519 encodings -/
theorem validate_accepts_v6_legacy :
    validate { version := some 6, keyType := some .ed25519Legacy, primaryUid := some [] } = .ok () ∧
    pubKeyNewCheck 6 .ed25519Legacy = .error .legacyAlgVersion ∧
    pubKeyNewCheck 6 (.ecdh .curve25519Legacy) = .error .legacyAlgVersion := ⟨by rfl, by rfl, by rfl⟩

/-! ## MPI: strip, bit length, round trip -/

/-- **pad_strip.** Whatever the value — in particular for every number of leading zero octets, up
to the all-zero string — stripping for the MPI and re-padding to the scalar size restores it. -/
theorem pad_strip (n : Nat) (x : Bytes) (h : x.length = n) : padKey n (stripZeros x) = some x :=
  padKey_stripZeros n x h

/-- the same, with the number `k` of leading zero octets explicit -/
theorem pad_strip_every_count (k : Nat) (m : Bytes) (hm : Normalized m) :
    stripZeros (List.replicate k 0 ++ m) = m ∧
    padKey (k + m.length) (stripZeros (List.replicate k 0 ++ m)) = some (List.replicate k 0 ++ m) :=
  ⟨stripZeros_replicate_append k m hm, padKey_stripZeros _ _ (by simp)⟩

/-- stripping removes exactly the leading zero octets and does not change the value -/
theorem strip_spec (x : Bytes) :
    (stripZeros x).length + leadingZeros x = x.length ∧ beNat (stripZeros x) = beNat x ∧ Normalized (stripZeros x) :=
  ⟨stripZeros_length x, beNat_stripZeros x, stripZeros_normalized x⟩

/-- `pad_key` never accepts more octets than the scalar has, and always returns exactly `n` -/
theorem pad_key_total (n : Nat) (v : Bytes) :
    (n < v.length → padKey n v = none) ∧ (∀ k, padKey n v = some k → k.length = n ∧ beNat k = beNat v) := by
  refine ⟨padKey_too_long n v, fun k hk => ⟨padKey_length n v k hk, ?_⟩⟩
  unfold padKey at hk
  by_cases hl : v.length ≤ n
  · simp [hl] at hk; subst hk
    have : ∀ j, beNat (List.replicate j (0 : Byte) ++ v) = beNat v := by
      intro j; induction j with
      | zero => simp
      | succ j ih => simp [List.replicate_succ, beNat_cons, ih]
    exact this _
  · simp [hl] at hk

/-- **mpi_bits.** The bit count written in front of an MPI is the position of the top set bit of
the value: `2^(bits-1) ≤ value < 2^bits` (and 0 for the value zero, which is the empty string). -/
theorem mpi_bits (raw : Bytes) :
    (mpiFromSlice raw = [] → bitSize (mpiFromSlice raw) = 0 ∧ beNat raw = 0) ∧
    (mpiFromSlice raw ≠ [] →
      2 ^ (bitSize (mpiFromSlice raw) - 1) ≤ beNat raw ∧ beNat raw < 2 ^ bitSize (mpiFromSlice raw)) := by
  constructor
  · intro h
    have := beNat_stripZeros raw
    simp only [mpiFromSlice] at h
    rw [h] at this
    exact ⟨by simp [mpiFromSlice, h, bitSize], by simpa [beNat] using this.symm⟩
  · intro h
    have := bitSize_spec (stripZeros raw) (stripZeros_normalized raw) h
    rwa [beNat_stripZeros] at this

/-- the two length octets in front of the value are that bit count (values up to 8191 octets) -/
theorem mpi_declared_bits (m : Bytes) (h : m.length ≤ 8191) :
    beNat ((mpiWrite m).take 2) = bitSize m ∧ (mpiWrite m).drop 2 = m := by
  have hb := bitSize_le m
  have h1 : (bitSize m / 256 % 256).toUInt8.toNat = bitSize m / 256 := by
    rw [u8_toNat_of_lt _ (Nat.mod_lt _ (by decide))]; omega
  have h2 : (bitSize m % 256).toUInt8.toNat = bitSize m % 256 := u8_toNat_of_lt _ (Nat.mod_lt _ (by decide))
  have := Nat.div_add_mod (bitSize m) 256
  simp [mpiWrite, be16_eq, beNat, h1, h2]; omega

/-- **mpi_roundtrip.** What `Mpi::from_slice` + `to_writer` emit for any octet string (of at most
2048 octets = `MAX_EXTERN_MPI_BITS`), `Mpi::try_from_reader` reads back as the same value, leaving
exactly the bytes that followed. -/
theorem mpi_roundtrip (raw rest : Bytes) (h : raw.length ≤ 2048) :
    mpiRead (mpiWrite (mpiFromSlice raw) ++ rest) = some (mpiFromSlice raw, rest) :=
  mpiRead_mpiWrite_normalized _ rest (stripZeros_normalized raw) (Nat.le_trans (stripZeros_length_le raw) h)

/-- the whole path of a fixed-size secret scalar (ECDH and ECDSA NIST curves / secp256k1,
Ed25519Legacy): raw → `Mpi::from_slice` → wire → `try_from_reader` → `pad_key::<n>` gives back raw,
for every value -/
theorem scalar_roundtrip (n : Nat) (x rest : Bytes) (h : x.length = n) (hn : n ≤ 2048) :
    (mpiRead (mpiWrite (mpiFromSlice x) ++ rest)).bind (fun vr => (padKey n vr.1).map (fun k => (k, vr.2)))
      = some (x, rest) := by
  rw [mpi_roundtrip x rest (by omega)]
  simp [mpiFromSlice, padKey_stripZeros n x h]

/-- **ECDSA secrets** (full statement; before fix ffb9bdd only scalars with at most n − 24 leading
zero octets came back): at each of the four scalar sizes `ecdsa::SecretKey` knows, every scalar —
whatever its number of leading zero octets — survives write and re-import -/
theorem ecdsa_scalar_roundtrip (n : Nat) (x rest : Bytes) (h : x.length = n)
    (hn : n = Gen.ecdsaSecretLenP256 ∨ n = Gen.ecdsaSecretLenP384 ∨ n = Gen.ecdsaSecretLenP521 ∨
          n = Gen.ecdsaSecretLenSecp256k1) :
    padKey n (stripZeros x) = some x ∧
    (mpiRead (mpiWrite (mpiFromSlice x) ++ rest)).bind (fun vr => (padKey n vr.1).map (fun k => (k, vr.2)))
      = some (x, rest) := by
  refine ⟨padKey_stripZeros n x h, scalar_roundtrip n x rest h ?_⟩
  simp only [Gen.ecdsaSecretLenP256, Gen.ecdsaSecretLenP384, Gen.ecdsaSecretLenP521, Gen.ecdsaSecretLenSecp256k1] at hn
  omega

/-- REGRESSION (pre-fix definition `ecFromSlicePreFix` = `SecretKey::from_slice`): a P-256 scalar with
nine leading zero octets is written as a 23-octet MPI, which the old import path refused and
`pad_key` restores -/
theorem prefix_ecdsa_from_slice_short_witness :
    let x : Bytes := List.replicate 9 0 ++ List.replicate 23 1
    x.length = 32 ∧ ecFromSlicePreFix 32 (stripZeros x) = none ∧ padKey 32 (stripZeros x) = some x := by decide

/-! ## EdDSA legacy signatures, native points, Curve25519 secrets -/

/-- the 64 octets `verify` rebuilds from the two stripped halves are the 64 octets the primitive
produced, whatever the number of leading zero octets in `r` and in `s` -/
theorem eddsa_sig_roundtrip (sig : Bytes) (h : sig.length = 64) :
    eddsaSigBytes (eddsaSigMpis sig).1 (eddsaSigMpis sig).2 = some sig := by
  have h1 : (sig.take 32).length = 32 := by simp [h]
  have h2 : (sig.drop 32).length = 32 := by simp [h]
  have l1 := stripZeros_length_le (sig.take 32)
  have l2 := stripZeros_length_le (sig.drop 32)
  have r1 := replicate_stripZeros (sig.take 32)
  have r2 := replicate_stripZeros (sig.drop 32)
  rw [h1] at r1 l1; rw [h2] at r2 l2
  have c1 : ¬ (33 ≤ (stripZeros (List.take 32 sig)).length) := by omega
  have c2 : ¬ (33 ≤ (stripZeros (List.drop 32 sig)).length) := by omega
  simp only [eddsaSigBytes, eddsaSigMpis, mpiFromSlice, Gen.eddsaSigRLimit, Gen.eddsaSigSLimit, Gen.eddsaSigHalf,
    Gen.eddsaSigLen, Nat.not_lt, c1, c2, if_false, show 64 - 32 = 32 from rfl, r1, r2, List.take_append_drop]

/-- halves that are too long are refused -/
theorem eddsa_sig_rejects_long (r s : Bytes) (h : 33 ≤ r.length ∨ 33 ≤ s.length) : eddsaSigBytes r s = none := by
  unfold eddsaSigBytes
  simp only [Gen.eddsaSigRLimit, Gen.eddsaSigSLimit]
  rcases h with h | h
  · simp; intro; omega
  · by_cases hr : r.length < 33
    · simp [hr]; omega
    · simp [hr]

/-- the prefix octet 0x40 (or SEC1's 0x04) is never stripped: a prefixed point is written with all
its octets, its declared bit length is `8·len − clz(prefix)` -/
theorem native_point_never_stripped (pfx : Byte) (p : Bytes) (h : pfx ≠ 0) :
    mpiFromSlice (pfx :: p) = pfx :: p ∧ bitSize (pfx :: p) = (p.length + 1) * 8 - clz8 pfx := by
  simp [mpiFromSlice, stripZeros, h, bitSize_cons]

/-- Ed25519Legacy public key: written by `to_writer`, read back by `try_from_reader`, any point
(the point itself may begin with any number of zero octets) -/
theorem eddsa_legacy_point_roundtrip (p rest : Bytes) (h : p.length = 32) :
    eddsaLegacyPointRead (nativePointMpi Gen.eddsaLegacyWrPrefix p ++ rest) = some (p, rest) := by
  have hn : Normalized ((64 : Nat).toUInt8 :: p) := by simp [Normalized]
  have hs : stripZeros ((64 : Nat).toUInt8 :: p) = (64 : Nat).toUInt8 :: p := stripZeros_of_normalized _ hn
  simp only [eddsaLegacyPointRead, nativePointMpi, mpiFromSlice, Gen.eddsaLegacyWrPrefix, hs]
  rw [mpiRead_mpiWrite_normalized _ rest hn (by simp [h])]
  simp [Gen.eddsaLegacyRdLen, Gen.eddsaLegacyRdPrefix, h]

/-- Curve25519Legacy ECDH public key likewise -/
theorem ecdh25519_point_roundtrip (p rest : Bytes) (h : p.length = 32) :
    ecdh25519PointRead (nativePointMpi Gen.ecdh25519WrPrefix p ++ rest) = some (p, rest) := by
  have hn : Normalized ((64 : Nat).toUInt8 :: p) := by simp [Normalized]
  have hs : stripZeros ((64 : Nat).toUInt8 :: p) = (64 : Nat).toUInt8 :: p := stripZeros_of_normalized _ hn
  simp only [ecdh25519PointRead, nativePointMpi, mpiFromSlice, Gen.ecdh25519WrPrefix, hs]
  rw [mpiRead_mpiWrite_normalized _ rest hn (by simp [h])]
  simp [Gen.ecdh25519RdLen, h]

theorem fixD8f_on : Gen.fixD8fC25519Export = 1 ∧ Gen.fixD8fC25519Import = 1 := by decide

/-- Curve25519Legacy secret: the little-endian scalar is stored reversed as an MPI.  **Every** 32-octet
scalar — clamped or not, with or without zero octets at its top — is written as a well-formed MPI and
comes back exactly (D8f: before the repairs a scalar whose top octet is zero, one key in 256 written
by an implementation that does not clamp what it stores, was written with a malformed MPI and read
back multiplied by 256). -/
theorem c25519_secret_roundtrip (le rest : Bytes) (h : le.length = 32) :
    c25519SecretRead (c25519SecretMpi le ++ rest) = some (le, rest) := by
  have hlen : (stripZeros le.reverse).length ≤ 2048 := by
    have := stripZeros_length_le le.reverse; simp [h] at this; omega
  simp only [c25519SecretRead, c25519SecretMpi, fixD8f_on.1, fixD8f_on.2, if_true, mpiFromSlice]
  rw [mpiRead_mpiWrite_normalized _ rest (stripZeros_normalized _) hlen]
  have := padKey_stripZeros 32 le.reverse (by simp [h])
  simp [Gen.c25519PadLen, this]

/-- regression witness (D8f): the pre-repair pair did not round-trip an unclamped scalar whose top
octet is zero, and read a short stored value back multiplied by 256 -/
theorem c25519_prefix_witness :
    let le : Bytes := List.replicate 31 1 ++ [0]
    le.length = 32 ∧ c25519SecretReadPreFix (c25519SecretMpiPreFix le) ≠ some (le, []) ∧
    c25519SecretReadPreFix (mpiWrite (List.replicate 31 1)) = some (0 :: List.replicate 31 1, []) ∧
    c25519SecretRead (mpiWrite (List.replicate 31 1)) = some (List.replicate 31 1 ++ [0], []) := by decide

/-! ## shape of the generated certificate -/

/-- **generate_verifies.** For every parameter set, every seed material and every primitive
satisfying the sign/verify law: whenever `generate` returns a certificate, `verify_bindings`
succeeds on its public form and on its secret form. -/
theorem generate_verifies {M S σ : Type} (P : KeyPrims M S σ) (law : SignLaw P) (p : GenParams) (r : GenRand S)
    (c : Cert M σ) (h : generate P p r = .ok c) :
    verifyBindingsPublic (checksOf P) c.toPublic = true ∧ verifyBindingsSecret (checksOf P) c = true := by
  rw [generate_toPublic P p r c h]
  exact generate_verifies_both P law p r c h

/-- `to_public_key` changes nothing in a generated certificate: no signature is filtered out, no
subkey dropped -/
theorem to_public_keeps_everything {M S σ : Type} (P : KeyPrims M S σ) (p : GenParams) (r : GenRand S)
    (c : Cert M σ) (h : generate P p r = .ok c) : c.toPublic = c := generate_toPublic P p r c h

/-- in general it does: a subkey without a binding signature makes the secret form fail and is
silently dropped from the public form, which then verifies (as coded: `SignedPublicKey::new`) -/
theorem to_public_drops_unsigned_subkey_witness :
    let C : SigChecks (PubKey Nat) Bytes (Sig Nat) (BackSig Nat) := checksOf toyPrims
    let c : Cert Nat Nat := { primary := { version := 4, keyType := .ed25519, created := 0, mat := 1 },
                              direct := [], users := [],
                              subkeys := [{ key := { version := 4, keyType := .x25519, created := 0, mat := 2 }, sigs := [] }] }
    verifyBindingsSecret C c = false ∧ verifyBindingsPublic C c = false ∧ verifyBindingsPublic C c.toPublic = true := by
  decide

/-- the hypothesis is satisfiable: the toy primitive `toyPrims` (secret = public = a number, the
signature is the signer's number) satisfies the law -/
theorem toy_law : SignLaw toyPrims := by intro s m; simp [toyPrims]

/-- the secret form and the public form of a subkey are checked in exactly the same way (since the
fix of D15a), in particular a signing subkey needs its back-signature on both paths -/
theorem secret_path_eq_public {K U Sg B : Type} (C : SigChecks K U Sg B) (key sub : K) (sigs : List Sg) :
    verifySubSecret C key sub sigs = verifySubPublic C key sub sigs := rfl

/-- REGRESSION (pre-fix definition `verifySubSecretPreFix`): the old secret path checked strictly
less — a binding whose flags say "sign" but which carries no back-signature passed it -/
theorem prefix_secret_path_ignored_backsig_witness :
    let C : SigChecks Unit Unit Unit Unit :=
      { vCert := fun _ _ _ => true, vKey := fun _ _ => true, vSub := fun _ _ _ => true, vBack := fun _ _ _ => true,
        flagsSign := fun _ => true, embedded := fun _ => none }
    verifySubSecretPreFix C () () [()] = true ∧ verifySubSecret C () () [()] = false ∧
    verifySubPublic C () () [()] = false := by decide

/-- components without any signature are refused on both paths -/
theorem unsigned_components_rejected {K U Sg B : Type} (C : SigChecks K U Sg B) (key sub : K) (id : U) :
    verifyUser C key id [] = false ∧ verifySubPublic C key sub [] = false ∧ verifySubSecret C key sub [] = false := by
  simp [verifyUser, verifySubPublic, verifySubSecret]

/-- **back-signature exactly for signing subkeys**, and the flags of every subkey binding are the
requested ones: position by position, (flags, has embedded 0x19, version, algorithm) of the generated
subkeys = the request -/
theorem backsig_iff_can_sign {M S σ : Type} (P : KeyPrims M S σ) (law : SignLaw P) (p : GenParams) (r : GenRand S)
    (c : Cert M σ) (h : generate P p r = .ok c) (hl : p.subkeys.length ≤ r.subSecs.length) :
    c.subkeys.map (fun s => (s.sigs.map (fun x => (hashedFlags x, (sigEmbedded x).isSome)), s.key.version, s.key.keyType)) =
      p.subkeys.map (fun sp => ([(some (subFlags sp), sp.canSign)], sp.version, sp.keyType)) := by
  obtain ⟨subs, direct, users, hpk, _, _, _, hsubs, _, hbind⟩ := generate_inv P p r c h
  have hpar := genSubMaterials_params P law c.primary p.subCreated r.salt r.now p.subkeys 0 r.subSecs subs hsubs hl
  rcases hbind with ⟨he, hnil⟩ | ⟨v, _, _, hb⟩
  · rw [hnil]; rw [he] at hpar
    cases hps : p.subkeys with
    | nil => rfl
    | cons a b => rw [hps] at hpar; simp at hpar
  · rw [hb, bindSubkeys_view]
    have := congrArg (List.map (fun (t : Flags × Bool × Nat × KeyType) => ([(some t.1, t.2.1)], t.2.2.1, t.2.2.2))) hpar
    simpa [List.map_map, Function.comp_def] using this

/-- `generate` on its own (any parameter set, validated or not): for a v6 key the direct key
signature carries flags, features and preferences; for other versions a User ID certification
does — so there must be a User ID.  `validate` supplies that hypothesis
(`flags_prefs_as_requested`). -/
theorem flags_prefs_read_back {M S σ : Type} (P : KeyPrims M S σ) (p : GenParams) (r : GenRand S)
    (c : Cert M σ) (h : generate P p r = .ok c)
    (hguard : p.version = 6 ∨ p.primaryUid ≠ none ∨ p.uids ≠ []) :
    (metadataSig c).bind hashedFlags = some p.flags ∧ (metadataSig c).map hashedPrefs = some p.prefs := by
  obtain ⟨subs, direct, users, hpk, _, hdir, husers, _, hdet, _⟩ := generate_inv P p r c h
  have hver : (⟨c.primary, r.primarySec, false⟩ : SecKey M S).pub.version = p.version := by simp [hpk]
  have hver' : c.primary.version = p.version := by rw [hpk]
  obtain ⟨hd, hu⟩ := signDetails_inv P ⟨c.primary, r.primarySec, false⟩ p r.salt r.now direct users hdet
  by_cases h6 : p.version = 6
  · -- v6: the direct key signature
    have hd' := (directSigs_shape P ⟨c.primary, r.primarySec, false⟩ p r.salt r.now direct hd).1
      (by rw [hver]; exact h6)
    simp only [metadataSig, hver', h6, if_true, hdir, hd', List.head?_cons, Option.bind_some, Option.map_some]
    constructor
    · simp [hashedFlags, mkSig, metadataSubpackets, List.findSome?]
    · simp [hashedPrefs, mkSig, metadataSubpackets, List.findSome?]
  · -- not v6: a User ID certification
    have hn : ¬ (p.primaryUid = none ∧ p.uids = []) := by
      rintro ⟨a, b⟩; rcases hguard with g | g | g
      · exact h6 g
      · exact g a
      · exact g b
    rcases hu with ⟨a, b, _⟩ | ⟨_, v, _, hus⟩
    · exact absurd ⟨a, b⟩ hn
    · have hne6 : (⟨c.primary, r.primarySec, false⟩ : SecKey M S).pub.version ≠ 6 := by rw [hver]; exact h6
      simp only [metadataSig, hver', h6, if_false, husers, hus]
      cases hp : p.primaryUid with
      | some u =>
        have hprim := certifyUid_isPrimary P ⟨c.primary, r.primarySec, false⟩ v (r.salt 1001) r.now p.flags p.prefs u
        have hread := certifyUid_read P ⟨c.primary, r.primarySec, false⟩ hne6 v (r.salt 1001) r.now p.flags p.prefs true u
        simp only [List.cons_append, List.nil_append, List.find?_cons, hprim, Option.orElse_some]
        exact hread
      | none =>
        cases hu' : p.uids with
        | nil => exact absurd ⟨hp, hu'⟩ hn
        | cons a rr =>
          have hnp := certifyUids_notPrimary P ⟨c.primary, r.primarySec, false⟩ v r.salt r.now p.flags p.prefs 1002 (a :: rr)
          have hread := certifyUid_read P ⟨c.primary, r.primarySec, false⟩ hne6 v (r.salt 1002) r.now p.flags p.prefs false a
          simp only [List.nil_append, hnp, Option.orElse_none]
          simp only [certifyUids, List.head?_cons]
          exact hread

/-- **flags_as_requested / prefs_as_requested** (full statement; before fix 49ffb17 the default-version
builder had to be excluded).  For every builder that `validate` accepts and whose key will be v4 or
v6 — the versions the property quantifies over — whatever the algorithms, capabilities, user ids,
preferences and seed material: if `generate` returns a certificate, the key flags, features and
preferences read back from its metadata self-signature are exactly the requested ones. -/
theorem flags_prefs_as_requested {M S σ : Type} (P : KeyPrims M S σ) (b : Builder) (kt : KeyType) (prefs : Prefs)
    (created subCreated : Nat) (r : GenRand S) (c : Cert M σ)
    (hval : validate b = .ok ()) (hv : b.effVersion = 4 ∨ b.effVersion = 6)
    (h : generate P (b.toParams kt prefs created subCreated) r = .ok c) :
    (metadataSig c).bind hashedFlags = some (b.toParams kt prefs created subCreated).flags ∧
    (metadataSig c).map hashedPrefs = some prefs := by
  have hg : (b.toParams kt prefs created subCreated).version = 6 ∨
      (b.toParams kt prefs created subCreated).primaryUid ≠ none ∨ (b.toParams kt prefs created subCreated).uids ≠ [] := by
    rcases hv with h4 | h6
    · exact Or.inr (Or.inl (validate_v4_needs_uid b hval h4))
    · exact Or.inl h6
  exact flags_prefs_read_back P _ r c h hg

/-- why the v4 rule matters (about `generate` alone, on parameters no validated v4/v6 builder
produces): a v4 key without User IDs would be generated, verify (vacuously), and carry its flags
and preferences nowhere -/
theorem flags_lost_without_uid_witness :
    let p : GenParams := { version := 4, keyType := .ed25519, flags := { certify := true, sign := true },
                           prefs := { sym := [9] }, created := 0, primaryUid := none, uids := [], subkeys := [] }
    let r : GenRand Nat := { primarySec := 7, subSecs := [], salt := fun _ => [], now := 1 }
    ∃ c, generate toyPrims p r = .ok c ∧ metadataSig c = none ∧ c.direct.length = 0 ∧ c.users.length = 0 ∧
      verifyBindingsPublic (checksOf toyPrims) c = true :=
  ⟨_, rfl, rfl, rfl, rfl, rfl⟩

/-- a direct key signature (0x1F) is made exactly for v6 keys, and it is the only one -/
theorem direct_sig_iff_v6 {M S σ : Type} (P : KeyPrims M S σ) (p : GenParams) (r : GenRand S)
    (c : Cert M σ) (h : generate P p r = .ok c) :
    (p.version = 6 → ∃ s, c.direct = [s] ∧ s.typ = Gen.sigTypeKey ∧ s.version = 6) ∧ (p.version ≠ 6 → c.direct = []) ∧
    c.revocations = [] := by
  obtain ⟨subs, direct, users, hpk, hrev, hdir, _, _, hdet, _⟩ := generate_inv P p r c h
  have hver : (⟨c.primary, r.primarySec, false⟩ : SecKey M S).pub.version = p.version := by simp [hpk]
  obtain ⟨hd, _⟩ := signDetails_inv P ⟨c.primary, r.primarySec, false⟩ p r.salt r.now direct users hdet
  unfold directSigs at hd
  rw [hver] at hd
  refine ⟨?_, ?_, hrev⟩
  · intro h6
    by_cases hc : (⟨c.primary, r.primarySec, false⟩ : SecKey M S).pub.keyType.canSign = true
    · simp only [h6, hc, if_true] at hd; cases hd; exact ⟨_, hdir, rfl, rfl⟩
    · simp [h6, hc] at hd
  · intro h6
    simp only [h6, if_false] at hd; cases hd; exact hdir

/-- on the public path a binding that claims the signing capability and carries no
back-signature is refused, whatever else holds -/
theorem signing_binding_needs_backsig {K U Sg B : Type} (C : SigChecks K U Sg B) (key sub : K) (s : Sg) (rest : List Sg)
    (hf : C.flagsSign s = true) (he : C.embedded s = none) : verifySubPublic C key sub (s :: rest) = false := by
  simp [verifySubPublic, hf, he]

/-- `generate` itself still does not refuse key versions other than 2, 3, 4, 6 with an error:
`PublicKey::from_inner` calls `write_len()`, which panics ("V5 keys") — unreachable through the
builder since fix 7538dec (`validated_never_panics`) -/
theorem unsupported_version_panics (kt : KeyType) (hk : kt ≠ .ecdh .curve25519Legacy ∧ kt ≠ .ed25519Legacy) :
    pubKeyNewCheck 5 kt = .error .panicKeyVersion ∧ pubKeyNewCheck 7 kt = .error .panicKeyVersion := by
  simp [pubKeyNewCheck, hk.1, hk.2]

/-! ## totality on supported shapes -/

theorem supportedKey_iff (version : Nat) (kt : KeyType) (h : supportedKey version kt = true) :
    (version = 4 ∨ version = 6) ∧ keygenCheck kt = .ok () ∧ pubKeyNewCheck version kt = .ok () := by
  simp only [supportedKey, Bool.and_eq_true, Bool.or_eq_true, beq_iff_eq] at h
  obtain ⟨⟨hv, hk⟩, hn⟩ := h
  refine ⟨hv, ?_, ?_⟩
  · cases hkk : keygenCheck kt with
    | ok u => rfl
    | error e => simp [hkk] at hk
  · cases hnn : pubKeyNewCheck version kt with
    | ok u => rfl
    | error e => simp [hnn] at hn

theorem genSubMaterials_total {M S σ : Type} (P : KeyPrims M S σ) (primary : PubKey M) (created : Nat)
    (salt : Nat → Bytes) (now : Nat) (sps : List SubParams)
    (hs : sps.all (fun s => supportedKey s.version s.keyType && (!s.canSign || s.keyType.canSign)) = true) :
    ∀ (i : Nat) (secs : List S), sps.length ≤ secs.length →
      ∃ subs, genSubMaterials P primary created salt now i sps secs = .ok subs ∧ subs.length = sps.length := by
  induction sps with
  | nil => intro i secs _; exact ⟨[], by simp [genSubMaterials], rfl⟩
  | cons sp r ih =>
    intro i secs hl
    cases secs with
    | nil => simp at hl
    | cons sec secs =>
      simp only [List.all_cons, Bool.and_eq_true] at hs
      obtain ⟨⟨hsp, hcs⟩, hr⟩ := hs
      obtain ⟨rr, hrr, hlen⟩ := ih (by simpa [Bool.and_eq_true] using hr) (i + 1) secs (by simpa using hl)
      obtain ⟨hv, hk', hn'⟩ := supportedKey_iff _ _ hsp
      obtain ⟨v, hv'⟩ : ∃ v, sigVersionOf sp.version = some v := by
        rcases hv with h | h <;> simp [sigVersionOf, h]
      have hx : ∃ x, genSubMaterial P primary sp created sec (salt (2 * i)) now = .ok x := by
        unfold genSubMaterial
        simp only [hk', hn']
        by_cases hc : sp.canSign = true
        · have hkc : sp.keyType.canSign = true := by simpa [hc] using hcs
          simp [hc, signerCheck_of hv' hkc]
        · simp [hc]
      obtain ⟨x, hx⟩ := hx
      exact ⟨x :: rr, by simp only [genSubMaterials, hx, hrr], by simp [hlen]⟩

/-- **for every supported shape and every seed material, generation yields a certificate** (it
cannot fail in the modelled logic) — and by `generate_verifies` that certificate verifies -/
theorem generate_total {M S σ : Type} (P : KeyPrims M S σ) (law : SignLaw P) (p : GenParams) (r : GenRand S)
    (hs : supported p = true) (hl : p.subkeys.length ≤ r.subSecs.length) :
    ∃ c, generate P p r = .ok c ∧ verifyBindingsPublic (checksOf P) c.toPublic = true ∧
      verifyBindingsSecret (checksOf P) c = true ∧ c.subkeys.length = p.subkeys.length := by
  simp only [supported, Bool.and_eq_true] at hs
  obtain ⟨⟨hp, hcan⟩, hsubs⟩ := hs
  obtain ⟨hv, hk', hn'⟩ := supportedKey_iff _ _ hp
  obtain ⟨v, hv'⟩ : ∃ v, sigVersionOf p.version = some v := by
    rcases hv with h | h <;> simp [sigVersionOf, h]
  have hsc : signerCheck p.version p.keyType = .ok v := signerCheck_of hv' hcan
  obtain ⟨subs, hsm, hlen⟩ := genSubMaterials_total P
    { version := p.version, keyType := p.keyType, created := p.created, mat := P.pubOf r.primarySec }
    p.subCreated r.salt r.now p.subkeys (by simpa [Bool.and_eq_true] using hsubs) 0 r.subSecs hl
  have hdet : ∃ du, signDetails P ⟨{ version := p.version, keyType := p.keyType, created := p.created, mat := P.pubOf r.primarySec }, r.primarySec, false⟩
      p r.salt r.now = .ok du := by
    have hdir : ∃ d, directSigs P ⟨{ version := p.version, keyType := p.keyType, created := p.created, mat := P.pubOf r.primarySec }, r.primarySec, false⟩
        p r.salt r.now = .ok d := by
      unfold directSigs
      by_cases h6 : p.version = 6 <;> simp [h6, hcan]
    obtain ⟨d, hd⟩ := hdir
    unfold signDetails
    rw [hd]
    by_cases hnone : p.primaryUid = none ∧ p.uids = [] <;> simp [hnone, hsc]
  obtain ⟨⟨direct, users⟩, hdet⟩ := hdet
  have hgen : ∃ c, generate P p r = .ok c ∧ c.subkeys.length = p.subkeys.length := by
    by_cases he : subs = []
    · refine ⟨_, by simp only [generate, hk', hn', hsm, hdet, he, if_true]; rfl, ?_⟩
      simp [← hlen, he]
    · refine ⟨_, by simp only [generate, hk', hn', hsm, hdet, he, if_false, hsc]; rfl, ?_⟩
      simp [bindSubkeys_length, hlen]
  obtain ⟨c, hc, hcl⟩ := hgen
  have := generate_verifies P law p r c hc
  exact ⟨c, hc, this.1, this.2, hcl⟩

/-! ## packet header of a (locked) generated key -/

/-- a key packet is `==` to its re-import, as far as the header goes, exactly when the stored
header is truthful -/
theorem reimport_id_iff (k : KeyPkt) : reimportPkt k = k ↔ k.hdrLen = k.bodyLen := by
  cases k; simp [reimportPkt]; exact eq_comm

/-- **export_import_id** (full statement; before fix 05de5d4 it failed for every locked key): a
packet made by `SecretKey::new` and then locked / unlocked any number of times — `generate` locks
at most once — is equal to its re-import -/
theorem export_import_id (n : Nat) (ops : List PktOp) :
    reimportPkt (applyOps (newPkt n) ops) = applyOps (newPkt n) ops := by
  have key : ∀ (ops : List PktOp) (k : KeyPkt), k.hdrLen = k.bodyLen → (applyOps k ops).hdrLen = (applyOps k ops).bodyLen := by
    intro ops
    induction ops with
    | nil => intro k hk; exact hk
    | cons o r ih => intro k _; cases o <;> exact ih _ rfl
  exact (reimport_id_iff _).mpr (key ops (newPkt n) rfl)

/-- the two shapes `generate` produces: unlocked, and locked once -/
theorem generated_packets_reimport (n g : Nat) :
    reimportPkt (newPkt n) = newPkt n ∧ reimportPkt (lockPkt (newPkt n) g) = lockPkt (newPkt n) g :=
  ⟨rfl, rfl⟩

/-- REGRESSION (pre-fix definition `lockPktPreFix`): locking that kept the header made the key differ
from its own re-import — in the header only -/
theorem prefix_locked_header_stale_witness (n g : Nat) (hg : 0 < g) :
    reimportPkt (lockPktPreFix (newPkt n) g) ≠ lockPktPreFix (newPkt n) g ∧
    (reimportPkt (lockPktPreFix (newPkt n) g)).bodyLen = (lockPktPreFix (newPkt n) g).bodyLen := by
  refine ⟨?_, rfl⟩
  simp [reimportPkt, lockPktPreFix, newPkt]; omega

/-! ## non-vacuity / concrete evaluations -/

example : stripZeros [0, 0, 5, 0] = [5, 0] ∧ bitSize [5, 0] = 11 ∧ mpiWrite [5, 0] = [0, 11, 5, 0] := by decide
example : mpiRead [0, 11, 5, 0, 9] = some ([5, 0], [9]) ∧ mpiRead [0, 9, 0, 0xFF] = some ([0xFF], []) := by decide
example : padKey 4 [1, 2] = some [0, 0, 1, 2] ∧ padKey 1 [1, 2] = none := by decide
example : mpiRead [0x40, 0x01] = none ∧ mpiRead [0, 9, 1] = none := by decide
/-- a v6 key with one signing and one encryption subkey: the shape verifies under the toy primitive -/
example :
    let p : GenParams :=
      { version := 6, keyType := .ed25519, flags := { certify := true, sign := true }, prefs := { sym := [] },
        created := 0, primaryUid := some [65], uids := [[66]],
        subkeys := [{ version := 6, keyType := .ed448, canSign := true }, { version := 6, keyType := .x25519, canEncrypt := .all }] }
    let r : GenRand Nat := { primarySec := 1, subSecs := [2, 3], salt := fun _ => [0], now := 5 }
    supported p = true ∧
    (match generate toyPrims p r with
     | .ok c => verifyBindingsPublic (checksOf toyPrims) c && c.direct.length == 1 && c.users.length == 2 && c.subkeys.length == 2
     | .error _ => false) = true := by decide

end Rpgp.C07
