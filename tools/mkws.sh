#!/bin/bash
# Create a private builder workspace: /tmp/w/<id>/{verif,repo} (copies; nothing shared is written)
set -e
ID="$1"; W=/tmp/w/$ID
rm -rf "$W"; mkdir -p "$W"
rsync -a --exclude .git --exclude harness/target --exclude work --exclude replays /verif/ "$W/verif/"
rsync -a --exclude target --exclude .git /repo/ "$W/repo/"
sed -i "s#path = \"/repo\"#path = \"$W/repo\"#" "$W/verif/harness/Cargo.toml"
sed -i "s#cp /repo/Cargo.lock#cp $W/repo/Cargo.lock#" "$W/verif/setup.sh"
mkdir -p "$W/verif/work"
echo "$W"
