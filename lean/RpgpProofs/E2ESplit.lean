import RpgpModel.E2E
import RpgpProofs.Message
/-! E2E, part 1: splitting a packet sequence `fixed* ‖ one data packet ‖ fixed*` (the shape of both
the signed level `OPS* literal SIG*` and the top level `ESK* SEIPD`). -/
namespace Rpgp.E2E
open Rpgp

/-- a packet as the builder writes the small ones: new-format header with a fixed length -/
def pkt (p : Nat × Bytes) : Bytes := fixedPkt p.1 p.2

theorem splitPackets_fixed_list :
    ∀ (pk : List (Nat × Bytes)) (rest : Bytes) (fuel : Nat) (tl : List (Nat × Bytes)),
    (∀ p ∈ pk, p.1 < 64 ∧ p.2.length < 4294967296) →
    splitPackets fuel rest = some tl →
    splitPackets (fuel + pk.length) ((pk.map pkt).flatten ++ rest) = some (pk ++ tl) := by
  intro pk
  induction pk with
  | nil => intro rest fuel tl _ h; simpa using h
  | cons p ps ih =>
    intro rest fuel tl hb h
    obtain ⟨ht, hb0⟩ := hb p (by simp)
    have ih' := ih rest fuel tl (fun x hx => hb x (by simp [hx])) h
    simp only [List.map_cons, List.flatten_cons, List.length_cons, List.append_assoc]
    rw [show fuel + (ps.length + 1) = (fuel + ps.length) + 1 by omega]
    unfold splitPackets
    have hne : pkt p ++ ((ps.map pkt).flatten ++ rest) ≠ [] := by
      simp [pkt, fixedPkt_ne_nil]
    simp only [hne, if_false]
    rw [show pkt p = fixedPkt p.1 p.2 from rfl, deframe_fixedPkt p.1 ht p.2 _ hb0]
    simp only [ih']
    simp

theorem pkts_length_ge (l : List (Nat × Bytes)) : 2 * l.length ≤ ((l.map pkt).flatten).length := by
  induction l with
  | nil => simp
  | cons a l ih =>
    have := fixedPkt_length_ge a.1 a.2
    simp only [List.map_cons, List.flatten_cons, List.length_append, List.length_cons, pkt] at ih ⊢
    omega

/-- `fixed* ‖ L ‖ fixed*` where `L` is any packet that deframes to `(tagL, body)` whatever follows -/
theorem splitPackets_around (pre post : List (Nat × Bytes)) (L body : Bytes) (tagL : Nat)
    (hpre : ∀ p ∈ pre, p.1 < 64 ∧ p.2.length < 4294967296)
    (hpost : ∀ p ∈ post, p.1 < 64 ∧ p.2.length < 4294967296)
    (hL : 2 ≤ L.length)
    (hd : ∀ rest, ∃ h, deframe (L ++ rest) = .ok (h, body, rest) ∧ h.tag = tagL) (extra : Nat) :
    splitPackets (((pre.map pkt).flatten ++ (L ++ (post.map pkt).flatten)).length + 1 + extra)
        ((pre.map pkt).flatten ++ (L ++ (post.map pkt).flatten)) =
      some (pre ++ (tagL, body) :: post) := by
  have h1 : splitPackets (1 + post.length) ((post.map pkt).flatten ++ []) = some (post ++ []) :=
    splitPackets_fixed_list post [] 1 [] hpost (by simp [splitPackets])
  simp only [List.append_nil] at h1
  obtain ⟨h, hdf, htag⟩ := hd ((post.map pkt).flatten)
  have h2 : splitPackets (1 + post.length + 1) (L ++ (post.map pkt).flatten) = some ((tagL, body) :: post) := by
    unfold splitPackets
    have hne : L ++ (post.map pkt).flatten ≠ [] := by
      intro he
      have := congrArg List.length he
      simp only [List.length_append, List.length_nil] at this; omega
    simp only [hne, if_false, hdf, h1, htag]
  have h3 := splitPackets_fixed_list pre _ _ _ hpre h2
  refine splitPackets_mono _ _ _ h3 _ ?_
  have a1 := pkts_length_ge pre
  have a2 := pkts_length_ge post
  simp only [List.length_append]
  omega

end Rpgp.E2E
