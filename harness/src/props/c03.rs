//! C03 — ciphertext integrity: a modified encrypted message never decrypts cleanly.
//!
//! Correspondence ops (model: RpgpModel/Seipd.lean, ops in RpgpModel/Ops/C03.lean):
//!   seipd2_dec cs=<n> info=<hex5> ct=<hex> rows=<i;total|-;off;len;pt|x,...>
//!       the model runs its `StreamDecryptor` state machine (window, one chunk per refill,
//!       decrypt_last) over `ct`; the AEAD primitive is a *table* (`rows`) of the open() calls an
//!       RFC 9580 reference decryptor makes on this ciphertext, evaluated here with the real
//!       primitive. Answer: ok:<plaintext> | err:<bytes released before the error> | err:norow
//!   seipd1_dec mode=cf|st bs=<n> max=<n> dec=<hex CFB-decrypted stream> hin=<hex> hout=<hex>
//!       the model runs the SEIPDv1 state machine (prefix, 22-byte hold-back, MDC check) on the
//!       decrypted stream; SHA-1 is a one-row table (hin -> hout).
//!
//! Oracle (property text): any change to the container => reading to the end fails, never a clean
//! EOF; CheckFirst releases nothing before the failure; SEIPDv2 released bytes are a prefix of the
//! true plaintext; the unmodified container decrypts to the plaintext (sanity).

use std::io::{BufRead, Read};

use bytes::BytesMut;
use pgp::composed::{Message, MessageBuilder, PlainSessionKey};
use pgp::crypto::aead::{AeadAlgorithm, ChunkSize};
use pgp::crypto::sym::SymmetricKeyAlgorithm;
use pgp::packet::{StreamDecryptor, SymEncryptedProtectedData, SymEncryptedProtectedDataConfig};
use pgp::types::Seipdv1ReadMode;
use rand::{Rng, SeedableRng};
use rand_chacha::ChaCha8Rng;
use sha1::{Digest, Sha1};

use crate::ctx::{guarded, hx, Ctx};
use crate::gen;

/// how the consumer reads
#[derive(Clone, Copy, Debug)]
pub enum Pattern {
    ReadToEnd,
    Fixed(usize),
    BufRead(usize),
    /// like `Fixed`, but the consumer keeps calling `read` (up to 6 more times) after an error:
    /// what is released afterwards counts, and a 0-byte read afterwards counts as a clean end
    PollOn(usize),
    /// like `Fixed`, with a zero-length `read(&mut [])` before every real read (a legal call that
    /// returns 0 without meaning end of data)
    ZeroMix(usize),
}

/// drain `r`; returns (bytes released, clean end?)
pub fn consume<R: Read + BufRead>(mut r: R, p: Pattern) -> (Vec<u8>, bool) {
    let mut out = Vec::new();
    match p {
        Pattern::ReadToEnd => {
            let ok = r.read_to_end(&mut out).is_ok();
            (out, ok)
        }
        Pattern::Fixed(n) => {
            let mut buf = vec![0u8; n.max(1)];
            loop {
                match r.read(&mut buf) {
                    Ok(0) => return (out, true),
                    Ok(k) => out.extend_from_slice(&buf[..k]),
                    Err(_) => return (out, false),
                }
            }
        }
        Pattern::ZeroMix(n) => {
            let mut buf = vec![0u8; n.max(1)];
            loop {
                match r.read(&mut []) {
                    Ok(_) => {}
                    Err(_) => return (out, false),
                }
                match r.read(&mut buf) {
                    Ok(0) => return (out, true),
                    Ok(k) => out.extend_from_slice(&buf[..k]),
                    Err(_) => return (out, false),
                }
            }
        }
        Pattern::PollOn(n) => {
            let mut buf = vec![0u8; n.max(1)];
            let mut errors = 0;
            loop {
                match std::panic::catch_unwind(std::panic::AssertUnwindSafe(|| r.read(&mut buf))) {
                    Ok(Ok(0)) => return (out, true),
                    Ok(Ok(k)) => out.extend_from_slice(&buf[..k]),
                    Ok(Err(_)) => {
                        errors += 1;
                        if errors > 6 {
                            return (out, false);
                        }
                    }
                    Err(_) => {
                        // a panic on a later poll: reported as released garbage so that every oracle trips
                        out.extend_from_slice(b"<PANIC ON POLL AFTER ERROR>");
                        return (out, true);
                    }
                }
            }
        }
        Pattern::BufRead(k) => loop {
            match r.fill_buf() {
                Ok(b) if b.is_empty() => return (out, true),
                Ok(b) => {
                    let n = b.len().min(k.max(1));
                    out.extend_from_slice(&b[..n]);
                    r.consume(n);
                }
                Err(_) => return (out, false),
            }
        },
    }
}

// ---------------------------------------------------------------------------------------------
// SEIPDv2
// ---------------------------------------------------------------------------------------------

pub struct V2Params {
    pub sym: SymmetricKeyAlgorithm,
    pub aead: AeadAlgorithm,
    pub cs_octet: u8,
    pub salt: [u8; 32],
    pub key: Vec<u8>,
}

impl V2Params {
    pub fn info(&self) -> [u8; 5] {
        [0xD2, 0x02, self.sym.into(), self.aead.into(), self.cs_octet]
    }
    pub fn cs(&self) -> usize {
        1usize << (self.cs_octet as usize + 6)
    }
    /// RFC 9580 5.13.2: HKDF-SHA256(salt, session key, info) -> message key || iv prefix
    pub fn derive(&self) -> Option<(Vec<u8>, Vec<u8>)> {
        let ks = self.sym.key_size();
        let ns = self.aead.nonce_size();
        if ns < 8 || ks == 0 {
            return None;
        }
        let hk = hkdf::Hkdf::<sha2::Sha256>::new(Some(&self.salt), &self.key);
        let mut okm = vec![0u8; ks + ns - 8];
        hk.expand(&self.info(), &mut okm).ok()?;
        let iv = okm[ks..].to_vec();
        okm.truncate(ks);
        Some((okm, iv))
    }
}

/// the primitive: open(index, ad, segment)
fn aead_open(p: &V2Params, mk: &[u8], iv: &[u8], idx: u64, ad: &[u8], seg: &[u8]) -> Option<Vec<u8>> {
    let mut nonce = iv.to_vec();
    nonce.extend_from_slice(&idx.to_be_bytes());
    let mut buf = BytesMut::from(seg);
    p.aead.decrypt_in_place(&p.sym, mk, &nonce, ad, &mut buf).ok()?;
    Some(buf.to_vec())
}

/// RFC reference decryptor over the whole ciphertext; records every open() it makes.
/// Returns (rows, accepted plaintext if the whole thing verifies)
fn v2_reference(p: &V2Params, ct: &[u8]) -> (String, Option<Vec<u8>>) {
    let Some((mk, iv)) = p.derive() else { return ("-".into(), None) };
    let mut rows: Vec<String> = Vec::new();
    if ct.len() < 16 {
        return ("-".into(), None);
    }
    let body_len = ct.len() - 16;
    let step = p.cs() + 16;
    let info = p.info();
    let mut off = 0usize;
    let mut idx = 0u64;
    let mut pt = Vec::new();
    let mut all_ok = true;
    while off < body_len {
        let len = step.min(body_len - off);
        match aead_open(p, &mk, &iv, idx, &info, &ct[off..off + len]) {
            Some(c) => {
                rows.push(format!("{idx};-;{off};{len};{}", hx(&c)));
                pt.extend_from_slice(&c);
            }
            None => {
                rows.push(format!("{idx};-;{off};{len};x"));
                all_ok = false;
                break;
            }
        }
        off += len;
        idx += 1;
    }
    let mut accepted = None;
    if all_ok {
        let mut ad = info.to_vec();
        ad.extend_from_slice(&(pt.len() as u64).to_be_bytes());
        match aead_open(p, &mk, &iv, idx, &ad, &ct[body_len..]) {
            Some(c) => {
                rows.push(format!("{idx};{};{body_len};16;{}", pt.len(), hx(&c)));
                accepted = Some(pt);
            }
            None => rows.push(format!("{idx};{};{body_len};16;x", pt.len())),
        }
    }
    (if rows.is_empty() { "-".into() } else { rows.join(",") }, accepted)
}

fn v2_real(p: &V2Params, ct: &[u8], pat: Pattern) -> (Vec<u8>, bool) {
    let r = guarded(|| {
        let Ok(cs) = ChunkSize::try_from(p.cs_octet) else { return (vec![], false) };
        match StreamDecryptor::v2(p.sym, p.aead, cs, &p.salt, &p.key, ct) {
            Ok(d) => consume(d, pat),
            Err(_) => (vec![], false),
        }
    });
    r.unwrap_or((b"PANIC".to_vec(), false))
}

fn show(r: &(Vec<u8>, bool)) -> String {
    format!("{}:{}", if r.1 { "ok" } else { "err" }, hx(&r.0))
}

fn v2_case(ctx: &mut Ctx, p: &V2Params, honest: &[u8], pt: &[u8], ct: &[u8], what: &str, pat: Pattern, modified: bool) {
    let (rows, _acc) = v2_reference(p, ct);
    let real = v2_real(p, ct, pat);
    let req = format!("seipd2_dec cs={} info={} ct={} rows={}", p.cs(), hx(&p.info()), hx(ct), rows);
    ctx.case(req, show(&real));
    ctx.stat(&format!("v2:{what}"));
    let input = format!("aead={:?} sym={:?} cs={} pat={:?} what={what} ct={} honest={}", p.aead, p.sym, p.cs(), pat, hx(ct), hx(honest));
    if modified {
        ctx.oracle("modified_never_clean_eof", "crypto/aead/decryptor.rs StreamDecryptor (SEIPDv2)", &input, !real.1, &show(&real));
        ctx.oracle("released_is_prefix", "crypto/aead/decryptor.rs StreamDecryptor (SEIPDv2)", &input, pt.starts_with(&real.0), &show(&real));
    } else {
        ctx.oracle("unmodified_decrypts", "crypto/aead/decryptor.rs StreamDecryptor (SEIPDv2)", &input, real.1 && real.0 == pt, &show(&real));
    }
}

fn run_v2(ctx: &mut Ctx) {
    let modes = [AeadAlgorithm::Eax, AeadAlgorithm::Ocb, AeadAlgorithm::Gcm];
    let syms = [SymmetricKeyAlgorithm::AES128, SymmetricKeyAlgorithm::AES256, SymmetricKeyAlgorithm::AES192];
    let pats = [Pattern::ReadToEnd, Pattern::Fixed(1), Pattern::Fixed(7), Pattern::Fixed(64), Pattern::BufRead(3), Pattern::BufRead(1000), Pattern::PollOn(64), Pattern::PollOn(5), Pattern::ZeroMix(33)];
    let mut rng = ChaCha8Rng::seed_from_u64(ctx.seed ^ 0xC03);
    // many chunks: the chunk index outgrows one octet (256, 257 ... chunks), and the last chunk of such
    // a message is touched / the stream is cut at chunk boundaries past index 255
    for (mi, aead) in modes.iter().enumerate() {
        let cs = 64usize;
        for nchunks in [255usize, 256, 257, 300] {
            let n = nchunks * cs - 11 * (mi % 2);
            let key = gen::random_bytes(&mut rng, 16);
            let pt = gen::random_bytes(&mut rng, n);
            let Ok(pkt) = SymEncryptedProtectedData::encrypt_seipdv2(&mut rng, SymmetricKeyAlgorithm::AES128, *aead, ChunkSize::C64B, &key, &pt) else { continue };
            let SymEncryptedProtectedDataConfig::V2 { salt, .. } = pkt.config() else { continue };
            let p = V2Params { sym: SymmetricKeyAlgorithm::AES128, aead: *aead, cs_octet: 0, salt: *salt, key: key.clone() };
            let ct = pkt.data().to_vec();
            v2_case(ctx, &p, &ct, &pt, &ct, "many_chunks", pats[(mi + nchunks) % pats.len()], false);
            let mut m = ct.clone();
            let at = ct.len() - 16 - 40;
            m[at] ^= 0x10;
            v2_case(ctx, &p, &ct, &pt, &m, "many_chunks_flip_late", Pattern::ReadToEnd, true);
            let cut = 256 * 80;
            if cut < ct.len() {
                v2_case(ctx, &p, &ct, &pt, &ct[..cut], "many_chunks_cut_after_256", Pattern::Fixed(64), true);
            }
        }
    }
    let cs_octets: &[u8] = if ctx.thorough() { &[0, 1, 2] } else { &[0, 1] };
    let mut combo = 0usize;
    for &cs_octet in cs_octets {
        let cs = 1usize << (cs_octet as usize + 6);
        let lens = [0usize, 1, cs - 1, cs, cs + 1, 2 * cs - 1, 2 * cs, 2 * cs + 1, 3 * cs, 3 * cs + 5, 4 * cs, 6 * cs, 8 * cs + 3, 9 * cs];
        for &n in &lens {
            combo += 1;
            let aead = modes[combo % 3];
            let sym = syms[(combo / 3) % if ctx.thorough() { 3 } else { 2 }];
            let key = gen::random_bytes(&mut rng, sym.key_size());
            let pt = gen::random_bytes(&mut rng, n);
            let Ok(cs_enum) = ChunkSize::try_from(cs_octet) else { continue };
            let Ok(pkt) = SymEncryptedProtectedData::encrypt_seipdv2(&mut rng, sym, aead, cs_enum, &key, &pt) else {
                ctx.oracle("encrypts", "SymEncryptedProtectedData::encrypt_seipdv2", &format!("n={n}"), false, "encrypt failed");
                continue;
            };
            let SymEncryptedProtectedDataConfig::V2 { salt, .. } = pkt.config() else { continue };
            let p = V2Params { sym, aead, cs_octet, salt: *salt, key: key.clone() };
            let ct = pkt.data().to_vec();
            // unmodified, all consumer patterns
            for &pat in &pats {
                v2_case(ctx, &p, &ct, &pt, &ct, "honest", pat, false);
            }
            // bit flips: every byte (quick: one random bit per byte; thorough: all bits for small)
            for i in 0..ct.len() {
                let bits: Vec<u8> = if ctx.thorough() && ct.len() <= 120 { (0..8).collect() } else { vec![rng.gen_range(0..8)] };
                if !ctx.thorough() && ct.len() > 150 && i % 5 != 0 && i > 40 && i + 40 < ct.len() {
                    continue;
                }
                for b in bits {
                    let mut m = ct.clone();
                    m[i] ^= 1 << b;
                    v2_case(ctx, &p, &ct, &pt, &m, "bitflip", pats[(i + b as usize) % pats.len()], true);
                }
            }
            // truncation at every offset
            for t in 0..ct.len() {
                if !ctx.thorough() && ct.len() > 150 && t % 7 != 0 && t > 20 && t + 36 < ct.len() {
                    continue;
                }
                v2_case(ctx, &p, &ct, &pt, &ct[..t], "truncate", pats[t % pats.len()], true);
            }
            // appended bytes
            for extra in [1usize, 15, 16, 17, cs + 16] {
                let mut m = ct.clone();
                m.extend(gen::random_bytes(&mut rng, extra));
                v2_case(ctx, &p, &ct, &pt, &m, "append", pats[extra % pats.len()], true);
            }
            // insertion / deletion of 1..17 octets at chunk boundaries, before the final tag and at
            // random positions ("any change to the encrypted container")
            {
                let step = cs + 16;
                let mut positions: Vec<usize> = (0..=ct.len()).step_by(step).collect();
                positions.push(ct.len().saturating_sub(16));
                positions.push(ct.len());
                for _ in 0..3 {
                    positions.push(rng.gen_range(0..=ct.len()));
                }
                positions.sort_unstable();
                positions.dedup();
                for (pi, &pos) in positions.iter().enumerate() {
                    for k in [1usize, 15, 16, 17] {
                        // insert random octets, and insert a copy of the final tag
                        let mut m = ct[..pos].to_vec();
                        m.extend(gen::random_bytes(&mut rng, k));
                        m.extend_from_slice(&ct[pos..]);
                        v2_case(ctx, &p, &ct, &pt, &m, "insert", pats[(pi + k) % pats.len()], true);
                        if k == 16 && ct.len() >= 16 {
                            let mut m = ct[..pos].to_vec();
                            m.extend_from_slice(&ct[ct.len() - 16..]);
                            m.extend_from_slice(&ct[pos..]);
                            v2_case(ctx, &p, &ct, &pt, &m, "insert_tag_copy", pats[pi % pats.len()], true);
                        }
                        // delete k octets starting at pos
                        if pos + k <= ct.len() {
                            let mut m = ct[..pos].to_vec();
                            m.extend_from_slice(&ct[pos + k..]);
                            v2_case(ctx, &p, &ct, &pt, &m, "delete", pats[(pi + k + 1) % pats.len()], true);
                        }
                    }
                }
            }
            // chunk drop / duplicate / reorder (chunks of cs+16, final tag last)
            let step = cs + 16;
            let nchunks = (ct.len() - 16).div_ceil(step);
            // (every transposition of up to ten chunks: equal-sized chunks far apart as well as neighbours)
            if nchunks >= 2 && nchunks <= 10 {
                let chunks: Vec<&[u8]> = (0..nchunks).map(|i| &ct[i * step..((i + 1) * step).min(ct.len() - 16)]).collect();
                let tag = &ct[ct.len() - 16..];
                let mut perms: Vec<Vec<usize>> = Vec::new();
                // drops, duplicates, swaps
                for i in 0..nchunks {
                    perms.push((0..nchunks).filter(|&j| j != i).collect());
                    let mut d: Vec<usize> = (0..nchunks).collect();
                    d.insert(i, i);
                    perms.push(d);
                    for j in i + 1..nchunks {
                        let mut s: Vec<usize> = (0..nchunks).collect();
                        s.swap(i, j);
                        perms.push(s);
                    }
                }
                for (k, perm) in perms.iter().enumerate() {
                    let mut m = Vec::new();
                    for &i in perm {
                        m.extend_from_slice(chunks[i]);
                    }
                    m.extend_from_slice(tag);
                    if m != ct {
                        v2_case(ctx, &p, &ct, &pt, &m, "chunk_permute", pats[k % pats.len()], true);
                    }
                }
            }
            // header fields: cipher / aead / chunk size / salt
            let mut alts: Vec<V2Params> = Vec::new();
            for a in modes {
                if a != aead {
                    alts.push(V2Params { sym, aead: a, cs_octet, salt: *salt, key: key.clone() });
                }
            }
            for c in [cs_octet ^ 1, cs_octet + 2] {
                alts.push(V2Params { sym, aead, cs_octet: c, salt: *salt, key: key.clone() });
            }
            let mut s2 = *salt;
            s2[rng.gen_range(0..32)] ^= 1 << rng.gen_range(0..8);
            alts.push(V2Params { sym, aead, cs_octet, salt: s2, key: key.clone() });
            for s in syms {
                if s != sym && s.key_size() == sym.key_size() {
                    alts.push(V2Params { sym: s, aead, cs_octet, salt: *salt, key: key.clone() });
                }
            }
            for (k, alt) in alts.iter().enumerate() {
                v2_case(ctx, alt, &ct, &pt, &ct, "header_field", pats[k % pats.len()], true);
            }
        }
    }
}

// ---------------------------------------------------------------------------------------------
// SEIPDv1
// ---------------------------------------------------------------------------------------------

fn cfb_decrypt(sym: SymmetricKeyAlgorithm, key: &[u8], ct: &[u8]) -> Option<Vec<u8>> {
    use cfb_mode::cipher::KeyIvInit;
    let mut buf = ct.to_vec();
    match sym {
        SymmetricKeyAlgorithm::AES128 => {
            let mut d = cfb_mode::BufDecryptor::<aes::Aes128>::new_from_slices(key, &[0u8; 16]).ok()?;
            d.decrypt(&mut buf);
        }
        SymmetricKeyAlgorithm::AES256 => {
            let mut d = cfb_mode::BufDecryptor::<aes::Aes256>::new_from_slices(key, &[0u8; 16]).ok()?;
            d.decrypt(&mut buf);
        }
        SymmetricKeyAlgorithm::CAST5 => {
            let mut d = cfb_mode::BufDecryptor::<cast5::Cast5>::new_from_slices(key, &[0u8; 8]).ok()?;
            d.decrypt(&mut buf);
        }
        _ => return None,
    }
    Some(buf)
}

fn v1_real(sym: SymmetricKeyAlgorithm, mode: Seipdv1ReadMode, key: &[u8], ct: &[u8], pat: Pattern) -> (Vec<u8>, bool) {
    let r = guarded(|| match StreamDecryptor::v1(sym, mode, key, ct) {
        Ok(d) => consume(d, pat),
        Err(_) => (vec![], false),
    });
    r.unwrap_or((b"PANIC".to_vec(), false))
}

#[allow(clippy::too_many_arguments)]
fn v1_case(ctx: &mut Ctx, sym: SymmetricKeyAlgorithm, key: &[u8], pt: &[u8], honest: &[u8], ct: &[u8], streaming: bool, max: usize, what: &str, pat: Pattern, modified: bool) {
    let bs = sym.block_size();
    let Some(dec) = cfb_decrypt(sym, key, ct) else { return };
    // the one SHA-1 evaluation of the RFC reference: over everything before the 20-byte digest
    let (hin, hout) = if dec.len() >= 20 {
        let hin = dec[..dec.len() - 20].to_vec();
        let h = Sha1::digest(&hin).to_vec();
        (hin, h)
    } else {
        (vec![], vec![])
    };
    let mode = if streaming { Seipdv1ReadMode::Streaming } else { Seipdv1ReadMode::CheckFirst { max_message_size: max } };
    let real = v1_real(sym, mode, key, ct, pat);
    let req = format!(
        "seipd1_dec mode={} bs={bs} max={max} dec={} hin={} hout={}",
        if streaming { "st" } else { "cf" }, hx(&dec), hx(&hin), hx(&hout)
    );
    // in check-first mode nothing is released on error: canonical answer err:-
    ctx.case(req, show(&real));
    ctx.stat(&format!("v1:{}:{what}", if streaming { "streaming" } else { "checkfirst" }));
    let input = format!("sym={sym:?} streaming={streaming} max={max} pat={pat:?} what={what} ct={} honest={}", hx(ct), hx(honest));
    let site = "crypto/sym/decryptor.rs StreamDecryptorInner (SEIPDv1)";
    if modified {
        ctx.oracle("modified_never_clean_eof", site, &input, !real.1, &show(&real));
        if !streaming {
            ctx.oracle("checkfirst_releases_nothing", site, &input, real.0.is_empty(), &show(&real));
        }
    } else {
        ctx.oracle("unmodified_decrypts", site, &input, real.1 && real.0 == pt, &show(&real));
    }
}

fn run_v1(ctx: &mut Ctx) {
    let syms = [SymmetricKeyAlgorithm::AES128, SymmetricKeyAlgorithm::CAST5, SymmetricKeyAlgorithm::AES256];
    let pats = [Pattern::ReadToEnd, Pattern::Fixed(1), Pattern::Fixed(64), Pattern::BufRead(5), Pattern::Fixed(8192), Pattern::PollOn(64), Pattern::PollOn(8192), Pattern::ZeroMix(100)];
    let mut rng = ChaCha8Rng::seed_from_u64(ctx.seed ^ 0xC031);
    let small: Vec<usize> = vec![0, 1, 2, 21, 22, 23, 40, 100];
    for (i, &n) in small.iter().enumerate() {
        let sym = syms[i % 3];
        let key = gen::random_bytes(&mut rng, sym.key_size());
        let pt = gen::random_bytes(&mut rng, n);
        let Ok(pkt) = SymEncryptedProtectedData::encrypt_seipdv1(&mut rng, sym, &key, &pt) else { continue };
        let ct = pkt.data().to_vec();
        for streaming in [false, true] {
            for &pat in &pats {
                v1_case(ctx, sym, &key, &pt, &ct, &ct, streaming, 1 << 20, "honest", pat, false);
            }
            for j in 0..ct.len() {
                let bits: Vec<u8> = if ctx.thorough() { (0..8).collect() } else { vec![rng.gen_range(0..8)] };
                for b in bits {
                    let mut m = ct.clone();
                    m[j] ^= 1 << b;
                    v1_case(ctx, sym, &key, &pt, &ct, &m, streaming, 1 << 20, "bitflip", pats[(j + b as usize) % pats.len()], true);
                }
            }
            for t in 0..ct.len() {
                v1_case(ctx, sym, &key, &pt, &ct, &ct[..t], streaming, 1 << 20, "truncate", pats[t % pats.len()], true);
            }
            for extra in [1usize, 2, 22, 23] {
                let mut m = ct.clone();
                m.extend(gen::random_bytes(&mut rng, extra));
                v1_case(ctx, sym, &key, &pt, &ct, &m, streaming, 1 << 20, "append", pats[extra % pats.len()], true);
            }
        }
        // size limit of check-first mode: exactly at / one below the limit
        let data_len = ct.len() - (sym.block_size() + 2);
        for max in [data_len, data_len.saturating_sub(1), data_len + 1] {
            let modified = max < data_len;
            v1_case(ctx, sym, &key, &pt, &ct, &ct, false, max, "size_limit", Pattern::ReadToEnd, modified);
        }
    }
    // around the 8 KiB internal buffer of the streaming mode (hold-back of 22 octets)
    let big: Vec<usize> = if ctx.thorough() {
        vec![8140, 8147, 8148, 8149, 8150, 8169, 8170, 8171, 8191, 8192, 8193, 16318, 16319, 16320, 16340, 16341, 24500]
    } else {
        vec![8148, 8169, 8170, 8171, 8192, 16319, 16340]
    };
    for (i, &n) in big.iter().enumerate() {
        let sym = syms[i % 2];
        let key = gen::random_bytes(&mut rng, sym.key_size());
        let pt = gen::random_bytes(&mut rng, n);
        let Ok(pkt) = SymEncryptedProtectedData::encrypt_seipdv1(&mut rng, sym, &key, &pt) else { continue };
        let ct = pkt.data().to_vec();
        for streaming in [true, false] {
            v1_case(ctx, sym, &key, &pt, &ct, &ct, streaming, 1 << 20, "honest_big", pats[i % pats.len()], false);
            for k in 0..6 {
                let pos = match k { 0 => 0, 1 => sym.block_size() + 1, 2 => ct.len() - 1, 3 => ct.len() - 23, 4 => 8191.min(ct.len() - 1), _ => rng.gen_range(0..ct.len()) };
                let mut m = ct.clone();
                m[pos] ^= 1 << rng.gen_range(0..8);
                v1_case(ctx, sym, &key, &pt, &ct, &m, streaming, 1 << 20, "bitflip_big", pats[k % pats.len()], true);
            }
            for cut in [1usize, 21, 22, 23, 8192] {
                if cut < ct.len() {
                    v1_case(ctx, sym, &key, &pt, &ct, &ct[..ct.len() - cut], streaming, 1 << 20, "truncate_big", pats[cut % pats.len()], true);
                }
            }
        }
    }
}

// ---------------------------------------------------------------------------------------------
// message level (oracle only): container produced by MessageBuilder, mutated as a whole
// ---------------------------------------------------------------------------------------------

fn message_decrypt(msg: &[u8], sk: PlainSessionKey) -> (Vec<u8>, bool) {
    let r = guarded(|| {
        let Ok((m, _)) = Message::from_reader(msg) else { return (vec![], false) };
        let Ok(mut d) = m.decrypt_with_session_key(sk) else { return (vec![], false) };
        let mut out = Vec::new();
        let ok = d.read_to_end(&mut out).is_ok();
        (out, ok)
    });
    r.unwrap_or((b"PANIC".to_vec(), false))
}

fn message_decrypt_pat(msg: &[u8], sk: PlainSessionKey, pat: Pattern) -> (Vec<u8>, bool) {
    let r = guarded(|| {
        let Ok((m, _)) = Message::from_reader(msg) else { return (vec![], false) };
        let Ok(d) = m.decrypt_with_session_key(sk) else { return (vec![], false) };
        consume(d, pat)
    });
    r.unwrap_or((b"PANIC".to_vec(), false))
}

/// containers whose plaintext is a literal packet FOLLOWED by other packets the reader skips
/// (RFC 9580 padding packets, marker packets): the part of the container behind the literal data
/// is covered by the same integrity protection, so a change there must fail the read as well
fn run_message_tail(ctx: &mut Ctx) {
    use pgp::packet::PacketTrait;
    let mut rng = ChaCha8Rng::seed_from_u64(ctx.seed ^ 0xC033);
    let pats = [Pattern::ReadToEnd, Pattern::Fixed(7), Pattern::BufRead(64), Pattern::PollOn(64), Pattern::ZeroMix(9)];
    let mut case = 0usize;
    for &n in &[0usize, 5, 56, 70, 120, 184] {
        for tail in [vec![], vec![(21u8, 0usize)], vec![(21, 10)], vec![(21, 300)], vec![(10, 3), (21, 150)], vec![(21, 70), (21, 70)]] {
            for (v2, lead) in [(true, false), (true, true), (false, false), (false, true)] {
                case += 1;
                let data = gen::random_bytes(&mut rng, n);
                let mut lit_body = vec![b'b', 0, 0, 0, 0, 0];
                lit_body.extend_from_slice(&data);
                let Some(mut inner) = crate::frame::frame_fixed(true, 11, if lit_body.len() < 192 { 1 } else { 2 }, &lit_body) else { continue };
                for (tag, len) in &tail {
                    let body = if *tag == 10 { b"PGP".to_vec() } else { gen::random_bytes(&mut rng, *len) };
                    let Some(p) = crate::frame::frame_fixed(true, *tag, if body.len() < 192 { 1 } else { 2 }, &body) else { continue };
                    inner.extend_from_slice(&p);
                }
                let key = gen::random_bytes(&mut rng, 16);
                let aead = [AeadAlgorithm::Ocb, AeadAlgorithm::Gcm, AeadAlgorithm::Eax][case % 3];
                let built = guarded(|| {
                    let pkt = if v2 {
                        SymEncryptedProtectedData::encrypt_seipdv2(&mut rng, SymmetricKeyAlgorithm::AES128, aead, ChunkSize::C64B, &key, &inner).ok()?
                    } else {
                        SymEncryptedProtectedData::encrypt_seipdv1(&mut rng, SymmetricKeyAlgorithm::AES128, &key, &inner).ok()?
                    };
                    let mut out = Vec::new();
                    pkt.to_writer_with_header(&mut out).ok()?;
                    Some(out)
                });
                let Ok(Some(msg)) = built else { continue };
                let sk = || if v2 { PlainSessionKey::V6 { key: key.clone().into() } } else { PlainSessionKey::V3_4 { sym_alg: SymmetricKeyAlgorithm::AES128, key: key.clone().into() } };
                let site = if v2 { "Message reader, SEIPDv2 container with packets after the literal data" } else { "Message reader, SEIPDv1 container with packets after the literal data" };
                let shape = format!("n={n} tail={tail:?}");
                // the same container behind a Marker packet (legal, PGP 5.x wrote it): nothing about the
                // integrity verdict may depend on it
                let marker: &[u8] = if lead { b"\xCA\x03PGP" } else { b"" };
                let seipd_only = msg.clone();
                let msg = [marker, &seipd_only[..]].concat();
                let shape = format!("{shape} lead_marker={lead}");
                let r0 = message_decrypt_pat(&msg, sk(), Pattern::ReadToEnd);
                if !(r0.1 && r0.0 == data) {
                    // (a reader that refuses this legal shape is not this property's subject)
                    ctx.stat("message_tail:unmodified_refused");
                    continue;
                }
                ctx.stat("message_tail:unmodified_ok");
                let hdr = msg.len() - crate::props::c17::real_deframe(&seipd_only).1.map(|(b, _)| b.len()).unwrap_or(0);
                // positions: every octet of the last 120 (the tail chunks, their tags, the final tag / MDC),
                // a stride over the rest
                let mut positions: Vec<usize> = (hdr..msg.len()).step_by(if ctx.thorough() { 1 } else { 5 }).collect();
                // (never inside the Marker packet: it is not part of the encrypted container)
                positions.extend(msg.len().saturating_sub(120).max(hdr)..msg.len());
                positions.sort_unstable();
                positions.dedup();
                for (pi, &j) in positions.iter().enumerate() {
                    let mut m = msg.clone();
                    m[j] ^= 1 << rng.gen_range(0..8);
                    let pat = pats[pi % pats.len()];
                    let r = message_decrypt_pat(&m, sk(), pat);
                    ctx.oracle("modified_never_clean_eof", site, &format!("{shape} pat={pat:?} flip@{j} msg={}", hx(&m)), !r.1, &show(&r));
                    ctx.stat("message_tail:bitflip");
                }
                // truncation of the container body (re-framed, so that the packet itself is well formed)
                if let (_, Some((body, _))) = crate::props::c17::real_deframe(&seipd_only) {
                    let reframe = |b: &[u8]| -> Option<Vec<u8>> {
                        let f = crate::frame::frame_fixed(true, 18, if b.len() < 192 { 1 } else if b.len() < 8384 { 2 } else { 5 }, b)?;
                        Some([marker, &f[..]].concat())
                    };
                    let cuts: Vec<usize> = if v2 { vec![16, 17, 32, 80, 96, 160] } else { vec![1, 2, 20, 22, 23] };
                    for (ci, cut) in cuts.into_iter().enumerate() {
                        if cut >= body.len() {
                            continue;
                        }
                        let Some(m) = reframe(&body[..body.len() - cut]) else { continue };
                        let pat = pats[ci % pats.len()];
                        let r = message_decrypt_pat(&m, sk(), pat);
                        ctx.oracle("modified_never_clean_eof", site, &format!("{shape} pat={pat:?} cut{cut} msg={}", hx(&m)), !r.1, &show(&r));
                        ctx.stat("message_tail:truncate");
                    }
                    // octets added INSIDE the container: behind the final tag / MDC, and (v2) the last
                    // full chunk written twice
                    let mut grown: Vec<(String, Vec<u8>)> = Vec::new();
                    for extra in [1usize, 16, 80, 96] {
                        let mut b = body.clone();
                        b.extend(gen::random_bytes(&mut rng, extra));
                        grown.push((format!("append{extra}"), b));
                    }
                    if v2 && body.len() >= 36 + 80 + 16 {
                        let ct = &body[36..];
                        let full = (ct.len() - 16) / 80;
                        if full >= 1 {
                            let last = &ct[(full - 1) * 80..full * 80];
                            let mut b = body[..36 + full * 80].to_vec();
                            b.extend_from_slice(last);
                            b.extend_from_slice(&ct[full * 80..]);
                            grown.push(("dup_last_full_chunk".to_string(), b));
                        }
                    }
                    for (gi, (what, b)) in grown.iter().enumerate() {
                        let Some(m) = reframe(b) else { continue };
                        let pat = pats[gi % pats.len()];
                        let r = message_decrypt_pat(&m, sk(), pat);
                        ctx.oracle("modified_never_clean_eof", site, &format!("{shape} pat={pat:?} {what} msg={}", hx(&m)), !r.1, &show(&r));
                        ctx.stat("message_tail:grow");
                    }
                }
            }
        }
    }
}

/// signed messages inside the container, and every entry point that "reads the stream to its end" on
/// behalf of the caller: `read_to_end`, `as_data_vec`, `as_data_string`, `verify_read` — with plaintext
/// lengths around a multiple of the chunk size (the last data chunk is then released before the final
/// tag is looked at), and modifications that only show behind the last plaintext octet
fn run_signed_inner(ctx: &mut Ctx) {
    use pgp::packet::PacketTrait;
    let mut rng = ChaCha8Rng::seed_from_u64(ctx.seed ^ 0xC035);
    let skey = crate::keys::eddsa_legacy_ecdh(&mut rng);
    let pkey = skey.to_public_key();
    let key = gen::random_bytes(&mut rng, 16);
    let site = "Message::{read_to_end, as_data_vec, as_data_string, verify_read} on a signed message inside SEIPDv2";
    let mut aligned = 0usize;
    for n in 0..ctx.pick(150usize, 400) {
        let data: Vec<u8> = (0..n).map(|i| b'a' + (i % 26) as u8).collect();
        let built = guarded(|| {
            let mut b = pgp::composed::MessageBuilder::from_bytes("", data.clone()).seipd_v2(&mut rng, SymmetricKeyAlgorithm::AES128, AeadAlgorithm::Ocb, ChunkSize::C64B);
            b.set_session_key(key.clone().into()).ok()?;
            let s2k = pgp::types::StringToKey::new_iterated(&mut rng, pgp::crypto::hash::HashAlgorithm::Sha256, 0);
            b.encrypt_with_password(&mut rng, s2k, &"pw".into()).ok()?;
            b.sign(&skey.primary_key, pgp::types::Password::empty(), pgp::crypto::hash::HashAlgorithm::Sha256);
            b.to_vec(&mut rng).ok()
        });
        let Ok(Some(msg)) = built else {
            ctx.stat("signed_inner:cannot_build");
            continue;
        };
        // locate the SEIPD packet (last packet) and its body
        let mut off = 0usize;
        let mut seipd_at = None;
        while off < msg.len() {
            let (_, Some((body, _))) = crate::props::c17::real_deframe(&msg[off..]) else { break };
            let total = {
                // header length = packet length - body length; the packet ends where the next begins
                let hdr = if msg[off + 1] < 192 { 2 } else if msg[off + 1] < 224 { 3 } else { 6 };
                hdr + body.len()
            };
            if msg[off] & 0x3f == 18 {
                seipd_at = Some((off, body.to_vec()));
            }
            off += total;
        }
        let Some((at, body)) = seipd_at else {
            ctx.stat("signed_inner:no_seipd_found");
            continue;
        };
        if body.len() < 52 {
            continue;
        }
        let is_aligned = (body.len() - 52) % 80 == 0;
        // all aligned lengths, and a few others
        if !is_aligned && n % 37 != 0 {
            continue;
        }
        if is_aligned {
            aligned += 1;
        }
        let prefix = msg[..at].to_vec();
        let reframe = |b: &[u8]| -> Option<Vec<u8>> {
            let f = crate::frame::frame_fixed(true, 18, if b.len() < 192 { 1 } else if b.len() < 8384 { 2 } else { 5 }, b)?;
            Some([&prefix[..], &f[..]].concat())
        };
        let sk = || PlainSessionKey::V6 { key: key.clone().into() };
        // entry points: (name, ended cleanly?)
        let run_all = |m: &[u8]| -> Vec<(&'static str, bool)> {
            let open = || -> Option<Message<'_>> {
                let (mm, _) = Message::from_reader(m).ok()?;
                mm.decrypt_with_session_key(sk()).ok()
            };
            let mut out = Vec::new();
            out.push(("read_to_end", guarded(|| open().map(|mut d| { let mut v = Vec::new(); d.read_to_end(&mut v).is_ok() }).unwrap_or(false)).unwrap_or(false)));
            out.push(("as_data_vec", guarded(|| open().map(|mut d| d.as_data_vec().is_ok()).unwrap_or(false)).unwrap_or(false)));
            out.push(("as_data_string", guarded(|| open().map(|mut d| d.as_data_string().is_ok()).unwrap_or(false)).unwrap_or(false)));
            out.push(("verify_read", guarded(|| open().map(|mut d| d.verify_read(&pkey).is_ok()).unwrap_or(false)).unwrap_or(false)));
            out
        };
        let honest = run_all(&msg);
        for (name, ok) in &honest {
            ctx.oracle("unmodified_reads", site, &format!("n={n} aligned={is_aligned} entry={name} msg={}", hx(&msg)), *ok, "the unmodified message does not read / verify");
        }
        let mut grown: Vec<(String, Vec<u8>)> = Vec::new();
        for extra in [1usize, 16, 63, 64, 80, 96, 160] {
            let mut b = body.clone();
            b.extend(gen::random_bytes(&mut rng, extra));
            grown.push((format!("append{extra}"), b));
        }
        let ct = &body[36..];
        let full = (ct.len() - 16) / 80;
        if full >= 1 {
            let last = &ct[(full - 1) * 80..full * 80];
            let mut b = body[..36 + full * 80].to_vec();
            b.extend_from_slice(last);
            b.extend_from_slice(&ct[full * 80..]);
            grown.push(("dup_last_full_chunk".to_string(), b));
        }
        {
            let mut b = body.clone();
            b.extend_from_slice(&body[body.len() - 16..]);
            grown.push(("final_tag_twice".to_string(), b));
            let mut b = body.clone();
            for _ in 0..5 {
                b.extend_from_slice(&body[body.len() - 16..]);
            }
            grown.push(("final_tag_six_times".to_string(), b));
            let mut b = body.clone();
            let l = b.len();
            b[l - 1] ^= 1;
            grown.push(("final_tag_flipped".to_string(), b));
            grown.push(("final_tag_cut".to_string(), body[..body.len() - 16].to_vec()));
        }
        for (what, b) in &grown {
            let Some(m) = reframe(b) else { continue };
            for (name, ok) in run_all(&m) {
                ctx.oracle("modified_never_clean_eof", site, &format!("n={n} aligned={is_aligned} {what} entry={name} msg={}", hx(&m)), !ok, "read to the end / verified although the container was modified");
                ctx.stat("signed_inner:modified");
            }
        }
    }
    ctx.stat_n("signed_inner:chunk_aligned_plaintexts", aligned as u64);
}

fn run_message(ctx: &mut Ctx) {
    let mut rng = ChaCha8Rng::seed_from_u64(ctx.seed ^ 0xC032);
    // header octets of SEIPDv2 containers written with other chunk sizes (incl. the largest, 4 MiB):
    // every bit of version / cipher / AEAD / chunk-size / salt octets
    for (ci, cs) in [ChunkSize::C4MiB, ChunkSize::C2MiB, ChunkSize::C128B, ChunkSize::C4KiB].into_iter().enumerate() {
        let pt = gen::random_bytes(&mut rng, 5 + ci);
        let key = gen::random_bytes(&mut rng, 16);
        let built = guarded(|| {
            let mut b = MessageBuilder::from_bytes("", pt.clone()).seipd_v2(&mut rng, SymmetricKeyAlgorithm::AES128, [AeadAlgorithm::Ocb, AeadAlgorithm::Gcm, AeadAlgorithm::Eax][ci % 3], cs);
            b.set_session_key(key.clone().into()).ok()?;
            b.to_vec(&mut rng).ok()
        });
        let Ok(Some(msg)) = built else { continue };
        let site = "Message::decrypt_with_session_key (SEIPDv2 container header)";
        let sk = || PlainSessionKey::V6 { key: key.clone().into() };
        let r = message_decrypt(&msg, sk());
        ctx.oracle("unmodified_decrypts", site, &format!("cs={cs:?} msg={}", hx(&msg)), r.1 && r.0 == pt, &show(&r));
        for j in 0..msg.len().min(48) {
            for b in 0..8 {
                let mut m = msg.clone();
                m[j] ^= 1 << b;
                let r = message_decrypt(&m, sk());
                ctx.oracle("modified_never_clean_eof", site, &format!("cs={cs:?} flip@{j}.{b} msg={}", hx(&m)), !r.1, &show(&r));
                ctx.stat("message:header_bitflip");
            }
        }
    }
    let sizes = [0usize, 1, 63, 64, 65, 600];
    for (i, &n) in sizes.iter().enumerate() {
        for v2 in [false, true] {
            let pt = gen::random_bytes(&mut rng, n);
            let key = gen::random_bytes(&mut rng, 16);
            let built = guarded(|| {
                if v2 {
                    let mut b = MessageBuilder::from_bytes("", pt.clone()).seipd_v2(&mut rng, SymmetricKeyAlgorithm::AES128, [AeadAlgorithm::Ocb, AeadAlgorithm::Gcm, AeadAlgorithm::Eax][i % 3], ChunkSize::C64B);
                    b.set_session_key(key.clone().into()).ok()?;
                    b.to_vec(&mut rng).ok()
                } else {
                    let mut b = MessageBuilder::from_bytes("", pt.clone()).seipd_v1(&mut rng, SymmetricKeyAlgorithm::AES128);
                    b.set_session_key(key.clone().into()).ok()?;
                    b.to_vec(&mut rng).ok()
                }
            });
            let Ok(Some(msg)) = built else {
                ctx.oracle("builder_encrypts", "MessageBuilder seipd", &format!("v2={v2} n={n}"), false, "failed");
                continue;
            };
            let sk = || if v2 { PlainSessionKey::V6 { key: key.clone().into() } } else { PlainSessionKey::V3_4 { sym_alg: SymmetricKeyAlgorithm::AES128, key: key.clone().into() } };
            let site = if v2 { "Message::decrypt_with_session_key (SEIPDv2 container)" } else { "Message::decrypt_with_session_key (SEIPDv1 container)" };
            let r = message_decrypt(&msg, sk());
            ctx.oracle("unmodified_decrypts", site, &format!("msg={}", hx(&msg)), r.1 && r.0 == pt, &show(&r));
            let stride = if ctx.thorough() { 1 } else { (msg.len() / 120).max(1) };
            for j in (0..msg.len()).step_by(stride) {
                let mut m = msg.clone();
                m[j] ^= 1 << rng.gen_range(0..8);
                let r = message_decrypt(&m, sk());
                ctx.oracle("modified_never_clean_eof", site, &format!("flip@{j} msg={}", hx(&m)), !r.1, &show(&r));
                if !v2 {
                    ctx.oracle("checkfirst_releases_nothing", site, &format!("flip@{j} msg={}", hx(&m)), r.0.is_empty(), &show(&r));
                } else {
                    ctx.oracle("released_is_prefix", site, &format!("flip@{j} msg={}", hx(&m)), pt.starts_with(&r.0), &show(&r));
                }
                ctx.stat("message:bitflip");
            }
            for t in (0..msg.len()).step_by(stride) {
                let r = message_decrypt(&msg[..t], sk());
                ctx.oracle("modified_never_clean_eof", site, &format!("trunc@{t} msg={}", hx(&msg[..t])), !r.1, &show(&r));
                ctx.stat("message:truncate");
            }
            // the container's header declares MORE octets than follow (a truncation, seen from the
            // header), read in CheckFirst mode with the cap around the amount that is present: the
            // cap probe must not take the reader's failure for the end of the data
            if !v2 {
                if let (_, Some((body, _))) = crate::props::c17::real_deframe(&msg) {
                    for over in [1usize, 3, 40] {
                        let declared = body.len() + over;
                        let mut m = vec![0xC0 | 18];
                        m.extend(crate::frame::new_len_min(declared));
                        m.extend_from_slice(&body);
                        // body = version octet + ciphertext
                        let ct_len = body.len() - 1;
                        let mut caps: Vec<usize> = (ct_len.saturating_sub(24)..=ct_len + 3).collect();
                        caps.extend([1 << 20]);
                        for max in caps {
                            let r = guarded(|| {
                                use pgp::composed::{DecryptionOptions, TheRing};
                                let Ok(mm) = Message::from_bytes(&m[..]) else { return (vec![], false) };
                                let opts = DecryptionOptions::new().set_seipdv1_read_mode(Seipdv1ReadMode::CheckFirst { max_message_size: max });
                                let ring = TheRing { secret_keys: vec![], key_passwords: vec![], message_password: vec![], session_keys: vec![sk()], decrypt_options: opts };
                                let Ok((d, _)) = mm.decrypt_the_ring(ring, true) else { return (vec![], false) };
                                consume(d, Pattern::ReadToEnd)
                            });
                            let r = r.unwrap_or((b"PANIC".to_vec(), true));
                            let input = format!("declared={declared} present={} max_message_size={max} msg={}", body.len(), hx(&m));
                            ctx.oracle("modified_never_clean_eof", "Message::decrypt_the_ring (SEIPDv1, header declares more than follows, CheckFirst)", &input, !r.1, &show(&r));
                            ctx.oracle("checkfirst_releases_nothing", "Message::decrypt_the_ring (SEIPDv1, header declares more than follows, CheckFirst)", &input, r.0.is_empty(), &show(&r));
                            ctx.stat("message:overdeclared_checkfirst");
                        }
                    }
                }
            }
            // appended bytes *inside* the container: re-frame the packet body with extra octets
            if let (_, Some((body, _))) = crate::props::c17::real_deframe(&msg) {
                for extra in [1usize, 2, 16, 22] {
                    let mut b = body.clone();
                    b.extend(gen::random_bytes(&mut rng, extra));
                    let Some(m) = crate::frame::frame_fixed(true, 18, if b.len() < 192 { 1 } else if b.len() < 8384 { 2 } else { 5 }, &b) else { continue };
                    let r = message_decrypt(&m, sk());
                    ctx.oracle("modified_never_clean_eof", site, &format!("append{extra} msg={}", hx(&m)), !r.1, &show(&r));
                    ctx.stat("message:append_inside");
                }
            }
        }
    }
}

/// an encrypted message inside an encrypted message (RFC 9580 10.3 allows it; also compressed in
/// between): changes to the OUTER container that only show behind its last plaintext octet — octets
/// added behind the final tag, the last chunk written twice, a whole chunk appended — while the inner
/// container is a whole number of outer chunks (so the inner layer never reads past them) (oracle only)
fn run_nested(ctx: &mut Ctx) {
    let mut rng = ChaCha8Rng::seed_from_u64(ctx.seed ^ 0xC03E);
    let inner_key = gen::random_bytes(&mut rng, 16);
    let outer_key = gen::random_bytes(&mut rng, 16);
    let site = "Message::decrypt_with_session_key twice (encrypted message inside an encrypted message)";
    for outer_v2 in [true, false] {
        for inner_v2 in [true, false] {
            // find a payload length for which the inner message is a whole number of 64-octet chunks
            let mut found: Option<(Vec<u8>, Vec<u8>)> = None;
            for n in 100usize..260 {
                let pt = gen::random_bytes(&mut rng, n);
                let built = guarded(|| {
                    if inner_v2 {
                        let mut b = MessageBuilder::from_bytes("", pt.clone()).seipd_v2(&mut rng, SymmetricKeyAlgorithm::AES128, AeadAlgorithm::Ocb, ChunkSize::C64B);
                        b.set_session_key(inner_key.clone().into()).ok()?;
                        b.to_vec(&mut rng).ok()
                    } else {
                        let mut b = MessageBuilder::from_bytes("", pt.clone()).seipd_v1(&mut rng, SymmetricKeyAlgorithm::AES128);
                        b.set_session_key(inner_key.clone().into()).ok()?;
                        b.to_vec(&mut rng).ok()
                    }
                });
                if let Ok(Some(m)) = built {
                    if m.len() % 64 == 0 || (n == 259) {
                        found = Some((pt, m));
                        break;
                    }
                }
            }
            let Some((pt, inner)) = found else { continue };
            // the outer container around the inner message, by the packet-level API
            let outer_body: Option<Vec<u8>> = if outer_v2 {
                guarded(|| SymEncryptedProtectedData::encrypt_seipdv2(&mut rng, SymmetricKeyAlgorithm::AES128, AeadAlgorithm::Ocb, ChunkSize::C64B, &outer_key, &inner)).ok().and_then(|r| r.ok()).map(|pkt| {
                    let mut b = vec![2u8, 7, 2, 0];
                    if let SymEncryptedProtectedDataConfig::V2 { salt, .. } = pkt.config() {
                        b.extend_from_slice(salt);
                    }
                    b.extend_from_slice(pkt.data());
                    b
                })
            } else {
                guarded(|| SymEncryptedProtectedData::encrypt_seipdv1(&mut rng, SymmetricKeyAlgorithm::AES128, &outer_key, &inner)).ok().and_then(|r| r.ok()).map(|pkt| {
                    let mut b = vec![1u8];
                    b.extend_from_slice(pkt.data());
                    b
                })
            };
            let Some(outer_body) = outer_body else { continue };
            let frame = |body: &[u8]| crate::frame::frame_fixed(true, 18, if body.len() < 192 { 1 } else if body.len() < 8384 { 2 } else { 5 }, body).unwrap_or_default();
            let sk_outer = || if outer_v2 { PlainSessionKey::V6 { key: outer_key.clone().into() } } else { PlainSessionKey::V3_4 { sym_alg: SymmetricKeyAlgorithm::AES128, key: outer_key.clone().into() } };
            let sk_inner = || if inner_v2 { PlainSessionKey::V6 { key: inner_key.clone().into() } } else { PlainSessionKey::V3_4 { sym_alg: SymmetricKeyAlgorithm::AES128, key: inner_key.clone().into() } };
            let read = |msg: &[u8], streaming: bool| -> (Vec<u8>, bool) {
                let r = guarded(|| {
                    use pgp::composed::{DecryptionOptions, TheRing};
                    let Ok(m) = Message::from_bytes(msg) else { return (vec![], false) };
                    let mode = if streaming { Seipdv1ReadMode::Streaming } else { Seipdv1ReadMode::CheckFirst { max_message_size: 1 << 24 } };
                    let ring = |sk: PlainSessionKey| TheRing { secret_keys: vec![], key_passwords: vec![], message_password: vec![], session_keys: vec![sk], decrypt_options: DecryptionOptions::new().set_seipdv1_read_mode(mode) };
                    let Ok((m1, _)) = m.decrypt_the_ring(ring(sk_outer()), true) else { return (vec![], false) };
                    let Ok((m2, _)) = m1.decrypt_the_ring(ring(sk_inner()), true) else { return (vec![], false) };
                    consume(m2, Pattern::ReadToEnd)
                });
                r.unwrap_or((b"PANIC".to_vec(), true))
            };
            let shape = format!("outer={} inner={} inner_len={} (mod 64 = {})", if outer_v2 { "v2" } else { "v1" }, if inner_v2 { "v2" } else { "v1" }, inner.len(), inner.len() % 64);
            for streaming in [false, true] {
                let honest = frame(&outer_body);
                let r = read(&honest, streaming);
                ctx.oracle("unmodified_decrypts", site, &format!("{shape} streaming={streaming} msg={}", hx(&honest)), r.1 && r.0 == pt, &show(&r));
                let hdr = if outer_v2 { 36usize } else { 1 };
                let mut variants: Vec<(String, Vec<u8>)> = Vec::new();
                for extra in [1usize, 16, 64, 80, 160] {
                    let mut b = outer_body.clone();
                    b.extend(gen::random_bytes(&mut rng, extra));
                    variants.push((format!("append{extra}_behind_the_end"), b));
                }
                if outer_v2 && outer_body.len() >= hdr + 80 + 16 {
                    // the last full chunk written twice; a copy of the first chunk behind the last one
                    let n = outer_body.len();
                    let last = outer_body[n - 16 - 80..n - 16].to_vec();
                    let mut b = outer_body[..n - 16].to_vec();
                    b.extend_from_slice(&last);
                    b.extend_from_slice(&outer_body[n - 16..]);
                    variants.push(("last_chunk_twice".into(), b));
                    let mut b = outer_body[..n - 16].to_vec();
                    b.extend_from_slice(&outer_body[hdr..hdr + 80]);
                    b.extend_from_slice(&outer_body[n - 16..]);
                    variants.push(("first_chunk_again_at_the_end".into(), b));
                    let mut b = outer_body.clone();
                    b[n - 1] ^= 1;
                    variants.push(("flip_final_tag".into(), b));
                    variants.push(("drop_final_tag".into(), outer_body[..n - 16].to_vec()));
                }
                if !outer_v2 {
                    let n = outer_body.len();
                    let mut b = outer_body.clone();
                    b[n - 1] ^= 1;
                    variants.push(("flip_mdc".into(), b));
                    variants.push(("cut_mdc".into(), outer_body[..n - 22].to_vec()));
                }
                for (what, b) in variants {
                    let m = frame(&b);
                    let r = read(&m, streaming);
                    ctx.oracle("modified_never_clean_eof", site, &format!("{shape} streaming={streaming} what={what} msg={}", hx(&m)), !r.1, &show(&r));
                    ctx.stat("nested");
                }
            }
        }
    }
}

/// every cipher a container can name (the decryptors dispatch per cipher; the RFC reference used for
/// the correspondence exists for AES / CAST5 only): honest round trip, then a fixed set of changes to
/// the ciphertext, under both SEIPDv1 read modes and the three AEAD modes (oracle only)
fn run_cipher_sweep(ctx: &mut Ctx) {
    use SymmetricKeyAlgorithm as S;
    let mut rng = ChaCha8Rng::seed_from_u64(ctx.seed ^ 0xC03C);
    let pats = [Pattern::ReadToEnd, Pattern::Fixed(1), Pattern::Fixed(64), Pattern::BufRead(5), Pattern::PollOn(64), Pattern::ZeroMix(33), Pattern::Fixed(8192)];
    let mods = |ct: &[u8], rng: &mut ChaCha8Rng| -> Vec<(String, Vec<u8>)> {
        let n = ct.len();
        let mut out: Vec<(String, Vec<u8>)> = Vec::new();
        let mut flip = |name: &str, at: usize, bit: u8| {
            if at < n {
                let mut m = ct.to_vec();
                m[at] ^= 1 << bit;
                out.push((format!("{name}@{at}"), m));
            }
        };
        flip("flip_first", 0, 0);
        flip("flip_prefix", 9.min(n.saturating_sub(1)), 7);
        flip("flip_mid", n / 2, rng.gen_range(0..8));
        flip("flip_random", rng.gen_range(0..n.max(1)), rng.gen_range(0..8));
        flip("flip_tail21", n.saturating_sub(21), 1);
        flip("flip_tail16", n.saturating_sub(16), 3);
        flip("flip_last", n.saturating_sub(1), 0);
        if n > 0 {
            out.push(("cut1".into(), ct[..n - 1].to_vec()));
            out.push(("cut_half".into(), ct[..n / 2].to_vec()));
            out.push((format!("cut_random"), ct[..rng.gen_range(0..n)].to_vec()));
        }
        if n > 22 {
            out.push(("cut22".into(), ct[..n - 22].to_vec()));
            out.push(("cut16".into(), ct[..n - 16].to_vec()));
        }
        let mut m = ct.to_vec();
        m.push(rng.gen());
        out.push(("append1".into(), m));
        let mut m = ct.to_vec();
        m.extend_from_slice(&ct[n.saturating_sub(16)..]);
        out.push(("append_tail_again".into(), m));
        out
    };
    // SEIPDv1
    for (ai, sym) in [S::IDEA, S::TripleDES, S::CAST5, S::Blowfish, S::AES128, S::AES192, S::AES256, S::Twofish, S::Camellia128, S::Camellia192, S::Camellia256].into_iter().enumerate() {
        let bs = sym.block_size();
        for (li, n) in [0usize, 1, bs - 1, bs, 3 * bs + 1, 200, 8192 - 22 - bs - 2, 8192, 8192 + 5, ctx.pick(9000, 30000)].into_iter().enumerate() {
            let key = gen::random_bytes(&mut rng, sym.key_size());
            let pt = gen::random_bytes(&mut rng, n);
            let Ok(pkt) = SymEncryptedProtectedData::encrypt_seipdv1(&mut rng, sym, &key, &pt) else {
                ctx.stat(&format!("sweep:v1:cannot_encrypt:{sym:?}"));
                continue;
            };
            let ct = pkt.data().to_vec();
            let site = "crypto/sym/decryptor.rs StreamDecryptor::new (per-cipher dispatch, SEIPDv1)";
            // CheckFirst with the limit exactly what the container holds behind its prefix (data + MDC),
            // one octet less and one more: the limit decides admission, never what is checked
            let fit = ct.len() - (bs + 2);
            for (mi, max) in [fit, fit + 1, fit.saturating_sub(1)].into_iter().enumerate() {
                let pat = pats[(ai + li + mi) % pats.len()];
                let mode = || Seipdv1ReadMode::CheckFirst { max_message_size: max };
                let real = v1_real(sym, mode(), &key, &ct, pat);
                let input = |what: &str| format!("sym={sym:?} CheckFirst max_message_size={max} (container holds {fit}) n={n} pat={pat:?} what={what}");
                if max >= fit {
                    ctx.oracle("unmodified_decrypts", site, &input("honest"), real.1 && real.0 == pt, &format!("ok={} released={}", real.1, real.0.len()));
                } else {
                    ctx.oracle("checkfirst_releases_nothing", site, &input("honest, over the limit"), !real.1 && real.0.is_empty(), &format!("ok={} released={}", real.1, real.0.len()));
                }
                for (what, m) in mods(&ct, &mut rng) {
                    // (the limit follows the modified container when its length changed)
                    let fit_m = m.len().saturating_sub(bs + 2);
                    let max_m = if mi == 0 { fit_m } else { max };
                    let real = v1_real(sym, Seipdv1ReadMode::CheckFirst { max_message_size: max_m }, &key, &m, pat);
                    let inp = format!("sym={sym:?} CheckFirst max_message_size={max_m} (container holds {fit_m}) n={n} pat={pat:?} what={what}");
                    ctx.oracle("modified_never_clean_eof", site, &inp, !real.1, &format!("clean end after {} octets", real.0.len()));
                    ctx.oracle("checkfirst_releases_nothing", site, &inp, real.0.is_empty(), &format!("released {} octets", real.0.len()));
                    ctx.stat("sweep:v1:exact_fit");
                }
            }
            // the packet-level API on the same container
            {
                let mut body = vec![1u8];
                body.extend_from_slice(&ct);
                let pkt_bytes = crate::wire::packet(18, &body);
                for (what, m) in mods(&ct, &mut rng).into_iter().take(6) {
                    let mut b = vec![1u8];
                    b.extend_from_slice(&m);
                    let pb = crate::wire::packet(18, &b);
                    let r = guarded(|| match pgp::packet::PacketParser::new(&pb[..]).next() {
                        Some(Ok(pgp::packet::Packet::SymEncryptedProtectedData(p))) => p.decrypt(&key, Some(sym), Seipdv1ReadMode::CheckFirst { max_message_size: m.len().saturating_sub(bs + 2) }).is_ok(),
                        _ => false,
                    });
                    ctx.oracle("modified_never_clean_eof", "SymEncryptedProtectedData::decrypt (packet level, SEIPDv1)", &format!("sym={sym:?} n={n} what={what}"), r == Ok(false), &format!("{r:?}"));
                }
                let r = guarded(|| match pgp::packet::PacketParser::new(&pkt_bytes[..]).next() {
                    Some(Ok(pgp::packet::Packet::SymEncryptedProtectedData(p))) => p.decrypt(&key, Some(sym), Seipdv1ReadMode::CheckFirst { max_message_size: fit }).ok(),
                    _ => None,
                });
                ctx.oracle("unmodified_decrypts", "SymEncryptedProtectedData::decrypt (packet level, SEIPDv1)", &format!("sym={sym:?} n={n}"), matches!(&r, Ok(Some(o)) if *o == pt), "packet-level decrypt of the honest container");
            }
            for streaming in [false, true] {
                let mode = || if streaming { Seipdv1ReadMode::Streaming } else { Seipdv1ReadMode::CheckFirst { max_message_size: 1 << 20 } };
                let pat = pats[(ai + li + streaming as usize) % pats.len()];
                let real = v1_real(sym, mode(), &key, &ct, pat);
                let input = |what: &str| format!("sym={sym:?} streaming={streaming} n={n} pat={pat:?} what={what}");
                ctx.oracle("unmodified_decrypts", site, &input("honest"), real.1 && real.0 == pt, &format!("ok={} released={}", real.1, real.0.len()));
                for (what, m) in mods(&ct, &mut rng) {
                    let real = v1_real(sym, mode(), &key, &m, pat);
                    ctx.oracle("modified_never_clean_eof", site, &input(&what), !real.1, &format!("clean end after {} octets", real.0.len()));
                    if !streaming {
                        ctx.oracle("checkfirst_releases_nothing", site, &input(&what), real.0.is_empty(), &format!("released {} octets", real.0.len()));
                    }
                    ctx.stat("sweep:v1");
                }
            }
        }
    }
    // SEIPDv2: every 128-bit-block cipher x AEAD mode x two chunk sizes
    for (ai, sym) in [S::AES128, S::AES192, S::AES256, S::Twofish, S::Camellia128, S::Camellia192, S::Camellia256].into_iter().enumerate() {
        for (mi, aead) in [AeadAlgorithm::Eax, AeadAlgorithm::Ocb, AeadAlgorithm::Gcm].into_iter().enumerate() {
            for cs_octet in [0u8, 2] {
                let cs = 1usize << (cs_octet as usize + 6);
                for (li, n) in [0usize, 1, cs, 2 * cs + 3, 5 * cs].into_iter().enumerate() {
                    let key = gen::random_bytes(&mut rng, sym.key_size());
                    let pt = gen::random_bytes(&mut rng, n);
                    let Ok(cs_enum) = ChunkSize::try_from(cs_octet) else { continue };
                    let Ok(pkt) = SymEncryptedProtectedData::encrypt_seipdv2(&mut rng, sym, aead, cs_enum, &key, &pt) else {
                        ctx.stat(&format!("sweep:v2:cannot_encrypt:{sym:?}:{aead:?}"));
                        continue;
                    };
                    let SymEncryptedProtectedDataConfig::V2 { salt, .. } = pkt.config() else { continue };
                    let p = V2Params { sym, aead, cs_octet, salt: *salt, key: key.clone() };
                    let ct = pkt.data().to_vec();
                    let site = "crypto/aead/decryptor.rs StreamDecryptor (per-cipher dispatch, SEIPDv2)";
                    let pat = pats[(ai + mi + li) % pats.len()];
                    let input = |what: &str| format!("sym={sym:?} aead={aead:?} cs={cs} n={n} pat={pat:?} what={what}");
                    let real = v2_real(&p, &ct, pat);
                    ctx.oracle("unmodified_decrypts", site, &input("honest"), real.1 && real.0 == pt, &format!("ok={} released={}", real.1, real.0.len()));
                    let mut ms = mods(&ct, &mut rng);
                    // whole chunks dropped / duplicated / swapped
                    let seg = cs + 16;
                    if ct.len() >= 2 * seg + 16 {
                        let mut m = ct.clone();
                        m.drain(0..seg);
                        ms.push(("drop_first_chunk".into(), m));
                        let mut m = ct[..seg].to_vec();
                        m.extend_from_slice(&ct);
                        ms.push(("dup_first_chunk".into(), m));
                        let mut m = ct.clone();
                        let (a, b) = m.split_at_mut(seg);
                        a.swap_with_slice(&mut b[..seg]);
                        ms.push(("swap_first_two".into(), m));
                    }
                    // header fields: another salt, cipher, mode or chunk size than the sender used
                    for (what, q) in [
                        ("other_salt", V2Params { salt: { let mut s = *salt; s[31] ^= 1; s }, ..V2Params { sym, aead, cs_octet, salt: *salt, key: key.clone() } }),
                        ("other_chunk_size", V2Params { sym, aead, cs_octet: cs_octet + 1, salt: *salt, key: key.clone() }),
                        ("other_mode", V2Params { sym, aead: if aead == AeadAlgorithm::Ocb { AeadAlgorithm::Gcm } else { AeadAlgorithm::Ocb }, cs_octet, salt: *salt, key: key.clone() }),
                    ] {
                        let real = v2_real(&q, &ct, pat);
                        ctx.oracle("modified_never_clean_eof", site, &input(what), !real.1, &format!("clean end after {} octets", real.0.len()));
                        ctx.oracle("released_is_prefix", site, &input(what), pt.starts_with(&real.0), &format!("released {} octets", real.0.len()));
                    }
                    // the packet-level API: the caller may name a cipher (or none); the header fields of the
                    // packet are what was authenticated, whatever the caller says
                    if li < 3 {
                        let hdr_variants: Vec<(String, Vec<u8>)> = {
                            let honest_hdr = vec![2u8, u8::from(sym), u8::from(aead), cs_octet];
                            let mut v = vec![("honest".to_string(), honest_hdr.clone())];
                            for (i, alt) in [(1usize, if sym == S::AES128 { 9u8 } else { 7 }), (1, 8), (2, if aead == AeadAlgorithm::Ocb { 3 } else { 2 }), (3, cs_octet + 1)] {
                                let mut h = honest_hdr.clone();
                                h[i] = alt;
                                if h != honest_hdr {
                                    v.push((format!("header octet {i} := {alt}"), h));
                                }
                            }
                            v
                        };
                        for (what, hdr) in hdr_variants {
                            let mut body = hdr.clone();
                            body.extend_from_slice(&salt[..]);
                            body.extend_from_slice(&ct);
                            let pb = crate::wire::packet(18, &body);
                            for named in [None, Some(sym), Some(S::AES128), Some(S::AES256)] {
                                let r = guarded(|| match pgp::packet::PacketParser::new(&pb[..]).next() {
                                    Some(Ok(pgp::packet::Packet::SymEncryptedProtectedData(pk))) => pk.decrypt(&key, named, Default::default()).ok(),
                                    _ => None,
                                });
                                let inp = format!("{} what={what} caller names {named:?}", input("packet level"));
                                if what == "honest" {
                                    // (the honest packet: whatever decrypts, decrypts to the plaintext)
                                    ctx.oracle("released_is_prefix", "SymEncryptedProtectedData::decrypt (packet level, SEIPDv2)", &inp, !matches!(&r, Ok(Some(o)) if *o != pt), "different plaintext");
                                    if named.is_none() || named == Some(sym) {
                                        ctx.oracle("unmodified_decrypts", "SymEncryptedProtectedData::decrypt (packet level, SEIPDv2)", &inp, matches!(&r, Ok(Some(o)) if *o == pt), &format!("{:?}", r.as_ref().map(|x| x.as_ref().map(|o| o.len()))));
                                    }
                                } else {
                                    ctx.oracle("modified_never_clean_eof", "SymEncryptedProtectedData::decrypt (packet level, SEIPDv2)", &inp, matches!(&r, Ok(None)), &format!("{:?}", r.as_ref().map(|x| x.as_ref().map(|o| o.len()))));
                                }
                                ctx.stat("sweep:v2:packet_level");
                            }
                        }
                    }
                    for (what, m) in ms {
                        let real = v2_real(&p, &m, pat);
                        ctx.oracle("modified_never_clean_eof", site, &input(&what), !real.1, &format!("clean end after {} octets", real.0.len()));
                        ctx.oracle("released_is_prefix", site, &input(&what), pt.starts_with(&real.0), &format!("released {} octets", real.0.len()));
                        ctx.stat("sweep:v2");
                    }
                }
            }
        }
    }
}

pub fn run(ctx: &mut Ctx) {
    run_nested(ctx);
    run_cipher_sweep(ctx);
    run_signed_inner(ctx);
    // thorough: the whole sweep is repeated with fresh keys, salts, plaintexts and mutation choices
    let rounds = ctx.pick(1u64, 24u64);
    let base = ctx.seed;
    for r in 0..rounds {
        ctx.seed = base.wrapping_add(r.wrapping_mul(0x9E37_79B9_7F4A_7C15));
        run_v2(ctx);
        run_v1(ctx);
        run_message(ctx);
        run_message_tail(ctx);
    }
    ctx.seed = base;
}
