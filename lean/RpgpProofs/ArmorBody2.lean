import RpgpProofs.ArmorBody
/-!
# The decoder loop on a well-formed body, for every length and every buffer capacity `4q`, `q ≥ 2`
-/
namespace Rpgp.Armor

theorem b64Fill_nls_dash (nls S' : Bytes) (h : ∀ c ∈ nls, c = CR ∨ c = LF) (k : Nat) :
    b64Fill (k + 1) (nls ++ 45 :: S') = ([], 45 :: S') := by
  induction nls with
  | nil => exact b64Fill_dash k S'
  | cons c r ih =>
    have hc := h c (by simp)
    simp only [List.cons_append, b64Fill, hc, if_true]
    exact ih (fun x hx => h x (by simp [hx]))

section crc
variable (x1 x2 x3 x4 : Byte) (nls S' : Bytes)
variable (h1 : isB64Sym x1 = true) (h2 : isB64Sym x2 = true) (h3 : isB64Sym x3 = true) (h4 : isB64Sym x4 = true)

include h1 h2 h3 in
theorem b64Fill_crc_four :
    b64Fill 4 (EQS :: x1 :: x2 :: x3 :: x4 :: (nls ++ 45 :: S')) = ([EQS, x1, x2, x3], x4 :: (nls ++ 45 :: S')) := by
  have f0 := bodySym_facts EQS (by decide)
  have f1 := bodySym_facts x1 (isB64Sym_bodySym _ h1)
  have f2 := bodySym_facts x2 (isB64Sym_bodySym _ h2)
  have f3 := bodySym_facts x3 (isB64Sym_bodySym _ h3)
  simp [b64Fill, f0.1, f0.2.1, f0.2.2.1, f1.1, f1.2.1, f1.2.2.1, f2.1, f2.2.1, f2.2.2.1, f3.1, f3.2.1, f3.2.2.1]

include h1 h2 h3 h4 in
theorem b64Fill_crc_all (hn : ∀ c ∈ nls, c = CR ∨ c = LF) (k : Nat) :
    b64Fill (k + 6) (EQS :: x1 :: x2 :: x3 :: x4 :: (nls ++ 45 :: S')) = ([EQS, x1, x2, x3, x4], 45 :: S') := by
  have f0 := bodySym_facts EQS (by decide)
  have f1 := bodySym_facts x1 (isB64Sym_bodySym _ h1)
  have f2 := bodySym_facts x2 (isB64Sym_bodySym _ h2)
  have f3 := bodySym_facts x3 (isB64Sym_bodySym _ h3)
  have f4 := bodySym_facts x4 (isB64Sym_bodySym _ h4)
  have := b64Fill_nls_dash nls S' hn k
  simp [b64Fill, f0.1, f0.2.1, f0.2.2.1, f1.1, f1.2.1, f1.2.2.1, f2.1, f2.2.1, f2.2.2.1, f3.1, f3.2.1, f3.2.2.1,
    f4.1, f4.2.1, f4.2.2.1, this]

end crc

/-- the decoder never decodes a quantum that starts with `=` -/
theorem tryDecode_one_eqs (x y z : Byte) (s : Bytes) : tryDecode 1 (EQS :: x :: y :: z :: s) = (0, []) := by
  have := b64dec_eqs_quantum 0 [] x y z [] rfl
  simp only [List.nil_append] at this
  simp [tryDecode, this]

/-- a full buffer of `4q` tokens inside the body is decoded and the loop continues with an empty buffer -/
theorem decodeBody_peel (q : Nat) (hq : 2 ≤ q) (d B R : Bytes) (f : Nat) (hd : 3 * q ≤ d.length)
    (hB : BodyText B (b64enc d)) :
    ∃ B', BodyText B' (b64enc (d.drop (3 * q))) ∧ B'.length + 4 * q ≤ B.length ∧
      decodeBody (4 * q) (f + 1) [] 0 (B ++ R) =
        (d.take (3 * q) ++ (decodeBody (4 * q) f [] 0 (B' ++ R)).1,
         (decodeBody (4 * q) f [] 0 (B' ++ R)).2.1, (decodeBody (4 * q) f [] 0 (B' ++ R)).2.2) := by
  have hsplit : d = d.take (3 * q) ++ d.drop (3 * q) := (List.take_append_drop _ _).symm
  have hl1 : (d.take (3 * q)).length = 3 * q := by simp; omega
  have henc : b64enc d = b64enc (d.take (3 * q)) ++ b64enc (d.drop (3 * q)) := by
    conv => lhs; rw [hsplit]
    exact b64enc_append _ _ (by rw [hl1]; omega)
  have hlen1 : (b64enc (d.take (3 * q))).length = 4 * q := by rw [b64enc_length, hl1]; omega
  obtain ⟨B', hB', hfill, hlen⟩ := b64Fill_body_le hB (4 * q) R (by rw [henc, List.length_append, hlen1]; omega)
  have htake : (b64enc d).take (4 * q) = b64enc (d.take (3 * q)) := by
    rw [henc, ← hlen1]; simp
  have hdrop : (b64enc d).drop (4 * q) = b64enc (d.drop (3 * q)) := by
    rw [henc, ← hlen1]; simp
  rw [htake] at hfill
  rw [hdrop] at hB'
  refine ⟨B', hB', hlen, ?_⟩
  have hstep := decodeBody_step (4 * q) f [] 0 (B ++ R) (b64enc (d.take (3 * q))) (B' ++ R) (by simpa using hfill)
  rw [hstep]
  have hne : (b64enc (d.take (3 * q))) ≠ [] := by
    intro e; rw [e] at hlen1; simp at hlen1; omega
  have hdec := tryDecode_enc (d.take (3 * q)) [] q hlen1
  simp only [List.append_nil] at hdec
  have hq0 : q ≠ 0 := by omega
  simp only [List.nil_append, hlen1, Nat.mul_div_cancel_left q (by omega : 0 < 4), hdec, hq0, if_false]
  have hne2 : d.take (3 * q) ≠ [] := by
    intro e; rw [e] at hl1; simp at hl1; omega
  have hdropall : (b64enc (d.take (3 * q))).drop (4 * q) = [] := by
    rw [← hlen1]; simp
  simp [hne, hne2, hdropall]

/-- after the last data: only line breaks are left before the footer's `-` -/
theorem decodeBody_finish_nocrc (q : Nat) (hq : 2 ≤ q) (B' S' : Bytes) (f : Nat) (hB : BodyText B' []) :
    decodeBody (4 * q) (f + 1) [] 0 (B' ++ 45 :: S') = ([], [], 45 :: S') := by
  have h4 : 4 * q = (4 * q - 1) + 1 := by omega
  have hfill : b64Fill (4 * q - 0) (B' ++ 45 :: S') = ([], 45 :: S') := by
    have := b64Fill_body_gt hB (4 * q) (45 :: S') (by simp; omega)
    simp only [List.length_nil, Nat.sub_zero, List.nil_append] at this
    rw [Nat.sub_zero, this, h4, b64Fill_dash]
  rw [decodeBody_step (4 * q) f [] 0 _ [] (45 :: S') (by simpa using hfill)]
  simp

theorem decodeBody_endgame_nocrc (q : Nat) (hq : 2 ≤ q) (d B S' : Bytes) (f : Nat) (hd : d.length < 3 * q)
    (hB : BodyText B (b64enc d)) :
    decodeBody (4 * q) (f + 2) [] 0 (B ++ 45 :: S') = (d, [], 45 :: S') := by
  have hlen := b64enc_length d
  generalize hm : (d.length + 2) / 3 = m at hlen
  have hmq : m ≤ q := by omega
  by_cases hE : b64enc d = []
  · -- no data at all
    have hd0 := b64enc_eq_nil d hE
    subst hd0
    rw [hE] at hB
    exact decodeBody_finish_nocrc q hq B S' (f + 1) hB
  · have hm0 : m ≠ 0 := by
      intro e; rw [e] at hlen; exact hE (List.eq_nil_of_length_eq_zero (by omega))
    have hdne : d ≠ [] := by intro e; subst e; exact hE rfl
    have hdec := tryDecode_enc d [] m hlen
    simp only [List.append_nil, hm0, if_false] at hdec
    have hdropall : (b64enc d).drop (4 * m) = [] := by rw [← hlen]; simp
    -- the first read delivers the whole encoding
    obtain ⟨B', hB', hfill⟩ : ∃ B', BodyText B' [] ∧ b64Fill (4 * q - 0) (B ++ 45 :: S') = (b64enc d, B' ++ 45 :: S') := by
      by_cases hlt : m < q
      · refine ⟨[], BodyText.nil, ?_⟩
        have := b64Fill_body_gt hB (4 * q) (45 :: S') (by omega)
        have h4 : 4 * q - (b64enc d).length = (4 * q - (b64enc d).length - 1) + 1 := by omega
        rw [Nat.sub_zero, this, h4, b64Fill_dash]; simp
      · have hmq' : m = q := by omega
        obtain ⟨B', h1, h2, _⟩ := b64Fill_body_le hB (4 * q) (45 :: S') (by omega)
        refine ⟨B', ?_, ?_⟩
        · have : (b64enc d).drop (4 * q) = [] := by rw [← hmq']; exact hdropall
          rwa [this] at h1
        · have : (b64enc d).take (4 * q) = b64enc d := List.take_of_length_le (by omega)
          rw [Nat.sub_zero, h2, this]
    rw [decodeBody_step (4 * q) (f + 1) [] 0 _ (b64enc d) (B' ++ 45 :: S') (by simpa using hfill)]
    simp only [List.nil_append, hlen, Nat.mul_div_cancel_left m (by omega : 0 < 4), hdec, hdropall]
    simp [hE, hdne, decodeBody_finish_nocrc q hq B' S' f hB']

/-- **body without a checksum line**: body text of any shape, then the footer's `-` -/
theorem decodeBody_nocrc (q : Nat) (hq : 2 ≤ q) : ∀ (n : Nat) (d B S' : Bytes) (fuel : Nat),
    d.length ≤ n → BodyText B (b64enc d) → (B ++ 45 :: S').length < fuel →
    decodeBody (4 * q) fuel [] 0 (B ++ 45 :: S') = (d, [], 45 :: S') := by
  intro n
  induction n with
  | zero =>
    intro d B S' fuel hd hB hf
    have : fuel = (fuel - 2) + 2 := by simp at hf; omega
    rw [this]
    exact decodeBody_endgame_nocrc q hq d B S' _ (by omega) hB
  | succ n ih =>
    intro d B S' fuel hd hB hf
    by_cases hbig : 3 * q ≤ d.length
    · have hfu : fuel = (fuel - 1) + 1 := by omega
      obtain ⟨B', hB', hlen, hstep⟩ := decodeBody_peel q hq d B (45 :: S') (fuel - 1) hbig hB
      rw [hfu, hstep]
      have := ih (d.drop (3 * q)) B' S' (fuel - 1) (by simp; omega) hB' (by simp at hf ⊢; omega)
      rw [this]
      simp
    · have : fuel = (fuel - 2) + 2 := by simp at hf; omega
      rw [this]
      exact decodeBody_endgame_nocrc q hq d B S' _ (by omega) hB

/-! ## with a checksum line `=XXXX` -/

section crcbody
variable (x1 x2 x3 x4 : Byte) (nls S' : Bytes)
variable (h1 : isB64Sym x1 = true) (h2 : isB64Sym x2 = true) (h3 : isB64Sym x3 = true) (h4 : isB64Sym x4 = true)
variable (hn : ∀ c ∈ nls, c = CR ∨ c = LF)

/-- the checksum tokens are in the buffer, nothing of them decodes: the read returns 0 -/
theorem decodeBody_stop_crc5 (cap f endc : Nat) (raw : Bytes) :
    decodeBody cap (f + 1) [EQS, x1, x2, x3, x4] endc raw = ([], [EQS, x1, x2, x3, x4], raw) := by
  rw [decodeBody_step cap f [EQS, x1, x2, x3, x4] endc raw [] raw (by simp)]
  simp [tryDecode_one_eqs]

theorem decodeBody_stop_crc4 (cap f endc : Nat) (raw : Bytes) :
    decodeBody cap (f + 1) [EQS, x1, x2, x3] endc raw = ([], [EQS, x1, x2, x3], raw) := by
  rw [decodeBody_step cap f [EQS, x1, x2, x3] endc raw [] raw (by simp)]
  simp [tryDecode_one_eqs]

include h1 h2 h3 h4 hn in
/-- empty buffer, only line breaks before the checksum line -/
theorem decodeBody_fill_crc (q : Nat) (hq : 2 ≤ q) (B' : Bytes) (f : Nat) (hB : BodyText B' []) :
    decodeBody (4 * q) (f + 1) [] 0 (B' ++ EQS :: x1 :: x2 :: x3 :: x4 :: (nls ++ 45 :: S')) =
      ([], [EQS, x1, x2, x3, x4], 45 :: S') := by
  have h4q : 4 * q = (4 * q - 6) + 6 := by omega
  have hfill : b64Fill (4 * q - 0) (B' ++ EQS :: x1 :: x2 :: x3 :: x4 :: (nls ++ 45 :: S')) =
      ([EQS, x1, x2, x3, x4], 45 :: S') := by
    have := b64Fill_body_gt hB (4 * q) (EQS :: x1 :: x2 :: x3 :: x4 :: (nls ++ 45 :: S')) (by simp; omega)
    simp only [List.length_nil, Nat.sub_zero, List.nil_append] at this
    rw [Nat.sub_zero, this, h4q, b64Fill_crc_all x1 x2 x3 x4 nls S' h1 h2 h3 h4 hn]
  rw [decodeBody_step (4 * q) f [] 0 _ _ _ (by simpa using hfill)]
  simp [tryDecode_one_eqs]

include h1 h2 h3 h4 hn in
theorem decodeBody_endgame_crc (q : Nat) (hq : 2 ≤ q) (d B : Bytes) (f : Nat) (hd : d.length < 3 * q)
    (hB : BodyText B (b64enc d)) :
    ∃ left raw', decodeBody (4 * q) (f + 2) [] 0 (B ++ EQS :: x1 :: x2 :: x3 :: x4 :: (nls ++ 45 :: S')) = (d, left, raw') ∧
      (left ++ raw' = EQS :: x1 :: x2 :: x3 :: x4 :: (nls ++ 45 :: S') ∨
       left ++ raw' = EQS :: x1 :: x2 :: x3 :: x4 :: 45 :: S') := by
  have hlen := b64enc_length d
  generalize hm : (d.length + 2) / 3 = m at hlen
  have hmq : m ≤ q := by omega
  have hdropall : (b64enc d).drop (4 * m) = [] := by rw [← hlen]; simp
  have hdec0 := tryDecode_enc d
  by_cases hc1 : m + 2 ≤ q
  · -- data and checksum tokens fit into one buffer
    have hfill : b64Fill (4 * q - 0) (B ++ EQS :: x1 :: x2 :: x3 :: x4 :: (nls ++ 45 :: S')) =
        (b64enc d ++ [EQS, x1, x2, x3, x4], 45 :: S') := by
      have := b64Fill_body_gt hB (4 * q) (EQS :: x1 :: x2 :: x3 :: x4 :: (nls ++ 45 :: S')) (by omega)
      have h4q : 4 * q - (b64enc d).length = (4 * q - (b64enc d).length - 6) + 6 := by omega
      rw [Nat.sub_zero, this, h4q, b64Fill_crc_all x1 x2 x3 x4 nls S' h1 h2 h3 h4 hn]
    rw [decodeBody_step (4 * q) (f + 1) [] 0 _ _ _ (by simpa using hfill)]
    have hl : ([] ++ (b64enc d ++ [EQS, x1, x2, x3, x4])).length / 4 = m + 1 := by simp [hlen]; omega
    have hdec : tryDecode (m + 1) (b64enc d ++ [EQS, x1, x2, x3, x4]) = if m = 0 then (0, []) else (4 * m, d) := by
      rw [tryDecode_skip_eqs d x1 x2 x3 [x4] m hlen, hdec0 _ m hlen]
    rw [hl]
    simp only [List.nil_append, hdec]
    by_cases hm0 : m = 0
    · have hE : b64enc d = [] := List.eq_nil_of_length_eq_zero (by omega)
      have hd0 := b64enc_eq_nil d hE
      subst hd0
      refine ⟨[EQS, x1, x2, x3, x4], 45 :: S', ?_, Or.inr (by simp)⟩
      simp [hm0, hE]
    · have hdne : d ≠ [] := by intro e; subst e; simp at hm; omega
      have hdrop : (b64enc d ++ [EQS, x1, x2, x3, x4]).drop (4 * m) = [EQS, x1, x2, x3, x4] := by
        rw [← hlen]; simp
      refine ⟨[EQS, x1, x2, x3, x4], 45 :: S', ?_, Or.inr (by simp)⟩
      simp only [hm0, if_false, hdrop]
      simp [hdne, decodeBody_stop_crc5]
  · by_cases hc2 : m + 1 = q
    · -- the buffer ends after `=XXX`
      have hfill : b64Fill (4 * q - 0) (B ++ EQS :: x1 :: x2 :: x3 :: x4 :: (nls ++ 45 :: S')) =
          (b64enc d ++ [EQS, x1, x2, x3], x4 :: (nls ++ 45 :: S')) := by
        have := b64Fill_body_gt hB (4 * q) (EQS :: x1 :: x2 :: x3 :: x4 :: (nls ++ 45 :: S')) (by omega)
        have h4q : 4 * q - (b64enc d).length = 4 := by omega
        rw [Nat.sub_zero, this, h4q, b64Fill_crc_four x1 x2 x3 x4 nls S' h1 h2 h3]
      rw [decodeBody_step (4 * q) (f + 1) [] 0 _ _ _ (by simpa using hfill)]
      have hl : ([] ++ (b64enc d ++ [EQS, x1, x2, x3])).length / 4 = m + 1 := by simp [hlen]
      have hm0 : m ≠ 0 := by omega
      have hdec : tryDecode (m + 1) (b64enc d ++ [EQS, x1, x2, x3]) = (4 * m, d) := by
        rw [tryDecode_skip_eqs d x1 x2 x3 [] m hlen, hdec0 _ m hlen]; simp [hm0]
      have hdne : d ≠ [] := by intro e; subst e; simp at hm; omega
      have hdrop : (b64enc d ++ [EQS, x1, x2, x3]).drop (4 * m) = [EQS, x1, x2, x3] := by
        rw [← hlen]; simp
      rw [hl]
      simp only [List.nil_append, hdec, hdrop]
      refine ⟨[EQS, x1, x2, x3], x4 :: (nls ++ 45 :: S'), ?_, Or.inl (by simp)⟩
      simp [hdne, decodeBody_stop_crc4]
    · -- the data fills the buffer exactly; the checksum line is read by the next fill
      have hmq' : m = q := by omega
      obtain ⟨B', hB', hfill, _⟩ := b64Fill_body_le hB (4 * q) (EQS :: x1 :: x2 :: x3 :: x4 :: (nls ++ 45 :: S')) (by omega)
      have ht : (b64enc d).take (4 * q) = b64enc d := List.take_of_length_le (by omega)
      have hdr : (b64enc d).drop (4 * q) = [] := by rw [← hmq']; exact hdropall
      rw [ht] at hfill
      rw [hdr] at hB'
      rw [decodeBody_step (4 * q) (f + 1) [] 0 _ _ _ (by simpa using hfill)]
      have hm0 : m ≠ 0 := by omega
      have hdec := hdec0 [] m hlen
      simp only [List.append_nil, hm0, if_false] at hdec
      have hdne : d ≠ [] := by intro e; subst e; simp at hm; omega
      have hE : b64enc d ≠ [] := by intro e; rw [e] at hlen; simp at hlen; omega
      simp only [List.nil_append, hlen, Nat.mul_div_cancel_left m (by omega : 0 < 4), hdec, hdropall]
      refine ⟨[EQS, x1, x2, x3, x4], 45 :: S', ?_, Or.inr (by simp)⟩
      simp [hE, hdne, decodeBody_fill_crc x1 x2 x3 x4 nls S' h1 h2 h3 h4 hn q hq B' f hB']

include h1 h2 h3 h4 hn in
/-- **body followed by a checksum line**, any data length: the data comes out, and what the footer
stage sees is the checksum line (with or without its line breaks) and the rest of the input -/
theorem decodeBody_crc (q : Nat) (hq : 2 ≤ q) : ∀ (n : Nat) (d B : Bytes) (fuel : Nat),
    d.length ≤ n → BodyText B (b64enc d) →
    (B ++ EQS :: x1 :: x2 :: x3 :: x4 :: (nls ++ 45 :: S')).length < fuel →
    ∃ left raw', decodeBody (4 * q) fuel [] 0 (B ++ EQS :: x1 :: x2 :: x3 :: x4 :: (nls ++ 45 :: S')) = (d, left, raw') ∧
      (left ++ raw' = EQS :: x1 :: x2 :: x3 :: x4 :: (nls ++ 45 :: S') ∨
       left ++ raw' = EQS :: x1 :: x2 :: x3 :: x4 :: 45 :: S') := by
  intro n
  induction n with
  | zero =>
    intro d B fuel hd hB hf
    have : fuel = (fuel - 2) + 2 := by simp at hf; omega
    rw [this]
    exact decodeBody_endgame_crc x1 x2 x3 x4 nls S' h1 h2 h3 h4 hn q hq d B _ (by omega) hB
  | succ n ih =>
    intro d B fuel hd hB hf
    by_cases hbig : 3 * q ≤ d.length
    · have hfu : fuel = (fuel - 1) + 1 := by omega
      obtain ⟨B', hB', hlen, hstep⟩ := decodeBody_peel q hq d B (EQS :: x1 :: x2 :: x3 :: x4 :: (nls ++ 45 :: S')) (fuel - 1) hbig hB
      obtain ⟨left, raw', hr, hform⟩ := ih (d.drop (3 * q)) B' (fuel - 1) (by simp; omega) hB' (by simp at hf ⊢; omega)
      refine ⟨left, raw', ?_, hform⟩
      rw [hfu, hstep, hr]
      simp
    · have : fuel = (fuel - 2) + 2 := by simp at hf; omega
      rw [this]
      exact decodeBody_endgame_crc x1 x2 x3 x4 nls S' h1 h2 h3 h4 hn q hq d B _ (by omega) hB

end crcbody

end Rpgp.Armor
