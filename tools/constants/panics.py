# ---- C04 (Panics.lean): tables and bounds that make the checked index/slice sites safe --------
SYM = "src/crypto/sym.rs"
for nm in ["IDEA", "TripleDES", "CAST5", "Blowfish", "AES128", "AES192", "AES256", "Twofish",
           "Camellia128", "Camellia192", "Camellia256"]:
    item("symId" + nm, SYM, r"pub enum SymmetricKeyAlgorithm \{.*?\b" + nm + r" = (\d+),",
         "sym.rs SymmetricKeyAlgorithm::" + nm + " discriminant")
    item("symKs" + nm, SYM, r"pub const fn key_size\(self\).*?SymmetricKeyAlgorithm::" + nm + r" => (\d+)",
         "sym.rs key_size() of " + nm)
    item("symBs" + nm, SYM, r"pub fn block_size\(self\).*?SymmetricKeyAlgorithm::" + nm + r" => (\d+)",
         "sym.rs block_size() of " + nm)

AE = "src/crypto/aead.rs"
for nm in ["Eax", "Ocb", "Gcm"]:
    item("aeadId" + nm, AE, r"pub enum AeadAlgorithm \{.*?\b" + nm + r" = (\d+),", "aead.rs AeadAlgorithm::" + nm + " discriminant")
    item("aeadNonce" + nm, AE, r"pub fn nonce_size\(&self\).*?Self::" + nm + r" => (\d+)", "aead.rs nonce_size() of " + nm)
    item("aeadIv" + nm, AE, r"pub fn iv_size\(&self\).*?Self::" + nm + r" => (\d+)", "aead.rs iv_size() of " + nm)
    item("aeadTag" + nm, AE, r"pub fn tag_size\(&self\).*?Self::" + nm + r" => Some\((\d+)\)", "aead.rs tag_size() of " + nm)
item("aeadSetupOkmLen", AE, r"fn aead_setup_rfc9580.*?Zeroizing::new\(\[0u8; (\d+)\]\)", "aead.rs aead_setup_rfc9580: HKDF output length")
item("aeadSetupNonceCounter", AE, r"fn aead_setup_rfc9580.*?let raw_iv_len = aead\.nonce_size\(\) - (\d+);", "aead.rs aead_setup_rfc9580: nonce_size() - k")
item("chunkSizeMaxOctet", AE, r"C4MiB = (\d+),", "aead.rs ChunkSize: largest accepted octet")

item("aesKwIvLen", "src/crypto/aes_kw.rs", r"const IV_LEN: usize = (\d+);", "aes_kw.rs IV_LEN (unwrap computes data.len() - IV_LEN)")
item("ecdhPadBlock", "src/crypto/ecdh.rs", r"pub fn derive_session_key.*?let block_size = (\d+);", "ecdh.rs derive_session_key: PKCS5 block size")

PS = "src/types/params/plain_secret.rs"
item("pkeskV3Overhead", PS, r"EskType::V3_4 => \{.*?key_size \+ (\d+),", "plain_secret.rs decrypt V3_4: expected length = key_size + k")
item("pkeskV6MinLen", PS, r"EskType::V6 => \{.*?len >= (\d+),", "plain_secret.rs decrypt V6: minimal length")
item("pkeskV6CkLen", PS, r"EskType::V6 => \{.*?decrypted_key\[0\.\.len - (\d+)\]", "plain_secret.rs decrypt V6: checksum length")

ES = "src/types/params/encrypted_secret.rs"
item("escSimpleLen", ES, r"pub fn checksum\(&self\).*?self\.data\[self\.data\.len\(\)(?: - |\.saturating_sub\()(\d+)\)?\.\.\]\.to_vec\(\)", "encrypted_secret.rs checksum(): 2-octet checksum slice")
item("escSha1Len", ES, r"pub fn checksum\(&self\).*?S2kParams::Cfb \{ \.\. \} => \{.*?self\.data\[self\.data\.len\(\)(?: - |\.saturating_sub\()(\d+)\)?\.\.\]", "encrypted_secret.rs checksum(): SHA-1 slice")

S2 = "src/types/s2k.rs"
item("s2kExpBias", S2, r"const EXPBIAS: u32 = (\d+);", "s2k.rs EXPBIAS")
item("argon2MaxT", S2, r"\*t <= (\d+) && \*p <= (\d+)", "s2k.rs derive_key Argon2: t limit", group=1)
item("argon2MaxP", S2, r"\*t <= (\d+) && \*p <= (\d+)", "s2k.rs derive_key Argon2: p limit", group=2)
item("argon2MaxMEnc", S2, r"\*m_enc >= min_m && \*m_enc <= (\d+)", "s2k.rs derive_key Argon2: m_enc upper bound")
item("argon2MemLimitKib", S2, r"const ARGON2_MEMORY_LIMIT_KIB: u32 = ([^;]+);", "s2k.rs ARGON2_MEMORY_LIMIT_KIB")

item("mpiMaxBits", "src/types/mpi.rs", r"const MAX_EXTERN_MPI_BITS: u16 = (\d+);", "mpi.rs MAX_EXTERN_MPI_BITS")
item("mpiRound", "src/types/mpi.rs", r"let len_bytes = \(len_bits \+ (\d+)\) >> (\d+);", "mpi.rs try_from_reader: (bits + k) >> s, k", group=1)
item("mpiShift", "src/types/mpi.rs", r"let len_bytes = \(len_bits \+ (\d+)\) >> (\d+);", "mpi.rs try_from_reader: (bits + k) >> s, s", group=2)

SP = "src/packet/signature/subpacket.rs"
item("spOneOctetMax", SP, r"fn try_from_reader.*?0\.\.=(\d+) => Self::One\(olen\)", "subpacket.rs SubpacketLength::try_from_reader one-octet upper bound")
item("spTwoOctetMax", SP, r"fn try_from_reader.*?(\d+)\.\.=(\d+) => \{\s*let a = i\.read_u8", "subpacket.rs two-octet range upper bound", group=2)
item("spTwoOctetSub", SP, r"\(\(olen as u16 - (\d+)\) << (\d+)\) \+ (\d+) \+ a as u16", "subpacket.rs two-octet decode: subtracted", group=1)
item("spTwoOctetShift", SP, r"\(\(olen as u16 - (\d+)\) << (\d+)\) \+ (\d+) \+ a as u16", "subpacket.rs two-octet decode: shift", group=2)
item("spTwoOctetAdd", SP, r"\(\(olen as u16 - (\d+)\) << (\d+)\) \+ (\d+) \+ a as u16", "subpacket.rs two-octet decode: added", group=3)

item("armorCrcBufLen", "src/armor/reader.rs", r"fn read_checksum.*?let mut buf = \[0; (\d+)\];", "armor/reader.rs read_checksum: buffer length")
item("armorCrcChars", "src/armor/reader.rs", r"tag\(&b\"=\"\[\.\.\]\),\s*map\(take\((\d+)u8\), Some\)", "armor/reader.rs footer_parser: number of base64 characters of the checksum")

# ---- is a repair of a C04 defect present in this tree? (the driver ops follow these) ----------------
flag("fixD4a", PS, r"EskType::V3_4 => \{\s*ensure!\(\s*!decrypted_key\.is_empty\(\)",
     "1 iff plain_secret.rs decrypt (V3_4) checks !decrypted_key.is_empty() before decrypted_key[0]")
flag("fixD4c1", "src/packet/sym_key_encrypted_session_key.rs",
     r"ensure!\(\s*!decrypted_key\.is_empty\(\)[^;]*;\s*let sym_alg = SymmetricKeyAlgorithm::from\(decrypted_key\[0\]\)",
     "1 iff SKESK v4 decrypt checks !decrypted_key.is_empty() before decrypted_key[0]")
flag("fixD4c2", ES, r"pub fn checksum\(&self\).*?self\.data\.len\(\)\.saturating_sub\(2\).*?self\.data\.len\(\)\.saturating_sub\(20\)",
     "1 iff EncryptedSecretParams::checksum uses saturating_sub for both slices")
flag("fixD4c3", "src/base64/reader.rs", r"fn read\(&mut self, into: &mut \[u8\]\) -> io::Result<usize> \{\s*if into\.is_empty\(\) \{\s*return Ok\(0\);",
     "1 iff Base64Reader::read returns Ok(0) for an empty output buffer first")
flag("fixD4f", "src/crypto/aes_kw.rs", r"pub fn unwrap\(key: &\[u8\], data: &\[u8\]\)[^{]*\{\s*if data\.len\(\) < IV_LEN",
     "1 iff aes_kw::unwrap rejects data shorter than IV_LEN before subtracting")
flag("fixEcdhLen", "src/crypto/ecdh.rs", r"ensure!\(\s*encrypted_key_len >= encrypted_session_key\.len\(\)",
     "1 iff ecdh::derive_session_key checks encrypted_key_len >= encrypted_session_key.len() first")
flag("fixD4h", "src/composed/message/reader/literal.rs",
     r"fn fill_inner\(&mut self\) -> io::Result<\(\)> \{\s*if matches!\(self, Self::Error\) \{\s*return Err",
     "1 iff LiteralDataReader::fill_inner returns Err in the Error state before calling is_done()")
flag("fixD4g", "src/armor/reader.rs", r"Part::Temp => panic!", "1 iff Dearmor::read no longer panics in Part::Temp", absent=True)

derived("""
/-- `SymmetricKeyAlgorithm::from(u8).key_size()` as a table (octet, key size); other octets: 0 -/
def symKeySizeTable : List (Nat × Nat) :=
  [(symIdIDEA, symKsIDEA), (symIdTripleDES, symKsTripleDES), (symIdCAST5, symKsCAST5), (symIdBlowfish, symKsBlowfish),
   (symIdAES128, symKsAES128), (symIdAES192, symKsAES192), (symIdAES256, symKsAES256), (symIdTwofish, symKsTwofish),
   (symIdCamellia128, symKsCamellia128), (symIdCamellia192, symKsCamellia192), (symIdCamellia256, symKsCamellia256)]

/-- `block_size()` table -/
def symBlockSizeTable : List (Nat × Nat) :=
  [(symIdIDEA, symBsIDEA), (symIdTripleDES, symBsTripleDES), (symIdCAST5, symBsCAST5), (symIdBlowfish, symBsBlowfish),
   (symIdAES128, symBsAES128), (symIdAES192, symBsAES192), (symIdAES256, symBsAES256), (symIdTwofish, symBsTwofish),
   (symIdCamellia128, symBsCamellia128), (symIdCamellia192, symBsCamellia192), (symIdCamellia256, symBsCamellia256)]

/-- `AeadAlgorithm::from(u8)`: (octet, nonce size, iv size, tag size); other octets: 0, 0, None -/
def aeadTable : List (Nat × Nat × Nat × Nat) :=
  [(aeadIdEax, aeadNonceEax, aeadIvEax, aeadTagEax), (aeadIdOcb, aeadNonceOcb, aeadIvOcb, aeadTagOcb),
   (aeadIdGcm, aeadNonceGcm, aeadIvGcm, aeadTagGcm)]
""")

# ---- crypto/sym/decryptor.rs StreamDecryptor::new: session key length (D18d) ----------------------
flag("fixD18dCfbSessionKeyLenChecked", "src/crypto/sym/decryptor.rs",
     r"pub fn new\(\s*alg: SymmetricKeyAlgorithm,\s*protected: bool,[^)]*\) -> Result<Self> \{(?:\s*//[^\n]*)*\s*ensure_eq!\(\s*key\.len\(\),\s*alg\.key_size\(\),",
     "D18d repaired: the CFB stream decryptor (SEIPDv1, SED) refuses session keys whose length is not the key size of the cipher before the cipher's own variable-length key schedule sees them")
