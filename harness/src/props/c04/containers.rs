//! Part E — every encrypted container kind × session keys of every length and algorithm octet.
//!
//! Containers: SED (tag 9), SEIPD v1, SEIPD v2, GnuPG "OCB encrypted data" (tag 20); with and
//! without `enable_legacy()` / `enable_gnupg_aead()`.
//! Session keys: lengths 0..40 × algorithm octets, (a) handed over directly as
//! `PlainSessionKey::{V3_4, V5, V6}` through `Edata::decrypt_with_options` (the admission alone:
//! correspondence op `edata_admit`), `Message::decrypt_with_session_key` and `TheRing.session_keys`;
//! (b) delivered by real ESKs of every kind the harness can build for keys / passwords it owns
//! (PKESK v3/v6 for RSA, ECDH, X25519, X448; SKESK v4/v5/v6) through `decrypt_the_ring`.
//! After every successful admission the container is read to the end (first cipher / AEAD call).

use std::io::Read;
use std::time::Instant;

use pgp::composed::{DecryptionOptions, Message, PlainSessionKey, RawSessionKey, TheRing};
use pgp::crypto::aead::AeadAlgorithm;
use pgp::crypto::hash::HashAlgorithm;
use pgp::crypto::sym::SymmetricKeyAlgorithm;
use pgp::packet::{AeadProps, Packet, PacketHeader, PublicKeyEncryptedSessionKey, SymKeyEncryptedSessionKey};
use pgp::ser::Serialize;
use pgp::types::{EskType, Password, StringToKey, Tag};
use rand::{Rng, SeedableRng};
use rand_chacha::ChaCha8Rng;

use super::{guard, no_panic, Evil, Ring};
use crate::ctx::{hx, Ctx};
use crate::gen;

#[derive(Clone, Copy, Debug, PartialEq)]
pub enum Kind {
    Sed,
    Seipd1,
    Seipd2,
    Gnupg,
}

impl Kind {
    fn name(self) -> &'static str {
        match self {
            Kind::Sed => "sed",
            Kind::Seipd1 => "seipd1",
            Kind::Seipd2 => "seipd2",
            Kind::Gnupg => "gnupg",
        }
    }
}

/// an attacker-made container of the given kind naming `sym` (where the format names one);
/// `tail` octets of arbitrary data follow the fixed fields
pub fn container(rng: &mut ChaCha8Rng, kind: Kind, sym: u8, aead: u8, cs: u8, tail: usize) -> Vec<u8> {
    let (tag, mut body) = match kind {
        Kind::Sed => (9u8, Vec::new()),
        Kind::Seipd1 => (18, vec![1u8]),
        Kind::Seipd2 => {
            let mut b = vec![2u8, sym, aead, cs];
            b.extend(gen::random_bytes(rng, 32));
            (18, b)
        }
        Kind::Gnupg => {
            let mut b = vec![1u8, sym, aead, cs];
            b.extend(gen::random_bytes(rng, AeadAlgorithm::from(aead).iv_size()));
            (20, b)
        }
    };
    body.extend(gen::random_bytes(rng, tail));
    crate::frame::frame_fixed(true, tag, if body.len() < 192 { 1 } else { 2 }, &body).expect("frame")
}

fn options(legacy: bool, gnupg: bool) -> DecryptionOptions {
    let mut o = DecryptionOptions::new();
    if legacy {
        o = o.enable_legacy();
    }
    if gnupg {
        o = o.enable_gnupg_aead();
    }
    o
}

fn alg_octets(ctx: &Ctx, rng: &mut ChaCha8Rng) -> Vec<u8> {
    if ctx.thorough() {
        return (0..=255).collect();
    }
    let mut v: Vec<u8> = vec![0, 1, 2, 3, 4, 7, 8, 9, 10, 11, 12, 13, 110, 255];
    v.push(rng.gen());
    v.sort_unstable();
    v.dedup();
    v
}

fn sk_show(sk: &PlainSessionKey) -> (String, usize) {
    match sk {
        PlainSessionKey::V3_4 { sym_alg, key } => (format!("v34:{}", u8::from(*sym_alg)), key.len()),
        PlainSessionKey::V5 { key } => ("v5".into(), key.len()),
        PlainSessionKey::V6 { key } => ("v6".into(), key.len()),
    }
}

/// (a) direct hand-over
fn direct(ctx: &mut Ctx, rng: &mut ChaCha8Rng) {
    let algs = alg_octets(ctx, rng);
    let site = "message/types.rs Edata::decrypt_with_options (session key admission) + read";
    // container parameter sets: (kind, sym, aead, cs)
    let mut sets: Vec<(Kind, u8, u8, u8)> = vec![(Kind::Sed, 0, 0, 0), (Kind::Seipd1, 0, 0, 0)];
    for sym in [7u8, 8, 9, 1, 3, 0, 200] {
        sets.push((Kind::Seipd2, sym, 2, 0));
        sets.push((Kind::Gnupg, sym, 2, 0));
    }
    for aead in [0u8, 1, 3, 100] {
        sets.push((Kind::Seipd2, 9, aead, 0));
    }
    for (kind, sym, aead, cs) in sets {
        let bytes = container(rng, kind, sym, aead, cs, 80);
        let opt_sets: &[(bool, bool)] = match kind {
            Kind::Sed => &[(false, false), (true, false)],
            Kind::Gnupg => &[(false, false), (false, true)],
            _ => &[(false, false)],
        };
        for &(legacy, gnupg) in opt_sets {
            for len in 0..=40usize {
                let mut sks: Vec<PlainSessionKey> = Vec::new();
                for &a in &algs {
                    // the octet matters where the format compares it or uses it as the cipher
                    let relevant = match kind {
                        Kind::Sed | Kind::Seipd1 => true,
                        Kind::Gnupg => a == sym || a == 7 || a == 9,
                        Kind::Seipd2 => a == sym,
                    };
                    if relevant || len == SymmetricKeyAlgorithm::from(a).key_size() {
                        sks.push(PlainSessionKey::V3_4 { sym_alg: a.into(), key: RawSessionKey::from(gen::random_bytes(rng, len)) });
                    }
                }
                sks.push(PlainSessionKey::V5 { key: RawSessionKey::from(gen::random_bytes(rng, len)) });
                sks.push(PlainSessionKey::V6 { key: RawSessionKey::from(gen::random_bytes(rng, len)) });
                for sk in sks {
                    let (skname, klen) = sk_show(&sk);
                    let opts = options(legacy, gnupg);
                    let input = format!("kind={} options(legacy={legacy},gnupg_aead={gnupg}) session_key={sk:?} container={}", kind.name(), hx(&bytes));
                    // admission alone
                    let t = Instant::now();
                    let r = guard(|| {
                        let m = Message::from_bytes(&bytes[..])?;
                        let Message::Encrypted { mut edata, .. } = m else { return Err(pgp::errors::Error::MissingKey) };
                        edata.decrypt_with_options(&sk, opts)?;
                        // first cipher / AEAD call
                        let mut out = Vec::new();
                        let _ = edata.read_to_end(&mut out);
                        Ok::<_, pgp::errors::Error>(())
                    });
                    no_panic(ctx, site, &input, &r, t);
                    let req = match kind {
                        Kind::Sed => format!("edata_admit kind=sed legacy={} sk={skname} keylen={klen}", legacy as u8),
                        Kind::Seipd1 => format!("edata_admit kind=seipd1 sk={skname} keylen={klen}"),
                        Kind::Seipd2 => format!("edata_admit kind=seipd2 sym={sym} aead={aead} cs={cs} sk={skname} keylen={klen}"),
                        Kind::Gnupg => format!("edata_admit kind=gnupg optin={} sym={sym} aead={aead} sk={skname} keylen={klen}", gnupg as u8),
                    };
                    ctx.case(req, super::cls(&r).to_string());
                    if kind == Kind::Gnupg {
                        // the first AEAD call on an attacker-made container: the primitive rejects
                        let t = Instant::now();
                        let r2 = guard(|| {
                            let m = Message::from_bytes(&bytes[..])?;
                            let Message::Encrypted { mut edata, .. } = m else { return Err(pgp::errors::Error::MissingKey) };
                            edata.decrypt_with_options(&sk, opts)?;
                            let mut out = Vec::new();
                            edata.read_to_end(&mut out)?;
                            Ok::<_, pgp::errors::Error>(())
                        });
                        no_panic(ctx, site, &input, &r2, t);
                        ctx.case(
                            format!("gnupg_open optin={} sym={sym} aead={aead} sk={skname} keylen={klen} opened=x", gnupg as u8),
                            super::cls(&r2).to_string(),
                        );
                    }
                    // the composed entry points: decrypt_with_session_key (default options) and TheRing
                    if len % 8 == 0 || len == 1 || len == 17 || ctx.thorough() {
                        let t = Instant::now();
                        let r3 = guard(|| {
                            let mut d = Message::from_bytes(&bytes[..])?.decrypt_with_session_key(sk.clone())?;
                            let mut out = Vec::new();
                            d.read_to_end(&mut out)?;
                            Ok::<_, pgp::errors::Error>(())
                        });
                        no_panic(ctx, "Message::decrypt_with_session_key + read", &input, &r3, t);
                        let t = Instant::now();
                        let r4 = guard(|| {
                            let ring = TheRing { session_keys: vec![sk.clone()], decrypt_options: opts, ..Default::default() };
                            let (mut d, _) = Message::from_bytes(&bytes[..])?.decrypt_the_ring(ring, true)?;
                            let mut out = Vec::new();
                            d.read_to_end(&mut out)?;
                            Ok::<_, pgp::errors::Error>(())
                        });
                        no_panic(ctx, "Message::decrypt_the_ring (TheRing.session_keys) + read", &input, &r4, t);
                        ctx.stat(&format!("container:{}:ring:{}", kind.name(), super::cls(&r4)));
                    }
                }
            }
        }
    }
}

/// SKESK v5 (GnuPG) around an attacker-chosen session key, for a password the recipient holds
fn skesk_v5(rng: &mut ChaCha8Rng, pw: &Password, sym: SymmetricKeyAlgorithm, plain: &[u8]) -> Option<SymKeyEncryptedSessionKey> {
    let s2k = StringToKey::Salted { hash_alg: HashAlgorithm::Sha256, salt: rng.gen() };
    let key = s2k.derive_key(&pw.read(), sym.key_size()).ok()?;
    let iv: [u8; 15] = rng.gen();
    let info = [0xC3u8, 5, sym.into(), AeadAlgorithm::Ocb.into()];
    let mut buf = bytes::BytesMut::from(plain);
    AeadAlgorithm::Ocb.encrypt_in_place(&sym, key.as_ref(), &iv, &info, &mut buf).ok()?;
    let len = 1 + 1 + 1 + s2k.write_len() + 15 + buf.len();
    Some(SymKeyEncryptedSessionKey::V5 {
        packet_header: PacketHeader::new_fixed(Tag::SymKeyEncryptedSessionKey, len as u32),
        sym_algorithm: sym,
        s2k,
        aead: AeadProps::Ocb { iv },
        encrypted_key: buf.freeze(),
    })
}

fn skesk_v4(rng: &mut ChaCha8Rng, pw: &Password, sym: SymmetricKeyAlgorithm, plain: &[u8]) -> Option<SymKeyEncryptedSessionKey> {
    let s2k = StringToKey::Salted { hash_alg: HashAlgorithm::Sha256, salt: rng.gen() };
    let key = s2k.derive_key(&pw.read(), sym.key_size()).ok()?;
    let mut enc = plain.to_vec();
    sym.encrypt_with_iv_regular(key.as_ref(), &vec![0u8; sym.block_size()], &mut enc).ok()?;
    let len = 2 + s2k.write_len() + enc.len();
    Some(SymKeyEncryptedSessionKey::V4 {
        packet_header: PacketHeader::new_fixed(Tag::SymKeyEncryptedSessionKey, len as u32),
        sym_algorithm: sym,
        s2k,
        encrypted_key: enc.into(),
    })
}

/// (b) through real ESKs
fn through_esks(ctx: &mut Ctx, ring: &Ring, rng: &mut ChaCha8Rng) {
    let site = "Message::decrypt_the_ring (ESK -> session key -> container admission) + read";
    let pw = Password::from("hunter2");
    // the containers: each kind, naming AES-128 and AES-256 where the format names a cipher
    let mut conts: Vec<(Kind, u8, Vec<u8>)> = Vec::new();
    conts.push((Kind::Sed, 0, container(rng, Kind::Sed, 0, 0, 0, 80)));
    conts.push((Kind::Seipd1, 0, container(rng, Kind::Seipd1, 0, 0, 0, 80)));
    for sym in [7u8, 9] {
        conts.push((Kind::Seipd2, sym, container(rng, Kind::Seipd2, sym, 2, 0, 80)));
        conts.push((Kind::Gnupg, sym, container(rng, Kind::Gnupg, sym, 2, 0, 80)));
    }
    let lens: Vec<usize> = if ctx.thorough() { (0..=40).collect() } else { vec![0, 1, 2, 3, 8, 15, 16, 17, 18, 19, 24, 25, 27, 32, 33, 35, 40] };
    let algs: Vec<u8> = if ctx.thorough() { vec![0, 1, 2, 3, 4, 7, 8, 9, 10, 13, 110, 255] } else { vec![7, 9, 3] };

    let mut run_msg = |ctx: &mut Ctx, esk: &[u8], what: &str, keys: Option<&pgp::composed::SignedSecretKey>| {
        for (kind, _sym, cont) in &conts {
            let mut msg = esk.to_vec();
            msg.extend_from_slice(cont);
            for (legacy, gnupg) in [(false, false), (true, true)] {
                if !legacy && matches!(kind, Kind::Sed | Kind::Gnupg) && what.len() % 2 == 0 {
                    continue; // the refusal without opt-in does not depend on the key: sample it
                }
                let t = Instant::now();
                let r = guard(|| {
                    let ring = TheRing {
                        secret_keys: keys.into_iter().collect(),
                        message_password: vec![&pw],
                        decrypt_options: options(legacy, gnupg),
                        ..Default::default()
                    };
                    let (mut d, _) = Message::from_bytes(&msg[..])?.decrypt_the_ring(ring, true)?;
                    let mut out = Vec::new();
                    d.read_to_end(&mut out)?;
                    Ok::<_, pgp::errors::Error>(())
                });
                no_panic(ctx, site, &format!("{what} options(legacy={legacy},gnupg_aead={gnupg}) msg={}", hx(&msg)), &r, t);
                ctx.stat(&format!("container:{}:esk:{}", kind.name(), super::cls(&r)));
            }
        }
    };

    // PKESK v3 / v6 for every owned key
    for (name, sk) in &ring.keys {
        let pk = sk.secret_subkeys[0].public_key();
        let is_rsa = *name == "rsa";
        for v6 in [false, true] {
            for &len in &lens {
                for &alg in &algs {
                    if v6 && alg != algs[0] {
                        continue;
                    }
                    // plaintext as the format of this key type expects it, with the attacker's key length
                    let key = gen::random_bytes(rng, len);
                    let mut plain = Vec::new();
                    if !v6 {
                        plain.push(alg);
                    }
                    plain.extend_from_slice(&key);
                    let wrapped_only = name.starts_with('x');
                    if !wrapped_only {
                        let sum: u32 = key.iter().map(|b| *b as u32).sum();
                        plain.extend_from_slice(&(sum as u16).to_be_bytes());
                    }
                    if is_rsa && !ctx.thorough() && len % 8 != 0 && len > 3 {
                        continue;
                    }
                    let evil = Evil { inner: &pk, plain: plain.clone() };
                    let dummy = RawSessionKey::from(vec![0u8; 16]);
                    let pkesk = guard(|| {
                        if v6 {
                            PublicKeyEncryptedSessionKey::from_session_key_v6(&mut *rng, &dummy, &evil)
                        } else {
                            PublicKeyEncryptedSessionKey::from_session_key_v3(&mut *rng, &dummy, SymmetricKeyAlgorithm::AES128, &evil)
                        }
                    });
                    let Ok(Ok(pkesk)) = pkesk else {
                        ctx.stat(&format!("container:pkesk:{name}:sender-cannot-produce"));
                        continue;
                    };
                    let Ok(esk) = Packet::from(pkesk).to_bytes() else { continue };
                    let what = format!("pkesk(v{}) key={name} alg={alg} session_key_len={len}", if v6 { 6 } else { 3 });
                    run_msg(ctx, &esk, &what, Some(sk));
                }
            }
        }
    }
    // SKESK v4 / v5 / v6 for the held password
    for &len in &lens {
        for &alg in &algs {
            let key = gen::random_bytes(rng, len);
            let mut plain4 = vec![alg];
            plain4.extend_from_slice(&key);
            if let Some(s) = skesk_v4(rng, &pw, SymmetricKeyAlgorithm::AES128, &plain4) {
                if let Ok(esk) = Packet::from(s).to_bytes() {
                    run_msg(ctx, &esk, &format!("skesk(v4) alg={alg} session_key_len={len}"), None);
                }
            }
            if alg != algs[0] {
                continue;
            }
            for sym in [SymmetricKeyAlgorithm::AES128, SymmetricKeyAlgorithm::AES256] {
                if let Some(s) = skesk_v5(rng, &pw, sym, &key) {
                    if let Ok(esk) = Packet::from(s).to_bytes() {
                        run_msg(ctx, &esk, &format!("skesk(v5,{sym:?}) session_key_len={len}"), None);
                    }
                }
                let s2k = StringToKey::Salted { hash_alg: HashAlgorithm::Sha256, salt: rng.gen() };
                if let Ok(Ok(s)) = guard(|| SymKeyEncryptedSessionKey::encrypt_v6(&mut *rng, &pw, &RawSessionKey::from(key.clone()), s2k, sym, AeadAlgorithm::Ocb)) {
                    if let Ok(esk) = Packet::from(s).to_bytes() {
                        run_msg(ctx, &esk, &format!("skesk(v6,{sym:?}) session_key_len={len}"), None);
                    }
                }
            }
        }
    }
}

pub fn run(ctx: &mut Ctx, ring: &Ring) {
    let mut rng = ChaCha8Rng::seed_from_u64(ctx.seed ^ 0xC04E);
    direct(ctx, &mut rng);
    through_esks(ctx, ring, &mut rng);
}
