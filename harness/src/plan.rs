//! Interpreter of the *plans* printed by the Lean driver (`RpgpModel/Plan.lean`, `PExpr.render`).
//!
//! No OpenPGP logic here: a plan is an expression tree over byte strings whose inner nodes are
//! calls of primitives; this file parses the rendering and evaluates it with the RustCrypto
//! crates.  Also: batch access to the native Lean driver, and a few bare primitives the harness
//! needs to read random values back from artefacts (CFB decryption, AES key unwrap).
//!
//! Grammar (prefix notation, no blanks):
//!   x<hex>|x-          literal             p<seed>.<off>.<len>  slice of the test pattern
//!   z<n>               n zero octets       c(a,b)               concatenation
//!   r<n>(e)            n repetitions       t<n>(e) / d<n>(e)    take / drop
//!   h<alg>(e)          hash (OpenPGP id)   k<hash>.<len>(salt,ikm,info)   HKDF
//!   f<alg>(key,iv,e)   CFB encryption      s<sym>.<aead>(key,nonce,ad,e)  AEAD seal
//!   w(kek,e)           AES key wrap        a<t>.<p>.<m>.<len>(pw,salt)    Argon2id v0x13

use std::io::Write;
use std::path::PathBuf;
use std::process::{Command, Stdio};

use aead::{Aead, KeyInit, Payload};
use cipher::{AsyncStreamCipher, KeyIvInit};
use digest::DynDigest;
use generic_array::typenum::{U12, U15, U16};
use generic_array::GenericArray;

#[derive(Debug, Clone)]
pub enum E {
    Lit(Vec<u8>),
    Pat(usize, usize, usize),
    Zeros(usize),
    Cat(Box<E>, Box<E>),
    Rep(usize, Box<E>),
    Take(usize, Box<E>),
    Drop(usize, Box<E>),
    Hash(u8, Box<E>),
    Hkdf(u8, usize, Box<E>, Box<E>, Box<E>),
    Cfb(u8, Box<E>, Box<E>, Box<E>),
    Aead(u8, u8, Box<E>, Box<E>, Box<E>, Box<E>),
    Kw(Box<E>, Box<E>),
    Argon2 { t: u32, p: u32, m: u32, len: usize, pw: Box<E>, salt: Box<E> },
}

// ---------------------------------------------------------------------------------- parser

struct Parser<'a> {
    s: &'a [u8],
    pos: usize,
}

impl<'a> Parser<'a> {
    fn peek(&self) -> Option<u8> {
        self.s.get(self.pos).copied()
    }
    fn eat(&mut self, c: u8) -> Result<(), String> {
        if self.peek() == Some(c) {
            self.pos += 1;
            Ok(())
        } else {
            Err(format!("expected '{}' at {}", c as char, self.pos))
        }
    }
    fn num(&mut self) -> Result<usize, String> {
        let start = self.pos;
        while matches!(self.peek(), Some(b'0'..=b'9')) {
            self.pos += 1;
        }
        std::str::from_utf8(&self.s[start..self.pos])
            .ok()
            .and_then(|t| t.parse().ok())
            .ok_or_else(|| format!("number expected at {start}"))
    }
    fn nums(&mut self, n: usize) -> Result<Vec<usize>, String> {
        let mut v = vec![self.num()?];
        for _ in 1..n {
            self.eat(b'.')?;
            v.push(self.num()?);
        }
        Ok(v)
    }
    fn args(&mut self, n: usize) -> Result<Vec<E>, String> {
        self.eat(b'(')?;
        let mut v = vec![self.expr()?];
        for _ in 1..n {
            self.eat(b',')?;
            v.push(self.expr()?);
        }
        self.eat(b')')?;
        Ok(v)
    }
    fn expr(&mut self) -> Result<E, String> {
        let c = self.peek().ok_or("unexpected end")?;
        self.pos += 1;
        let bx = Box::new;
        Ok(match c {
            b'x' => {
                if self.peek() == Some(b'-') {
                    self.pos += 1;
                    E::Lit(vec![])
                } else {
                    let start = self.pos;
                    while matches!(self.peek(), Some(b'0'..=b'9' | b'a'..=b'f')) {
                        self.pos += 1;
                    }
                    E::Lit(hex::decode(&self.s[start..self.pos]).map_err(|e| e.to_string())?)
                }
            }
            b'p' => {
                let v = self.nums(3)?;
                E::Pat(v[0], v[1], v[2])
            }
            b'z' => E::Zeros(self.num()?),
            b'c' => {
                let mut a = self.args(2)?;
                let b = a.pop().unwrap();
                E::Cat(bx(a.pop().unwrap()), bx(b))
            }
            b'r' => {
                let n = self.num()?;
                E::Rep(n, bx(self.args(1)?.pop().unwrap()))
            }
            b't' => {
                let n = self.num()?;
                E::Take(n, bx(self.args(1)?.pop().unwrap()))
            }
            b'd' => {
                let n = self.num()?;
                E::Drop(n, bx(self.args(1)?.pop().unwrap()))
            }
            b'h' => {
                let n = self.num()?;
                E::Hash(n as u8, bx(self.args(1)?.pop().unwrap()))
            }
            b'k' => {
                let v = self.nums(2)?;
                let mut a = self.args(3)?.into_iter();
                E::Hkdf(v[0] as u8, v[1], bx(a.next().unwrap()), bx(a.next().unwrap()), bx(a.next().unwrap()))
            }
            b'f' => {
                let n = self.num()?;
                let mut a = self.args(3)?.into_iter();
                E::Cfb(n as u8, bx(a.next().unwrap()), bx(a.next().unwrap()), bx(a.next().unwrap()))
            }
            b's' => {
                let v = self.nums(2)?;
                let mut a = self.args(4)?.into_iter();
                E::Aead(
                    v[0] as u8,
                    v[1] as u8,
                    bx(a.next().unwrap()),
                    bx(a.next().unwrap()),
                    bx(a.next().unwrap()),
                    bx(a.next().unwrap()),
                )
            }
            b'w' => {
                let mut a = self.args(2)?.into_iter();
                E::Kw(bx(a.next().unwrap()), bx(a.next().unwrap()))
            }
            b'a' => {
                let v = self.nums(4)?;
                let mut a = self.args(2)?.into_iter();
                E::Argon2 {
                    t: v[0] as u32,
                    p: v[1] as u32,
                    m: v[2] as u32,
                    len: v[3],
                    pw: bx(a.next().unwrap()),
                    salt: bx(a.next().unwrap()),
                }
            }
            other => return Err(format!("unknown node '{}' at {}", other as char, self.pos - 1)),
        })
    }
}

pub fn parse(s: &str) -> Result<E, String> {
    let mut p = Parser { s: s.as_bytes(), pos: 0 };
    let e = p.expr()?;
    if p.pos != s.len() {
        return Err(format!("trailing input at {}", p.pos));
    }
    Ok(e)
}

// ------------------------------------------------------------------------------- primitives

pub fn pat_byte(seed: usize, i: usize) -> u8 {
    ((i * 7 + seed * 13 + i / 251) % 256) as u8
}

pub fn new_hasher(alg: u8) -> Result<Box<dyn DynDigest>, String> {
    Ok(match alg {
        1 => Box::new(<md5::Md5 as digest::Digest>::new()),
        2 => Box::new(<sha1::Sha1 as digest::Digest>::new()),
        3 => Box::new(<ripemd::Ripemd160 as digest::Digest>::new()),
        8 => Box::new(<sha2::Sha256 as digest::Digest>::new()),
        9 => Box::new(<sha2::Sha384 as digest::Digest>::new()),
        10 => Box::new(<sha2::Sha512 as digest::Digest>::new()),
        11 => Box::new(<sha2::Sha224 as digest::Digest>::new()),
        12 => Box::new(<sha3::Sha3_256 as digest::Digest>::new()),
        14 => Box::new(<sha3::Sha3_512 as digest::Digest>::new()),
        _ => return Err(format!("hash {alg}")),
    })
}

pub fn hash(alg: u8, data: &[u8]) -> Result<Vec<u8>, String> {
    let mut h = new_hasher(alg)?;
    h.update(data);
    Ok(h.finalize().to_vec())
}

pub fn hkdf(hash: u8, salt: &[u8], ikm: &[u8], info: &[u8], len: usize) -> Result<Vec<u8>, String> {
    let salt = if salt.is_empty() { None } else { Some(salt) };
    let mut okm = vec![0u8; len];
    match hash {
        8 => hkdf::Hkdf::<sha2::Sha256>::new(salt, ikm).expand(info, &mut okm).map_err(|e| e.to_string())?,
        10 => hkdf::Hkdf::<sha2::Sha512>::new(salt, ikm).expand(info, &mut okm).map_err(|e| e.to_string())?,
        _ => return Err(format!("hkdf hash {hash}")),
    }
    Ok(okm)
}

macro_rules! cfb_dispatch {
    ($alg:expr, $mode:ident, $key:expr, $iv:expr, $buf:expr, $call:ident) => {
        match $alg {
            1 => cfb_mode::$mode::<idea::Idea>::new_from_slices($key, $iv).map_err(|e| e.to_string())?.$call($buf),
            2 => cfb_mode::$mode::<des::TdesEde3>::new_from_slices($key, $iv).map_err(|e| e.to_string())?.$call($buf),
            3 => cfb_mode::$mode::<cast5::Cast5>::new_from_slices($key, $iv).map_err(|e| e.to_string())?.$call($buf),
            4 => cfb_mode::$mode::<blowfish::Blowfish>::new_from_slices($key, $iv).map_err(|e| e.to_string())?.$call($buf),
            7 => cfb_mode::$mode::<aes::Aes128>::new_from_slices($key, $iv).map_err(|e| e.to_string())?.$call($buf),
            8 => cfb_mode::$mode::<aes::Aes192>::new_from_slices($key, $iv).map_err(|e| e.to_string())?.$call($buf),
            9 => cfb_mode::$mode::<aes::Aes256>::new_from_slices($key, $iv).map_err(|e| e.to_string())?.$call($buf),
            10 => cfb_mode::$mode::<twofish::Twofish>::new_from_slices($key, $iv).map_err(|e| e.to_string())?.$call($buf),
            11 => cfb_mode::$mode::<camellia::Camellia128>::new_from_slices($key, $iv).map_err(|e| e.to_string())?.$call($buf),
            12 => cfb_mode::$mode::<camellia::Camellia192>::new_from_slices($key, $iv).map_err(|e| e.to_string())?.$call($buf),
            13 => cfb_mode::$mode::<camellia::Camellia256>::new_from_slices($key, $iv).map_err(|e| e.to_string())?.$call($buf),
            other => return Err(format!("cipher {other}")),
        }
    };
}

pub fn cfb_encrypt(alg: u8, key: &[u8], iv: &[u8], data: &[u8]) -> Result<Vec<u8>, String> {
    let mut buf = data.to_vec();
    cfb_dispatch!(alg, Encryptor, key, iv, &mut buf[..], encrypt);
    Ok(buf)
}

pub fn cfb_decrypt(alg: u8, key: &[u8], iv: &[u8], data: &[u8]) -> Result<Vec<u8>, String> {
    let mut buf = data.to_vec();
    cfb_dispatch!(alg, Decryptor, key, iv, &mut buf[..], decrypt);
    Ok(buf)
}

type Ocb<C> = ocb3::Ocb3<C, U15, U16>;
type Gcm<C> = aes_gcm::AesGcm<C, U12>;

macro_rules! aead_go {
    ($ty:ty, $nlen:expr, $key:expr, $nonce:expr, $ad:expr, $data:expr, $open:expr) => {{
        if $nonce.len() != $nlen {
            return Err(format!("nonce length {}", $nonce.len()));
        }
        let c = <$ty>::new_from_slice($key).map_err(|e| e.to_string())?;
        let n = GenericArray::from_slice($nonce);
        let pl = Payload { msg: $data, aad: $ad };
        if $open { c.decrypt(n, pl).map_err(|e| e.to_string()) } else { c.encrypt(n, pl).map_err(|e| e.to_string()) }
    }};
}

fn aead_run(sym: u8, mode: u8, key: &[u8], nonce: &[u8], ad: &[u8], data: &[u8], open: bool) -> Result<Vec<u8>, String> {
    match (sym, mode) {
        (7, 1) => aead_go!(eax::Eax<aes::Aes128>, 16, key, nonce, ad, data, open),
        (8, 1) => aead_go!(eax::Eax<aes::Aes192>, 16, key, nonce, ad, data, open),
        (9, 1) => aead_go!(eax::Eax<aes::Aes256>, 16, key, nonce, ad, data, open),
        (7, 2) => aead_go!(Ocb<aes::Aes128>, 15, key, nonce, ad, data, open),
        (8, 2) => aead_go!(Ocb<aes::Aes192>, 15, key, nonce, ad, data, open),
        (9, 2) => aead_go!(Ocb<aes::Aes256>, 15, key, nonce, ad, data, open),
        (7, 3) => aead_go!(Gcm<aes::Aes128>, 12, key, nonce, ad, data, open),
        (8, 3) => aead_go!(Gcm<aes::Aes192>, 12, key, nonce, ad, data, open),
        (9, 3) => aead_go!(Gcm<aes::Aes256>, 12, key, nonce, ad, data, open),
        _ => Err(format!("aead {sym}.{mode}")),
    }
}

pub fn aead_seal(sym: u8, mode: u8, key: &[u8], nonce: &[u8], ad: &[u8], pt: &[u8]) -> Result<Vec<u8>, String> {
    aead_run(sym, mode, key, nonce, ad, pt, false)
}

pub fn aead_open(sym: u8, mode: u8, key: &[u8], nonce: &[u8], ad: &[u8], ct: &[u8]) -> Result<Vec<u8>, String> {
    aead_run(sym, mode, key, nonce, ad, ct, true)
}

pub fn kw_wrap(kek: &[u8], data: &[u8]) -> Result<Vec<u8>, String> {
    match kek.len() {
        16 => aes_kw::KekAes128::new(GenericArray::from_slice(kek)).wrap_vec(data).map_err(|e| e.to_string()),
        24 => aes_kw::KekAes192::new(GenericArray::from_slice(kek)).wrap_vec(data).map_err(|e| e.to_string()),
        32 => aes_kw::KekAes256::new(GenericArray::from_slice(kek)).wrap_vec(data).map_err(|e| e.to_string()),
        n => Err(format!("kek length {n}")),
    }
}

pub fn kw_unwrap(kek: &[u8], data: &[u8]) -> Result<Vec<u8>, String> {
    match kek.len() {
        16 => aes_kw::KekAes128::new(GenericArray::from_slice(kek)).unwrap_vec(data).map_err(|e| e.to_string()),
        24 => aes_kw::KekAes192::new(GenericArray::from_slice(kek)).unwrap_vec(data).map_err(|e| e.to_string()),
        32 => aes_kw::KekAes256::new(GenericArray::from_slice(kek)).unwrap_vec(data).map_err(|e| e.to_string()),
        n => Err(format!("kek length {n}")),
    }
}

pub fn argon2id(pw: &[u8], salt: &[u8], t: u32, p: u32, m: u32, len: usize) -> Result<Vec<u8>, String> {
    let params = argon2::Params::new(m, t, p, Some(len)).map_err(|e| e.to_string())?;
    let a = argon2::Argon2::new(argon2::Algorithm::Argon2id, argon2::Version::V0x13, params);
    let mut out = vec![0u8; len];
    a.hash_password_into(pw, salt, &mut out).map_err(|e| e.to_string())?;
    Ok(out)
}

// -------------------------------------------------------------------------------- evaluator

/// stream the value of `e` into `sink` (repetitions are never materialised)
fn feed(e: &E, sink: &mut dyn FnMut(&[u8])) -> Result<(), String> {
    match e {
        E::Lit(b) => sink(b),
        E::Pat(seed, off, len) => {
            let mut buf = Vec::with_capacity(8192.min(*len));
            let mut i = 0;
            while i < *len {
                buf.clear();
                let n = 8192.min(*len - i);
                buf.extend((0..n).map(|j| pat_byte(*seed, off + i + j)));
                sink(&buf);
                i += n;
            }
        }
        E::Zeros(n) => {
            let z = [0u8; 4096];
            let mut left = *n;
            while left > 0 {
                let k = left.min(z.len());
                sink(&z[..k]);
                left -= k;
            }
        }
        E::Cat(a, b) => {
            feed(a, sink)?;
            feed(b, sink)?;
        }
        E::Rep(n, inner) => {
            let unit = eval(inner)?;
            if !unit.is_empty() {
                // feed in blocks of whole units to keep the call count low
                let per = (65536 / unit.len()).max(1).min((*n).max(1));
                let block: Vec<u8> = unit.iter().copied().cycle().take(unit.len() * per).collect();
                let mut left = *n;
                while left >= per && per > 0 {
                    sink(&block);
                    left -= per;
                }
                for _ in 0..left {
                    sink(&unit);
                }
            }
        }
        other => {
            let v = eval(other)?;
            sink(&v);
        }
    }
    Ok(())
}

pub fn eval(e: &E) -> Result<Vec<u8>, String> {
    Ok(match e {
        E::Lit(_) | E::Pat(..) | E::Zeros(_) | E::Cat(..) | E::Rep(..) => {
            let mut out = Vec::new();
            feed(e, &mut |b| out.extend_from_slice(b))?;
            out
        }
        E::Take(n, inner) => {
            let mut v = eval(inner)?;
            v.truncate(*n);
            v
        }
        E::Drop(n, inner) => {
            let v = eval(inner)?;
            v[(*n).min(v.len())..].to_vec()
        }
        E::Hash(alg, inner) => {
            let mut h = new_hasher(*alg)?;
            feed(inner, &mut |b| h.update(b))?;
            h.finalize().to_vec()
        }
        E::Hkdf(h, len, salt, ikm, info) => hkdf(*h, &eval(salt)?, &eval(ikm)?, &eval(info)?, *len)?,
        E::Cfb(alg, key, iv, data) => cfb_encrypt(*alg, &eval(key)?, &eval(iv)?, &eval(data)?)?,
        E::Aead(sym, mode, key, nonce, ad, data) => {
            aead_seal(*sym, *mode, &eval(key)?, &eval(nonce)?, &eval(ad)?, &eval(data)?)?
        }
        E::Kw(kek, data) => kw_wrap(&eval(kek)?, &eval(data)?)?,
        E::Argon2 { t, p, m, len, pw, salt } => argon2id(&eval(pw)?, &eval(salt)?, *t, *p, *m, *len)?,
    })
}

/// parse + evaluate the payload of an `ok:<plan>` answer
pub fn eval_answer(ans: &str) -> Result<Vec<u8>, String> {
    let body = ans.strip_prefix("ok:").ok_or_else(|| format!("not a plan: {}", &ans[..ans.len().min(40)]))?;
    eval(&parse(body)?)
}

// ------------------------------------------------------------------------- the Lean driver

/// Batch access to the native model driver (`lean/.lake/build/bin/rpgp_model`).
pub struct Model {
    exe: Option<PathBuf>,
    scratch: PathBuf,
    pub batches: usize,
}

impl Model {
    pub fn locate(scratch_dir: &str) -> Self {
        let mut cands: Vec<PathBuf> = Vec::new();
        if let Ok(p) = std::env::var("VERIF_DRIVER") {
            cands.push(PathBuf::from(p));
        }
        cands.push(PathBuf::from("lean/.lake/build/bin/rpgp_model"));
        if let Ok(me) = std::env::current_exe() {
            // <verif>/harness/target/release/<exe>
            if let Some(root) = me.ancestors().nth(4) {
                cands.push(root.join("lean/.lake/build/bin/rpgp_model"));
            }
        }
        let exe = cands.into_iter().find(|p| p.is_file());
        Self { exe, scratch: PathBuf::from(scratch_dir), batches: 0 }
    }

    pub fn available(&self) -> bool {
        self.exe.is_some()
    }

    /// one answer per request, in order (`nodriver` when the driver cannot be run)
    pub fn ask(&mut self, reqs: &[String]) -> Vec<String> {
        let fail = |n: usize| vec!["nodriver".to_string(); n];
        if reqs.is_empty() {
            return vec![];
        }
        let Some(exe) = &self.exe else { return fail(reqs.len()) };
        self.batches += 1;
        let path = self.scratch.join(format!("plan_requests_{}.txt", self.batches));
        {
            let Ok(mut f) = std::fs::File::create(&path) else { return fail(reqs.len()) };
            for r in reqs {
                if writeln!(f, "{r}").is_err() {
                    return fail(reqs.len());
                }
            }
        }
        let Ok(fin) = std::fs::File::open(&path) else { return fail(reqs.len()) };
        let out = Command::new(exe).stdin(Stdio::from(fin)).stderr(Stdio::null()).output();
        let _ = std::fs::remove_file(&path);
        match out {
            Ok(o) if o.status.success() => {
                let text = String::from_utf8_lossy(&o.stdout);
                let v: Vec<String> = text.lines().map(|l| l.to_string()).collect();
                if v.len() == reqs.len() { v } else { fail(reqs.len()) }
            }
            _ => fail(reqs.len()),
        }
    }
}
