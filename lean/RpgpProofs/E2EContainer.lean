import RpgpModel.E2E
import RpgpProofs.Message
import RpgpProofs.Seipd1
import RpgpProofs.Seipd2
import RpgpProofs.SymEnc
import RpgpProofs.Wire
/-! E2E, part 4: the encrypted container.  Adapters between the *writer* models of C12
(`Sym.Seipd1.stream`, `Sym.Seipd2.encrypt`, over `Sym.Prims`) and the *reader* models of C03
(`seipd1CheckFirst`, `seipd2Decrypt`, over an abstract `Aead` / the CFB-decrypted stream), then
`openContainer (container) (session key) = plaintext`. -/
namespace Rpgp.E2E
open Rpgp

/-- primitive laws used by the container and the session-key packets -/
structure CryptoLaws (P : Prims) : Prop where
  cfb_dec_enc : ∀ alg key iv x, P.cfbDec alg key iv (P.sym.cfbEnc alg key iv x) = x
  cfb_online : ∀ alg key iv, Sym.Online (P.sym.cfbEnc alg key iv)
  sha1_len : ∀ x, 20 ≤ (P.sym.hash Sym.sha1Id x).length
  aead_len : ∀ s m k n ad p, (P.sym.aead s m k n ad p).length = p.length + 16
  aead_open_seal : ∀ s m k n ad p, P.aeadOpen s m k n ad (P.sym.aead s m k n ad p) = some p
  aead_open_len : ∀ s m k n ad c p, P.aeadOpen s m k n ad c = some p → c.length = p.length + 16

theorem aeadOf_laws (P : Prims) (L : CryptoLaws P) (sym mode : Nat) (mk n0 : Bytes) :
    AeadLaws (aeadOf P sym mode mk n0) 16 :=
  ⟨fun _ _ _ => L.aead_len .., fun _ _ _ => L.aead_open_seal .., fun _ _ _ _ h => L.aead_open_len _ _ _ _ _ _ _ h⟩

/-! ### SEIPDv2: the writer of C12 is the encryptor the reader of C03 was proved against -/

theorem chunks_eq_sealChunks (P : Prims) (sym mode : Nat) (mk n0 inf : Bytes) (csz total : Nat) :
    ∀ (i : Nat) (pt : Bytes),
      Sym.Seipd2.chunks P.sym sym mode mk n0 inf csz total i pt =
        (sealChunks (aeadOf P sym mode mk n0) inf i (chunksOf csz pt)).flatten ++
          (aeadOf P sym mode mk n0).aeadEnc (i + (chunksOf csz pt).length) (inf ++ be64 total) [] := by
  intro i pt
  fun_induction Sym.Seipd2.chunks P.sym sym mode mk n0 inf csz total i pt with
  | case1 i pt h =>
    rw [chunksOf, dif_pos h]
    simp [sealChunks, aeadOf]
  | case2 i pt h ih =>
    rw [chunksOf, dif_neg h]
    simp only [sealChunks, List.flatten_cons, List.length_cons, List.append_assoc, ih]
    simp only [aeadOf]
    rw [show i + 1 + (chunksOf csz (List.drop csz pt)).length = i + ((chunksOf csz (List.drop csz pt)).length + 1) by omega]

/-- `Sym.Seipd2.encrypt` (HKDF, message key, nonce prefix, chunk loop of the source) *is*
`seipd2Encrypt` for the per-message AEAD `aeadOf` -/
theorem seipd2_writer_eq (P : Prims) (sym mode cs : Nat) (salt key pt : Bytes) :
    Sym.Seipd2.encrypt P.sym sym mode cs salt key pt =
      seipd2Encrypt
        (aeadOf P sym mode (Sym.Seipd2.split sym mode (Sym.Seipd2.okm P.sym sym mode cs salt key)).1
          (Sym.Seipd2.split sym mode (Sym.Seipd2.okm P.sym sym mode cs salt key)).2)
        (Sym.Seipd2.info sym mode cs) (Sym.Seipd2.chunkBytes cs) pt := by
  unfold Sym.Seipd2.encrypt seipd2Encrypt seipd2Blocks
  simp only [chunks_eq_sealChunks, Nat.zero_add, List.flatten_append, List.flatten_cons, List.flatten_nil,
    List.append_nil]

theorem chunkBytes_pos (cs : Nat) : 0 < Sym.Seipd2.chunkBytes cs := by
  unfold Sym.Seipd2.chunkBytes
  rw [Nat.shiftLeft_eq, Nat.one_mul]
  exact Nat.pow_pos (by decide)

/-! ### SEIPDv1: the CFB plaintext the writer of C12 lays out is the one the reader of C03 accepts -/

theorem sha1Of_length (P : Prims) (L : CryptoLaws P) (x : Bytes) : (sha1Of P x).length = 20 := by
  unfold sha1Of
  rw [List.length_take, Nat.min_eq_left (L.sha1_len x)]

theorem prefixed_length (pre : Bytes) : (Sym.Seipd1.prefixed pre).length = pre.length + 2 := by
  simp [Sym.Seipd1.prefixed]

theorem layout_eq_seipd1Plain (P : Prims) (pre pt : Bytes) :
    Sym.Seipd1.layout P.sym pre pt = seipd1Plain (sha1Of P) (Sym.Seipd1.prefixed pre) pt := by
  have e1 : Gen.epMdcTag = Gen.mdcTagOctet := rfl
  have e2 : Gen.epMdcLenOctet = Gen.mdcLenOctet := rfl
  simp [Sym.Seipd1.layout, Sym.Seipd1.hashed, seipd1Plain, sha1Of, e1, e2, List.append_assoc]

/-! ### the container -/

/-- well-formedness of the encryption part of a configuration against one plaintext `inner`:
algorithm octets are octets, the SEIPDv1 prefix has the cipher's block size, the SEIPDv2 salt is 32
octets and the chunk octet admissible, the packet stays below 2³² octets, and the plaintext fits the
reader's `max_message_size` (SEIPDv1 `CheckFirst`) -/
structure ContainerWF (P : Prims) (o : ReadOpts) (k : Nat) (e : Encryption) (inner : Bytes) : Prop where
  k : 9 ≤ k ∧ k ≤ 30
  len : (cfgOctets e.container).length + (cipherText P e inner).length < 4294967296
  v1 : ∀ sym pre, e.container = .v1 sym pre →
    pre.length = Gen.symBlockSize sym ∧ inner.length + 22 ≤ o.maxV1
  v2 : ∀ sym aead cs salt, e.container = .v2 sym aead cs salt →
    sym < 256 ∧ aead < 256 ∧ cs ≤ Gen.chunkSizeMax ∧ salt.length = 32

theorem cfgOctets_length_le (ct : Container) (k : Nat) (hk : 9 ≤ k) (h2 : ∀ sym aead cs salt, ct = .v2 sym aead cs salt → salt.length = 32) :
    (cfgOctets ct).length ≤ 2 ^ k := by
  have : 2 ^ 9 ≤ 2 ^ k := Nat.pow_le_pow_right (by decide) hk
  cases ct with
  | v1 s p => simp [cfgOctets]; omega
  | v2 s a c salt => simp [cfgOctets, h2 s a c salt rfl]; omega

/-- the SEIPD packet the builder writes deframes to `config octets ‖ ciphertext` -/
theorem deframe_containerPkt (P : Prims) (o : ReadOpts) (k : Nat) (e : Encryption) (inner rest : Bytes)
    (wf : ContainerWF P o k e inner) :
    ∃ h, deframe (containerPkt P k e inner ++ rest) =
      .ok (h, cfgOctets e.container ++ cipherText P e inner, rest) ∧ h.tag = Gen.e2eTagSeipd :=
  deframe_emitPartial Gen.e2eTagSeipd k _ _ rest (by decide) wf.k.1 wf.k.2
    (cfgOctets_length_le _ k wf.k.1 (fun s a c salt h => (wf.v2 s a c salt h).2.2.2)) wf.len

/-- the packet body parses (C05 `seipdParse`) to the container the builder configured -/
def edataOf (P : Prims) (e : Encryption) (inner : Bytes) : Wire.Seipd :=
  match e.container with
  | .v1 .. => .v1 (cipherText P e inner)
  | .v2 sym aead cs salt => .v2 sym.toUInt8 aead.toUInt8 cs.toUInt8 salt (cipherText P e inner)

theorem seipdParse_container (P : Prims) (o : ReadOpts) (k : Nat) (e : Encryption) (inner : Bytes)
    (wf : ContainerWF P o k e inner) :
    Wire.seipdParse (cfgOctets e.container ++ cipherText P e inner) = some (edataOf P e inner) := by
  cases hc : e.container with
  | v1 sym pre =>
    have : cfgOctets (.v1 sym pre) ++ cipherText P e inner = Wire.seipdSer (.v1 (cipherText P e inner)) := by
      simp [cfgOctets, Wire.seipdSer]; decide
    rw [this, Wire.seipd_parse_ser (.v1 (cipherText P e inner)) trivial]
    simp [edataOf, hc]
  | v2 sym aead cs salt =>
    obtain ⟨_, _, hcs, hsalt⟩ := wf.v2 sym aead cs salt hc
    have : cfgOctets (.v2 sym aead cs salt) ++ cipherText P e inner =
        Wire.seipdSer (.v2 sym.toUInt8 aead.toUInt8 cs.toUInt8 salt (cipherText P e inner)) := by
      simp [cfgOctets, Wire.seipdSer]; decide
    have hcm : Gen.chunkSizeMax = 16 := rfl
    have hcs' : cs.toUInt8.toNat ≤ Gen.chunkSizeMax := by
      rw [toUInt8_toNat_of_lt cs (by omega)]; exact hcs
    rw [this, Wire.seipd_parse_ser (.v2 sym.toUInt8 aead.toUInt8 cs.toUInt8 salt (cipherText P e inner)) ⟨hcs', hsalt⟩]
    simp [edataOf, hc]

/-- **container round trip**: opening the parsed container with the session key the recipients
obtain returns the plaintext (SEIPDv1: CFB⁻¹, prefix, MDC check before any release; SEIPDv2: HKDF,
chunk loop, final tag) — for every plaintext length -/
theorem openContainer_edataOf (P : Prims) (L : CryptoLaws P) (o : ReadOpts) (k : Nat) (e : Encryption)
    (inner : Bytes) (wf : ContainerWF P o k e inner) (hsk : sessionKeyOk e = true) :
    openContainer P o (edataOf P e inner) (sessionKeyOf e) = some inner := by
  cases hc : e.container with
  | v1 sym pre =>
    obtain ⟨hpre, hmax⟩ := wf.v1 sym pre hc
    simp only [edataOf, sessionKeyOf, cipherText, hc, openContainer]
    rw [Sym.Seipd1.stream_eq_encrypt P.sym sym e.sessionKey pre inner Gen.seBufferSize (by decide)
      (L.cfb_online _ _ _) (by decide) (by decide)]
    unfold Sym.Seipd1.encrypt
    rw [L.cfb_dec_enc, layout_eq_seipd1Plain]
    exact seipd1CheckFirst_roundtrip (sha1Of P) (sha1Of_length P L) _ _ _ _
      (by rw [prefixed_length, hpre]) hmax
  | v2 sym aead cs salt =>
    obtain ⟨hsym, haead, hcs, _⟩ := wf.v2 sym aead cs salt hc
    have hcm : Gen.chunkSizeMax = 16 := rfl
    have e1 : sym.toUInt8.toNat = sym := toUInt8_toNat_of_lt sym hsym
    have e2 : aead.toUInt8.toNat = aead := toUInt8_toNat_of_lt aead haead
    have e3 : cs.toUInt8.toNat = cs := toUInt8_toNat_of_lt cs (by omega)
    have hkl : e.sessionKey.length = Gen.c12SymKeySize sym := by
      simpa [sessionKeyOk, hc] using hsk
    simp only [edataOf, sessionKeyOf, cipherText, hc, openContainer, e1, e2, e3, hkl, ne_eq, not_true_eq_false,
      if_false]
    rw [seipd2_writer_eq, seipd2Decrypt_encrypt _ (aeadOf_laws P L ..) _ _ (chunkBytes_pos cs)]
    simp

end Rpgp.E2E
