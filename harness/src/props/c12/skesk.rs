//! SKESK v4 / v6: `SymKeyEncryptedSessionKey::{encrypt_v4, encrypt_v6, to_writer, decrypt}`.

use pgp::composed::{PlainSessionKey, RawSessionKey};
use pgp::crypto::aead::AeadAlgorithm;
use pgp::crypto::sym::SymmetricKeyAlgorithm;
use pgp::packet::{PacketHeader, SymKeyEncryptedSessionKey};
use pgp::ser::Serialize;
use pgp::types::{Password, Tag};
use rand::{Rng, SeedableRng};
use rand_chacha::ChaCha8Rng;

use super::s2k::{spec_args, to_rpgp};
use super::{job, plan_answer, rfc, run_jobs, Job};
use crate::ctx::{guarded, hx, Ctx};
use crate::gen::random_bytes;
use crate::plan::Model;

fn gen_spec(ctx: &mut Ctx, i: usize) -> rfc::S2k {
    let salt8 = random_bytes(&mut ctx.rng, 8);
    let salt16 = random_bytes(&mut ctx.rng, 16);
    let strong = [8u8, 9, 10, 11, 12, 14];
    match i % 9 {
        0 => rfc::S2k::Salted { hash: strong[i % 6], salt: salt8 },
        1 | 2 | 3 => rfc::S2k::Iterated { hash: strong[(i / 3) % 6], salt: salt8, count: [0u8, 17, 96, 120][i % 4] },
        4 => rfc::S2k::Argon2 { salt: salt16, t: 1 + (i % 3) as u8, p: [1u8, 2, 4][i % 3], m: [5u8, 6, 8][i % 3] },
        5 => rfc::S2k::Argon2 { salt: salt16, t: 1, p: 1, m: 3 },
        6 => rfc::S2k::Simple { hash: 8 },                                  // no salt: refused by the writers
        7 => rfc::S2k::Iterated { hash: [1u8, 2, 3][i % 3], salt: salt8, count: 0 }, // weak hash: refused by the writers
        _ => rfc::S2k::Salted { hash: [2u8, 8][i % 2], salt: salt8 },
    }
}

/// parse a packet body with rpgp and decrypt it with the password; `(version, cipher?, session key)`
fn read_back(body: &[u8], pw: &[u8]) -> Result<(u8, Option<u8>, Vec<u8>), String> {
    // the packet arrives in one of the legal framings, in rotation (current or legacy header format,
    // every length form): what is derived from the packet does not depend on how it was framed
    static FRAMING: std::sync::atomic::AtomicUsize = std::sync::atomic::AtomicUsize::new(0);
    let k = FRAMING.fetch_add(1, std::sync::atomic::Ordering::Relaxed);
    let r = guarded(|| {
        let p = if k % 4 == 0 {
            let hdr = PacketHeader::new_fixed(Tag::SymKeyEncryptedSessionKey, body.len() as u32);
            SymKeyEncryptedSessionKey::try_from_reader(hdr, body).map_err(|e| format!("parse: {e}"))?
        } else {
            let (new_format, form) = [(true, 5u8), (false, 0), (false, 1), (false, 2), (true, 2), (true, 1)][(k / 4) % 6];
            let framed = crate::frame::frame_fixed(new_format, 3, form, body)
                .or_else(|| crate::frame::frame_fixed(new_format, 3, if new_format { 5 } else { 2 }, body))
                .ok_or("framing")?;
            match pgp::packet::PacketParser::new(&framed[..]).next() {
                Some(Ok(pgp::packet::Packet::SymKeyEncryptedSessionKey(p))) => p,
                other => return Err(format!("parse (framed new_format={new_format} form={form}): {:?}", other.map(|r| r.map(|_| ()).map_err(|e| e.to_string())))),
            }
        };
        let s2k = p.s2k().ok_or("no s2k")?;
        let alg = p.sym_algorithm().ok_or("no alg")?;
        let key = s2k.derive_key(pw, alg.key_size()).map_err(|e| format!("s2k: {e}"))?;
        match p.decrypt(&key).map_err(|e| format!("decrypt: {e}"))? {
            PlainSessionKey::V3_4 { ref key, sym_alg } => Ok((4u8, Some(u8::from(sym_alg)), key.as_ref().to_vec())),
            PlainSessionKey::V6 { ref key } => Ok((6, None, key.as_ref().to_vec())),
            _ => Err("other".to_string()),
        }
    });
    match r {
        Ok(v) => v,
        Err(p) => Err(format!("panic:{p}")),
    }
}

pub fn run(ctx: &mut Ctx, model: &mut Model) {
    let mut jobs: Vec<Job> = Vec::new();
    let n = ctx.pick(400, 3000);
    for i in 0..n {
        let spec = gen_spec(ctx, i);
        let pwlen = [0usize, 1, 8, 20, 64][i % 5];
        let pw = random_bytes(&mut ctx.rng, pwlen);
        let v6 = i % 2 == 1;
        if !v6 {
            let sym = [7u8, 8, 9, 2, 3, 13, 10, 1, 4, 11, 12][i % 11];
            let sk = random_bytes(&mut ctx.rng, rfc::key_size(sym));
            let real = match guarded(|| SymKeyEncryptedSessionKey::encrypt_v4(&Password::from(&pw[..]), &RawSessionKey::from(&sk[..]), to_rpgp(&spec), SymmetricKeyAlgorithm::from(sym)).and_then(|p| p.to_bytes())) {
                Ok(Ok(b)) => Ok(b),
                Ok(Err(e)) => Err(e.to_string()),
                Err(p) => Err(format!("panic:{p}")),
            };
            ctx.stat(&format!("skesk4:{}", if real.is_ok() { "ok" } else { "refused" }));
            let args = format!("sym={sym} {} pw={} sk={}", spec_args(&spec), hx(&pw), hx(&sk));
            let want = rfc::skesk4(sym, &spec, &pw, &sk);
            if let Ok(b) = &real {
                ctx.oracle("skesk4_rfc_bytes", "SymKeyEncryptedSessionKey::encrypt_v4 + to_writer", &args, want.as_ref().ok() == Some(b), &hx(b));
            } else if real.as_ref().err().is_some_and(|e| e.starts_with("panic")) {
                ctx.oracle("skesk4_no_panic", "SymKeyEncryptedSessionKey::encrypt_v4", &args, false, "panic");
            }
            // RFC-built packet is opened by rpgp (v4 accepts weak hashes and unsalted S2K on reading)
            if let Ok(w) = &want {
                let got = read_back(w, &pw);
                ctx.oracle("skesk4_rfc_packet_decrypts", "SymKeyEncryptedSessionKey::decrypt", &args, got == Ok((4, Some(sym), sk.clone())), &format!("{got:?}"));
            }
            let (pw2, sk2) = (pw.clone(), sk.clone());
            jobs.push(job(format!("skesk4.enc enc=1 {args}"), move |ctx, req, ans, _| {
                ctx.case(req.to_string(), plan_answer(ans, &real.clone().map(|b| vec![b])).0);
            }));
            jobs.push(job(format!("skesk4.enc enc=0 {args}"), move |ctx, req, ans, _| {
                // reader direction: the value of the plan is what rpgp must open
                let (imp, val) = plan_answer(ans, &Ok(vec![]));
                match val {
                    Some(v) => {
                        let got = read_back(&v, &pw2);
                        let ok = got == Ok((4, Some(sym), sk2.clone()));
                        ctx.case(req.to_string(), if ok { ans.to_string() } else { format!("impl-read:{got:?}").replace(' ', "_") });
                    }
                    None => ctx.case(req.to_string(), imp),
                }
            }));
        } else {
            let sym = [7u8, 8, 9][i % 3];
            let aead = [1u8, 2, 3][(i / 3) % 3];
            let sk = random_bytes(&mut ctx.rng, rfc::key_size(sym));
            let rng = ChaCha8Rng::seed_from_u64(ctx.rng.gen());
            let pkt = guarded(|| SymKeyEncryptedSessionKey::encrypt_v6(rng, &Password::from(&pw[..]), &RawSessionKey::from(&sk[..]), to_rpgp(&spec), SymmetricKeyAlgorithm::from(sym), AeadAlgorithm::from(aead)).and_then(|p| p.to_bytes()));
            let real = match pkt {
                Ok(Ok(b)) => Ok(b),
                Ok(Err(e)) => Err(e.to_string()),
                Err(p) => Err(format!("panic:{p}")),
            };
            ctx.stat(&format!("skesk6:{}", if real.is_ok() { "ok" } else { "refused" }));
            // the random IV, read back from the packet: it follows the S2K specifier
            let sb = rfc::s2k_spec_bytes(&spec);
            let ivlen = rfc::nonce_size(aead);
            let iv = match &real {
                Ok(b) if b.len() >= 5 + sb.len() + ivlen => b[5 + sb.len()..5 + sb.len() + ivlen].to_vec(),
                _ => random_bytes(&mut ctx.rng, ivlen),
            };
            let args = format!("sym={sym} aead={aead} {} pw={} sk={} iv={}", spec_args(&spec), hx(&pw), hx(&sk), hx(&iv));
            let want = rfc::skesk6(sym, aead, &spec, &pw, &sk, &iv);
            if let Ok(b) = &real {
                ctx.oracle("skesk6_rfc_bytes", "SymKeyEncryptedSessionKey::encrypt_v6 + to_writer", &args, want.as_ref().ok() == Some(b), &hx(b));
            } else if real.as_ref().err().is_some_and(|e| e.starts_with("panic")) {
                ctx.oracle("skesk6_no_panic", "SymKeyEncryptedSessionKey::encrypt_v6", &args, false, "panic");
            }
            if let Ok(w) = &want {
                let got = read_back(w, &pw);
                ctx.oracle("skesk6_rfc_packet_decrypts", "SymKeyEncryptedSessionKey::decrypt", &args, got == Ok((6, None, sk.clone())), &format!("{got:?}"));
            }
            let (pw2, sk2) = (pw.clone(), sk.clone());
            jobs.push(job(format!("skesk6.enc enc=1 {args}"), move |ctx, req, ans, _| {
                ctx.case(req.to_string(), plan_answer(ans, &real.clone().map(|b| vec![b])).0);
            }));
            jobs.push(job(format!("skesk6.enc enc=0 {args}"), move |ctx, req, ans, _| {
                let (imp, val) = plan_answer(ans, &Ok(vec![]));
                match val {
                    Some(v) => {
                        let got = read_back(&v, &pw2);
                        let ok = got == Ok((6, None, sk2.clone()));
                        ctx.case(req.to_string(), if ok { ans.to_string() } else { format!("impl-read:{got:?}").replace(' ', "_") });
                    }
                    None => ctx.case(req.to_string(), imp),
                }
            }));
        }
    }
    // what the v4 reader accepts behind the CFB decryption: arbitrary decrypted contents (direct)
    for i in 0..ctx.pick(1500, 12000) {
        let outer = [7u8, 9, 8, 2, 13][i % 5];
        let spec = rfc::S2k::Salted { hash: 8, salt: random_bytes(&mut ctx.rng, 8) };
        let pw = random_bytes(&mut ctx.rng, 6);
        let first: u8 = match i % 6 {
            0 => [7u8, 8, 9][i % 3],
            1 => [1u8, 2, 3, 4, 10, 11, 12, 13][i % 8],
            2 => [0u8, 5, 6, 14, 100, 110, 255][i % 7],
            _ => ctx.rng.gen(),
        };
        let klen = match i % 4 {
            0 => rfc::key_size(first),
            1 => [16usize, 24, 32][i % 3],
            2 => ctx.rng.gen_range(0..40usize),
            _ => rfc::key_size(first).saturating_sub(1) + 2 * (i % 2),
        };
        let dec = [&[first][..], &random_bytes(&mut ctx.rng, klen)].concat();
        let Some(key) = rfc::s2k(&spec, &pw, rfc::key_size(outer)) else { continue };
        let Ok(esk) = crate::plan::cfb_encrypt(outer, &key, &vec![0u8; rfc::block_size(outer)], &dec) else { continue };
        let body = [&[4u8, outer][..], &rfc::s2k_spec_bytes(&spec), &esk].concat();
        let got = read_back(&body, &pw);
        let ans = match &got {
            Ok((4, Some(a), k)) => format!("ok:{a}:{}", hx(k)),
            Ok(_) => "other".to_string(),
            Err(e) if e.starts_with("panic") => "panic".to_string(),
            Err(_) => "err".to_string(),
        };
        ctx.stat(&format!("skesk4.open:{}", ans.split(':').next().unwrap_or("")));
        let req = format!("skesk4.open dec={}", hx(&dec));
        ctx.case(req.clone(), ans.clone());
        // RFC 9580 §5.3.1: the decrypted value is the cipher octet followed by a key of that cipher's size
        let valid = rfc::key_size(first) != 0 && rfc::key_size(first) == klen;
        let ok = if valid { got == Ok((4, Some(first), dec[1..].to_vec())) } else { ans == "err" };
        ctx.oracle("skesk4_accepts_exactly_cipher_and_key", "SymKeyEncryptedSessionKey::decrypt (V4)", &req, ok, &ans);
    }
    run_jobs(ctx, model, jobs);
}
