import RpgpModel.Resource
import RpgpProofs.Framing
import RpgpProofs.Canon
/-! Resource bounds (C19): allocation invariants of `Buf`, `take_bytes`, `rest`, subpacket vectors, embedded
signatures, `read_from_buf`, refill readers, decryptor buffers, S2K admission. -/
namespace Rpgp.Resource

/-! ### Buf invariants -/

theorem sum_append_single (l : List Nat) (c : Nat) : (l ++ [c]).sum = l.sum + c := by
  simp [List.sum_append]

theorem peakOf_append_single : ∀ (l : List Nat) (p c : Nat), l.getLast? = some p →
    peakOf (l ++ [c]) = max (peakOf l) (p + c)
  | [], _, _, h => by simp at h
  | [x], p, c, h => by
    simp at h; subst h
    simp [peakOf]
  | x :: y :: r, p, c, h => by
    have h' : (y :: r).getLast? = some p := by simpa [List.getLast?_cons_cons] using h
    have ih := peakOf_append_single (y :: r) p c h'
    simp only [List.cons_append] at ih ⊢
    simp only [peakOf]
    rw [ih]
    omega

/-- well-formedness of a buffer that started with capacity `c0`:
length within capacity; capacity never exceeds `max c0 (max 8 (2·len))`; the last allocation is the
current capacity; all allocations together are at most twice the capacity, the peak at most 3/2 -/
structure BufInv (c0 : Nat) (b : Buf) : Prop where
  len_le : b.len ≤ b.cap
  cap_le : b.cap ≤ max c0 (max vecMinCapU8 (2 * b.len))
  last : b.allocs = [] ∧ b.cap = 0 ∨ b.allocs.getLast? = some b.cap
  total_le : b.total ≤ 2 * b.cap
  peak_le : 2 * b.peak ≤ 3 * b.cap

theorem BufInv.withCapacity (c : Nat) : BufInv c (Buf.withCapacity c) := by
  by_cases h : c = 0
  · subst h; constructor <;> simp [Buf.withCapacity, Buf.total, Buf.peak, peakOf]
  · constructor <;> simp [Buf.withCapacity, h, Buf.total, Buf.peak, peakOf] <;> omega

theorem BufInv.extend {c0 : Nat} {b : Buf} (h : BufInv c0 b) (n : Nat) : BufInv c0 (b.extend n) := by
  unfold Buf.extend
  by_cases hfit : b.len + n ≤ b.cap
  · simp only [hfit, if_true]
    constructor
    · exact hfit
    · have := h.cap_le; simp only; omega
    · exact h.last
    · exact h.total_le
    · exact h.peak_le
  · simp only [hfit, if_false]
    have hl := h.len_le
    have hc := h.cap_le
    have ht := h.total_le
    have hp := h.peak_le
    constructor
    · simp only [growAmortized]; omega
    · simp only [growAmortized, vecMinCapU8] at *; omega
    · right; simp
    · simp only [Buf.total, sum_append_single, growAmortized] at *; omega
    · simp only [Buf.peak] at *
      rcases h.last with ⟨he, hz⟩ | hlast
      · rw [he]; simp only [List.nil_append, peakOf, growAmortized]; omega
      · rw [peakOf_append_single _ _ _ hlast]
        simp only [growAmortized]; omega

theorem Buf.extend_len (b : Buf) (n : Nat) : (b.extend n).len = b.len + n := by
  unfold Buf.extend; split <;> rfl

/-- everything the loop preserves or establishes -/
theorem takeLoop_spec (size c0 : Nat) : ∀ (src : List Bytes) (b : Buf), BufInv c0 b →
    BufInv c0 (takeLoop size src b).1 ∧
    b.len ≤ (takeLoop size src b).1.len ∧
    (takeLoop size src b).1.len ≤ max size b.len ∧
    (takeLoop size src b).1.len ≤ b.len + src.flatten.length ∧
    (takeLoop size src b).2.2 + b.len ≤ (takeLoop size src b).1.len := by
  intro src
  induction src with
  | nil => intro b h; simp only [takeLoop]; exact ⟨h, Nat.le_refl _, by omega, by omega, by omega⟩
  | cons c cs ih =>
    intro b h
    unfold takeLoop
    by_cases h1 : size ≤ b.len
    · simp only [h1, if_true]; exact ⟨h, Nat.le_refl _, by omega, by omega, by omega⟩
    · simp only [h1, if_false]
      by_cases h2 : c = []
      · simp only [h2, if_true]; exact ⟨h, Nat.le_refl _, by omega, by omega, by omega⟩
      · simp only [h2, if_false]
        have hcl : 0 < c.length := List.length_pos_iff.mpr h2
        by_cases h3 : min (size - b.len) c.length < c.length
        · simp only [h3, if_true]
          refine ⟨h.extend _, ?_, ?_, ?_, ?_⟩ <;> simp only [Buf.extend_len, List.flatten_cons, List.length_append] <;> omega
        · simp only [h3, if_false]
          have hav : min (size - b.len) c.length = c.length := by omega
          rw [hav]
          obtain ⟨i1, i2, i3, i4, i5⟩ := ih (b.extend c.length) (h.extend _)
          rw [Buf.extend_len] at i2 i3 i4 i5
          generalize takeLoop size cs (b.extend c.length) = r at *
          obtain ⟨b'', rest, k⟩ := r
          simp only at *
          refine ⟨i1, ?_, ?_, ?_, ?_⟩ <;> (try simp only [List.flatten_cons, List.length_append]) <;> omega

/-! ### `take_bytes` -/

theorem takeBytes_spec (size : Nat) (src : List Bytes) :
    BufInv (min size Gen.takeBytesPreallocCap) (takeBytesBuf size src) ∧
    (takeBytesBuf size src).len ≤ size ∧
    (takeBytesBuf size src).len ≤ src.flatten.length ∧
    takeBytesSteps size src ≤ (takeBytesBuf size src).len := by
  have h := takeLoop_spec size _ src _ (BufInv.withCapacity (min size Gen.takeBytesPreallocCap))
  simp only [Buf.withCapacity] at h
  unfold takeBytesBuf takeBytesSteps
  simp only [Buf.withCapacity]
  obtain ⟨h1, _, h3, h4, h5⟩ := h
  exact ⟨h1, by omega, by omega, by omega⟩

/-! ### `rest` -/

structure RestInv (b : Buf) : Prop where
  len_le : b.len ≤ b.cap
  cap_le : b.cap ≤ 2 * b.len + 32
  last : b.allocs = [] ∧ b.cap = 0 ∨ b.allocs.getLast? = some b.cap
  total_le : b.total ≤ 2 * b.cap
  peak_le : 2 * b.peak ≤ 3 * b.cap

theorem readToEnd_spec : ∀ (fuel rem : Nat) (b : Buf), RestInv b → rem ≤ fuel →
    RestInv (readToEnd fuel rem b) ∧ (readToEnd fuel rem b).len = b.len + rem := by
  intro fuel
  induction fuel with
  | zero => intro rem b h hr; simp only [readToEnd]; exact ⟨h, by omega⟩
  | succ fuel ih =>
    intro rem b h hr
    unfold readToEnd
    by_cases h0 : rem = 0
    · simp only [h0, if_true]; exact ⟨h, by omega⟩
    · simp only [h0, if_false]
      have hl := h.len_le
      have hc := h.cap_le
      have ht := h.total_le
      have hp := h.peak_le
      by_cases hfull : b.len = b.cap
      · simp only [hfull, if_true]
        -- grown buffer
        have hg : RestInv ⟨growAmortized vecMinCapU8 b.cap b.cap 32, b.cap, b.allocs ++ [growAmortized vecMinCapU8 b.cap b.cap 32]⟩ := by
          constructor
          · simp only [growAmortized]; omega
          · simp only [growAmortized, vecMinCapU8]; omega
          · right; simp
          · simp only [Buf.total, sum_append_single, growAmortized] at *; omega
          · simp only [Buf.peak] at *
            rcases h.last with ⟨he, hz⟩ | hlast
            · rw [he]; simp only [List.nil_append, peakOf, growAmortized]; omega
            · rw [peakOf_append_single _ _ _ hlast]
              simp only [growAmortized]; omega
        have hn : 1 ≤ min rem (growAmortized vecMinCapU8 b.cap b.cap 32 - b.cap) := by
          simp only [growAmortized]; omega
        have hstep : RestInv ⟨growAmortized vecMinCapU8 b.cap b.cap 32,
            b.cap + min rem (growAmortized vecMinCapU8 b.cap b.cap 32 - b.cap),
            b.allocs ++ [growAmortized vecMinCapU8 b.cap b.cap 32]⟩ := by
          constructor
          · simp only; omega
          · have := hg.cap_le; simp only at this ⊢; omega
          · exact hg.last
          · exact hg.total_le
          · exact hg.peak_le
        obtain ⟨i1, i2⟩ := ih (rem - min rem (growAmortized vecMinCapU8 b.cap b.cap 32 - b.cap)) _ hstep (by omega)
        refine ⟨i1, ?_⟩
        rw [i2]; simp only; omega
      · simp only [hfull, if_false]
        have hn : 1 ≤ min rem (b.cap - b.len) := by omega
        have hstep : RestInv { b with len := b.len + min rem (b.cap - b.len) } := by
          constructor
          · simp only; omega
          · simp only; omega
          · exact h.last
          · exact ht
          · exact hp
        obtain ⟨i1, i2⟩ := ih (rem - min rem (b.cap - b.len)) _ hstep (by omega)
        refine ⟨i1, ?_⟩
        rw [i2]; simp only; omega

theorem restBuf_spec (n : Nat) : RestInv (restBuf n) ∧ (restBuf n).len = n := by
  have h0 : RestInv (Buf.withCapacity 0) := by
    constructor <;> simp [Buf.withCapacity, Buf.total, Buf.peak, peakOf]
  have := readToEnd_spec (n + 1) n _ h0 (by omega)
  simpa [restBuf, Buf.withCapacity] using this

/-! ### MPI -/

theorem mpiRead_spec (bits : Nat) (src : List Bytes) :
    (Gen.maxExternMpiBits < bits → mpiRead bits src = (.tooLarge, Buf.withCapacity 0)) ∧
    (mpiRead bits src).2.len ≤ (Gen.maxExternMpiBits + Gen.mpiRoundAdd) / 2 ^ Gen.mpiRoundShift ∧
    (mpiRead bits src).2.len ≤ src.flatten.length ∧
    (mpiRead bits src).2.cap ≤ max Gen.takeBytesPreallocCap (2 * (mpiRead bits src).2.len) := by
  unfold mpiRead
  by_cases h : Gen.maxExternMpiBits < bits
  · simp [h, Buf.withCapacity]
  · simp only [h, if_false, false_implies, true_and]
    obtain ⟨h1, h2, h3, _⟩ := takeBytes_spec ((bits + Gen.mpiRoundAdd) / 2 ^ Gen.mpiRoundShift) src
    refine ⟨?_, h3, ?_⟩
    · have : (bits + Gen.mpiRoundAdd) / 2 ^ Gen.mpiRoundShift ≤ (Gen.maxExternMpiBits + Gen.mpiRoundAdd) / 2 ^ Gen.mpiRoundShift :=
        Nat.div_le_div_right (by omega)
      omega
    · have := h1.cap_le
      have h8 : vecMinCapU8 ≤ Gen.takeBytesPreallocCap := by decide
      omega

/-! ### subpacket areas -/

theorem subLen_consumes (a r : Bytes) (l : Nat) (h : subLen a = some (l, r)) : r.length + 1 ≤ a.length := by
  cases a with
  | nil => simp [subLen] at h
  | cons o t =>
    simp only [subLen] at h
    split at h
    · simp at h; obtain ⟨_, rfl⟩ := h; simp
    · split at h
      · cases t with
        | nil => simp at h
        | cons a' t' => simp at h; obtain ⟨_, rfl⟩ := h; simp
      · split at h
        · simp at h
        · simp at h; obtain ⟨_, rfl⟩ := h; simp

theorem vecPushCap_inv (c0 cap n : Nat) (h1 : n ≤ cap) (h2 : cap ≤ max c0 (max 4 (2 * n))) :
    n + 1 ≤ vecPushCap cap n ∧ vecPushCap cap n ≤ max c0 (max 4 (2 * (n + 1))) := by
  unfold vecPushCap growAmortized
  split <;> omega

/-- the subpacket loop: the vector never outgrows `max c0 (max 4 (2·count))`, and every subpacket
parsed consumed at least two octets of the area actually present -/
theorem subpacketsLoop_spec (c0 : Nat) : ∀ (fuel : Nat) (area : Bytes) (cap n n' cap' : Nat),
    subpacketsLoop fuel area cap n = some (n', cap') → n ≤ cap → cap ≤ max c0 (max 4 (2 * n)) →
    n' ≤ cap' ∧ cap' ≤ max c0 (max 4 (2 * n')) ∧ n ≤ n' ∧ 2 * n' ≤ 2 * n + area.length := by
  intro fuel
  induction fuel with
  | zero => intro area cap n n' cap' h; simp [subpacketsLoop] at h
  | succ fuel ih =>
    intro area cap n n' cap' h h1 h2
    unfold subpacketsLoop at h
    by_cases ha : area = []
    · simp only [ha, if_true, Option.some.injEq, Prod.mk.injEq] at h
      obtain ⟨rfl, rfl⟩ := h
      exact ⟨h1, h2, Nat.le_refl _, by omega⟩
    · simp only [ha, if_false] at h
      cases hs : subLen area with
      | none => simp [hs] at h
      | some p =>
        obtain ⟨l, r⟩ := p
        simp only [hs] at h
        have hcons := subLen_consumes area r l hs
        by_cases hl : l = 0
        · simp [hl] at h
        · simp only [hl, if_false] at h
          cases r with
          | nil => simp at h
          | cons t r' =>
            simp only at h
            by_cases hshort : r'.length < l - 1
            · simp [hshort] at h
            · simp only [hshort, if_false] at h
              obtain ⟨p1, p2⟩ := vecPushCap_inv c0 cap n h1 h2
              obtain ⟨i1, i2, i3, i4⟩ := ih _ _ _ _ _ h p1 p2
              simp only [List.length_drop, List.length_cons] at i4 hcons
              exact ⟨i1, i2, by omega, by omega⟩

theorem subpacketsShape_spec (declared : Nat) (area : Bytes) (n cap : Nat)
    (h : subpacketsShape declared area = some (n, cap)) :
    n ≤ cap ∧ cap ≤ max Gen.subpacketVecCapLimit (2 * n) ∧ 2 * n ≤ area.length := by
  unfold subpacketsShape at h
  obtain ⟨h1, h2, _, h4⟩ := subpacketsLoop_spec (min declared Gen.subpacketVecCapLimit) _ _ _ _ _ _ h
    (Nat.zero_le _) (by omega)
  have : 4 ≤ Gen.subpacketVecCapLimit := by decide
  exact ⟨h1, by omega, by omega⟩

/-! ### embedded signatures: copy volume ≤ depth × length -/

theorem mix_le (x y dx dy A B n : Nat) (hx : x ≤ dx * A) (hy : y ≤ dy * B) (hAB : A + B ≤ n) :
    x + y ≤ max dx dy * n := by
  have h1 : dx * A ≤ max dx dy * A := Nat.mul_le_mul_right _ (Nat.le_max_left _ _)
  have h2 : dy * B ≤ max dx dy * B := Nat.mul_le_mul_right _ (Nat.le_max_right _ _)
  have h3 : max dx dy * A + max dx dy * B = max dx dy * (A + B) := by rw [Nat.mul_add]
  have h4 : max dx dy * (A + B) ≤ max dx dy * n := Nat.mul_le_mul_left _ hAB
  omega

theorem two_areas_le (r : Bytes) (hl ul k : Nat) :
    (r.take hl).length + (((r.drop hl).drop k).take ul).length ≤ r.length := by
  simp only [List.length_take, List.length_drop]; omega

theorem sig_area_copy_le : ∀ (fuel : Nat),
    (∀ b : Bytes, sigCopyUncapped fuel b ≤ sigDepthUncapped fuel b * b.length) ∧
    (∀ a : Bytes, areaCopyUncapped fuel a ≤ areaDepthUncapped fuel a * a.length) := by
  intro fuel
  induction fuel with
  | zero => constructor <;> intro x <;> simp [sigCopyUncapped, areaCopyUncapped]
  | succ fuel ih =>
    obtain ⟨ihs, iha⟩ := ih
    constructor
    · intro b
      cases b with
      | nil => simp [sigCopyUncapped]
      | cons v r =>
        simp only [sigCopyUncapped, sigDepthUncapped]
        by_cases h4 : v.toNat = 4
        · simp only [h4, if_true]
          apply mix_le _ _ _ _ _ _ _ (iha _) (iha _)
          have := two_areas_le ((r.drop 3).drop 2) (beNat ((r.drop 3).take 2))
            (beNat ((((r.drop 3).drop 2).drop (beNat ((r.drop 3).take 2))).take 2)) 2
          simp only [List.length_drop, List.length_cons] at this ⊢
          omega
        · simp only [h4, if_false]
          by_cases h6 : v.toNat = 6
          · simp only [h6, if_true]
            apply mix_le _ _ _ _ _ _ _ (iha _) (iha _)
            have := two_areas_le ((r.drop 3).drop 4) (beNat ((r.drop 3).take 4))
              (beNat ((((r.drop 3).drop 4).drop (beNat ((r.drop 3).take 4))).take 4)) 4
            simp only [List.length_drop, List.length_cons] at this ⊢
            omega
          · simp [h6]
    · intro a
      simp only [areaCopyUncapped, areaDepthUncapped]
      cases hs : subLen a with
      | none => simp
      | some p =>
        obtain ⟨l, r⟩ := p
        simp only
        have hcons := subLen_consumes a r l hs
        by_cases hl : l = 0
        · simp [hl]
        · simp only [hl, if_false]
          cases r with
          | nil => simp
          | cons t r' =>
            simp only
            have hlen : (r'.take (l - 1)).length + (r'.drop (l - 1)).length ≤ a.length := by
              simp only [List.length_take, List.length_drop, List.length_cons] at hcons ⊢; omega
            by_cases he : isEmbedded t = true
            · simp only [he, if_true]
              apply mix_le _ _ _ _ _ _ _ _ (iha _) hlen
              have := ihs (r'.take (l - 1))
              rw [Nat.add_mul, Nat.one_mul]
              omega
            · simp only [he]
              have := mix_le 0 _ 0 _ _ _ _ (Nat.zero_le _) (iha (r'.drop (l - 1))) hlen
              simpa using this

theorem beNat_be32 (n : Nat) (h : n < 4294967296) : beNat (be32 n) = n := by
  rw [be32_eq, beNat_four]
  have h1 : (n / 16777216 % 256).toUInt8.toNat = n / 16777216 % 256 := toUInt8_toNat_of_lt _ (by omega)
  have h2 : (n / 65536 % 256).toUInt8.toNat = n / 65536 % 256 := toUInt8_toNat_of_lt _ (by omega)
  have h3 : (n / 256 % 256).toUInt8.toNat = n / 256 % 256 := toUInt8_toNat_of_lt _ (by omega)
  have h4 : (n % 256).toUInt8.toNat = n % 256 := toUInt8_toNat_of_lt _ (by omega)
  rw [h1, h2, h3, h4]; omega

theorem beNat_be16 (n : Nat) (h : n < 65536) : beNat (be16 n) = n := by
  rw [be16_eq, beNat_two]
  have h3 : (n / 256 % 256).toUInt8.toNat = n / 256 % 256 := toUInt8_toNat_of_lt _ (by omega)
  have h4 : (n % 256).toUInt8.toNat = n % 256 := toUInt8_toNat_of_lt _ (by omega)
  rw [h3, h4]; omega

theorem areaCopy_nil (f : Nat) : areaCopyUncapped f [] = 0 := by
  cases f <;> simp [areaCopyUncapped, subLen]

theorem areaDepth_nil (f : Nat) : areaDepthUncapped f [] = 0 := by
  cases f <;> simp [areaDepthUncapped, subLen]

/-- one Embedded Signature subpacket in the 5-octet length form holding exactly `s` -/
theorem areaCopy_embedded (f : Nat) (s : Bytes) (h : s.length + 1 < 4294967296) :
    areaCopyUncapped (f + 1) ([255] ++ be32 (s.length + 1) ++ [32] ++ s) = s.length + sigCopyUncapped f s := by
  have hb := beNat_be32 _ h
  rw [be32_eq] at hb ⊢
  simp only [List.cons_append, List.nil_append, areaCopyUncapped, subLen]
  have e1 : ¬ ((255 : UInt8).toNat ≤ Gen.subLenOneOctetMax) := by decide
  have e2 : ¬ ((255 : UInt8).toNat ≤ Gen.subLenTwoOctetMax) := by decide
  simp only [e1, e2, if_false]
  simp only [List.length_cons, List.take_succ_cons, List.take_zero, List.drop_succ_cons, List.drop_zero]
  have e3 : ¬ (s.length + 1 + 1 + 1 + 1 + 1 < 4) := by omega
  simp only [e3, if_false, hb]
  have e4 : ¬ (s.length + 1 = 0) := by omega
  simp only [e4, if_false, Nat.add_sub_cancel, List.take_length, List.drop_length, areaCopy_nil]
  have e5 : isEmbedded 32 = true := by decide
  simp [e5]


theorem areaDepth_embedded (f : Nat) (s : Bytes) (h : s.length + 1 < 4294967296) :
    areaDepthUncapped (f + 1) ([255] ++ be32 (s.length + 1) ++ [32] ++ s) = 1 + sigDepthUncapped f s := by
  have hb := beNat_be32 _ h
  rw [be32_eq] at hb ⊢
  simp only [List.cons_append, List.nil_append, areaDepthUncapped, subLen]
  have e1 : ¬ ((255 : UInt8).toNat ≤ Gen.subLenOneOctetMax) := by decide
  have e2 : ¬ ((255 : UInt8).toNat ≤ Gen.subLenTwoOctetMax) := by decide
  simp only [e1, e2, if_false]
  simp only [List.length_cons, List.take_succ_cons, List.take_zero, List.drop_succ_cons, List.drop_zero]
  have e3 : ¬ (s.length + 1 + 1 + 1 + 1 + 1 < 4) := by omega
  simp only [e3, if_false, hb]
  have e4 : ¬ (s.length + 1 = 0) := by omega
  simp only [e4, if_false, Nat.add_sub_cancel, List.take_length, List.drop_length, areaDepth_nil]
  have e5 : isEmbedded 32 = true := by decide
  simp [e5]

theorem take_six_add {α} (n : Nat) (a b c d e f : α) (r : List α) :
    (a :: b :: c :: d :: e :: f :: r).take (n + 6) = a :: b :: c :: d :: e :: f :: r.take n := rfl

theorem be32_cases (n : Nat) : ∃ a b c d : UInt8, be32 n = [a, b, c, d] := ⟨_, _, _, _, be32_eq n⟩
theorem be16_cases (n : Nat) : ∃ a b : UInt8, be16 n = [a, b] := ⟨_, _, be16_eq n⟩

/-- v6 wrapper: everything copied is the inner signature, then the inner signature is parsed -/
theorem sigCopy_wrap6 (f : Nat) (s : Bytes) (h : s.length + 6 < 4294967296) :
    sigCopyUncapped (f + 2) (nestWrap 6 s) = s.length + sigCopyUncapped f s := by
  have hb := beNat_be32 (s.length + 6) h
  have hin := areaCopy_embedded f s (by omega)
  obtain ⟨a, b, c, d, hL⟩ := be32_cases (s.length + 6)
  obtain ⟨a', b', c', d', hL'⟩ := be32_cases (s.length + 1)
  rw [hL] at hb
  rw [hL'] at hin
  have h66 : (6 : UInt8).toNat = 6 := by decide
  have n64 : ¬ ((6 : Nat) = 4) := by decide
  simp only [nestWrap, n64, if_false, hL, hL']
  simp only [List.cons_append, List.nil_append, sigCopyUncapped, h66, n64, if_true, if_false]
  have d3 : ∀ (x y z : UInt8) (l : Bytes), List.drop 3 (x :: y :: z :: l) = l := fun _ _ _ _ => rfl
  have t4 : ∀ (x y z w : UInt8) (l : Bytes), List.take 4 (x :: y :: z :: w :: l) = [x, y, z, w] := fun _ _ _ _ _ => rfl
  have d4 : ∀ (x y z w : UInt8) (l : Bytes), List.drop 4 (x :: y :: z :: w :: l) = l := fun _ _ _ _ _ => rfl
  have z : beNat [(0 : UInt8), 0, 0, 0] = 0 := by decide
  have tl : List.take s.length (s ++ nestTail6) = s := by simp
  simp only [d3, t4, d4, z, List.take_zero, List.drop_zero, areaCopy_nil, Nat.zero_add, hb, take_six_add, tl]
  simpa using hin


theorem sigDepth_wrap6 (f : Nat) (s : Bytes) (h : s.length + 6 < 4294967296) :
    sigDepthUncapped (f + 2) (nestWrap 6 s) = 1 + sigDepthUncapped f s := by
  have hb := beNat_be32 (s.length + 6) h
  have hin := areaDepth_embedded f s (by omega)
  obtain ⟨a, b, c, d, hL⟩ := be32_cases (s.length + 6)
  obtain ⟨a', b', c', d', hL'⟩ := be32_cases (s.length + 1)
  rw [hL] at hb
  rw [hL'] at hin
  have h66 : (6 : UInt8).toNat = 6 := by decide
  have n64 : ¬ ((6 : Nat) = 4) := by decide
  simp only [nestWrap, n64, if_false, hL, hL']
  simp only [List.cons_append, List.nil_append, sigDepthUncapped, h66, n64, if_true, if_false]
  have d3 : ∀ (x y z : UInt8) (l : Bytes), List.drop 3 (x :: y :: z :: l) = l := fun _ _ _ _ => rfl
  have t4 : ∀ (x y z w : UInt8) (l : Bytes), List.take 4 (x :: y :: z :: w :: l) = [x, y, z, w] := fun _ _ _ _ _ => rfl
  have d4 : ∀ (x y z w : UInt8) (l : Bytes), List.drop 4 (x :: y :: z :: w :: l) = l := fun _ _ _ _ _ => rfl
  have z : beNat [(0 : UInt8), 0, 0, 0] = 0 := by decide
  have tl : List.take s.length (s ++ nestTail6) = s := by simp
  simp only [d3, t4, d4, z, List.take_zero, List.drop_zero, areaDepth_nil, hb, take_six_add, tl]
  have : areaDepthUncapped (f + 1) (255 :: a' :: b' :: c' :: d' :: 32 :: s) = 1 + sigDepthUncapped f s := by simpa using hin
  rw [this]; omega

theorem sigCopy_wrap4 (f : Nat) (s : Bytes) (h : s.length + 6 < 65536) :
    sigCopyUncapped (f + 2) (nestWrap 4 s) = s.length + sigCopyUncapped f s := by
  have hb := beNat_be16 (s.length + 6) h
  have hin := areaCopy_embedded f s (by omega)
  obtain ⟨a, b, hL⟩ := be16_cases (s.length + 6)
  obtain ⟨a', b', c', d', hL'⟩ := be32_cases (s.length + 1)
  rw [hL] at hb
  rw [hL'] at hin
  have h44 : (4 : UInt8).toNat = 4 := by decide
  simp only [nestWrap, if_true, hL, hL']
  simp only [List.cons_append, List.nil_append, sigCopyUncapped, h44, if_true]
  have d3 : ∀ (x y z : UInt8) (l : Bytes), List.drop 3 (x :: y :: z :: l) = l := fun _ _ _ _ => rfl
  have t2 : ∀ (x y : UInt8) (l : Bytes), List.take 2 (x :: y :: l) = [x, y] := fun _ _ _ => rfl
  have d2 : ∀ (x y : UInt8) (l : Bytes), List.drop 2 (x :: y :: l) = l := fun _ _ _ => rfl
  have z : beNat [(0 : UInt8), 0] = 0 := by decide
  have tl : List.take s.length (s ++ nestTail4) = s := by simp
  simp only [d3, t2, d2, z, List.take_zero, List.drop_zero, areaCopy_nil, Nat.zero_add, hb, take_six_add, tl]
  simpa using hin

theorem sigDepth_wrap4 (f : Nat) (s : Bytes) (h : s.length + 6 < 65536) :
    sigDepthUncapped (f + 2) (nestWrap 4 s) = 1 + sigDepthUncapped f s := by
  have hb := beNat_be16 (s.length + 6) h
  have hin := areaDepth_embedded f s (by omega)
  obtain ⟨a, b, hL⟩ := be16_cases (s.length + 6)
  obtain ⟨a', b', c', d', hL'⟩ := be32_cases (s.length + 1)
  rw [hL] at hb
  rw [hL'] at hin
  have h44 : (4 : UInt8).toNat = 4 := by decide
  simp only [nestWrap, if_true, hL, hL']
  simp only [List.cons_append, List.nil_append, sigDepthUncapped, h44, if_true]
  have d3 : ∀ (x y z : UInt8) (l : Bytes), List.drop 3 (x :: y :: z :: l) = l := fun _ _ _ _ => rfl
  have t2 : ∀ (x y : UInt8) (l : Bytes), List.take 2 (x :: y :: l) = [x, y] := fun _ _ _ => rfl
  have d2 : ∀ (x y : UInt8) (l : Bytes), List.drop 2 (x :: y :: l) = l := fun _ _ _ => rfl
  have z : beNat [(0 : UInt8), 0] = 0 := by decide
  have tl : List.take s.length (s ++ nestTail4) = s := by simp
  simp only [d3, t2, d2, z, List.take_zero, List.drop_zero, areaDepth_nil, hb, take_six_add, tl]
  have : areaDepthUncapped (f + 1) (255 :: a' :: b' :: c' :: d' :: 32 :: s) = 1 + sigDepthUncapped f s := by simpa using hin
  rw [this]; omega

theorem sigCopy_base (ver f : Nat) : sigCopyUncapped f (nestBase ver) = 0 := by
  cases f with
  | zero => simp [sigCopyUncapped]
  | succ f =>
    by_cases hv : ver = 4
    · subst hv
      simp [nestBase, nestTail4, sigCopyUncapped, areaCopy_nil, beNat]
    · simp [nestBase, hv, nestTail6, sigCopyUncapped, areaCopy_nil, beNat]

theorem sigDepth_base (ver f : Nat) : sigDepthUncapped f (nestBase ver) = 0 := by
  cases f with
  | zero => simp [sigDepthUncapped]
  | succ f =>
    by_cases hv : ver = 4
    · subst hv
      simp [nestBase, nestTail4, sigDepthUncapped, areaDepth_nil, beNat]
    · simp [nestBase, hv, nestTail6, sigDepthUncapped, areaDepth_nil, beNat]

theorem nestWrap_length (ver : Nat) (s : Bytes) :
    (nestWrap ver s).length = s.length + (if ver = 4 then 19 else 40) := by
  by_cases hv : ver = 4
  · simp [nestWrap, hv, nestTail4, be16, be32, beBytes]
  · simp [nestWrap, hv, nestTail6, be32, beBytes]

theorem nestSig_length (ver : Nat) : ∀ d, (nestSig ver d).length = nestLen ver d
  | 0 => by
    by_cases hv : ver = 4 <;> simp [nestSig, nestBase, nestLen, hv, nestTail4, nestTail6]
  | d + 1 => by
    rw [nestSig, nestWrap_length, nestSig_length ver d]
    by_cases hv : ver = 4 <;> simp [nestLen, hv] <;> omega


theorem tri (d : Nat) : (d + 1) * d / 2 = d * (d - 1) / 2 + d := by
  cases d with
  | zero => simp
  | succ k =>
    have h : (k + 1 + 1) * (k + 1) = (k + 1) * k + (k + 1) * 2 := by
      simp only [Nat.add_mul, Nat.mul_add, Nat.mul_one, Nat.one_mul]; omega
    rw [h, Nat.add_sub_cancel, Nat.add_mul_div_right _ _ (by decide : 0 < 2)]

theorem nestCopyClosed_succ (ver d : Nat) :
    nestCopyClosed ver (d + 1) = nestLen ver d + nestCopyClosed ver d := by
  unfold nestCopyClosed nestLen
  rw [Nat.add_sub_cancel, tri]
  by_cases hv : ver = 4 <;> simp only [hv, if_true, if_false] <;> omega

/-- v6 (32-bit area lengths): for every depth whose encoding fits, with enough fuel, the parse of
`nestSig 6 d` copies `nestCopyClosed 6 d` bytes and recurses `d` deep -/
theorem nest6_cost : ∀ (d f : Nat), 2 * d + 1 ≤ f → nestLen 6 d < 4294967296 →
    sigCopyUncapped f (nestSig 6 d) = nestCopyClosed 6 d ∧ sigDepthUncapped f (nestSig 6 d) = d
  | 0, f, _, _ => by
    simp [nestSig, sigCopy_base, sigDepth_base, nestCopyClosed]
  | d + 1, f, hf, hsz => by
    obtain ⟨f', rfl⟩ : ∃ f', f = f' + 2 := ⟨f - 2, by omega⟩
    have hlen := nestSig_length 6 d
    have hsz' : nestLen 6 d + 6 < 4294967296 := by
      simp only [nestLen] at hsz ⊢; simp at hsz ⊢; omega
    obtain ⟨i1, i2⟩ := nest6_cost d f' (by omega) (by omega)
    rw [nestSig, sigCopy_wrap6 _ _ (by rw [hlen]; exact hsz'), sigDepth_wrap6 _ _ (by rw [hlen]; exact hsz'),
      i1, i2, hlen, nestCopyClosed_succ]
    exact ⟨rfl, by omega⟩

/-- v4 (16-bit area lengths) -/
theorem nest4_cost : ∀ (d f : Nat), 2 * d + 1 ≤ f → nestLen 4 d < 65536 →
    sigCopyUncapped f (nestSig 4 d) = nestCopyClosed 4 d ∧ sigDepthUncapped f (nestSig 4 d) = d
  | 0, f, _, _ => by
    simp [nestSig, sigCopy_base, sigDepth_base, nestCopyClosed]
  | d + 1, f, hf, hsz => by
    obtain ⟨f', rfl⟩ : ∃ f', f = f' + 2 := ⟨f - 2, by omega⟩
    have hlen := nestSig_length 4 d
    have hsz' : nestLen 4 d + 6 < 65536 := by
      simp only [nestLen] at hsz ⊢; simp at hsz ⊢; omega
    obtain ⟨i1, i2⟩ := nest4_cost d f' (by omega) (by omega)
    rw [nestSig, sigCopy_wrap4 _ _ (by rw [hlen]; exact hsz'), sigDepth_wrap4 _ _ (by rw [hlen]; exact hsz'),
      i1, i2, hlen, nestCopyClosed_succ]
    exact ⟨rfl, by omega⟩

/-! ### `read_from_buf` -/

/-- the loop never holds more than `limit + C - 1` bytes (`C` = longest `fill_buf` result), consumes at
least one byte per iteration unless it terminates, and hands the parser at most `maxBack` bytes per
iteration -/
theorem rfbLoop_spec (P : Bytes → PRes) (limit C M : Nat) (hM : limit + C ≤ M + 1) :
    ∀ (src : List Bytes) (back : Bytes) (o : RfbOut), (∀ c ∈ src, c.length ≤ C) → o.maxBack ≤ M →
    (rfbLoop P limit src back o).maxBack ≤ M ∧
    o.steps ≤ (rfbLoop P limit src back o).steps ∧
    (rfbLoop P limit src back o).steps + o.consumed ≤ (rfbLoop P limit src back o).consumed + o.steps + 1 ∧
    (rfbLoop P limit src back o).work ≤ o.work + ((rfbLoop P limit src back o).steps - o.steps) * M ∧
    (rfbLoop P limit src back o).consumed ≤ o.consumed + src.flatten.length := by
  intro src
  induction src with
  | nil =>
    intro back o _ hm
    simp only [rfbLoop]
    split <;> simp <;> omega
  | cons c cs ih =>
    intro back o hC hm
    have hc : c.length ≤ C := hC c (by simp)
    have hCs : ∀ x ∈ cs, x.length ≤ C := fun x hx => hC x (by simp [hx])
    unfold rfbLoop
    by_cases h1 : limit ≤ back.length
    · simp only [h1, if_true]; simp; omega
    · simp only [h1, if_false]
      by_cases h2 : c = []
      · simp only [h2, if_true]; simp; omega
      · simp only [h2, if_false]
        have hpos : 0 < c.length := List.length_pos_iff.mpr h2
        have hlen : (back ++ c).length = back.length + c.length := List.length_append
        have hflat : (c :: cs).flatten.length = c.length + cs.flatten.length := by simp
        have hb' : (back ++ c).length ≤ M := by omega
        cases hP : P (back ++ c) with
        | fail =>
          refine ⟨by simp only; omega, by simp only; omega, by simp only; omega, ?_, by simp only; omega⟩
          simp only [Nat.add_sub_cancel_left, Nat.one_mul]; omega
        | done rem =>
          simp only
          split
          · refine ⟨by simp only; omega, by simp only; omega, by simp only; omega, ?_, by simp only; omega⟩
            simp only [Nat.add_sub_cancel_left, Nat.one_mul]; omega
          · refine ⟨by simp only; omega, by simp only; omega, by simp only; omega, ?_, by simp only; omega⟩
            simp only [Nat.add_sub_cancel_left, Nat.one_mul]; omega
        | incomplete =>
          simp only
          obtain ⟨i1, i2, i3, i4, i5⟩ := ih (back ++ c)
            { o with maxBack := max o.maxBack (back ++ c).length, work := o.work + (back ++ c).length,
                     steps := o.steps + 1, consumed := o.consumed + c.length } hCs (by simp only; omega)
          simp only at i2 i3 i4 i5
          refine ⟨i1, by omega, by omega, ?_, by omega⟩
          generalize (rfbLoop P limit cs (back ++ c) _).steps = st at *
          generalize (rfbLoop P limit cs (back ++ c) _).work = wk at *
          have : (st - o.steps) * M = (st - (o.steps + 1)) * M + M := by
            have : st - o.steps = (st - (o.steps + 1)) + 1 := by omega
            rw [this, Nat.add_mul, Nat.one_mul]
          omega

theorem readFromBuf_spec (P : Bytes → PRes) (limit C : Nat) (src : List Bytes) (hC : ∀ c ∈ src, c.length ≤ C) :
    (readFromBuf P limit src).maxBack ≤ limit + C ∧
    (readFromBuf P limit src).steps ≤ (readFromBuf P limit src).consumed + 1 ∧
    (readFromBuf P limit src).consumed ≤ src.flatten.length ∧
    (readFromBuf P limit src).work ≤ ((readFromBuf P limit src).steps + 1) * (limit + C) := by
  cases src with
  | nil => simp [readFromBuf]
  | cons c cs =>
    have hc : c.length ≤ C := hC c (by simp)
    have hCs : ∀ x ∈ cs, x.length ≤ C := fun x hx => hC x (by simp [hx])
    have hflat : (c :: cs).flatten.length = c.length + cs.flatten.length := by simp
    unfold readFromBuf
    by_cases h2 : c = []
    · simp [h2]
    · simp only [h2, if_false]
      cases hP : P c with
      | fail => refine ⟨by simp only; omega, by simp only; omega, by simp only; omega, ?_⟩; simp only [Nat.zero_add, Nat.one_mul]; omega
      | done rem => refine ⟨by simp only; omega, by simp only; omega, by simp only; omega, ?_⟩; simp only [Nat.zero_add, Nat.one_mul]; omega
      | incomplete =>
        simp only
        obtain ⟨i1, i2, i3, i4, i5⟩ := rfbLoop_spec P limit C (limit + C) (by omega) cs c
          ⟨.ok, c.length, c.length, c.length, 0⟩ hCs (by simp only; omega)
        simp only at i2 i3 i4 i5
        refine ⟨i1, by omega, by omega, ?_⟩
        generalize (rfbLoop P limit cs c _).steps = st at *
        generalize (rfbLoop P limit cs c _).work = wk at *
        rw [Nat.add_mul, Nat.one_mul]
        simp only [Nat.sub_zero] at i4
        omega

/-- the work really is quadratic: `k` further refills of `c` bytes each under a parser that keeps
answering "incomplete" re-parse `|back| + c`, `|back| + 2c`, … bytes -/
theorem rfbLoop_incomplete_work (limit c : Nat) (chunk : Bytes) (hc : chunk.length = c) (hpos : 0 < c) :
    ∀ (k : Nat) (back : Bytes) (o : RfbOut), back.length + k * c ≤ limit →
    (rfbLoop (fun _ => .incomplete) limit (List.replicate k chunk) back o).work =
      o.work + k * back.length + c * ((k + 1) * k / 2) := by
  intro k
  induction k with
  | zero => intro back o _; simp only [List.replicate_zero, rfbLoop]; split <;> simp
  | succ k ih =>
    intro back o hl
    have hne : chunk ≠ [] := by intro h; rw [h] at hc; simp at hc; omega
    have h1 : ¬ (limit ≤ back.length) := by
      have : (k + 1) * c = k * c + c := by rw [Nat.add_mul, Nat.one_mul]
      omega
    simp only [List.replicate_succ, rfbLoop, h1, hne, if_false]
    rw [ih (back ++ chunk) _ (by
      simp only [List.length_append, hc]
      have : (k + 1) * c = k * c + c := by rw [Nat.add_mul, Nat.one_mul]
      omega)]
    have t := tri (k + 1)
    simp only [Nat.add_sub_cancel] at t
    rw [t]
    simp only [List.length_append, hc]
    generalize (k + 1) * k / 2 = T
    generalize back.length = B
    have e1 : (k + 1) * B = k * B + B := by rw [Nat.add_mul, Nat.one_mul]
    have e2 : c * (T + (k + 1)) = c * T + (c * k + c) := by rw [Nat.mul_add, Nat.mul_add, Nat.mul_one]
    have e3 : k * (B + c) = k * B + k * c := Nat.mul_add _ _ _
    have e4 : k * c = c * k := Nat.mul_comm _ _
    rw [e1, e2, e3, e4]
    omega

/-! ### `fill_buffer_bytes` and refill-when-empty readers -/

theorem fillBufferBytes_len (len : Nat) : ∀ (src : List Bytes) (buf : Bytes),
    (fillBufferBytes len src buf).1.length ≤ max len buf.length ∧
    buf.length ≤ (fillBufferBytes len src buf).1.length := by
  intro src
  induction src with
  | nil => intro buf; simp only [fillBufferBytes]; omega
  | cons c cs ih =>
    intro buf
    unfold fillBufferBytes
    by_cases h1 : len ≤ buf.length
    · simp only [h1, if_true]; omega
    · simp only [h1, if_false]
      by_cases h2 : c = []
      · simp only [h2, if_true]; omega
      · simp only [h2, if_false]
        by_cases h3 : len - buf.length < c.length
        · simp only [h3, if_true, List.length_append, List.length_take]; omega
        · simp only [h3, if_false]
          have := ih (buf ++ c)
          simp only [List.length_append] at this
          omega

/-- the invariant of every refill-when-empty reader -/
def Refill.Inv (B : Nat) (s : Refill) : Prop := s.buffer.length ≤ B

theorem Refill.inv_step (B : Nat) (s : Refill) (op : RefillOp) (h : Refill.Inv B s) :
    Refill.Inv B (s.step B op) := by
  unfold Refill.Inv at *
  cases op with
  | consume k => simp only [Refill.step, List.length_drop]; omega
  | fill =>
    simp only [Refill.step]
    by_cases hb : s.buffer = []
    · simp only [hb, ne_eq, not_true_eq_false, if_false]
      have := (fillBufferBytes_len B s.src []).1
      simpa using this
    · simp [hb, h]

/-! ### decryptor buffers -/

theorem seipd2DecI_erase (A : Aead) (info : Bytes) (cs T k : Nat) :
    ∀ (fuel : Nat) (enc : Bytes) (idx written : Nat) (src : Bytes),
    ((seipd2DecI A info cs T k fuel enc idx written src).1, (seipd2DecI A info cs T k fuel enc idx written src).2.1)
      = seipd2Dec A info cs T k fuel enc idx written src := by
  intro fuel
  induction fuel with
  | zero => intro enc idx written src; simp [seipd2DecI, seipd2Dec]
  | succ fuel ih =>
    intro enc idx written src
    unfold seipd2DecI seipd2Dec
    simp only
    by_cases h1 : (List.take (k * (cs + T) - enc.length) src).length < k * (cs + T) - enc.length
    · simp only [h1, if_true]
      by_cases h2 : (enc ++ List.take (k * (cs + T) - enc.length) src).length < T
      · simp only [h2, if_true]
      · simp only [h2, if_false]
        cases decLast A info cs T (enc ++ List.take (k * (cs + T) - enc.length) src) idx written <;> rfl
    · simp only [h1, if_false]
      cases hd : A.aeadDec idx info (List.take (min (cs + T) (enc ++ List.take (k * (cs + T) - enc.length) src).length)
          (enc ++ List.take (k * (cs + T) - enc.length) src)) with
      | none => rfl
      | some p =>
        simp only
        rw [← ih]

theorem seipd2DecI_bufs (A : Aead) (info : Bytes) (cs T k : Nat) :
    ∀ (fuel : Nat) (enc : Bytes) (idx written : Nat) (src : Bytes), enc.length ≤ k * (cs + T) →
    ∀ b ∈ (seipd2DecI A info cs T k fuel enc idx written src).2.2, b.length ≤ k * (cs + T) := by
  intro fuel
  induction fuel with
  | zero => intro enc idx written src _ b hb; simp [seipd2DecI] at hb
  | succ fuel ih =>
    intro enc idx written src henc b hb
    unfold seipd2DecI at hb
    simp only at hb
    have hbuf : (enc ++ List.take (k * (cs + T) - enc.length) src).length ≤ k * (cs + T) := by
      simp only [List.length_append, List.length_take]; omega
    split at hb
    · split at hb
      · simp at hb; subst hb; exact hbuf
      · split at hb <;> (simp at hb; subst hb; exact hbuf)
    · split at hb
      · simp at hb; subst hb; exact hbuf
      · simp only [List.mem_cons] at hb
        rcases hb with rfl | hb
        · exact hbuf
        · exact ih _ _ _ _ (by simp only [List.length_drop]; omega) b hb

theorem seipd1RoundsI_erase (sha1 : Bytes → Bytes) (pre : Bytes) (B : Nat) :
    ∀ (fuel : Nat) (held hashed src : Bytes),
    ((seipd1RoundsI sha1 pre B fuel held hashed src).1, (seipd1RoundsI sha1 pre B fuel held hashed src).2.1)
      = seipd1Rounds sha1 pre B fuel held hashed src := by
  intro fuel
  induction fuel with
  | zero => intro held hashed src; simp [seipd1RoundsI, seipd1Rounds]
  | succ fuel ih =>
    intro held hashed src
    unfold seipd1RoundsI seipd1Rounds
    simp only
    by_cases h1 : (held ++ List.take (B - held.length) src).length < Gen.mdcLen
    · simp only [h1, if_true]
    · simp only [h1, if_false]
      by_cases h2 : (List.take (B - held.length) src).length < B - held.length
      · simp only [h2, if_true]
        split <;> rfl
      · simp only [h2, if_false]
        rw [← ih]

theorem seipd1RoundsI_bufs (sha1 : Bytes → Bytes) (pre : Bytes) (B : Nat) :
    ∀ (fuel : Nat) (held hashed src : Bytes), held.length ≤ B →
    ∀ b ∈ (seipd1RoundsI sha1 pre B fuel held hashed src).2.2, b.length ≤ B := by
  intro fuel
  induction fuel with
  | zero => intro held hashed src _ b hb; simp [seipd1RoundsI] at hb
  | succ fuel ih =>
    intro held hashed src hheld b hb
    unfold seipd1RoundsI at hb
    simp only at hb
    have hbuf : (held ++ List.take (B - held.length) src).length ≤ B := by
      simp only [List.length_append, List.length_take]; omega
    split at hb
    · simp at hb; subst hb; exact hbuf
    · split at hb
      · split at hb <;> (simp at hb; subst hb; exact hbuf)
      · simp only [List.mem_cons] at hb
        rcases hb with rfl | hb
        · exact hbuf
        · exact ih _ _ _ (by simp only [List.length_drop]; omega) b hb

/-! ### `NormalizedReader` -/

theorem canonGo_length_le (p : Bool) (xs : Bytes) : (canonGo p xs).length ≤ 2 * xs.length := by
  induction xs generalizing p with
  | nil => simp [canonGo]
  | cons b r ih =>
    simp only [canonGo]
    split
    · split
      · have := ih false; simp only [List.length_cons]; omega
      · have := ih false; simp only [List.length_cons]; omega
    · have := ih (b == CR); simp only [List.length_cons]; omega

theorem nrCleanup_block_le (W : Nat) (inBuf w : Bytes) (hW : 0 < W) (hlen : inBuf.length = W)
    (hw : w.length ≤ W) : (nrCleanup CRLF W inBuf w).1.length ≤ 2 * W + 2 := by
  rw [(nrCleanup_spec W inBuf w hW hlen hw).2]
  have h := canonGo_length_le false ((if endsCR inBuf then [CR] else []) ++
        (if w.length = W ∧ endsCR w then w.dropLast else w))
  have h1 : ((if endsCR inBuf then [CR] else []) ++
        (if w.length = W ∧ endsCR w then w.dropLast else w)).length ≤ 1 + w.length := by
    simp only [List.length_append]
    have a : (if endsCR inBuf then [CR] else ([] : Bytes)).length ≤ 1 := by split <;> simp
    have b : (if w.length = W ∧ endsCR w then w.dropLast else w).length ≤ w.length := by
      split <;> simp
    omega
  omega

theorem nrBlocks_block_le (W : Nat) (hW : 0 < W) : ∀ (n : Nat) (inp inBuf : Bytes),
    inp.length ≤ n → inBuf.length = W → ∀ blk ∈ nrBlocks CRLF W inBuf inp, blk.length ≤ 2 * W + 2 := by
  intro n
  induction n with
  | zero =>
    intro inp inBuf hn hlen blk hb
    have : inp = [] := by cases inp <;> simp_all
    subst this
    rw [nrBlocks] at hb
    have hW' : ¬ W = 0 := by omega
    simp only [hW', dite_false, List.length_nil, hW, dite_true, List.take_nil, List.mem_singleton] at hb
    subst hb
    exact nrCleanup_block_le W inBuf [] hW hlen (by simp)
  | succ n ih =>
    intro inp inBuf hn hlen blk hb
    rw [nrBlocks] at hb
    have hW' : ¬ W = 0 := by omega
    simp only [hW', dite_false] at hb
    have hwl : (inp.take W).length ≤ W := by simp only [List.length_take]; omega
    by_cases hshort : inp.length < W
    · simp only [hshort, dite_true, List.mem_singleton] at hb
      subst hb
      exact nrCleanup_block_le W inBuf _ hW hlen hwl
    · simp only [hshort, dite_false, List.mem_cons] at hb
      rcases hb with rfl | hb
      · exact nrCleanup_block_le W inBuf _ hW hlen hwl
      · have hspec := nrCleanup_spec W inBuf (inp.take W) hW hlen hwl
        have hwl' : (inp.take W).length = W := by simp only [List.length_take]; omega
        exact ih (inp.drop W) _ (by simp only [List.length_drop]; omega)
          (by rw [hspec.1]; simp [hwl', hlen]) blk hb

/-! ### SEIPDv1 CheckFirst -/

theorem seipd1CheckFirst_capped (sha1 : Bytes → Bytes) (bs max : Nat) (dec body : Bytes)
    (h : seipd1CheckFirst sha1 bs max dec = some body) :
    body.length + Gen.mdcLen ≤ max ∧ body.length + Gen.mdcLen + (bs + 2) = dec.length := by
  unfold seipd1CheckFirst at h
  simp only at h
  split at h
  · simp at h
  · split at h
    · simp at h
    · split at h
      · simp at h
      · split at h
        · simp only [Option.some.injEq] at h
          subst h
          simp only [List.length_take, List.length_drop] at *
          omega
        · simp at h

theorem seipd1CheckFirst_over (sha1 : Bytes → Bytes) (bs max : Nat) (dec : Bytes)
    (h : max + (bs + 2) < dec.length) : seipd1CheckFirst sha1 bs max dec = none := by
  unfold seipd1CheckFirst
  simp only
  split
  · rfl
  · split
    · rfl
    · rename_i h2; simp only [List.length_drop] at h2; omega

/-! ### S2K -/

theorem argon2Admit_sound (t p m : Nat) (h : argon2Admit t p m = true) :
    1 ≤ t ∧ t ≤ Gen.argon2MaxT ∧ 1 ≤ p ∧ p ≤ Gen.argon2MaxP ∧ m ≤ Gen.argon2MaxMEnc ∧
    2 ^ m ≤ Gen.argon2MemoryLimitKib ∧ 8 * p ≤ 2 ^ m := by
  simp only [argon2Admit, Bool.and_eq_true, decide_eq_true_eq] at h
  obtain ⟨⟨⟨⟨⟨⟨⟨h1, h2⟩, _⟩, h4⟩, h5⟩, h6⟩, h7⟩, h8⟩ := h
  exact ⟨h6, h1, h7, h2, h4, h5, h8⟩

theorem decodeCount_le (c : Nat) (h : c < 256) : decodeCount c ≤ 65011712 := by
  unfold decodeCount
  have h1 : 16 + c % 16 ≤ 31 := by omega
  have h2 : c / 16 + Gen.s2kExpbias ≤ 21 := by
    have : Gen.s2kExpbias = 6 := rfl
    omega
  have h3 : 2 ^ (c / 16 + Gen.s2kExpbias) ≤ 2 ^ 21 := Nat.pow_le_pow_right (by decide) h2
  calc (16 + c % 16) * 2 ^ (c / 16 + Gen.s2kExpbias) ≤ 31 * 2 ^ 21 := Nat.mul_le_mul h1 h3
    _ = 65011712 := by decide

theorem decodeCount_max : decodeCount 255 = 65011712 := by decide

theorem iterLoop_spec (ds : Nat) (hds : 0 < ds) : ∀ (fuel count : Nat), count < fuel →
    (iterLoop ds fuel count).1 = count ∧ (iterLoop ds fuel count).2 ≤ count / ds + 1 := by
  intro fuel
  induction fuel with
  | zero => intro count h; omega
  | succ fuel ih =>
    intro count h
    unfold iterLoop
    by_cases hc : ds < count
    · simp only [hc, if_true]
      obtain ⟨i1, i2⟩ := ih (count - ds) (by omega)
      generalize iterLoop ds fuel (count - ds) = r at *
      obtain ⟨b, k⟩ := r
      simp only at *
      refine ⟨by omega, ?_⟩
      have : count / ds = (count - ds) / ds + 1 := by
        have : count = (count - ds) + ds := by omega
        conv => lhs; rw [this]
        exact Nat.add_div_right _ hds
      omega
    · simp only [hc, if_false]; exact ⟨trivial, Nat.le_add_left _ _⟩

/-- over a source without empty chunks the loop stops exactly at `min size (what is there)` -/
theorem takeLoop_len (size : Nat) : ∀ (src : List Bytes) (b : Buf), (∀ c ∈ src, c ≠ []) → b.len ≤ size →
    (takeLoop size src b).1.len = min size (b.len + src.flatten.length) := by
  intro src
  induction src with
  | nil => intro b _ h; simp only [takeLoop, List.flatten_nil, List.length_nil]; omega
  | cons c cs ih =>
    intro b hne hb
    have hc : c ≠ [] := hne c (by simp)
    have hcs : ∀ x ∈ cs, x ≠ [] := fun x hx => hne x (by simp [hx])
    have hflat : (c :: cs).flatten.length = c.length + cs.flatten.length := by simp
    have hcl : 0 < c.length := List.length_pos_iff.mpr hc
    unfold takeLoop
    by_cases h1 : size ≤ b.len
    · simp only [h1, if_true]; omega
    · simp only [h1, hc, if_false]
      by_cases h3 : min (size - b.len) c.length < c.length
      · simp only [h3, if_true, Buf.extend_len]; omega
      · simp only [h3, if_false]
        have hav : min (size - b.len) c.length = c.length := by omega
        rw [hav]
        have := ih (b.extend c.length) hcs (by rw [Buf.extend_len]; omega)
        rw [Buf.extend_len] at this
        generalize takeLoop size cs (b.extend c.length) = r at *
        obtain ⟨b'', rest, k⟩ := r
        simp only at *
        omega

theorem takeBytesOk_iff (size : Nat) (src : List Bytes) (hne : ∀ c ∈ src, c ≠ []) :
    takeBytesOk size src = true ↔ size ≤ src.flatten.length := by
  have h := takeLoop_len size src (Buf.withCapacity (min size Gen.takeBytesPreallocCap)) hne
    (by simp [Buf.withCapacity])
  have h0 : (Buf.withCapacity (min size Gen.takeBytesPreallocCap)).len = 0 := rfl
  rw [h0, Nat.zero_add] at h
  unfold takeBytesOk takeBytesBuf
  rw [beq_iff_eq, h]
  omega

theorem Buf.extend_cap_mono (b : Buf) (n : Nat) : b.cap ≤ (b.extend n).cap := by
  unfold Buf.extend growAmortized
  by_cases h : b.len + n ≤ b.cap
  · simp only [h, if_true]; exact Nat.le_refl _
  · simp only [h, if_false]; omega

/-- the capacity never shrinks -/
theorem takeLoop_cap_mono (size : Nat) : ∀ (s : List Bytes) (b : Buf), b.cap ≤ (takeLoop size s b).1.cap := by
  intro s
  induction s with
  | nil => intro b; simp only [takeLoop]; exact Nat.le_refl _
  | cons c cs ih =>
    intro b
    unfold takeLoop
    by_cases h1 : size ≤ b.len
    · simp only [h1, if_true]; exact Nat.le_refl _
    · simp only [h1, if_false]
      by_cases h2 : c = []
      · simp only [h2, if_true]; exact Nat.le_refl _
      · simp only [h2, if_false]
        by_cases h3 : min (size - b.len) c.length < c.length
        · simp only [h3, if_true]; exact Buf.extend_cap_mono _ _
        · simp only [h3, if_false]
          have := ih (b.extend (min (size - b.len) c.length))
          generalize takeLoop size cs (b.extend (min (size - b.len) c.length)) = r at *
          obtain ⟨b'', rest, k⟩ := r
          exact Nat.le_trans (Buf.extend_cap_mono _ _) this

theorem chunk_le_flatten (src : List Bytes) : ∀ c ∈ src, c.length ≤ src.flatten.length := by
  intro c hc
  induction src with
  | nil => simp at hc
  | cons x xs ih =>
    simp only [List.mem_cons] at hc
    simp only [List.flatten_cons, List.length_append]
    rcases hc with rfl | hc
    · omega
    · have := ih hc; omega

/-- bytes are conserved: what the buffer gained is what the source lost -/
theorem takeLoop_conserve (size : Nat) : ∀ (src : List Bytes) (b : Buf),
    (takeLoop size src b).1.len + (takeLoop size src b).2.1.flatten.length = b.len + src.flatten.length := by
  intro src
  induction src with
  | nil => intro b; simp [takeLoop]
  | cons c cs ih =>
    intro b
    have hflat : (c :: cs).flatten.length = c.length + cs.flatten.length := by simp
    unfold takeLoop
    by_cases h1 : size ≤ b.len
    · simp only [h1, if_true]
    · simp only [h1, if_false]
      by_cases h2 : c = []
      · simp only [h2, if_true]
      · simp only [h2, if_false]
        by_cases h3 : min (size - b.len) c.length < c.length
        · simp only [h3, if_true, Buf.extend_len, List.flatten_cons, List.length_append, List.length_drop]
          omega
        · simp only [h3, if_false]
          have hav : min (size - b.len) c.length = c.length := by omega
          rw [hav]
          have := ih (b.extend c.length)
          rw [Buf.extend_len] at this
          generalize takeLoop size cs (b.extend c.length) = r at *
          obtain ⟨b'', rest, k⟩ := r
          simp only at *
          omega

theorem takeSeq_alloc : ∀ (sizes : List Nat) (src : List Bytes),
    ((takeSeq sizes src).map (·.cap)).sum ≤ 2 * src.flatten.length + Gen.takeBytesPreallocCap * sizes.length := by
  intro sizes
  induction sizes with
  | nil => intro src; simp [takeSeq]
  | cons s ss ih =>
    intro src
    have hinv := takeLoop_spec s _ src _ (BufInv.withCapacity (min s Gen.takeBytesPreallocCap))
    have hcons := takeLoop_conserve s src (Buf.withCapacity (min s Gen.takeBytesPreallocCap))
    simp only [takeSeq]
    generalize takeLoop s src (Buf.withCapacity (min s Gen.takeBytesPreallocCap)) = r at *
    obtain ⟨b, rest, k⟩ := r
    simp only [Buf.withCapacity] at hinv hcons
    obtain ⟨hi, _, _, _, _⟩ := hinv
    have hc := hi.cap_le
    have h8 : vecMinCapU8 ≤ Gen.takeBytesPreallocCap := by decide
    have hk : Gen.takeBytesPreallocCap * (ss.length + 1) = Gen.takeBytesPreallocCap * ss.length + Gen.takeBytesPreallocCap := by
      rw [Nat.mul_add, Nat.mul_one]
    by_cases hok : b.len = s
    · simp only [hok, if_true, List.map_cons, List.sum_cons, List.length_cons]
      have := ih rest
      omega
    · simp only [hok, if_false, List.map_cons, List.map_nil, List.sum_cons, List.sum_nil, List.length_cons]
      omega

/-! ### embedded signatures with the nesting cap: copy volume ≤ (cap − depth) × length -/

theorem scale_le (x y k A B n : Nat) (hx : x ≤ k * A) (hy : y ≤ k * B) (hAB : A + B ≤ n) :
    x + y ≤ k * n := by
  have h3 : k * A + k * B = k * (A + B) := by rw [Nat.mul_add]
  have h4 : k * (A + B) ≤ k * n := Nat.mul_le_mul_left _ hAB
  omega

theorem sig_area_cost_le (cap : Nat) : ∀ (fuel depth : Nat),
    (∀ b : Bytes, (sigCost cap fuel depth b).copy ≤ (cap - depth) * b.length) ∧
    (∀ a : Bytes, (areaCost cap fuel depth a).copy ≤ (cap - depth) * a.length) := by
  intro fuel
  induction fuel with
  | zero => intro depth; constructor <;> intro x <;> simp [sigCost, areaCost]
  | succ fuel ih =>
    intro depth
    obtain ⟨ihs, iha⟩ := ih depth
    have ihs1 := (ih (depth + 1)).1
    constructor
    · intro b
      cases b with
      | nil => simp [sigCost]
      | cons v r =>
        simp only [sigCost]
        by_cases h4 : v.toNat = 4
        · simp only [h4, if_true]
          have hl := two_areas_le ((r.drop 3).drop 2) (beNat ((r.drop 3).take 2))
            (beNat ((((r.drop 3).drop 2).drop (beNat ((r.drop 3).take 2))).take 2)) 2
          have hl' : (List.take (beNat ((r.drop 3).take 2)) ((r.drop 3).drop 2)).length +
              (List.take (beNat ((((r.drop 3).drop 2).drop (beNat ((r.drop 3).take 2))).take 2))
                ((((r.drop 3).drop 2).drop (beNat ((r.drop 3).take 2))).drop 2)).length ≤ (v :: r).length := by
            simp only [List.length_drop, List.length_cons] at hl ⊢; omega
          split
          · exact scale_le _ _ _ _ _ _ (iha _) (iha _) hl'
          · have := scale_le _ 0 _ _ _ _ (iha (List.take (beNat ((r.drop 3).take 2)) ((r.drop 3).drop 2)))
              (Nat.zero_le _) hl'
            simpa using this
        · simp only [h4, if_false]
          by_cases h6 : v.toNat = 6
          · simp only [h6, if_true]
            have hl := two_areas_le ((r.drop 3).drop 4) (beNat ((r.drop 3).take 4))
              (beNat ((((r.drop 3).drop 4).drop (beNat ((r.drop 3).take 4))).take 4)) 4
            have hl' : (List.take (beNat ((r.drop 3).take 4)) ((r.drop 3).drop 4)).length +
                (List.take (beNat ((((r.drop 3).drop 4).drop (beNat ((r.drop 3).take 4))).take 4))
                  ((((r.drop 3).drop 4).drop (beNat ((r.drop 3).take 4))).drop 4)).length ≤ (v :: r).length := by
              simp only [List.length_drop, List.length_cons] at hl ⊢; omega
            split
            · exact scale_le _ _ _ _ _ _ (iha _) (iha _) hl'
            · have := scale_le _ 0 _ _ _ _ (iha (List.take (beNat ((r.drop 3).take 4)) ((r.drop 3).drop 4)))
                (Nat.zero_le _) hl'
              simpa using this
          · simp [h6]
    · intro a
      simp only [areaCost]
      cases hs : subLen a with
      | none => simp
      | some p =>
        obtain ⟨l, r⟩ := p
        simp only
        have hcons := subLen_consumes a r l hs
        by_cases hl : l = 0
        · simp [hl]
        · simp only [hl, if_false]
          cases r with
          | nil => simp
          | cons t r' =>
            simp only
            have hlen : (r'.take (l - 1)).length + (r'.drop (l - 1)).length ≤ a.length := by
              simp only [List.length_take, List.length_drop, List.length_cons] at hcons ⊢; omega
            by_cases he : isEmbedded t = true
            · simp only [he, if_true]
              by_cases hc : cap ≤ depth
              · simp [hc]
              · simp only [hc, if_false]
                have hb := ihs1 (r'.take (l - 1))
                have hk : cap - depth = (cap - (depth + 1)) + 1 := by omega
                have hx : (r'.take (l - 1)).length + (sigCost cap fuel (depth + 1) (r'.take (l - 1))).copy
                    ≤ (cap - depth) * (r'.take (l - 1)).length := by
                  rw [hk, Nat.add_mul, Nat.one_mul]; omega
                split
                · exact scale_le _ _ _ _ _ _ hx (iha _) hlen
                · have := scale_le _ 0 _ _ _ _ hx (Nat.zero_le _) hlen
                  simpa using this
            · simp only [he]
              have := scale_le 0 _ _ _ _ _ (Nat.zero_le _) (iha (r'.drop (l - 1))) hlen
              simpa using this

/-- no signature parser ever runs deeper than the cap -/
theorem sig_area_reach (cap : Nat) : ∀ (fuel depth : Nat),
    (∀ b : Bytes, depth ≤ (sigCost cap fuel depth b).reach ∧ (sigCost cap fuel depth b).reach ≤ max cap depth) ∧
    (∀ a : Bytes, depth ≤ (areaCost cap fuel depth a).reach ∧ (areaCost cap fuel depth a).reach ≤ max cap depth) := by
  intro fuel
  induction fuel with
  | zero => intro depth; constructor <;> intro x <;> simp [sigCost, areaCost] <;> omega
  | succ fuel ih =>
    intro depth
    obtain ⟨ihs, iha⟩ := ih depth
    have ihs1 := (ih (depth + 1)).1
    constructor
    · intro b
      cases b with
      | nil => simp only [sigCost]; omega
      | cons v r =>
        simp only [sigCost]
        by_cases h4 : v.toNat = 4
        · simp only [h4, if_true]
          split
          · have a1 := iha (List.take (beNat ((r.drop 3).take 2)) ((r.drop 3).drop 2))
            have a2 := iha (List.take (beNat ((((r.drop 3).drop 2).drop (beNat ((r.drop 3).take 2))).take 2))
                ((((r.drop 3).drop 2).drop (beNat ((r.drop 3).take 2))).drop 2))
            simp only; omega
          · exact iha _
        · simp only [h4, if_false]
          by_cases h6 : v.toNat = 6
          · simp only [h6, if_true]
            split
            · have a1 := iha (List.take (beNat ((r.drop 3).take 4)) ((r.drop 3).drop 4))
              have a2 := iha (List.take (beNat ((((r.drop 3).drop 4).drop (beNat ((r.drop 3).take 4))).take 4))
                  ((((r.drop 3).drop 4).drop (beNat ((r.drop 3).take 4))).drop 4))
              simp only; omega
            · exact iha _
          · simp only [h6, if_false]; omega
    · intro a
      simp only [areaCost]
      cases hs : subLen a with
      | none => simp only; omega
      | some p =>
        obtain ⟨l, r⟩ := p
        simp only
        by_cases hl : l = 0
        · simp only [hl, if_true]; omega
        · simp only [hl, if_false]
          cases r with
          | nil => simp only; omega
          | cons t r' =>
            simp only
            by_cases he : isEmbedded t = true
            · simp only [he, if_true]
              by_cases hc : cap ≤ depth
              · simp only [hc, if_true]; omega
              · simp only [hc, if_false]
                have hb := ihs1 (r'.take (l - 1))
                have hr := iha (r'.drop (l - 1))
                split
                · simp only; omega
                · simp only; omega
            · simp only [he]
              exact iha _

theorem areaCost_nil (cap f depth : Nat) : areaCost cap f depth [] = ⟨0, true, depth⟩ := by
  cases f <;> simp [areaCost, subLen]

/-- one Embedded Signature subpacket (5-octet length form) holding exactly `s`, at nesting `depth` -/
theorem areaCost_embedded (cap f depth : Nat) (s : Bytes) (h : s.length + 1 < 4294967296) :
    areaCost cap (f + 1) depth ([255] ++ be32 (s.length + 1) ++ [32] ++ s) =
      if cap ≤ depth then ⟨0, false, depth⟩
      else if (sigCost cap f (depth + 1) s).ok then
        ⟨s.length + (sigCost cap f (depth + 1) s).copy, true, max (sigCost cap f (depth + 1) s).reach depth⟩
      else ⟨s.length + (sigCost cap f (depth + 1) s).copy, false, (sigCost cap f (depth + 1) s).reach⟩ := by
  have hb := beNat_be32 _ h
  obtain ⟨a', b', c', d', hL'⟩ := be32_cases (s.length + 1)
  rw [hL'] at hb ⊢
  simp only [List.cons_append, List.nil_append, areaCost, subLen]
  have e1 : ¬ ((255 : UInt8).toNat ≤ Gen.subLenOneOctetMax) := by decide
  have e2 : ¬ ((255 : UInt8).toNat ≤ Gen.subLenTwoOctetMax) := by decide
  simp only [e1, e2, if_false]
  simp only [List.length_cons, List.take_succ_cons, List.take_zero, List.drop_succ_cons, List.drop_zero]
  have e3 : ¬ (s.length + 1 + 1 + 1 + 1 + 1 < 4) := by omega
  simp only [e3, if_false, hb]
  have e4 : ¬ (s.length + 1 = 0) := by omega
  have e5 : isEmbedded 32 = true := by decide
  simp only [e4, if_false, Nat.add_sub_cancel, List.take_length, List.drop_length, areaCost_nil, e5, if_true]
  by_cases hc : cap ≤ depth
  · simp [hc]
  · simp only [hc, if_false]
    split <;> simp

theorem sigCost_wrap6 (cap f depth : Nat) (s : Bytes) (h : s.length + 6 < 4294967296) :
    sigCost cap (f + 2) depth (nestWrap 6 s) =
      if cap ≤ depth then ⟨0, false, depth⟩
      else if (sigCost cap f (depth + 1) s).ok then
        ⟨s.length + (sigCost cap f (depth + 1) s).copy, true, max depth (max (sigCost cap f (depth + 1) s).reach depth)⟩
      else ⟨s.length + (sigCost cap f (depth + 1) s).copy, false, max depth (sigCost cap f (depth + 1) s).reach⟩ := by
  have hb := beNat_be32 (s.length + 6) h
  have hin := areaCost_embedded cap f depth s (by omega)
  obtain ⟨a, b, c, d, hL⟩ := be32_cases (s.length + 6)
  obtain ⟨a', b', c', d', hL'⟩ := be32_cases (s.length + 1)
  rw [hL] at hb
  rw [hL'] at hin
  have h66 : (6 : UInt8).toNat = 6 := by decide
  have n64 : ¬ ((6 : Nat) = 4) := by decide
  simp only [nestWrap, n64, if_false, hL, hL']
  simp only [List.cons_append, List.nil_append, sigCost, h66, n64, if_true, if_false]
  have d3 : ∀ (x y z : UInt8) (l : Bytes), List.drop 3 (x :: y :: z :: l) = l := fun _ _ _ _ => rfl
  have t4 : ∀ (x y z w : UInt8) (l : Bytes), List.take 4 (x :: y :: z :: w :: l) = [x, y, z, w] := fun _ _ _ _ _ => rfl
  have d4 : ∀ (x y z w : UInt8) (l : Bytes), List.drop 4 (x :: y :: z :: w :: l) = l := fun _ _ _ _ _ => rfl
  have z : beNat [(0 : UInt8), 0, 0, 0] = 0 := by decide
  have tl : List.take s.length (s ++ nestTail6) = s := by simp
  simp only [d3, t4, d4, z, List.take_zero, List.drop_zero, areaCost_nil, if_true, Nat.zero_add, hb, take_six_add, tl]
  simp only [List.cons_append, List.nil_append] at hin
  rw [hin]
  by_cases hc : cap ≤ depth
  · simp [hc]
  · simp only [hc, if_false]
    split <;> simp

theorem sigCost_base (cap ver f depth : Nat) : sigCost cap f depth (nestBase ver) = ⟨0, true, depth⟩ := by
  cases f with
  | zero => simp [sigCost]
  | succ f =>
    by_cases hv : ver = 4
    · subst hv
      simp [nestBase, nestTail4, sigCost, areaCost_nil, beNat]
    · simp [nestBase, hv, nestTail6, sigCost, areaCost_nil, beNat]

/-- the capped parser on the witness family: accepted iff the nesting fits under the cap; it copies
only the levels it enters; no parser runs deeper than the cap -/
theorem nest6_capped (cap : Nat) : ∀ (d f depth : Nat), 2 * d + 1 ≤ f → nestLen 6 d < 4294967296 → depth ≤ cap →
    sigCost cap f depth (nestSig 6 d) =
      ⟨nestCopyCapped 6 d (cap - depth), decide (depth + d ≤ cap), depth + min d (cap - depth)⟩
  | 0, f, depth, _, _, hd => by
    have : decide (depth ≤ cap) = true := by simpa using hd
    simp only [nestSig, sigCost_base, nestCopyCapped, Nat.zero_min, Nat.add_zero, this]
  | d + 1, f, depth, hf, hsz, hd => by
    obtain ⟨f', rfl⟩ : ∃ f', f = f' + 2 := ⟨f - 2, by omega⟩
    have hlen := nestSig_length 6 d
    have hsz' : nestLen 6 d + 6 < 4294967296 := by
      simp only [nestLen] at hsz ⊢; simp at hsz ⊢; omega
    rw [nestSig, sigCost_wrap6 _ _ _ _ (by rw [hlen]; exact hsz')]
    by_cases hc : cap ≤ depth
    · have e : cap - depth = 0 := by omega
      have e2 : decide (depth + (d + 1) ≤ cap) = false := by simp; omega
      simp only [hc, if_true, e, nestCopyCapped, e2, Nat.min_zero, Nat.add_zero]
    · simp only [hc, if_false]
      rw [nest6_capped cap d f' (depth + 1) (by omega) (by omega) (by omega)]
      obtain ⟨k, hk⟩ : ∃ k, cap - depth = k + 1 := ⟨cap - depth - 1, by omega⟩
      have hk' : cap - (depth + 1) = k := by omega
      rw [hk, hk', hlen]
      simp only [nestCopyCapped]
      by_cases hok : depth + 1 + d ≤ cap
      · have e1 : decide (depth + 1 + d ≤ cap) = true := by simpa using hok
        have e2 : decide (depth + (d + 1) ≤ cap) = true := by simp; omega
        simp only [e1, e2, if_true]
        congr 1
        omega
      · have e1 : decide (depth + 1 + d ≤ cap) = false := by simpa using hok
        have e2 : decide (depth + (d + 1) ≤ cap) = false := by simp; omega
        simp only [e1, e2]
        simp
        omega

theorem sigCost_wrap4 (cap f depth : Nat) (s : Bytes) (h : s.length + 6 < 65536) :
    sigCost cap (f + 2) depth (nestWrap 4 s) =
      if cap ≤ depth then ⟨0, false, depth⟩
      else if (sigCost cap f (depth + 1) s).ok then
        ⟨s.length + (sigCost cap f (depth + 1) s).copy, true, max depth (max (sigCost cap f (depth + 1) s).reach depth)⟩
      else ⟨s.length + (sigCost cap f (depth + 1) s).copy, false, max depth (sigCost cap f (depth + 1) s).reach⟩ := by
  have hb := beNat_be16 (s.length + 6) h
  have hin := areaCost_embedded cap f depth s (by omega)
  obtain ⟨a, b, hL⟩ := be16_cases (s.length + 6)
  obtain ⟨a', b', c', d', hL'⟩ := be32_cases (s.length + 1)
  rw [hL] at hb
  rw [hL'] at hin
  have h44 : (4 : UInt8).toNat = 4 := by decide
  simp only [nestWrap, if_true, hL, hL']
  simp only [List.cons_append, List.nil_append, sigCost, h44, if_true]
  have d3 : ∀ (x y z : UInt8) (l : Bytes), List.drop 3 (x :: y :: z :: l) = l := fun _ _ _ _ => rfl
  have t2 : ∀ (x y : UInt8) (l : Bytes), List.take 2 (x :: y :: l) = [x, y] := fun _ _ _ => rfl
  have d2 : ∀ (x y : UInt8) (l : Bytes), List.drop 2 (x :: y :: l) = l := fun _ _ _ => rfl
  have z : beNat [(0 : UInt8), 0] = 0 := by decide
  have tl : List.take s.length (s ++ nestTail4) = s := by simp
  simp only [d3, t2, d2, z, List.take_zero, List.drop_zero, areaCost_nil, if_true, Nat.zero_add, hb, take_six_add, tl]
  simp only [List.cons_append, List.nil_append] at hin
  rw [hin]
  by_cases hc : cap ≤ depth
  · simp [hc]
  · simp only [hc, if_false]
    split <;> simp


/-- the capped parser on the witness family: accepted iff the nesting fits under the cap; it copies
only the levels it enters; no parser runs deeper than the cap -/
theorem nest4_capped (cap : Nat) : ∀ (d f depth : Nat), 2 * d + 1 ≤ f → nestLen 4 d < 65536 → depth ≤ cap →
    sigCost cap f depth (nestSig 4 d) =
      ⟨nestCopyCapped 4 d (cap - depth), decide (depth + d ≤ cap), depth + min d (cap - depth)⟩
  | 0, f, depth, _, _, hd => by
    have : decide (depth ≤ cap) = true := by simpa using hd
    simp only [nestSig, sigCost_base, nestCopyCapped, Nat.zero_min, Nat.add_zero, this]
  | d + 1, f, depth, hf, hsz, hd => by
    obtain ⟨f', rfl⟩ : ∃ f', f = f' + 2 := ⟨f - 2, by omega⟩
    have hlen := nestSig_length 4 d
    have hsz' : nestLen 4 d + 6 < 65536 := by
      simp only [nestLen] at hsz ⊢; simp at hsz ⊢; omega
    rw [nestSig, sigCost_wrap4 _ _ _ _ (by rw [hlen]; exact hsz')]
    by_cases hc : cap ≤ depth
    · have e : cap - depth = 0 := by omega
      have e2 : decide (depth + (d + 1) ≤ cap) = false := by simp; omega
      simp only [hc, if_true, e, nestCopyCapped, e2, Nat.min_zero, Nat.add_zero]
    · simp only [hc, if_false]
      rw [nest4_capped cap d f' (depth + 1) (by omega) (by omega) (by omega)]
      obtain ⟨k, hk⟩ : ∃ k, cap - depth = k + 1 := ⟨cap - depth - 1, by omega⟩
      have hk' : cap - (depth + 1) = k := by omega
      rw [hk, hk', hlen]
      simp only [nestCopyCapped]
      by_cases hok : depth + 1 + d ≤ cap
      · have e1 : decide (depth + 1 + d ≤ cap) = true := by simpa using hok
        have e2 : decide (depth + (d + 1) ≤ cap) = true := by simp; omega
        simp only [e1, e2, if_true]
        congr 1
        omega
      · have e1 : decide (depth + 1 + d ≤ cap) = false := by simpa using hok
        have e2 : decide (depth + (d + 1) ≤ cap) = false := by simp; omega
        simp only [e1, e2]
        simp
        omega

theorem nestCopyCapped_le (ver : Nat) : ∀ (d k : Nat), nestCopyCapped ver d k ≤ k * nestLen ver d
  | 0, _ => by simp [nestCopyCapped]
  | _ + 1, 0 => by simp [nestCopyCapped]
  | d + 1, k + 1 => by
    have ih := nestCopyCapped_le ver d k
    have hmono : nestLen ver d ≤ nestLen ver (d + 1) := by
      unfold nestLen; split <;> omega
    have h2 : k * nestLen ver d ≤ k * nestLen ver (d + 1) := Nat.mul_le_mul_left _ hmono
    simp only [nestCopyCapped, Nat.add_mul, Nat.one_mul]
    omega

/-! ## one hasher per signature packet -/

theorem feedHashers_sum (hashers chunks : List Nat) :
    (feedHashers hashers chunks).sum = hashers.sum + hashers.length * chunks.sum := by
  unfold feedHashers
  induction chunks generalizing hashers with
  | nil => simp
  | cons c cs ih =>
    have hmap : (hashers.map (· + c)).sum = hashers.sum + hashers.length * c := by
      induction hashers with
      | nil => simp
      | cons h hs ihh => simp [ihh, Nat.add_mul]; omega
    simp only [List.foldl_cons, List.sum_cons]
    rw [ih, hmap, List.length_map, Nat.mul_add]
    omega

theorem sigHashWork_eq (n : Nat) (chunks : List Nat) : sigHashWork n chunks = n * chunks.sum := by
  unfold sigHashWork
  rw [feedHashers_sum]
  simp

end Rpgp.Resource
