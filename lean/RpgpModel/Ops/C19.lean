import RpgpModel.Proto
import RpgpModel.Framing
import RpgpModel.Resource
namespace Rpgp.Ops.C19
open Rpgp Rpgp.Resource

def showCk (b : Bytes) : String :=
  let (n, x, y) := cksum b
  s!"{n}.{x}.{y}"

def showNats (l : List Nat) : String :=
  if l.isEmpty then "-" else ",".intercalate (l.map toString)

/-- chunk lengths → a source (content is irrelevant to the cost model); zero-length chunks are
dropped: a `BufRead` only returns an empty slice at the end of the stream -/
def srcOf (lens : List Nat) (fill : UInt8) : List Bytes :=
  (lens.filter (· ≠ 0)).map fun n => List.replicate n fill

def yes (b : Bool) (detail : String) : String := if b then "ok:1" else "ok:0:" ++ detail

/-- one subpacket of the generated areas: length in the requested form, type 101+(i%10), body i,i,… -/
def subpacketBytes (i l form : Nat) : Bytes :=
  let total := l + 1
  let lenb : Bytes :=
    if form = 1 then [total.toUInt8]
    else if form = 2 then [((total - 192) / 256 + 192).toUInt8, ((total - 192) % 256).toUInt8]
    else [255] ++ be32 total
  lenb ++ [(101 + i % 10).toUInt8] ++ List.replicate l i.toUInt8

def areaOf : Nat → List Nat → List Nat → Bytes
  | i, l :: ls, f :: fs => subpacketBytes i l f ++ areaOf (i + 1) ls fs
  | _, _, _ => []

/-- fixed slack granted to every streaming measurement for the small objects that are not buffers
(boxed readers, packet headers, hash states, error values) -/
def streamSlack : Nat := 16384

/-- the peak the model predicts for draining a streamed message of kind `kind`: the buffers the
modelled readers hold (8 KiB `BufReader` of the caller, one `PacketBodyReader` per packet layer,
the literal / compressed / decryptor buffer), with the measured allocator factor 3 for `BytesMut`
buffers that are re-allocated while a split-off part is alive (SEIPDv2 window, CheckFirst buffer) -/
def streamPeakBound (kind : String) (cs n limit : Nat) : Nat :=
  let bufReader := 8192
  let pbr := Gen.packetBodyBufferSize
  if kind = "literal" then bufReader + pbr + Gen.literalReaderBufferSize + streamSlack
  else if kind = "zlib" then bufReader + 2 * pbr + Gen.compressedReaderBufferSize + Gen.literalReaderBufferSize + 65536 + streamSlack
  else if kind = "v1stream" then bufReader + 2 * pbr + Gen.symDecBufferSize + Gen.literalReaderBufferSize + streamSlack
  else if kind = "v1checkfirst" then bufReader + 2 * pbr + Gen.literalReaderBufferSize + 3 * (min (n + 64) limit + 1) + streamSlack
  else if kind = "v2" then bufReader + 2 * pbr + Gen.literalReaderBufferSize + 3 * Gen.aeadWindow cs + streamSlack
  else if kind = "normalized" then 2 * (2 * Gen.normalizedReaderWindow + 2) + streamSlack
  else 0

def toySha (_ : Bytes) : Bytes := List.replicate 20 0

def handle (op : String) (a : Args) : Option String :=
  match op with
  | "take_bytes" => do
    let size ← a.nat "size"
    let lens ← a.natList "chunks"
    let b := takeBytesBuf size (srcOf lens 0xA5)
    if b.len == size then pure s!"ok:{b.len}:{b.cap}:{showNats b.allocs}"
    else pure s!"err:{showNats b.allocs}"
  | "within_take_bytes" => do
    let size ← a.nat "size"
    let lens ← a.natList "chunks"
    let peak ← a.nat "peak"
    let total ← a.nat "total"
    let b := takeBytesBuf size (srcOf lens 0xA5)
    -- the error value (`io::Error` + message) is the only other allocation of the call
    pure (yes (b.peak ≤ peak && peak ≤ b.peak + 256 && b.total ≤ total && total ≤ b.total + 256)
      s!"{b.peak}:{b.total}")
  | "within_rest" => do
    let n ← a.nat "n"
    let peak ← a.nat "peak"
    let total ← a.nat "total"
    let bound := 2 * n + 32
    pure (yes (n ≤ total + 0 && 2 * peak ≤ 3 * bound && total ≤ 2 * bound && (restBuf n).len == n) s!"{bound}")
  | "mpi" => do
    let bits ← a.nat "bits"
    let present ← a.nat "present"
    match (mpiRead bits (srcOf [present] 0xFF)).1 with
    | .tooLarge => pure "err:toolarge"
    | .eof => pure "err:eof"
    | .ok n => pure s!"ok:{n}"
  | "subpackets" => do
    let lens ← a.natList "lens"
    let forms ← a.natList "forms"
    let cut ← a.nat "cut"
    let area := areaOf 0 lens forms
    let area := area.take (area.length - cut)
    match subpacketsShape area.length area with
    | some (n, cap) => pure s!"ok:{n}:{cap}"
    | none => pure "err"
  | "argon2_admit" => do
    let t ← a.nat "t"
    let p ← a.nat "p"
    let m ← a.nat "m"
    pure (okBool (argon2Admit t p m))
  | "checkfirst_cap" => do
    let bs ← a.nat "bs"
    let max ← a.nat "max"
    let n ← a.nat "n"
    let dec := seipd1Plain toySha (List.replicate (bs + 2) 0) (List.replicate n 0)
    match seipd1CheckFirst toySha bs max dec with
    | some body => pure s!"ok:{body.length}"
    | none => pure "err"
  | "armor_limit" => do
    let limit ← a.nat "limit"
    let chunk ← a.nat "chunk"
    let n ← a.nat "n"
    let lens := (List.replicate (n / chunk) chunk) ++ (if n % chunk = 0 then [] else [n % chunk])
    let o := readFromBuf (fun _ => .incomplete) limit (srcOf lens 97)
    match o.res with
    | .tooLarge => pure s!"err:toolarge:{o.consumed}"
    | .eof => pure s!"err:other:{o.consumed}"
    | _ => pure "ok"
  | "nest" => do
    let ver ← a.nat "ver"
    let d ← a.nat "d"
    let s := nestSig ver d
    -- the witness is well formed apart from its nesting: the parser accepts it iff the cap does
    pure s!"ok:{showCk s}:{if (sigCostOf s).ok then 1 else 0}"
  | "within_nest" => do
    let ver ← a.nat "ver"
    let d ← a.nat "d"
    let peak ← a.nat "peak"
    let total ← a.nat "total"
    let c := sigCostOf (nestSig ver d)
    -- per nesting level entered: two subpacket vectors, a boxed Signature, MPI / salt buffers,
    -- `rest` slack; plus the error value when the cap refuses the input
    let perLevel := 16384 * (c.reach + 1) + 65536
    pure (yes (c.reach ≤ Gen.maxEmbeddedSignatureDepth && c.copy ≤ total && total ≤ 4 * c.copy + perLevel &&
               c.copy ≤ peak && peak ≤ 3 * c.copy + perLevel) s!"{c.copy}:{c.reach}")
  | "within_stream" => do
    let kind ← a.get? "kind"
    let cs ← a.nat "cs"
    let n ← a.nat "n"
    let limit ← a.nat "limit"
    let peak ← a.nat "peak"
    let bound := streamPeakBound kind cs n limit
    pure (yes (peak ≤ bound) s!"{bound}")
  | _ => none

end Rpgp.Ops.C19
