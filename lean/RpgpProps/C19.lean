import RpgpProofs.Resource
import RpgpProofs.CleartextIncr
/-!
# C19 — work and memory are bounded by the input actually supplied (PARTIAL)

Model: `RpgpModel/Resource.lean` (cost semantics of the containers rpgp's parsers and streaming
readers ask for) and the decryptor / canonicaliser state machines of `Seipd.lean`, `Canon.lean`.

What is proved here, for ALL declared sizes, sources, chunkings, lengths and parameter octets:
the capacity / buffer length the modelled code requests is bounded by the bytes actually present
plus an extracted constant — never by a declared length — and every modelled loop consumes input
on each iteration or stops.  What is NOT proved (and is measured by the harness instead): what the
real allocator does with those requests, wall-clock time, stack depth, and everything in the crate
that is not modelled (see the manifest entry).

Embedded signatures (D19, repaired in the tree by `MAX_EMBEDDED_SIGNATURE_DEPTH`): `embedded_sig`
copies the rest of the subpacket body and recurses, but refuses to do so below the extracted
nesting cap, so `embedded_copy_linear` / `embedded_recursion_bounded` hold at full strength (every
input, every nesting).  The `uncapped_*` theorems are regression theorems about the code WITHOUT the
cap (`sigCopyUncapped`): quadratic copy volume and unbounded recursion on the witness family
`nestSig` — they say what the cap is for and break nothing if it changes.

Still open (known finding D19b): the armor header accumulator re-parses its whole back buffer on
every refill: memory is bounded (`armor_backbuffer`), the work is not linear
(`armor_reparse_quadratic`).
-/
namespace Rpgp.C19
open Rpgp Rpgp.Resource

/-! ## constants the bounds are parametric in (re-extracted from the sources on every run) -/

/-- the documented ceilings -/
theorem constants_documented :
    Gen.takeBytesPreallocCap = 1024 ∧ Gen.subpacketVecCapLimit = 32 ∧ Gen.maxExternMpiBits = 16384 ∧
    Gen.argon2MaxT = 32 ∧ Gen.argon2MaxP = 32 ∧ Gen.argon2MemoryLimitKib = 2 ^ 21 ∧ Gen.s2kExpbias = 6 ∧
    Gen.armorDefaultLimit = 2 ^ 30 ∧ Gen.seipd1DefaultMaxMessageSize = 2 ^ 30 ∧ Gen.libMaxBufferSize = 2 ^ 30 := by
  decide

/-- every streaming reader uses a fixed buffer; the sites agree (`LineWriter` and `Base64Decoder` hold
fixed-size arrays only: their bound is their type) -/
theorem stream_buffer_sizes :
    Gen.packetBodyBufferSize = 8192 ∧ Gen.literalReaderBufferSize = 8192 ∧
    Gen.compressedReaderBufferSize = 8192 ∧ Gen.signedManyBufferSize = 8192 ∧
    Gen.symDecBufferSize = 8192 ∧ Gen.normalizedReaderWindow = 512 ∧
    Gen.aeadWindowFactor = 2 ∧ Gen.aeadWindowFactorCap = Gen.aeadWindowFactor ∧ Gen.aeadTagSize = 16 ∧
    Gen.aeadMaxChunkBytes = 4194304 ∧
    Gen.base64DecoderBufSize = 1024 ∧ Gen.base64DecoderOutCap = 768 ∧ Gen.drainChunk = 256 := by
  decide

/-- the subpacket length codec sites agree with RFC 9580 §5.2.3.7 -/
theorem subpacket_length_codec :
    Gen.subLenOneOctetMax = 191 ∧ Gen.subLenTwoOctetMin = 192 ∧ Gen.subLenTwoOctetMax = 254 ∧
    Gen.subLenTwoOctetSub = 192 ∧ Gen.subLenTwoOctetAdd = 192 ∧ Gen.subLenFiveOctetMarker = 255 ∧
    Gen.subTypeEmbeddedSignature = 32 ∧ Gen.subTypeCriticalShift = 7 := by
  decide

/-! ## `take_bytes`: allocation follows the data present, never the declared size -/

/-- **`take_bytes_alloc`.** For EVERY declared `size` and every source (any chunking, any length):
the capacity held is at most `2·|present| + 1024`, where `present` counts only bytes that were
really there (and never more than were asked for); all allocator requests together are at most
twice that, the high-water mark at most 3/2 of it. -/
theorem take_bytes_alloc (size : Nat) (src : List Bytes) :
    (takeBytesBuf size src).cap ≤ 2 * min size src.flatten.length + Gen.takeBytesPreallocCap ∧
    (takeBytesBuf size src).total ≤ 2 * (2 * min size src.flatten.length + Gen.takeBytesPreallocCap) ∧
    2 * (takeBytesBuf size src).peak ≤ 3 * (2 * min size src.flatten.length + Gen.takeBytesPreallocCap) := by
  obtain ⟨h, h1, h2, _⟩ := takeBytes_spec size src
  have hc := h.cap_le
  have ht := h.total_le
  have hp := h.peak_le
  have h8 : vecMinCapU8 ≤ Gen.takeBytesPreallocCap := by decide
  have hcap : (takeBytesBuf size src).cap ≤ 2 * min size src.flatten.length + Gen.takeBytesPreallocCap := by omega
  exact ⟨hcap, by omega, by omega⟩

/-- the bytes taken never exceed what was declared nor what was present -/
theorem take_bytes_len (size : Nat) (src : List Bytes) :
    (takeBytesBuf size src).len ≤ size ∧ (takeBytesBuf size src).len ≤ src.flatten.length :=
  ⟨(takeBytes_spec size src).2.1, (takeBytes_spec size src).2.2.1⟩

/-- a declared size larger than the data present is an error (and conversely) -/
theorem take_bytes_ok_iff (size : Nat) (src : List Bytes) (hne : ∀ c ∈ src, c ≠ []) :
    takeBytesOk size src = true ↔ size ≤ src.flatten.length :=
  takeBytesOk_iff size src hne

/-- a declared size of 2^32-1 over an empty or short body allocates 1024 bytes, once -/
theorem take_bytes_huge_declared (src : List Bytes) (h : src.flatten.length ≤ 512) :
    (takeBytesBuf 4294967295 src).cap = 1024 := by
  obtain ⟨hi, _, h2, _⟩ := takeBytes_spec 4294967295 src
  have := hi.cap_le
  have := hi.len_le
  have e : min 4294967295 Gen.takeBytesPreallocCap = 1024 := by decide
  have e8 : vecMinCapU8 = 8 := rfl
  rw [e] at hi
  -- capacity never shrinks below the initial one
  have hge : 1024 ≤ (takeBytesBuf 4294967295 src).cap := by
    have := takeLoop_cap_mono 4294967295 src (Buf.withCapacity (min 4294967295 Gen.takeBytesPreallocCap))
    rw [e] at this
    simpa [takeBytesBuf, Buf.withCapacity, e] using this
  have := hi.cap_le
  omega

/-- `rest()` (`Vec::new()` + `read_to_end`): everything is returned, capacity ≤ 2·n + 32 -/
theorem rest_alloc (n : Nat) :
    (restBuf n).len = n ∧ (restBuf n).cap ≤ 2 * n + 32 ∧ (restBuf n).total ≤ 2 * (2 * n + 32) ∧
    2 * (restBuf n).peak ≤ 3 * (2 * n + 32) := by
  obtain ⟨h, hl⟩ := restBuf_spec n
  have := h.cap_le
  have := h.total_le
  have := h.peak_le
  rw [hl] at *
  exact ⟨rfl, by omega, by omega, by omega⟩

/-! ## `parse_alloc_linear` for the modelled parsers -/

/-- **`parse_alloc_linear`.** A body parser that is a sequence of length-prefixed fields (one
`take_bytes` per declared size, over the same source) holds, over ALL its fields together, at most
`2·|bytes present| + 1024·(number of fields)` bytes of capacity — whatever the declared sizes are -/
theorem parse_alloc_linear (sizes : List Nat) (src : List Bytes) :
    ((takeSeq sizes src).map (·.cap)).sum ≤ 2 * src.flatten.length + Gen.takeBytesPreallocCap * sizes.length :=
  takeSeq_alloc sizes src

/-- MPI: a bit count above the ceiling is refused before anything is allocated; otherwise at most
2048 octets are taken, only if present, with the `take_bytes` capacity bound -/
theorem mpi_alloc (bits : Nat) (src : List Bytes) :
    (Gen.maxExternMpiBits < bits → mpiRead bits src = (.tooLarge, Buf.withCapacity 0)) ∧
    (mpiRead bits src).2.len ≤ 2048 ∧ (mpiRead bits src).2.len ≤ src.flatten.length ∧
    (mpiRead bits src).2.cap ≤ 4096 := by
  obtain ⟨h1, h2, h3, h4⟩ := mpiRead_spec bits src
  have e : (Gen.maxExternMpiBits + Gen.mpiRoundAdd) / 2 ^ Gen.mpiRoundShift = 2048 := by decide
  have e2 : Gen.takeBytesPreallocCap = 1024 := rfl
  rw [e] at h2
  exact ⟨h1, h2, h3, by omega⟩

/-- subpacket vectors: whatever length the area *declares*, the vector's capacity is at most
`max 32 (2·count)` and every subpacket parsed consumed at least two octets that were present —
so the capacity (in elements) is at most `max 32 |area present|` -/
theorem subpacket_vec_linear (declared : Nat) (area : Bytes) (n cap : Nat)
    (h : subpacketsShape declared area = some (n, cap)) :
    n ≤ cap ∧ cap ≤ max Gen.subpacketVecCapLimit (2 * n) ∧ 2 * n ≤ area.length ∧
    cap ≤ max Gen.subpacketVecCapLimit area.length := by
  obtain ⟨h1, h2, h3⟩ := subpacketsShape_spec declared area n cap h
  exact ⟨h1, h2, h3, by omega⟩

/-! ## embedded signatures (`signature/de.rs embedded_sig` with the nesting cap) -/

/-- the cap the tree uses (re-extracted), and that it admits the one nesting RFC 9580 needs (the
primary-key-binding signature inside a subkey binding signature) -/
theorem embedded_depth_cap : Gen.maxEmbeddedSignatureDepth = 4 ∧ 1 ≤ Gen.maxEmbeddedSignatureDepth := by decide

/-- generic form: with ANY cap, a signature parser running at nesting `depth` copies at most
`(cap − depth)·|body|` bytes, whatever the body contains -/
theorem embedded_copy_linear_cap (cap fuel depth : Nat) (b : Bytes) :
    (sigCost cap fuel depth b).copy ≤ (cap - depth) * b.length :=
  (sig_area_cost_le cap fuel depth).1 b

/-- **`parse_alloc_linear` for signatures, full strength.** For EVERY signature packet body — any
nesting of Embedded Signature subpackets, any declared lengths — the bytes `embedded_sig` copies
(all levels together, hence also the bytes alive at any moment) are at most `cap·|input|` -/
theorem embedded_copy_linear (b : Bytes) :
    (sigCostOf b).copy ≤ Gen.maxEmbeddedSignatureDepth * b.length := by
  have := embedded_copy_linear_cap Gen.maxEmbeddedSignatureDepth (b.length + 1) 0 b
  simpa [sigCostOf] using this

/-- **recursion depth.** No (transitively) nested `Signature::try_from_reader_nested` ever runs with
`depth > cap`: at most `cap + 1` signature parsers are on the stack, for every input -/
theorem embedded_recursion_bounded (b : Bytes) :
    (sigCostOf b).reach ≤ Gen.maxEmbeddedSignatureDepth := by
  have := ((sig_area_reach Gen.maxEmbeddedSignatureDepth (b.length + 1) 0).1 b).2
  simpa [sigCostOf] using this

/-- the capped parser on the witness family (v6, every depth that fits the encoding): accepted iff
`d ≤ cap`; only the levels actually entered are copied; the deepest parser runs at `min d cap` -/
theorem nest_capped (d : Nat) (h : 34 + 40 * d < 4294967296) :
    sigCostOf (nestSig 6 d) =
      ⟨nestCopyCapped 6 d Gen.maxEmbeddedSignatureDepth, decide (d ≤ Gen.maxEmbeddedSignatureDepth),
       min d Gen.maxEmbeddedSignatureDepth⟩ ∧
    nestCopyCapped 6 d Gen.maxEmbeddedSignatureDepth ≤ Gen.maxEmbeddedSignatureDepth * (34 + 40 * d) := by
  have hl := nestSig_length 6 d
  have e : nestLen 6 d = 34 + 40 * d := by simp [nestLen]
  have := nest6_capped Gen.maxEmbeddedSignatureDepth d ((nestSig 6 d).length + 1) 0
    (by rw [hl, e]; omega) (by rw [e]; exact h) (Nat.zero_le _)
  refine ⟨by simpa [sigCostOf] using this, ?_⟩
  have := nestCopyCapped_le 6 d Gen.maxEmbeddedSignatureDepth
  rwa [e] at this

/-- … and for v4 signatures (16-bit area lengths) -/
theorem nest_capped_v4 (d : Nat) (h : 13 + 19 * d < 65536) :
    sigCostOf (nestSig 4 d) =
      ⟨nestCopyCapped 4 d Gen.maxEmbeddedSignatureDepth, decide (d ≤ Gen.maxEmbeddedSignatureDepth),
       min d Gen.maxEmbeddedSignatureDepth⟩ := by
  have hl := nestSig_length 4 d
  have e : nestLen 4 d = 13 + 19 * d := by simp [nestLen]
  have := nest4_capped Gen.maxEmbeddedSignatureDepth d ((nestSig 4 d).length + 1) 0
    (by rw [hl, e]; omega) (by rw [e]; exact h) (Nat.zero_le _)
  simpa [sigCostOf] using this

/-- boundary: nesting exactly `cap` deep is accepted, `cap + 1` is refused — and the refused
1000-deep witness (40 034 octets) costs 159 736 copied octets instead of 20 014 000 -/
theorem nest_cap_boundary :
    (sigCostOf (nestSig 6 Gen.maxEmbeddedSignatureDepth)).ok = true ∧
    (sigCostOf (nestSig 6 (Gen.maxEmbeddedSignatureDepth + 1))).ok = false ∧
    (sigCostOf (nestSig 6 1000)).ok = false ∧ (sigCostOf (nestSig 6 1000)).copy = 159736 ∧
    (sigCostOf (nestSig 6 1000)).reach = 4 := by
  have h4 := (nest_capped Gen.maxEmbeddedSignatureDepth (by decide)).1
  have h5 := (nest_capped (Gen.maxEmbeddedSignatureDepth + 1) (by decide)).1
  have h1000 := (nest_capped 1000 (by decide)).1
  rw [h4, h5, h1000]
  decide

/-! ### regression theorems about the code WITHOUT the cap (`sigCopyUncapped`, the tree before the
D19 repair): what the cap prevents -/

/-- the witness family: length, copy volume and recursion depth of `nestSig 6 d` (v6 signatures,
32-bit area lengths) for every depth that fits the encoding -/
theorem uncapped_nest_copy_closed (d : Nat) (h : 34 + 40 * d < 4294967296) :
    (nestSig 6 d).length = 34 + 40 * d ∧
    sigCopyUncappedOf (nestSig 6 d) = 34 * d + 40 * (d * (d - 1) / 2) ∧
    sigDepthUncappedOf (nestSig 6 d) = d := by
  have hl := nestSig_length 6 d
  have e : nestLen 6 d = 34 + 40 * d := by simp [nestLen]
  obtain ⟨h1, h2⟩ := nest6_cost d ((nestSig 6 d).length + 1) (by rw [hl, e]; omega) (by rw [e]; exact h)
  refine ⟨by rw [hl, e], ?_, h2⟩
  rw [sigCopyUncappedOf, h1]; simp [nestCopyClosed]

/-- … and for v4 signatures (16-bit area lengths, depth ≤ 3448, input ≤ 65525 octets) -/
theorem uncapped_nest_copy_closed_v4 (d : Nat) (h : 13 + 19 * d < 65536) :
    (nestSig 4 d).length = 13 + 19 * d ∧
    sigCopyUncappedOf (nestSig 4 d) = 13 * d + 19 * (d * (d - 1) / 2) ∧
    sigDepthUncappedOf (nestSig 4 d) = d := by
  have hl := nestSig_length 4 d
  have e : nestLen 4 d = 13 + 19 * d := by simp [nestLen]
  obtain ⟨h1, h2⟩ := nest4_cost d ((nestSig 4 d).length + 1) (by rw [hl, e]; omega) (by rw [e]; exact h)
  refine ⟨by rw [hl, e], ?_, h2⟩
  rw [sigCopyUncappedOf, h1]; simp [nestCopyClosed]

/-- **Without the cap (D19 as it was).** The 40 034-octet signature `nestSig 6 1000` makes the
parser copy 20 014 000 octets (all of them alive at the deepest point) and recurse 1000 deep:
more than the oracle's `8·|input| + 4 MiB`. -/
theorem uncapped_embedded_copy_quadratic :
    (nestSig 6 1000).length = 40034 ∧ sigCopyUncappedOf (nestSig 6 1000) = 20014000 ∧
    sigDepthUncappedOf (nestSig 6 1000) = 1000 ∧
    8 * (nestSig 6 1000).length + 4 * 1024 * 1024 < sigCopyUncappedOf (nestSig 6 1000) := by
  obtain ⟨h1, h2, h3⟩ := uncapped_nest_copy_closed 1000 (by decide)
  rw [h1, h2, h3]
  decide

/-- no linear bound `a·|input| + c` with `a, c < 2^20` holds: the witness of depth `2·(a + c) + 2`
exceeds it -/
theorem uncapped_embedded_copy_not_linear (a c : Nat) (ha : a < 1048576) (hc : c < 1048576) :
    ∃ b : Bytes, b.length < 4294967296 ∧ a * b.length + c < sigCopyUncappedOf b := by
  refine ⟨nestSig 6 (2 * (a + c) + 2), ?_⟩
  obtain ⟨h1, h2, _⟩ := uncapped_nest_copy_closed (2 * (a + c) + 2) (by omega)
  rw [h1, h2]
  refine ⟨by omega, ?_⟩
  -- d(d-1)/2 with d = 2k+2 is (k+1)(2k+1)
  have hd : (2 * (a + c) + 2) * (2 * (a + c) + 2 - 1) / 2 = (a + c + 1) * (2 * (a + c) + 1) := by
    have : (2 * (a + c) + 2) * (2 * (a + c) + 2 - 1) = (a + c + 1) * (2 * (a + c) + 1) * 2 := by
      have e1 : 2 * (a + c) + 2 - 1 = 2 * (a + c) + 1 := by omega
      have e2 : 2 * (a + c) + 2 = (a + c + 1) * 2 := by omega
      rw [e1, e2, Nat.mul_right_comm]
    rw [this, Nat.mul_div_cancel _ (by decide : 0 < 2)]
  rw [hd]
  generalize hk : a + c = k at *
  -- a * (34 + 40 (2k+2)) + c ≤ k * (114 + 80 k) + k  <  40 (k+1)(2k+1)
  have hak : a ≤ k := by omega
  have hck : c ≤ k := by omega
  have e3 : a * (34 + 40 * (2 * k + 2)) ≤ k * (34 + 40 * (2 * k + 2)) := Nat.mul_le_mul_right _ hak
  have e4 : k * (34 + 40 * (2 * k + 2)) = 80 * (k * k) + 114 * k := by
    rw [Nat.mul_add, Nat.mul_comm k 34, Nat.mul_left_comm, Nat.mul_add]
    have : k * (2 * k) = 2 * (k * k) := Nat.mul_left_comm _ _ _
    rw [this]; omega
  have e5 : (k + 1) * (2 * k + 1) = 2 * (k * k) + 3 * k + 1 := by
    rw [Nat.add_mul, Nat.mul_add, Nat.mul_add, Nat.one_mul, Nat.mul_one]
    have : k * (2 * k) = 2 * (k * k) := Nat.mul_left_comm _ _ _
    rw [this]; omega
  rw [e5]
  omega

/-! ## armor header / footer accumulation (`read_from_buf`) -/

/-- the back buffer never holds more than `limit + C` bytes (`C` = the longest `fill_buf` result),
whatever the parser answers; every loop step consumes at least one source byte or is the last; the
bytes consumed are bytes that were present -/
theorem armor_backbuffer (P : Bytes → PRes) (limit C : Nat) (src : List Bytes) (hC : ∀ c ∈ src, c.length ≤ C) :
    (readFromBuf P limit src).maxBack ≤ limit + C ∧
    (readFromBuf P limit src).steps ≤ (readFromBuf P limit src).consumed + 1 ∧
    (readFromBuf P limit src).consumed ≤ src.flatten.length :=
  ⟨(readFromBuf_spec P limit C src hC).1, (readFromBuf_spec P limit C src hC).2.1, (readFromBuf_spec P limit C src hC).2.2.1⟩

/-- work bound: at most `(steps+1)·(limit + C)` bytes are handed to the parser -/
theorem armor_work_bound (P : Bytes → PRes) (limit C : Nat) (src : List Bytes) (hC : ∀ c ∈ src, c.length ≤ C) :
    (readFromBuf P limit src).work ≤ ((readFromBuf P limit src).steps + 1) * (limit + C) :=
  (readFromBuf_spec P limit C src hC).2.2.2

/-- … and that bound is attained in order of magnitude: while the parser keeps answering
"incomplete" (e.g. leading text without `-----`), `k+1` refills of `c` bytes make it scan
`c·(k+1)(k+2)/2` bytes — quadratic in the number of refills (not linear in the input) -/
theorem armor_reparse_quadratic (limit c k : Nat) (chunk : Bytes) (hc : chunk.length = c) (hpos : 0 < c)
    (hl : (k + 1) * c ≤ limit) :
    (readFromBuf (fun _ => .incomplete) limit (List.replicate (k + 1) chunk)).work = c * ((k + 2) * (k + 1) / 2) := by
  have hne : chunk ≠ [] := by intro h; rw [h] at hc; simp at hc; omega
  have hk : (k + 1) * c = c + k * c := by rw [Nat.add_mul, Nat.one_mul]; omega
  simp only [List.replicate_succ, readFromBuf, hne, if_false]
  rw [rfbLoop_incomplete_work limit c chunk hc hpos k chunk _ (by omega)]
  simp only [hc]
  have t := tri (k + 1)
  simp only [Nat.add_sub_cancel] at t
  rw [t, Nat.mul_add, Nat.mul_add, Nat.mul_one, Nat.mul_comm k c]
  omega

/-! ## streaming: `buf_bounded`, as invariants `Inv s → Inv (step s)` -/

/-- `fill_buffer_bytes(source, buffer, len)` never leaves more than `max len |buffer before|` -/
theorem fill_buffer_bytes_bounded (len : Nat) (src : List Bytes) (buf : Bytes) :
    (fillBufferBytes len src buf).1.length ≤ max len buf.length :=
  (fillBufferBytes_len len src buf).1

/-- **`buf_bounded` (refill-when-empty readers).** `PacketBodyReader`, `LiteralDataReader`,
`CompressedDataReader`, `SignatureManyReader`: whatever the consumer and the source do, the buffer
holds at most `BUFFER_SIZE` bytes — `Inv s → Inv (step s)` for every operation -/
theorem buf_bounded_refill (B : Nat) (s : Refill) (op : RefillOp) (h : Refill.Inv B s) :
    Refill.Inv B (s.step B op) :=
  Refill.inv_step B s op h

/-- … hence after any sequence of operations from the empty buffer -/
theorem buf_bounded_refill_run (B : Nat) (ops : List RefillOp) (src : List Bytes) :
    Refill.Inv B (ops.foldl (Refill.step B) ⟨[], src⟩) := by
  have : ∀ (ops : List RefillOp) (s : Refill), Refill.Inv B s → Refill.Inv B (ops.foldl (Refill.step B) s) := by
    intro ops
    induction ops with
    | nil => intro s h; exact h
    | cons o os ih => intro s h; exact ih _ (Refill.inv_step B s o h)
  exact this ops _ (by simp [Refill.Inv])

/-- the instrumented SEIPDv2 decryptor computes exactly what `seipd2Dec` (C03/C09) computes -/
theorem seipd2_instrumented_same (A : Aead) (info : Bytes) (cs T k fuel : Nat) (enc : Bytes) (idx written : Nat) (src : Bytes) :
    ((seipd2DecI A info cs T k fuel enc idx written src).1, (seipd2DecI A info cs T k fuel enc idx written src).2.1)
      = seipd2Dec A info cs T k fuel enc idx written src :=
  seipd2DecI_erase A info cs T k fuel enc idx written src

/-- **`buf_bounded` (SEIPDv2).** For every ciphertext (honest or not), chunk size and AEAD, in every
round the decryptor's buffer holds at most `2·(cs + 16)` bytes -/
theorem buf_bounded_seipd2 (A : Aead) (info : Bytes) (cs : Nat) (fuel : Nat) (ct : Bytes) :
    ∀ b ∈ (seipd2DecI A info cs Gen.aeadTagSize Gen.aeadWindowFactor fuel [] 0 0 ct).2.2,
      b.length ≤ 2 * (cs + 16) := by
  intro b hb
  have := seipd2DecI_bufs A info cs Gen.aeadTagSize Gen.aeadWindowFactor fuel [] 0 0 ct (by simp) b hb
  simpa [Gen.aeadTagSize, Gen.aeadWindowFactor] using this

/-- with the largest chunk size the crate accepts that is 2·(4 MiB + 16) -/
theorem buf_bounded_seipd2_max (cs : Nat) (h : cs ≤ Gen.aeadMaxChunkBytes) : Gen.aeadWindow cs ≤ 8388640 := by
  have e : Gen.aeadMaxChunkBytes = 4194304 := by decide
  simp only [Gen.aeadWindow, Gen.aeadWindowFactor, Gen.aeadTagSize]
  omega

theorem seipd1_instrumented_same (sha1 : Bytes → Bytes) (pre : Bytes) (B fuel : Nat) (held hashed src : Bytes) :
    ((seipd1RoundsI sha1 pre B fuel held hashed src).1, (seipd1RoundsI sha1 pre B fuel held hashed src).2.1)
      = seipd1Rounds sha1 pre B fuel held hashed src :=
  seipd1RoundsI_erase sha1 pre B fuel held hashed src

/-- **`buf_bounded` (SEIPDv1 streaming mode).** The buffer holds at most `BUFFER_SIZE` bytes in every
round, for every input -/
theorem buf_bounded_seipd1_streaming (sha1 : Bytes → Bytes) (pre : Bytes) (fuel : Nat) (src : Bytes) :
    ∀ b ∈ (seipd1RoundsI sha1 pre Gen.symDecBufferSize fuel [] [] src).2.2, b.length ≤ Gen.symDecBufferSize :=
  seipd1RoundsI_bufs sha1 pre Gen.symDecBufferSize fuel [] [] src (by simp)

/-- **`checkfirst_capped`.** Default-mode SEIPDv1 buffers the whole message, but never more than
`max_message_size`: anything accepted fits, anything longer is refused -/
theorem checkfirst_capped (sha1 : Bytes → Bytes) (bs max : Nat) (dec : Bytes) :
    (∀ body, seipd1CheckFirst sha1 bs max dec = some body → body.length + Gen.mdcLen ≤ max) ∧
    (max + (bs + 2) < dec.length → seipd1CheckFirst sha1 bs max dec = none) ∧
    (checkFirstBuffered max (dec.drop (bs + 2))).length ≤ max :=
  ⟨fun body h => (seipd1CheckFirst_capped sha1 bs max dec body h).1, seipd1CheckFirst_over sha1 bs max dec,
   by simp only [checkFirstBuffered, List.length_take]; omega⟩

/-- **`buf_bounded` (`NormalizedReader`).** Every block it produces is at most `2·window + 2` bytes,
for every input (the window itself is a fixed array) -/
theorem buf_bounded_normalized (inp : Bytes) :
    ∀ blk ∈ nrBlocks CRLF Gen.normalizedReaderWindow (nrInit Gen.normalizedReaderWindow) inp,
      blk.length ≤ 2 * Gen.normalizedReaderWindow + 2 :=
  nrBlocks_block_le Gen.normalizedReaderWindow (by decide) inp.length inp _ (Nat.le_refl _) (by simp [nrInit])

/-! ## S2K -/

/-- **`s2k_admission`.** An Argon2 parameter set that `derive_key` accepts has `1 ≤ t ≤ 32`,
`1 ≤ p ≤ 32` and a memory size `2^m` KiB of at most 2 GiB (and at least `8·p` KiB) -/
theorem s2k_admission (t p m : Nat) (h : argon2Admit t p m = true) :
    1 ≤ t ∧ t ≤ 32 ∧ 1 ≤ p ∧ p ≤ 32 ∧ m ≤ 21 ∧ 2 ^ m ≤ 2097152 ∧ 8 * p ≤ 2 ^ m := by
  obtain ⟨h1, h2, h3, h4, _, h6, h7⟩ := argon2Admit_sound t p m h
  have e1 : Gen.argon2MaxT = 32 := rfl
  have e2 : Gen.argon2MaxP = 32 := rfl
  have e3 : Gen.argon2MemoryLimitKib = 2097152 := rfl
  rw [e3] at h6
  refine ⟨h1, by omega, h3, by omega, ?_, h6, h7⟩
  -- 2^m ≤ 2^21 → m ≤ 21
  rcases Nat.lt_or_ge 21 m with hlt | hge
  · have : 2 ^ 22 ≤ 2 ^ m := Nat.pow_le_pow_right (by decide) hlt
    have e : (2 : Nat) ^ 22 = 4194304 := by decide
    omega
  · exact hge

/-- everything above the ceiling is refused, for all 2^24 octet triples -/
theorem s2k_over_ceiling_refused (t p m : Nat) (h : 32 < t ∨ 32 < p ∨ 21 < m) : argon2Admit t p m = false := by
  cases hb : argon2Admit t p m with
  | false => rfl
  | true =>
    obtain ⟨_, h2, _, h4, h5, _⟩ := s2k_admission t p m hb
    omega

/-- **`iterated_bound`.** Every count octet decodes to at most 65 011 712; the octets hashed per
round are `max(count, |salt‖pw|)`, so at most `65 011 712 + |salt‖pw|`, fed in at most
`count/|salt‖pw| + 1` updates (the loop terminates because each update consumes `|salt‖pw| > 0`) -/
theorem iterated_bound (c ds : Nat) (hc : c < 256) (hds : 0 < ds) :
    decodeCount c ≤ 65011712 ∧ (iterHashed c ds).1 = max (decodeCount c) ds ∧
    (iterHashed c ds).1 ≤ 65011712 + ds ∧ (iterHashed c ds).2 ≤ max (decodeCount c) ds / ds + 1 := by
  have h1 := decodeCount_le c hc
  obtain ⟨h2, h3⟩ := iterLoop_spec ds hds (max (decodeCount c) ds + 1) (max (decodeCount c) ds) (by omega)
  unfold iterHashed
  simp only
  exact ⟨h1, h2, by rw [h2]; omega, h3⟩

theorem iterated_count_max : decodeCount 255 = 65011712 := decodeCount_max

/-! ## `steps_linear`: every modelled loop step consumes input or is the last -/

/-- `take_bytes`: iterations ≤ bytes taken;  subpackets: 2·iterations ≤ bytes of the area;
`read_from_buf`: iterations ≤ bytes consumed + 1;  iterated S2K: updates ≤ count/|data| + 1 -/
theorem steps_linear (size : Nat) (src : List Bytes) (declared : Nat) (area : Bytes) (n cap : Nat)
    (hs : subpacketsShape declared area = some (n, cap)) (P : Bytes → PRes) (limit : Nat) :
    takeBytesSteps size src ≤ (takeBytesBuf size src).len ∧
    (takeBytesBuf size src).len ≤ src.flatten.length ∧
    2 * n ≤ area.length ∧
    (readFromBuf P limit src).steps ≤ (readFromBuf P limit src).consumed + 1 ∧
    (readFromBuf P limit src).consumed ≤ src.flatten.length := by
  obtain ⟨_, _, h3, h4⟩ := takeBytes_spec size src
  obtain ⟨_, _, h7⟩ := subpacketsShape_spec declared area n cap hs
  have hC := chunk_le_flatten src
  obtain ⟨_, h9, h10, _⟩ := readFromBuf_spec P limit _ src hC
  exact ⟨h4, h3, h7, h9, h10⟩

/-! ## non-vacuity / concrete evaluations -/

example : (takeBytesBuf 4294967295 [[1, 2, 3]]).allocs = [1024] := by decide
example : takeBytesOk 4294967295 [[1, 2, 3]] = false := by decide
example : takeBytesOk 3 [[1], [2, 3, 4]] = true := by decide
example : (takeSeq [2, 4294967295, 5] [[1, 2, 3], [4]]).map (·.cap) = [2, 1024] := by decide
example : subpacketsShape 65535 [2, 101, 0, 2, 102, 0] = some (2, 32) := by decide
example : subpacketsShape 1 [2, 101, 0, 2, 102, 0] = some (2, 4) := by decide
example : sigCopyUncappedOf (nestSig 4 2) = 13 + 32 ∧ sigDepthUncappedOf (nestSig 4 2) = 2 := by decide
example : sigCostOf (nestSig 4 2) = ⟨13 + 32, true, 2⟩ := by rw [nest_capped_v4 2 (by decide)]; decide
example : sigCostOf (nestSig 4 5) = ⟨89 + 70 + 51 + 32, false, 4⟩ := by rw [nest_capped_v4 5 (by decide)]; decide
example : argon2Admit 1 4 21 = true ∧ argon2Admit 33 1 10 = false ∧ argon2Admit 1 4 4 = false ∧ argon2Admit 1 1 22 = false := by decide
example : (readFromBuf (fun _ => .incomplete) 10 [[1, 2, 3, 4], [5, 6, 7, 8], [9, 10, 11, 12], [13]]).res = .tooLarge := by decide
example : (mpiRead 16385 [[1, 2]]).1 = .tooLarge ∧ (mpiRead 16 [[1, 2, 3]]).1 = .ok 2 := by decide


/-! ## cleartext signature framework: the search for the signature block (D19c)

Octets looked at by the `rfind` of `read_cleartext_body`, summed over one run of its loop. -/

/-- repaired loop: at most the text once more plus one octet per line — linear in the input -/
theorem cleartext_search_work_linear (inp : Bytes) :
    searchWorkIncr [] (splitInclusive inp) ≤ 2 * inp.length := by
  have h := searchWorkIncr_le (splitInclusive inp) []
  rw [splitInclusive_flatten] at h
  have := splitInclusive_length_le inp
  omega

/-- the loop before the repair: what had been read before the loop continues is looked at again for
every further line (a product, not a sum) -/
theorem cleartext_search_work_was_a_product (ls : List Bytes) (out : Bytes) :
    out.length * ls.length ≤ searchWorkFull out ls :=
  searchWorkFull_ge ls out

/-- regression witness: 8 lines of 2 octets — 72 octets searched before, 23 after -/
theorem d19c_witness :
    searchWorkFull [] (List.replicate 8 [97, 10]) = 72 ∧
    searchWorkIncr [] (List.replicate 8 [97, 10]) = 23 := by decide

/-! ## many signatures over one message (known finding D19d)

Every One-Pass Signature packet of a message is a hasher that sees the whole data: the work of reading
the message is (number of signature packets) × (data length), which no constant multiple of the input
size bounds. -/

theorem many_signatures_work_is_a_product (n : Nat) (chunks : List Nat) :
    sigHashWork n chunks = n * chunks.sum := sigHashWork_eq n chunks

/-- for every constant `c` there is a message (with `opsLen`-octet OPS packets and `sigLen`-octet
signature packets, e.g. 15 and 19) whose hashing work exceeds `c` times its size -/
theorem many_signatures_work_not_linear (c opsLen sigLen : Nat) :
    ∃ n dataLen, c * opsMessageSize n opsLen sigLen dataLen < sigHashWork n [dataLen] := by
  refine ⟨2 * c + 1, (2 * c + 1) * (opsLen + sigLen) + 1, ?_⟩
  rw [sigHashWork_eq]
  simp only [opsMessageSize, List.sum_cons, List.sum_nil, Nat.add_zero]
  generalize hk : opsLen + sigLen = k
  have e1 : (2 * c + 1) * opsLen + ((2 * c + 1) * k + 1) + (2 * c + 1) * sigLen = 2 * ((2 * c + 1) * k) + 1 := by
    rw [← hk, Nat.mul_add]; omega
  rw [e1]
  generalize (2 * c + 1) * k = m
  rw [Nat.add_mul, Nat.mul_add, Nat.mul_add]
  have : c * (2 * m) = 2 * c * m := by rw [← Nat.mul_assoc, Nat.mul_comm c 2]
  omega

example : sigHashWork 3 [8192, 8192, 100] = 3 * 16484 := by decide

/-! ## ignored packets behind a message are not kept (D19e) -/

theorem d19e_repaired : Gen.fixD19eTrailingPacketsDrained = 1 := by decide

/-- whatever the size of a trailing ignored packet and however it arrives, at most one `drain` buffer
of it is held -/
theorem trailing_packet_not_kept (reads : List Nat) : ∀ h ∈ heldTrailing reads, h ≤ Gen.drainChunk := by
  intro h hh
  unfold heldTrailing at hh
  rw [if_pos d19e_repaired] at hh
  unfold heldDrained at hh
  obtain ⟨c, _, rfl⟩ := List.mem_map.mp hh
  exact Nat.min_le_left _ _

/-- regression witness: collected, a 16 MiB packet read in 8 KiB pieces ends with all of it held -/
theorem d19e_witness : (heldCollected (List.replicate 4 8192)).getLast? = some 32768 ∧
    (heldDrained (List.replicate 4 8192)).getLast? = some 256 := by decide

end Rpgp.C19
