import RpgpModel.Proto
import RpgpModel.Ops.C14
import RpgpModel.Ops.C17
import RpgpModel.Ops.C01
import RpgpModel.Ops.C03
import RpgpModel.Ops.C09
import RpgpModel.Ops.C13
import RpgpModel.Ops.C16
import RpgpModel.Ops.C15
import RpgpModel.Ops.C10
import RpgpModel.Ops.C11
import RpgpModel.Ops.C18
import RpgpModel.Ops.C05
import RpgpModel.Ops.C12
import RpgpModel.Ops.C08
import RpgpModel.Ops.C07
import RpgpModel.Ops.C06
import RpgpModel.Ops.C19
import RpgpModel.Ops.C04
import RpgpModel.Ops.C02
/-!
# Driver — `rpgp_model`: one request line in, one canonical answer line out.

Each property contributes a handler `Rpgp.Ops.Cxx.handle : String → Args → Option String`
(`none` = "not my op"); the first handler that answers wins.
-/
open Rpgp

def handlers : List (String → Args → Option String) :=
  [Ops.C01.handle, Ops.C14.handle, Ops.C17.handle, Ops.C03.handle, Ops.C09.handle, Ops.C13.handle, Ops.C16.handle, Ops.C15.handle, Ops.C10.handle, Ops.C11.handle, Ops.C18.handle, Ops.C05.handle, Ops.C12.handle, Ops.C08.handle, Ops.C07.handle, Ops.C06.handle, Ops.C19.handle, Ops.C04.handle, Ops.C02.handle]

def answer (line : String) : String :=
  match line.trimAscii.toString.splitOn " " with
  | [] => "bad-request"
  | op :: rest =>
    let a := parseArgs rest
    (handlers.findSome? fun h => h op a).getD "bad-request"

partial def loop (hin hout : IO.FS.Stream) : IO Unit := do
  let line ← hin.getLine
  if line.isEmpty then return ()
  hout.putStrLn (answer line)
  loop hin hout

def main : IO Unit := do
  let hin ← IO.getStdin
  let hout ← IO.getStdout
  loop hin hout
  hout.flush
